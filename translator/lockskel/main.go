// lockskel: a small static analyser that extracts the "lock skeleton" of the methods of
// storage.SafeMap and storage.GenericStack and prints it as a Coq term (type [skeleton] of
// TC.Lib.Conc).  It is deliberately fail-closed: everything it does not understand becomes
// [Unknown], which makes [lockset_check] false.
//
// usage: lockskel -repo <dir> -out <file.v>      (-out - prints to stdout)
//
// Only go/ast, go/parser, go/token and go/types are used; imports are satisfied by a fake importer
// that returns empty packages, and type errors are ignored (each target file is analysed alone).
package main

import (
	"bytes"
	"flag"
	"fmt"
	"go/ast"
	"go/parser"
	"go/token"
	"go/types"
	"os"
	"path"
	"path/filepath"
	"strings"
)

// ---------------------------------------------------------------------------------------------
// targets
// ---------------------------------------------------------------------------------------------

type target struct {
	file      string // relative to <repo>
	typeName  string // the Go type whose methods are analysed
	lockCanon string // name of the guard in the GENERATED skeleton (a role name, not the Go field name)
	locCanon  string // name of the guarded location in the generated skeleton
	defName   string // name of the Coq definition
	// filled in by infer(): the Go names, found BY TYPE so that renaming private fields changes nothing
	lockField string // the one field of typeName of type (*)sync.RWMutex
	loc       string // the one slice/map reachable from typeName: "f" or "f.g" (f a pointer to a file-local struct)
}

// The guard is the only sync.RWMutex field of the type; the guarded location is the only slice or map that
// is a field of the type or of a file-local struct one of its fields points to.  The names printed in the skeleton
// are the role names below, whatever the fields are called in the source.
var targets = []target{
	{file: "storage/safeMap.go", typeName: "SafeMap", lockCanon: "mux", locCanon: "m", defName: "safemap_skeleton"},
	{file: "storage/genericStack.go", typeName: "GenericStack", lockCanon: "mux", locCanon: "stack.entries", defName: "gstack_skeleton"},
}

const maxDepth = 8

// container/heap contract: which methods of the heap.Interface value each function may call.
var heapContract = map[string][]string{
	"Push":   {"Len", "Less", "Swap", "Push"},
	"Pop":    {"Len", "Less", "Swap", "Pop"},
	"Init":   {"Len", "Less", "Swap"},
	"Fix":    {"Len", "Less", "Swap"},
	"Remove": {"Len", "Less", "Swap", "Pop"},
}

// Standard-library functions whose effect on a map/slice ARGUMENT is known (package path -> function):
//
//	stdReaders   read the argument, the result does not share its storage
//	stdIterators read the argument LAZILY: the result (an iterator) is treated as an alias of the argument, so it
//	             must be consumed where the lock is still held and must not escape
//	stdConsumers consume an iterator given at the argument position stored in the table
var stdReaders = map[string]map[string]bool{
	"maps":   {"Clone": true, "Equal": true, "EqualFunc": true},
	"slices": {"Clone": true, "Contains": true, "ContainsFunc": true, "Index": true, "IndexFunc": true, "Equal": true, "Max": true, "Min": true},
}
var stdIterators = map[string]map[string]bool{
	"maps":   {"Keys": true, "Values": true, "All": true},
	"slices": {"Values": true, "All": true, "Backward": true},
}
var stdConsumers = map[string]map[string]int{
	"slices": {"AppendSeq": 1, "Collect": 0, "Sorted": 0, "SortedFunc": 0},
	"maps":   {"Collect": 0},
}

var lockOps = map[string]bool{"Lock": true, "Unlock": true, "RLock": true, "RUnlock": true}

// ---------------------------------------------------------------------------------------------
// per-file context
// ---------------------------------------------------------------------------------------------

type fakeImporter struct{ pkgs map[string]*types.Package }

func (f *fakeImporter) Import(p string) (*types.Package, error) {
	if pkg, ok := f.pkgs[p]; ok {
		return pkg, nil
	}
	pkg := types.NewPackage(p, path.Base(p))
	pkg.MarkComplete()
	f.pkgs[p] = pkg
	return pkg, nil
}

type fileCtx struct {
	fset    *token.FileSet
	file    *ast.File
	info    *types.Info
	methods map[string]map[string]*ast.FuncDecl // receiver base type name -> method name -> decl
	structs map[string]*ast.StructType          // file-local struct types
	imports map[string]string                   // local package name -> import path
	funcs   map[string]*ast.FuncDecl            // top-level functions (no receiver) by name
}

func loadFile(filename string) (*fileCtx, error) { return loadFileIn(filename, "") }

// loadFileIn: with a repository root, the packages of the module are really imported (declarations only); see importer.go
func loadFileIn(filename, repo string) (*fileCtx, error) {
	fset := token.NewFileSet()
	f, err := parser.ParseFile(fset, filename, nil, parser.SkipObjectResolution)
	if err != nil {
		return nil, err
	}
	info := &types.Info{
		Types:      map[ast.Expr]types.TypeAndValue{},
		Defs:       map[*ast.Ident]types.Object{},
		Uses:       map[*ast.Ident]types.Object{},
		Selections: map[*ast.SelectorExpr]*types.Selection{},
	}
	var imp types.Importer = &fakeImporter{pkgs: map[string]*types.Package{}}
	if repo != "" {
		imp = newModuleImporter(repo, fset)
	}
	conf := types.Config{
		Importer: imp,
		Error:    func(error) {}, // other files of the package are missing: errors are expected
	}
	_, _ = conf.Check(f.Name.Name, fset, []*ast.File{f}, info)

	fc := &fileCtx{fset: fset, file: f, info: info,
		methods: map[string]map[string]*ast.FuncDecl{},
		structs: map[string]*ast.StructType{},
		imports: map[string]string{}, funcs: map[string]*ast.FuncDecl{}}
	for _, im := range f.Imports {
		p := strings.Trim(im.Path.Value, "\"`")
		name := path.Base(p)
		if im.Name != nil {
			name = im.Name.Name
		}
		fc.imports[name] = p
	}
	for _, d := range f.Decls {
		switch d := d.(type) {
		case *ast.GenDecl:
			for _, sp := range d.Specs {
				if ts, ok := sp.(*ast.TypeSpec); ok {
					if st, ok := ts.Type.(*ast.StructType); ok {
						fc.structs[ts.Name.Name] = st
					}
				}
			}
		case *ast.FuncDecl:
			if d.Recv == nil {
				fc.funcs[d.Name.Name] = d
			}
			if d.Recv != nil && len(d.Recv.List) == 1 {
				base, _ := baseTypeName(d.Recv.List[0].Type)
				if base != "" {
					if fc.methods[base] == nil {
						fc.methods[base] = map[string]*ast.FuncDecl{}
					}
					fc.methods[base][d.Name.Name] = d
				}
			}
		}
	}
	return fc, nil
}

// baseTypeName: T, *T, T[A], *T[A,B] -> ("T", isPointer)
func baseTypeName(e ast.Expr) (string, bool) {
	ptr := false
	for {
		switch x := e.(type) {
		case *ast.ParenExpr:
			e = x.X
		case *ast.StarExpr:
			if ptr {
				return "", false
			}
			ptr = true
			e = x.X
		case *ast.IndexExpr:
			e = x.X
		case *ast.IndexListExpr:
			e = x.X
		case *ast.Ident:
			return x.Name, ptr
		default:
			return "", false
		}
	}
}

func mentionsType(e ast.Expr, name string) bool {
	found := false
	ast.Inspect(e, func(n ast.Node) bool {
		if id, ok := n.(*ast.Ident); ok && id.Name == name {
			found = true
		}
		return !found
	})
	return found
}

func structField(st *ast.StructType, name string) ast.Expr {
	for _, f := range st.Fields.List {
		for _, n := range f.Names {
			if n.Name == name {
				return f.Type
			}
		}
	}
	return nil
}

// syncKind: "RWMutex" / "Mutex" for a field type (*)sync.RWMutex / (*)sync.Mutex, "" otherwise
func (fc *fileCtx) syncKind(ft ast.Expr) string {
	if se, ok := ft.(*ast.StarExpr); ok {
		ft = se.X
	}
	sel, ok := ft.(*ast.SelectorExpr)
	if !ok {
		return ""
	}
	pk, ok := sel.X.(*ast.Ident)
	if !ok || fc.imports[pk.Name] != "sync" || (sel.Sel.Name != "RWMutex" && sel.Sel.Name != "Mutex") {
		return ""
	}
	return sel.Sel.Name
}

func isContainerType(ft ast.Expr) bool {
	switch ft.(type) {
	case *ast.ArrayType, *ast.MapType:
		return true
	}
	return false
}

// infer finds the guard and the guarded location of a deep-mode target by TYPE
func (fc *fileCtx) infer(t *target) error {
	st := fc.structs[t.typeName]
	if st == nil {
		return fmt.Errorf("struct type %s not declared", t.typeName)
	}
	var locks, locs []string
	for _, f := range st.Fields.List {
		for _, n := range f.Names {
			switch {
			case fc.syncKind(f.Type) == "RWMutex":
				locks = append(locks, n.Name)
			case fc.syncKind(f.Type) != "":
				// a plain Mutex: not a guard the deep mode understands
			case isContainerType(f.Type):
				locs = append(locs, n.Name)
			default:
				base, _ := baseTypeName(f.Type)
				if inner := fc.structs[base]; inner != nil && base != t.typeName {
					for _, g := range inner.Fields.List {
						for _, gn := range g.Names {
							if isContainerType(g.Type) {
								locs = append(locs, n.Name+"."+gn.Name)
							}
						}
					}
				}
			}
		}
	}
	if len(locks) != 1 {
		return fmt.Errorf("%s has %d fields of type sync.RWMutex (exactly one guard expected)", t.typeName, len(locks))
	}
	if len(locs) != 1 {
		return fmt.Errorf("%s reaches %d slices/maps %v (exactly one guarded location expected)", t.typeName, len(locs), locs)
	}
	t.lockField, t.loc = locks[0], locs[0]
	return nil
}

// validate checks that the target type, its guard and its guarded path are declared the way the
// target table says.  If not, nothing about the file can be trusted.
func (fc *fileCtx) validate(t target) error {
	st := fc.structs[t.typeName]
	if st == nil {
		return fmt.Errorf("struct type %s not declared", t.typeName)
	}
	lt := structField(st, t.lockField)
	if lt == nil {
		return fmt.Errorf("%s has no field %s", t.typeName, t.lockField)
	}
	if se, ok := lt.(*ast.StarExpr); ok {
		lt = se.X
	}
	sel, ok := lt.(*ast.SelectorExpr)
	if !ok {
		return fmt.Errorf("%s.%s is not a sync.RWMutex", t.typeName, t.lockField)
	}
	pk, ok := sel.X.(*ast.Ident)
	if !ok || fc.imports[pk.Name] != "sync" || sel.Sel.Name != "RWMutex" {
		return fmt.Errorf("%s.%s is not a sync.RWMutex", t.typeName, t.lockField)
	}
	comps := strings.Split(t.loc, ".")
	cur, curName := st, t.typeName
	for i, c := range comps {
		ft := structField(cur, c)
		if ft == nil {
			return fmt.Errorf("%s has no field %s (guarded path %s)", curName, c, t.loc)
		}
		if i == len(comps)-1 {
			break
		}
		base, _ := baseTypeName(ft)
		next := fc.structs[base]
		if next == nil {
			return fmt.Errorf("field %s.%s is not of a struct type declared in the file", curName, c)
		}
		cur, curName = next, base
	}
	return nil
}

// ---------------------------------------------------------------------------------------------
// result representation
// ---------------------------------------------------------------------------------------------

type access struct {
	loc string
	wr  bool
}

type section struct {
	held []string // "Rd" / "Wr" for the guard; empty = nothing held
	accs []access
}

type entry struct {
	name    string
	unknown bool
	reason  string
	secs    []*section
}

// ---------------------------------------------------------------------------------------------
// the analysis
// ---------------------------------------------------------------------------------------------

type failure struct {
	pos token.Pos
	msg string
}

type frame struct {
	fd    *ast.FuncDecl
	bound []types.Object
}

// lock state of the guard
type lockState struct {
	held    bool
	mode    string // "Rd" | "Wr"
	owner   *frame // frame that acquired it
	covered bool   // a deferred Unlock/RUnlock is registered for it
}

type flow int

const (
	flowNext   flow = iota // control continues with the next statement
	flowJump               // break / continue / fallthrough
	flowReturn             // return
)

type val struct {
	tracked bool
	path    string
}

type an struct {
	fc      *fileCtx
	t       target
	env     map[types.Object]string // receiver objects and local aliases -> access path
	st      lockState
	fr      *frame
	depth   int
	active  map[*ast.FuncDecl]bool
	secs    []*section
	cur     *section
	loops   []lockState // state at entry of the enclosing loops (for continue)
	breaks  []lockState // state at entry of the enclosing loops/switches (for break)
	labels  map[string]lockState
	reached map[*ast.FuncDecl]bool // methods whose body was analysed in place (spliced) somewhere
}

func (a *an) fail(pos token.Pos, format string, args ...interface{}) {
	panic(failure{pos, fmt.Sprintf(format, args...)})
}

func isPrefix(p, q string) bool { // p is a (non-strict) component-wise prefix of q
	return p == "" || p == q || strings.HasPrefix(q, p+".")
}

// sensitive paths may only be used in the recognised forms: the receiver, the guard (and below),
// the guarded location, its prefixes and anything below it.
func (a *an) sensitive(p string) bool {
	return p == "" || isPrefix(a.t.lockField, p) || isPrefix(p, a.t.loc) || isPrefix(a.t.loc, p)
}

func join(p, f string) string {
	if p == "" {
		return f
	}
	return p + "." + f
}

func unparen(e ast.Expr) ast.Expr {
	for {
		p, ok := e.(*ast.ParenExpr)
		if !ok {
			return e
		}
		e = p.X
	}
}

func (a *an) objOf(id *ast.Ident) types.Object {
	if o := a.fc.info.Uses[id]; o != nil {
		return o
	}
	return a.fc.info.Defs[id]
}

// pkgOf: is e an identifier denoting an imported package?
func (a *an) pkgOf(e ast.Expr) (string, bool) {
	id, ok := unparen(e).(*ast.Ident)
	if !ok {
		return "", false
	}
	switch o := a.objOf(id).(type) {
	case *types.PkgName:
		return o.Imported().Path(), true
	case nil:
		if p, ok := a.fc.imports[id.Name]; ok {
			return p, true
		}
	}
	return "", false
}

// pathOf resolves an expression to an access path without producing events.
func (a *an) pathOf(e ast.Expr) (string, bool) {
	switch e := unparen(e).(type) {
	case *ast.Ident:
		if o := a.objOf(e); o != nil {
			p, ok := a.env[o]
			return p, ok
		}
	case *ast.SelectorExpr:
		p, ok := a.pathOf(e.X)
		if !ok {
			return "", false
		}
		sel := a.fc.info.Selections[e]
		if sel != nil && sel.Kind() == types.FieldVal && len(sel.Index()) == 1 {
			return join(p, e.Sel.Name), true
		}
	}
	return "", false
}

// --- sections ----------------------------------------------------------------------------------

func (a *an) heldList() []string {
	if a.st.held {
		return []string{a.st.mode}
	}
	return nil
}

func (a *an) access(wr bool) {
	if a.cur == nil {
		a.cur = &section{held: a.heldList()}
		a.secs = append(a.secs, a.cur)
	}
	x := access{a.t.locCanon, wr}
	for _, y := range a.cur.accs {
		if x == y {
			return
		}
	}
	a.cur.accs = append(a.cur.accs, x)
}

func (a *an) acquire(pos token.Pos, mode string) {
	if a.st.held {
		a.fail(pos, "guard acquired while it is already held (RWMutex is not re-entrant)")
	}
	a.st = lockState{held: true, mode: mode, owner: a.fr}
	a.cur = &section{held: a.heldList()} // emitted even if it stays empty
	a.secs = append(a.secs, a.cur)
}

func (a *an) release(pos token.Pos, mode string) {
	if !a.st.held || a.st.mode != mode {
		a.fail(pos, "release of the guard in mode %s while it is not held in that mode", mode)
	}
	if a.st.owner != a.fr {
		a.fail(pos, "release of a guard acquired by a caller")
	}
	if a.st.covered {
		a.fail(pos, "explicit release of a guard that also has a deferred release")
	}
	a.st = lockState{}
	a.cur = nil
}

func (a *an) deferRelease(pos token.Pos, mode string) {
	if !a.st.held || a.st.mode != mode || a.st.owner != a.fr || a.st.covered {
		a.fail(pos, "deferred release does not match a guard acquired in this function")
	}
	a.st.covered = true
}

func (a *an) restore(s lockState) {
	if a.st != s {
		a.cur = nil
		a.st = s
	}
}

func (a *an) requireSame(s lockState, pos token.Pos, what string) {
	if a.st != s {
		a.fail(pos, "%s changes the lock state", what)
	}
}

// a return statement in the current frame: deferred releases fire, anything else leaks
func (a *an) checkReturn(pos token.Pos) {
	if a.st.held && a.st.owner == a.fr && !a.st.covered {
		a.fail(pos, "return while the guard is held by a non-deferred lock")
	}
}

func (a *an) endFrame(pos token.Pos) {
	if a.st.held && a.st.owner == a.fr {
		if !a.st.covered {
			a.fail(pos, "function ends while the guard is held by a non-deferred lock")
		}
		a.st = lockState{}
		a.cur = nil
	}
	for _, o := range a.fr.bound {
		delete(a.env, o)
	}
}

// --- expressions -------------------------------------------------------------------------------

// use: e is evaluated as an ordinary operand; a tracked value must not get here
func (a *an) use(e ast.Expr) {
	if e == nil {
		return
	}
	v := a.expr(e)
	if v.tracked && a.sensitive(v.path) {
		a.fail(e.Pos(), "unrecognised use of tracked path %q", v.path)
	}
}

// guardedOperand: e is an operand of a recognised form (len, range, copy, ...).
func (a *an) guardedOperand(e ast.Expr) bool {
	v := a.expr(e)
	if v.tracked {
		if v.path == a.t.loc {
			return true
		}
		if a.sensitive(v.path) {
			a.fail(e.Pos(), "unrecognised use of tracked path %q", v.path)
		}
	}
	return false
}

func (a *an) expr(e ast.Expr) val {
	switch e := e.(type) {
	case nil:
		return val{}
	case *ast.ParenExpr:
		return a.expr(e.X)
	case *ast.Ident:
		if p, ok := a.pathOf(e); ok {
			return val{true, p}
		}
		return val{}
	case *ast.BasicLit:
		return val{}
	case *ast.SelectorExpr:
		if _, ok := a.pkgOf(e.X); ok {
			return val{}
		}
		if p, ok := a.pathOf(e); ok {
			return val{true, p}
		}
		v := a.expr(e.X)
		if v.tracked && a.sensitive(v.path) {
			a.fail(e.Pos(), "unrecognised selector .%s on tracked path %q", e.Sel.Name, v.path)
		}
		return val{}
	case *ast.IndexExpr:
		g := a.guardedOperand(e.X)
		a.use(e.Index)
		if g {
			a.access(false)
		}
		return val{}
	case *ast.IndexListExpr:
		a.use(e.X)
		for _, i := range e.Indices {
			a.use(i)
		}
		return val{}
	case *ast.SliceExpr:
		g := a.guardedOperand(e.X)
		a.use(e.Low)
		a.use(e.High)
		a.use(e.Max)
		if g {
			a.access(false)
			return val{true, a.t.loc} // shares the backing array: still the guarded location
		}
		return val{}
	case *ast.StarExpr:
		a.use(e.X)
		return val{}
	case *ast.UnaryExpr:
		if e.Op == token.AND && a.rootedSensitive(e.X) {
			a.fail(e.Pos(), "address of (part of) a tracked path is taken")
		}
		a.use(e.X)
		return val{}
	case *ast.BinaryExpr:
		a.use(e.X)
		a.use(e.Y)
		return val{}
	case *ast.TypeAssertExpr:
		a.use(e.X)
		return val{}
	case *ast.CompositeLit:
		for _, el := range e.Elts {
			if kv, ok := el.(*ast.KeyValueExpr); ok {
				if _, isId := kv.Key.(*ast.Ident); !isId {
					a.use(kv.Key)
				} else if p, ok := a.pathOf(kv.Key); ok && a.sensitive(p) {
					a.fail(kv.Key.Pos(), "unrecognised use of tracked path %q", p)
				}
				a.use(kv.Value)
			} else {
				a.use(el)
			}
		}
		return val{}
	case *ast.FuncLit:
		a.closure(e)
		return val{}
	case *ast.CallExpr:
		return a.call(e)
	case *ast.ArrayType, *ast.MapType, *ast.ChanType, *ast.FuncType, *ast.StructType, *ast.InterfaceType, *ast.Ellipsis:
		return val{}
	}
	a.fail(e.Pos(), "unsupported expression %T", e)
	return val{}
}

// rootedSensitive: does the operand of & reach into a tracked path?
func (a *an) rootedSensitive(e ast.Expr) bool {
	for {
		e = unparen(e)
		if p, ok := a.pathOf(e); ok && a.sensitive(p) {
			return true
		}
		switch x := e.(type) {
		case *ast.IndexExpr:
			e = x.X
		case *ast.SliceExpr:
			e = x.X
		case *ast.SelectorExpr:
			e = x.X
		case *ast.StarExpr:
			e = x.X
		default:
			return false
		}
	}
}

// closure: a function literal must not mention any tracked object
func (a *an) closure(fl *ast.FuncLit) {
	ast.Inspect(fl, func(n ast.Node) bool {
		if id, ok := n.(*ast.Ident); ok {
			if o := a.objOf(id); o != nil {
				if _, tracked := a.env[o]; tracked {
					a.fail(id.Pos(), "tracked object %s captured by a function literal", id.Name)
				}
			}
		}
		return true
	})
}

func (a *an) useArgs(args []ast.Expr) {
	for _, x := range args {
		a.use(x)
	}
}

// namedTypeOf: name of the (pointer to) named type of e, if declared in this file
func (a *an) namedTypeOf(e ast.Expr) string {
	t := a.fc.info.TypeOf(e)
	if t == nil {
		return ""
	}
	t = types.Unalias(t)
	if p, ok := t.(*types.Pointer); ok {
		t = types.Unalias(p.Elem())
	}
	if n, ok := t.(*types.Named); ok && n.Obj() != nil {
		if n.Obj().Pkg() != nil && n.Obj().Pkg().Path() != a.fc.file.Name.Name {
			return ""
		}
		return n.Obj().Name()
	}
	return ""
}

func (a *an) callee(recv ast.Expr, method string, pos token.Pos) *ast.FuncDecl {
	tn := a.namedTypeOf(recv)
	if tn == "" {
		a.fail(pos, "cannot determine the type of the receiver of .%s", method)
	}
	fd := a.fc.methods[tn][method]
	if fd == nil {
		a.fail(pos, "method %s.%s is not declared in this file", tn, method)
	}
	return fd
}

func (a *an) call(c *ast.CallExpr) val {
	fun := unparen(c.Fun)
	switch f := fun.(type) {
	case *ast.Ident:
		if _, ok := a.objOf(f).(*types.Builtin); ok {
			return a.builtin(f.Name, c)
		}
		if a.callLocalFunc(f, c) {
			return val{}
		}
	case *ast.IndexExpr: // explicitly instantiated generic function: f[T](...)
		if id, ok := unparen(f.X).(*ast.Ident); ok && a.callLocalFunc(id, c) {
			return val{}
		}
	case *ast.IndexListExpr:
		if id, ok := unparen(f.X).(*ast.Ident); ok && a.callLocalFunc(id, c) {
			return val{}
		}
	case *ast.SelectorExpr:
		if pkg, ok := a.pkgOf(f.X); ok {
			if pkg == "container/heap" {
				if ms, ok := heapContract[f.Sel.Name]; ok && len(c.Args) >= 1 {
					if p, ok := a.pathOf(c.Args[0]); ok && a.sensitive(p) {
						a.useArgs(c.Args[1:])
						for _, m := range ms {
							a.splice(a.callee(c.Args[0], m, c.Pos()), p, c.Pos())
						}
						return val{}
					}
				}
			}
			res := val{}
			for i, arg := range c.Args {
				v := a.expr(arg)
				if !v.tracked || !a.sensitive(v.path) {
					continue
				}
				idx, isCons := stdConsumers[pkg][f.Sel.Name]
				switch {
				case v.path != a.t.loc:
					a.fail(arg.Pos(), "unrecognised use of tracked path %q", v.path)
				case stdReaders[pkg][f.Sel.Name]:
					a.access(false)
				case stdIterators[pkg][f.Sel.Name]:
					a.access(false)
					res = val{true, a.t.loc} // lazy: the iterator still refers to the guarded location
				case isCons && idx == i:
					a.access(false)
				default:
					a.fail(arg.Pos(), "guarded location passed to %s.%s, whose effect on it is not known", pkg, f.Sel.Name)
				}
			}
			return res
		}
		if p, ok := a.pathOf(f.X); ok {
			if p == a.t.lockField {
				if !lockOps[f.Sel.Name] || len(c.Args) != 0 {
					a.fail(c.Pos(), "unrecognised operation .%s on the guard", f.Sel.Name)
				}
				switch f.Sel.Name {
				case "Lock":
					a.acquire(c.Pos(), "Wr")
				case "RLock":
					a.acquire(c.Pos(), "Rd")
				case "Unlock":
					a.release(c.Pos(), "Wr")
				case "RUnlock":
					a.release(c.Pos(), "Rd")
				}
				return val{}
			}
			if a.sensitive(p) {
				sel := a.fc.info.Selections[f]
				if sel == nil || sel.Kind() != types.MethodVal {
					a.fail(c.Pos(), "call of .%s on tracked path %q is not a method call", f.Sel.Name, p)
				}
				fd := a.callee(f.X, f.Sel.Name, c.Pos())
				a.useArgs(c.Args)
				a.splice(fd, p, c.Pos())
				return val{}
			}
			// a field that is neither guard nor guarded (atomic counter, inner mutex, ...): ignored
			a.useArgs(c.Args)
			return val{}
		}
		a.use(f.X)
		a.useArgs(c.Args)
		return val{}
	}
	a.use(fun)
	a.useArgs(c.Args)
	return val{}
}

func (a *an) builtin(name string, c *ast.CallExpr) val {
	args := c.Args
	switch name {
	case "len", "cap":
		if len(args) == 1 {
			if a.guardedOperand(args[0]) {
				a.access(false)
			}
			return val{}
		}
	case "delete":
		if len(args) == 2 {
			g := a.guardedOperand(args[0])
			a.use(args[1])
			if g {
				a.access(true)
			}
			return val{}
		}
	case "clear":
		if len(args) == 1 {
			if a.guardedOperand(args[0]) {
				a.access(true)
			}
			return val{}
		}
	case "append":
		if len(args) >= 1 {
			g := a.guardedOperand(args[0])
			for i, x := range args[1:] {
				if c.Ellipsis.IsValid() && i == len(args)-2 {
					if a.guardedOperand(x) { // append(dst, P...)
						a.access(false)
					}
				} else {
					a.use(x)
				}
			}
			if g {
				a.access(false)
				a.access(true) // append may write into the shared backing array
				return val{true, a.t.loc}
			}
			return val{}
		}
	case "copy":
		if len(args) == 2 {
			gd := a.guardedOperand(args[0])
			gs := a.guardedOperand(args[1])
			if gs {
				a.access(false)
			}
			if gd {
				a.access(true)
			}
			return val{}
		}
	case "make", "new":
		if len(args) >= 1 {
			a.useArgs(args[1:])
			return val{}
		}
	}
	a.useArgs(args)
	return val{}
}

// callLocalFunc: a top-level function of this file is called with the receiver (path "") as one of its arguments, in the
// position of a parameter of type *Target: its body is analysed in place with that parameter bound to the receiver, like
// a method (helpers such as collect(s, pick), or a method delegating to the function form of another one).
func (a *an) callLocalFunc(id *ast.Ident, c *ast.CallExpr) bool {
	fd := a.fc.funcs[id.Name]
	if fd == nil {
		return false
	}
	if _, isFunc := a.objOf(id).(*types.Func); !isFunc {
		return false
	}
	ri := -1
	for i, arg := range c.Args {
		if p, ok := a.pathOf(arg); ok && p == "" {
			if ri >= 0 {
				a.fail(c.Pos(), "the receiver is passed twice to %s", id.Name)
			}
			ri = i
		}
	}
	if ri < 0 {
		return false
	}
	var rid *ast.Ident
	k := 0
	for _, prm := range fd.Type.Params.List {
		names := prm.Names
		if len(names) == 0 {
			names = []*ast.Ident{nil}
		}
		for _, n := range names {
			if k == ri {
				base, ptr := baseTypeName(prm.Type)
				if base != a.t.typeName || !ptr {
					a.fail(c.Pos(), "function %s does not take the receiver as a pointer to %s", id.Name, a.t.typeName)
				}
				rid = n
			} else if mentionsType(prm.Type, a.t.typeName) {
				a.fail(c.Pos(), "function %s takes a second value of the target type", id.Name)
			}
			k++
		}
	}
	for i, arg := range c.Args {
		if i != ri {
			a.use(arg)
		}
	}
	a.spliceBody(fd, rid, "", c.Pos())
	return true
}

// splice analyses the body of a file-local method with its receiver bound to path p.
func (a *an) splice(fd *ast.FuncDecl, p string, pos token.Pos) {
	if a.depth >= maxDepth {
		a.fail(pos, "call depth limit %d exceeded", maxDepth)
	}
	if a.active[fd] {
		a.fail(pos, "recursive call cycle through %s", fd.Name.Name)
	}
	if fd.Body == nil {
		a.fail(pos, "method %s has no body", fd.Name.Name)
	}
	recv := fd.Recv.List[0]
	if _, ptr := baseTypeName(recv.Type); !ptr {
		a.fail(pos, "method %s has a value receiver (copies the struct)", fd.Name.Name)
	}
	for _, prm := range fd.Type.Params.List {
		if mentionsType(prm.Type, a.t.typeName) {
			a.fail(pos, "method %s takes a parameter of the target type", fd.Name.Name)
		}
	}
	var rid *ast.Ident
	if len(recv.Names) == 1 {
		rid = recv.Names[0]
	}
	a.spliceBody(fd, rid, p, pos)
}

// spliceBody: the body of fd in place, rid (receiver or parameter) bound to path p
func (a *an) spliceBody(fd *ast.FuncDecl, rid *ast.Ident, p string, pos token.Pos) {
	if a.depth >= maxDepth {
		a.fail(pos, "call depth limit %d exceeded", maxDepth)
	}
	if a.active[fd] {
		a.fail(pos, "recursive call cycle through %s", fd.Name.Name)
	}
	if fd.Body == nil {
		a.fail(pos, "function %s has no body", fd.Name.Name)
	}
	saveFr, saveLoops, saveBreaks, saveLabels := a.fr, a.loops, a.breaks, a.labels
	a.fr = &frame{fd: fd}
	a.loops, a.breaks, a.labels = nil, nil, map[string]lockState{}
	a.active[fd] = true
	if a.reached != nil {
		a.reached[fd] = true
	}
	a.depth++
	if rid != nil && rid.Name != "_" {
		a.bind(rid, p)
	}
	a.block(fd.Body.List)
	a.endFrame(fd.Body.Rbrace)
	a.depth--
	delete(a.active, fd)
	a.fr, a.loops, a.breaks, a.labels = saveFr, saveLoops, saveBreaks, saveLabels
}

func (a *an) bind(id *ast.Ident, p string) {
	o := a.fc.info.Defs[id]
	if o == nil {
		a.fail(id.Pos(), "cannot resolve %s", id.Name)
	}
	a.env[o] = p
	a.fr.bound = append(a.fr.bound, o)
}

// --- statements --------------------------------------------------------------------------------

func (a *an) block(list []ast.Stmt) flow {
	for _, s := range list {
		if f := a.stmt(s); f != flowNext {
			return f // the rest of the block is unreachable
		}
	}
	return flowNext
}

// branch: a conditionally executed body.  If control can fall out of it, its net effect on the
// lock state must be nil; if it always leaves (return/break/...), the state before it is restored.
func (a *an) branch(pos token.Pos, what string, body func() flow) flow {
	s := a.st
	f := body()
	if f == flowNext {
		a.requireSame(s, pos, what)
	} else {
		a.restore(s)
	}
	return f
}

func joinFlow(f1, f2 flow) flow {
	if f1 == flowNext || f2 == flowNext {
		return flowNext
	}
	if f1 == flowJump || f2 == flowJump {
		return flowJump
	}
	return flowReturn
}

func (a *an) loopBody(pos token.Pos, body *ast.BlockStmt, post ast.Stmt) {
	s := a.st
	a.loops = append(a.loops, s)
	a.breaks = append(a.breaks, s)
	a.branch(pos, "loop body", func() flow { return a.block(body.List) })
	a.loops = a.loops[:len(a.loops)-1]
	a.breaks = a.breaks[:len(a.breaks)-1]
	if post != nil {
		a.stmt(post)
		a.requireSame(s, pos, "loop post statement")
	}
}

func (a *an) clauses(pos token.Pos, body *ast.BlockStmt) flow {
	s := a.st
	a.breaks = append(a.breaks, s)
	hasDefault, all := false, flowReturn
	for _, cl := range body.List {
		cc, ok := cl.(*ast.CaseClause)
		if !ok {
			a.fail(cl.Pos(), "unsupported clause %T", cl)
		}
		if cc.List == nil {
			hasDefault = true
		}
		for _, x := range cc.List {
			if _, isType := a.fc.info.Types[x]; isType && a.fc.info.Types[x].IsType() {
				continue
			}
			a.use(x)
		}
		f := a.branch(cc.Pos(), "switch clause", func() flow { return a.block(cc.Body) })
		if f != flowReturn {
			all = flowNext
		}
	}
	a.breaks = a.breaks[:len(a.breaks)-1]
	if hasDefault {
		return all
	}
	return flowNext
}

func (a *an) stmt(s ast.Stmt) flow {
	switch s := s.(type) {
	case nil, *ast.EmptyStmt:
		return flowNext
	case *ast.ExprStmt:
		a.expr(s.X) // value discarded
		return flowNext
	case *ast.AssignStmt:
		a.assign(s.Lhs, s.Rhs, s.Tok, s.Pos())
		return flowNext
	case *ast.IncDecStmt:
		t := a.lhsPre(s.X)
		if t.write {
			a.access(false)
			a.access(true)
		}
		return flowNext
	case *ast.DeclStmt:
		gd, ok := s.Decl.(*ast.GenDecl)
		if !ok {
			a.fail(s.Pos(), "unsupported declaration")
		}
		if gd.Tok == token.VAR {
			for _, sp := range gd.Specs {
				vs := sp.(*ast.ValueSpec)
				if len(vs.Values) > 0 {
					lhs := make([]ast.Expr, len(vs.Names))
					for i, n := range vs.Names {
						lhs[i] = n
					}
					a.assign(lhs, vs.Values, token.DEFINE, vs.Pos())
				}
			}
		}
		return flowNext
	case *ast.SendStmt:
		a.use(s.Chan)
		a.use(s.Value)
		return flowNext
	case *ast.BlockStmt:
		return a.block(s.List)
	case *ast.LabeledStmt:
		a.labels[s.Label.Name] = a.st
		return a.stmt(s.Stmt)
	case *ast.ReturnStmt:
		a.useArgs(s.Results)
		a.checkReturn(s.Pos())
		return flowReturn
	case *ast.BranchStmt:
		var ref []lockState
		switch s.Tok {
		case token.GOTO:
			a.fail(s.Pos(), "goto")
		case token.CONTINUE:
			ref = a.loops
		default: // break, fallthrough
			ref = a.breaks
		}
		if s.Label != nil {
			ls, ok := a.labels[s.Label.Name]
			if !ok {
				a.fail(s.Pos(), "unknown label %s", s.Label.Name)
			}
			a.requireSame(ls, s.Pos(), "labelled "+s.Tok.String())
		} else {
			if len(ref) == 0 {
				a.fail(s.Pos(), "%s outside of a loop/switch", s.Tok)
			}
			a.requireSame(ref[len(ref)-1], s.Pos(), s.Tok.String())
		}
		return flowJump
	case *ast.IfStmt:
		a.stmt(s.Init)
		a.use(s.Cond)
		f1 := a.branch(s.Body.Pos(), "if branch", func() flow { return a.block(s.Body.List) })
		f2 := flowNext
		if s.Else != nil {
			f2 = a.branch(s.Else.Pos(), "else branch", func() flow { return a.stmt(s.Else) })
		}
		return joinFlow(f1, f2)
	case *ast.ForStmt:
		a.stmt(s.Init)
		a.use(s.Cond)
		a.loopBody(s.Pos(), s.Body, s.Post)
		return flowNext
	case *ast.RangeStmt:
		if a.guardedOperand(s.X) {
			a.access(false)
		}
		if s.Tok == token.ASSIGN {
			for _, x := range []ast.Expr{s.Key, s.Value} {
				if x != nil {
					if t := a.lhsPre(x); t.write {
						a.access(true)
					}
				}
			}
		}
		a.loopBody(s.Pos(), s.Body, nil)
		return flowNext
	case *ast.SwitchStmt:
		a.stmt(s.Init)
		a.use(s.Tag)
		return a.clauses(s.Pos(), s.Body)
	case *ast.TypeSwitchStmt:
		a.stmt(s.Init)
		var x ast.Expr
		switch as := s.Assign.(type) {
		case *ast.ExprStmt:
			x = as.X
		case *ast.AssignStmt:
			if len(as.Rhs) == 1 {
				x = as.Rhs[0]
			}
		}
		ta, ok := unparen(x).(*ast.TypeAssertExpr)
		if !ok {
			a.fail(s.Pos(), "unsupported type switch")
		}
		a.use(ta.X)
		return a.clauses(s.Pos(), s.Body)
	case *ast.DeferStmt:
		a.deferStmt(s)
		return flowNext
	case *ast.GoStmt:
		a.fail(s.Pos(), "go statement")
	case *ast.SelectStmt:
		a.fail(s.Pos(), "select statement")
	}
	a.fail(s.Pos(), "unsupported statement %T", s)
	return flowNext
}

func (a *an) deferStmt(s *ast.DeferStmt) {
	if sel, ok := unparen(s.Call.Fun).(*ast.SelectorExpr); ok && len(s.Call.Args) == 0 {
		if p, ok := a.pathOf(sel.X); ok {
			if p == a.t.lockField {
				switch sel.Sel.Name {
				case "Unlock":
					a.deferRelease(s.Pos(), "Wr")
					return
				case "RUnlock":
					a.deferRelease(s.Pos(), "Rd")
					return
				}
			} else if !a.sensitive(p) && lockOps[sel.Sel.Name] {
				return // a mutex other than the guard (e.g. the helper's inner mutex): ignored
			}
		}
	}
	a.fail(s.Pos(), "defer of something other than the guard's Unlock/RUnlock")
}

// what an assignment target means
type lhsT struct {
	write bool         // a write of the guarded location
	whole bool         // ... the target is the guarded path itself (P = ...), not an element
	alias bool         // the target is an existing local alias of the guarded location
	obj   types.Object // the target is a plain local variable (may become an alias)
	id    *ast.Ident
}

// lhsPre evaluates the operands of an assignment target (index expressions etc.).
func (a *an) lhsPre(l ast.Expr) lhsT {
	l = unparen(l)
	switch l := l.(type) {
	case *ast.Ident:
		if l.Name == "_" {
			return lhsT{}
		}
		o := a.objOf(l)
		if o == nil {
			return lhsT{}
		}
		if p, ok := a.env[o]; ok {
			if p == a.t.loc {
				return lhsT{alias: true}
			}
			a.fail(l.Pos(), "assignment to tracked variable %s", l.Name)
		}
		if v, ok := o.(*types.Var); ok && !v.IsField() && a.fr.fd.Pos() <= v.Pos() && v.Pos() < a.fr.fd.End() {
			return lhsT{obj: o, id: l}
		}
		return lhsT{}
	case *ast.IndexExpr:
		g := a.guardedOperand(l.X)
		a.use(l.Index)
		return lhsT{write: g}
	case *ast.SelectorExpr:
		if p, ok := a.pathOf(l); ok {
			if p == a.t.loc {
				return lhsT{write: true, whole: true}
			}
			if a.sensitive(p) {
				a.fail(l.Pos(), "assignment to tracked path %q", p)
			}
			return lhsT{}
		}
		// P[i].f = v : writes into the element stored in the guarded container
		base := unparen(l.X)
		for {
			se, ok := base.(*ast.SelectorExpr)
			if !ok {
				break
			}
			if _, isPath := a.pathOf(se); isPath {
				break
			}
			base = unparen(se.X)
		}
		if ie, ok := base.(*ast.IndexExpr); ok {
			if p, ok := a.pathOf(ie.X); ok && p == a.t.loc {
				a.use(ie.Index)
				a.access(false)
				return lhsT{write: true}
			}
		}
		a.use(l.X)
		return lhsT{}
	case *ast.StarExpr:
		a.use(l.X)
		return lhsT{}
	}
	a.fail(l.Pos(), "unsupported assignment target %T", l)
	return lhsT{}
}

// bindAlias: local variable o now denotes the guarded location
func (a *an) bindAlias(t lhsT) {
	// the variable must not be reachable in any other way
	ast.Inspect(a.fr.fd.Body, func(n ast.Node) bool {
		switch n := n.(type) {
		case *ast.FuncLit:
			ast.Inspect(n, func(m ast.Node) bool {
				if id, ok := m.(*ast.Ident); ok && a.objOf(id) == t.obj {
					a.fail(id.Pos(), "alias %s of the guarded location is captured by a function literal", id.Name)
				}
				return true
			})
			return false
		case *ast.UnaryExpr:
			if id, ok := unparen(n.X).(*ast.Ident); ok && n.Op == token.AND && a.objOf(id) == t.obj {
				a.fail(id.Pos(), "address of alias %s of the guarded location is taken", id.Name)
			}
		}
		return true
	})
	a.env[t.obj] = a.t.loc
	a.fr.bound = append(a.fr.bound, t.obj)
}

func (a *an) assign(lhs, rhs []ast.Expr, tok token.Token, pos token.Pos) {
	if tok != token.ASSIGN && tok != token.DEFINE { // op=
		if len(lhs) != 1 || len(rhs) != 1 {
			a.fail(pos, "malformed assignment")
		}
		t := a.lhsPre(lhs[0])
		if t.write {
			a.access(false)
		}
		a.use(rhs[0])
		if t.write {
			a.access(true)
		}
		return
	}
	ts := make([]lhsT, len(lhs))
	for i, l := range lhs {
		ts[i] = a.lhsPre(l)
	}
	bind := make([]bool, len(lhs))
	if len(lhs) == len(rhs) {
		for i, r := range rhs {
			v := a.expr(r)
			if v.tracked && a.sensitive(v.path) {
				t := ts[i]
				if v.path != a.t.loc || !(t.whole || t.alias || t.obj != nil) {
					a.fail(r.Pos(), "tracked path %q is stored somewhere", v.path)
				}
				a.access(false)
				bind[i] = t.obj != nil
			}
		}
	} else {
		a.useArgs(rhs)
	}
	for i, t := range ts {
		if t.write {
			a.access(true)
		}
		if bind[i] {
			a.bindAlias(t)
		}
	}
}

// ---------------------------------------------------------------------------------------------
// driver
// ---------------------------------------------------------------------------------------------

func analyseEntry(fc *fileCtx, t target, fd *ast.FuncDecl, recv *ast.Ident, reached map[*ast.FuncDecl]bool) (e entry) {
	e.name = fd.Name.Name
	defer func() {
		if r := recover(); r != nil {
			f, ok := r.(failure)
			if !ok {
				panic(r)
			}
			e.unknown, e.secs = true, nil
			e.reason = fmt.Sprintf("%s: %s", fc.fset.Position(f.pos), f.msg)
		}
	}()
	a := &an{fc: fc, t: t, env: map[types.Object]string{}, active: map[*ast.FuncDecl]bool{fd: true},
		labels: map[string]lockState{}, reached: reached}
	a.fr = &frame{fd: fd}
	if fd.Body == nil {
		a.fail(fd.Pos(), "no body")
	}
	if recv != nil && recv.Name != "_" {
		a.bind(recv, "")
	}
	a.block(fd.Body.List)
	a.endFrame(fd.Body.Rbrace)
	for _, s := range a.secs {
		if len(s.accs) > 0 || len(s.held) > 0 {
			e.secs = append(e.secs, s)
		}
	}
	return e
}

// cand: a function of the file that operates on the target type (method, or function taking it first)
type cand struct {
	fd   *ast.FuncDecl
	recv *ast.Ident
	bad  string // reason why it cannot be analysed at all
}

// discover lists the methods of typeName and the functions that take it, and separately the other top-level
// functions of the file (constructors: what they start with `go` outlives them)
func discover(fc *fileCtx, typeName string) (cands []cand, others []*ast.FuncDecl) {
	for _, d := range fc.file.Decls {
		fd, ok := d.(*ast.FuncDecl)
		if !ok {
			continue
		}
		var recv *ast.Ident
		bad := ""
		params := fd.Type.Params.List
		if fd.Recv != nil && len(fd.Recv.List) == 1 {
			base, ptr := baseTypeName(fd.Recv.List[0].Type)
			if base == typeName {
				if !ptr {
					bad = "value receiver (copies the struct)"
				}
				if len(fd.Recv.List[0].Names) == 1 {
					recv = fd.Recv.List[0].Names[0]
				}
			} else {
				// method of another type: only relevant if it is handed a value of the target type
				mentions := false
				for _, p := range params {
					mentions = mentions || mentionsType(p.Type, typeName)
				}
				if !mentions {
					continue
				}
				bad = "method of another type that takes the target type as a parameter"
			}
		} else {
			first, mentions := false, false
			for i, p := range params {
				if mentionsType(p.Type, typeName) {
					mentions = true
					base, ptr := baseTypeName(p.Type)
					if i == 0 && len(p.Names) == 1 && base == typeName && ptr {
						first = true
						recv = p.Names[0]
					}
				}
			}
			if !mentions {
				others = append(others, fd) // constructors and unrelated functions
				continue
			}
			if !first {
				bad = "takes the target type, but not as a single pointer in first position"
			} else {
				params = params[1:]
			}
		}
		if bad == "" {
			for _, p := range params {
				if mentionsType(p.Type, typeName) {
					bad = "takes a second value of the target type"
				}
			}
		}
		cands = append(cands, cand{fd, recv, bad})
	}
	return
}

// startsGoroutineOn: does the function start a goroutine that mentions a value of the target type?
func startsGoroutineOn(fc *fileCtx, fd *ast.FuncDecl, typeName string) bool {
	found := false
	if fd.Body == nil {
		return false
	}
	ast.Inspect(fd.Body, func(n ast.Node) bool {
		if g, ok := n.(*ast.GoStmt); ok {
			ast.Inspect(g, func(m ast.Node) bool {
				if id, ok := m.(*ast.Ident); ok && isTargetValue(fc, id, typeName) {
					found = true
				}
				return !found
			})
		}
		return !found
	})
	return found
}

// isTargetValue: the identifier is a variable of type (pointer to) typeName
func isTargetValue(fc *fileCtx, id *ast.Ident, typeName string) bool {
	o := fc.info.Uses[id]
	if o == nil {
		o = fc.info.Defs[id]
	}
	v, ok := o.(*types.Var)
	if !ok || v.IsField() {
		return false
	}
	t := types.Unalias(v.Type())
	if p, ok := t.(*types.Pointer); ok {
		t = types.Unalias(p.Elem())
	}
	n, ok := t.(*types.Named)
	return ok && n.Obj() != nil && n.Obj().Name() == typeName
}

// The skeleton has one entry per EXPORTED method/function (public names are API and stable); unexported methods
// are analysed in place where they are called, so extracting or renaming a private helper does not change the
// skeleton.  An unexported method that no analysed entry reaches still gets an entry of its own (it may be called
// from another file of the package).
func analyseTarget(fc *fileCtx, t target) []entry {
	verr := fc.infer(&t)
	if verr == nil {
		verr = fc.validate(t)
	}
	cands, others := discover(fc, t.typeName)
	reached := map[*ast.FuncDecl]bool{}
	var out []entry
	pass := func(exported bool) {
		for _, c := range cands {
			if ast.IsExported(c.fd.Name.Name) != exported || (!exported && reached[c.fd]) {
				continue
			}
			switch {
			case verr != nil:
				out = append(out, entry{name: c.fd.Name.Name, unknown: true, reason: verr.Error()})
			case c.bad != "":
				out = append(out, entry{name: c.fd.Name.Name, unknown: true,
					reason: fmt.Sprintf("%s: %s", fc.fset.Position(c.fd.Pos()), c.bad)})
			default:
				out = append(out, analyseEntry(fc, t, c.fd, c.recv, reached))
			}
		}
	}
	pass(true)
	pass(false)
	for _, fd := range others { // the deep mode does not analyse goroutines started by constructors
		if startsGoroutineOn(fc, fd, t.typeName) {
			out = append(out, entry{name: fd.Name.Name + ".go1", unknown: true,
				reason: fmt.Sprintf("%s: goroutine started on a %s outside its methods", fc.fset.Position(fd.Pos()), t.typeName)})
		}
	}
	if verr != nil && len(out) == 0 {
		// nothing to hang the Unknown on: make the skeleton fail anyway
		out = append(out, entry{name: "<" + t.typeName + ">", unknown: true, reason: verr.Error()})
	}
	return out
}

func render(w *bytes.Buffer, t target, es []entry) {
	if len(es) == 0 {
		fmt.Fprintf(w, "Definition %s : skeleton := [].\n", t.defName)
		return
	}
	fmt.Fprintf(w, "Definition %s : skeleton := [\n", t.defName)
	for i, e := range es {
		var secs []string
		if e.unknown {
			secs = []string{"Unknown"}
		}
		for _, s := range e.secs {
			var hs, as []string
			for _, m := range s.held {
				hs = append(hs, fmt.Sprintf("(%q, %s)", t.lockCanon, m))
			}
			for _, x := range s.accs {
				as = append(as, fmt.Sprintf("{| loc := %q; wr := %v |}", x.loc, x.wr))
			}
			secs = append(secs, fmt.Sprintf("Sec [%s] [%s]", strings.Join(hs, "; "), strings.Join(as, "; ")))
		}
		sep := ";"
		if i == len(es)-1 {
			sep = ""
		}
		fmt.Fprintf(w, "  (%q, [%s])%s\n", e.name, strings.Join(secs, "; "), sep)
	}
	fmt.Fprintf(w, "].\n")
}

// generate returns the Coq text and the per-type summaries.
func generate(repo string) ([]byte, []string, []string, error) {
	var buf bytes.Buffer
	var files []string
	for _, t := range targets {
		files = append(files, t.file)
	}
	fmt.Fprintf(&buf, "(* GENERATED by translator/lockskel from %s. Do not edit. *)\n", strings.Join(files, " and "))
	buf.WriteString("From Coq Require Import List String.\nFrom TC.Lib Require Import Conc.\nImport ListNotations.\nLocal Open Scope string_scope.\n")
	var summary, reasons []string
	for _, t := range targets {
		fc, err := loadFile(filepath.Join(repo, filepath.FromSlash(t.file)))
		if err != nil {
			return nil, nil, nil, err
		}
		es := analyseTarget(fc, t)
		unk := 0
		for _, e := range es {
			if e.unknown {
				unk++
				reasons = append(reasons, fmt.Sprintf("%s.%s: Unknown: %s", t.typeName, e.name, e.reason))
			}
		}
		summary = append(summary, fmt.Sprintf("%s: %d methods, %d Unknown -> %s", t.typeName, len(es), unk, t.defName))
		buf.WriteString("\n")
		render(&buf, t, es)
	}
	return buf.Bytes(), summary, reasons, nil
}

func main() {
	repo := flag.String("repo", "", "repository root (contains storage/safeMap.go and storage/genericStack.go)")
	out := flag.String("out", "", "Coq file to write for SafeMap/GenericStack ('-' = stdout)")
	outdir := flag.String("outdir", "", "directory for the field-mode files (CacheSkeleton_gen.v, WQSkeleton_gen.v); '-' = stdout")
	only := flag.String("only", "", "with -outdir: generate only this file (e.g. PubSkeleton_gen.v)")
	flag.Parse()
	if *repo == "" || (*out == "" && *outdir == "") || flag.NArg() != 0 {
		fmt.Fprintln(os.Stderr, "usage: lockskel -repo <dir> [-out <file.v>] [-outdir <dir>]")
		os.Exit(2)
	}
	if *outdir != "" {
		for _, g := range fgroups {
			if *only != "" && g.outFile != *only {
				continue
			}
			text, summary, reasons, err := generateGroup(*repo, g)
			if err != nil {
				fmt.Fprintln(os.Stderr, "lockskel:", err)
				os.Exit(1)
			}
			for _, r := range reasons {
				fmt.Fprintln(os.Stderr, "lockskel:", r)
			}
			if *outdir == "-" {
				os.Stdout.Write(text)
				continue
			}
			writeIfChanged(filepath.Join(*outdir, g.outFile), text, summary)
		}
	}
	if *out == "" {
		return
	}
	text, summary, reasons, err := generate(*repo)
	if err != nil {
		fmt.Fprintln(os.Stderr, "lockskel:", err)
		os.Exit(1)
	}
	for _, r := range reasons {
		fmt.Fprintln(os.Stderr, "lockskel:", r)
	}
	if *out == "-" {
		os.Stdout.Write(text)
		for _, s := range summary {
			fmt.Fprintln(os.Stderr, s)
		}
		return
	}
	writeIfChanged(*out, text, summary)
}

// writeIfChanged keeps the file (and its mtime) when the content is the same, so that make does not rebuild
func writeIfChanged(out string, text []byte, summary []string) {
	state := "unchanged"
	if old, err := os.ReadFile(out); err != nil || !bytes.Equal(old, text) {
		if err := os.MkdirAll(filepath.Dir(out), 0o755); err != nil {
			fmt.Fprintln(os.Stderr, "lockskel:", err)
			os.Exit(1)
		}
		if err := os.WriteFile(out, text, 0o644); err != nil {
			fmt.Fprintln(os.Stderr, "lockskel:", err)
			os.Exit(1)
		}
		state = "written"
	}
	for _, s := range summary {
		fmt.Println(s)
	}
	fmt.Printf("%s: %s\n", out, state)
}
