// Field-level lock skeletons (second analysis mode of lockskel).
//
// The first mode (main.go) follows ONE guarded location of a type with ONE RWMutex deep into helper
// objects (SafeMap.m, GenericStack.stack.entries).  This mode looks at SEVERAL fields of a struct guarded by
// SEVERAL mutexes and records, per method, under which locks each field of the receiver is read or written:
//
//	location  = a field of the receiver (the field cell; for slice/map fields also their content)
//	read      = the field is mentioned in an rvalue: recv.F, recv.F.M(...), recv.F[i], len(recv.F), range recv.F ...
//	            A method call THROUGH a pointer field is a read of the field only: the callee synchronises itself
//	            (for the cache: GenericStack and SafeMap, which are C11's and C07's subject).
//	write     = recv.F = e, recv.F op= e, recv.F++, recv.F[i] = e, append to / copy into / delete from recv.F
//	locks     = recv.L.Lock/Unlock/RLock/RUnlock and `defer recv.L.(R)Unlock()` on the listed sync.Mutex / sync.RWMutex
//	            fields; a sync.Mutex is a lock that only has the write mode
//	go f()    = `go recv.M(...)` starts another instance of an analysed method (nothing happens in the caller);
//	            `go func(){...}()` becomes a pseudo-method "<Func>.func<i>" (Go's own numbering) with no lock held
//	defer     = deferred unlocks fire at every return; a deferred closure is analysed at the end of the function with
//	            NO lock held (dropping locks is conservative)
//
// Fail closed: the receiver, a lock or a slice/map field used in any other way (stored, passed on, returned,
// address taken, captured by a closure that is not started by go/defer, sliced, ...) makes the method [Unknown].
package main

import (
	"bytes"
	"fmt"
	"regexp"
	"go/ast"
	"go/token"
	"go/types"
	"path/filepath"
	"strings"
)

// lockSpec / fieldSpec: how a lock or tracked field is FOUND in the struct declaration — by its TYPE, so that renaming
// a private field changes nothing.  [canon] is the role name printed in the generated skeleton.  When several fields
// have a matching type, the one called [canon] is taken if there is one, else the nth (declaration order).
type lockSpec struct {
	canon string
	kind  string // "RWMutex" | "Mutex"  (held by value or by pointer)
	nth   int
}

type fieldSpec struct {
	canon string
	typ   string // regular expression on the printed field type (types.ExprString), or "@localstruct": a pointer to a
	//               struct declared in the file that no other spec of the target matches
	nth    int
	object []string // non-nil: pointer to an object WITHOUT own synchronisation (exploration only); its read-only methods
}

type ftarget struct {
	file     string
	typeName string
	lockSpecs  []lockSpec
	fieldSpecs []fieldSpec
	defName  string
	comment  string
	// filled in by resolve(): Go field name -> role name
	locks   map[string]string
	fields  map[string]string
	objects map[string][]string
}

type fgroup struct {
	outFile string
	targets []ftarget
}

var fgroups = []fgroup{
	{"CacheSkeleton_gen.v", []ftarget{{
		file: "storage/fifoMapCache.go", typeName: "FifoMapCache",
		lockSpecs: []lockSpec{{"currentPartitionMux", "RWMutex", 0}, {"sweepingMux", "Mutex", 0}},
		fieldSpecs: []fieldSpec{
			{canon: "partitions", typ: `^\*GenericStack\[`},
			{canon: "valuePartitionIndex", typ: `^\*SafeMap\[`},
			{canon: "currentPartitionId", typ: `^uint64$`},
			{canon: "partitionCapacity", typ: `^int$`, nth: 0},
			{canon: "maxPartitions", typ: `^int$`, nth: 1},
			{canon: "config", typ: "@localstruct"},
		},
		defName: "cache_skeleton",
		comment: "FifoMapCache: fields partitions, valuePartitionIndex, currentPartitionId, maxPartitions, partitionCapacity, config;\n   locks currentPartitionMux (RWMutex), sweepingMux (Mutex) — role names; the Go fields are found by type.\n   Calls into GenericStack / SafeMap are reads of the field.  One entry per exported method; private helpers are inlined.",
	}}},
	{"WQSkeleton_gen.v", []ftarget{{
		file: "workqueue/queue.go", typeName: "Queue",
		lockSpecs:  []lockSpec{{"errSubScriberMux", "Mutex", 0}},
		fieldSpecs: []fieldSpec{{canon: "errorSubscribers", typ: `^\[\]chan error$`}},
		defName:    "wq_err_skeleton",
		comment:    "Queue: the slice of error-subscriber channels ([]chan error, role name errorSubscribers) under the Queue's\n   sync.Mutex (role name errSubScriberMux) — property C14.",
	}, {
		file: "workqueue/queue.go", typeName: "Queue",
		lockSpecs: []lockSpec{{"errSubScriberMux", "Mutex", 0}},
		fieldSpecs: []fieldSpec{{canon: "breaked", typ: `^bool$`}, {canon: "workQueue", typ: `^\*workHeap$`, object: []string{"Len"}}},
		defName:   "wq_shared_skeleton",
		comment:   "EXPLORATION ONLY (no property depends on it): the plain bool of Queue (Break's flag) and the heap object behind\n   the *workHeap field, which has no synchronisation of its own (every method call except Len counts as a write).",
	}}},
}

type fieldKind int

const (
	kCell      fieldKind = iota // pointer / scalar / func / chan / interface: copying the value is just a read
	kContainer                  // slice or map: the content is part of the location, aliases are not allowed
	kObject                     // pointer to an unsynchronised object: calls through it are accesses of the object
)

type fheld struct {
	name, mode string
	owner      *fframe
	covered    bool // a deferred release is registered
}

type fsection struct {
	held [][2]string
	accs []access
}

type fentry struct {
	name    string
	unknown bool
	reason  string
	secs    []*fsection
}

type fframe struct {
	deferred []*ast.FuncLit
	bound    []types.Object
}

type vkind int

const (
	vNone vkind = iota
	vRecv
	vLock
	vField
	vMethod
	vAppend
)

type fval struct {
	k    vkind
	name string
}

// spawn: a goroutine started by an analysed entry: a closure (lit) or an unexported method/function (fd); it becomes a
// skeleton entry "<entry>.go<k>" of its own, analysed with no lock held
type spawn struct {
	name  string
	lit   *ast.FuncLit
	fd    *ast.FuncDecl
	recv  []types.Object // objects denoting the receiver inside a closure
	depth int
}

// shared by all entries of one target
type spawnSet struct {
	list    []spawn
	reached map[*ast.FuncDecl]bool // unexported methods/functions analysed in place or as a goroutine somewhere
	funcs   map[string]*ast.FuncDecl // top-level functions of the file (no receiver) by name
}

type fan struct {
	fc     *fileCtx
	t      ftarget
	lockRW map[string]bool
	kinds  map[string]fieldKind
	ro     map[string]map[string]bool
	recv   map[types.Object]bool
	st     []fheld
	fr     *fframe
	depth  int
	active map[*ast.FuncDecl]bool
	secs   []*fsection
	cur    *fsection
	loops  [][]fheld
	breaks [][]fheld
	labels map[string][]fheld
	nlock  int // number of lock events so far
	sp     *spawnSet
	name   string             // name of the entry being analysed
	nspawn int                // goroutines started by it so far
	sites  map[ast.Node]bool  // go statements already turned into a spawn (a site inside a loop counts once)
	sdepth int                // nesting of goroutines
}

func (a *fan) fail(pos token.Pos, format string, args ...interface{}) {
	panic(failure{pos, fmt.Sprintf(format, args...)})
}

// ---------------------------------------------------------------------------------------------
// validation of the target table against the declarations
// ---------------------------------------------------------------------------------------------

type namedField struct {
	name string
	typ  ast.Expr
}

func structFields(st *ast.StructType) []namedField {
	var r []namedField
	for _, f := range st.Fields.List {
		for _, n := range f.Names {
			r = append(r, namedField{n.Name, f.Type})
		}
	}
	return r
}

// pick: the field among the candidates that a spec denotes
func pick(cands []string, canon string, nth int) (string, bool) {
	if len(cands) == 1 {
		return cands[0], true
	}
	for _, c := range cands {
		if c == canon {
			return c, true
		}
	}
	if nth < len(cands) && len(cands) > 0 {
		return cands[nth], true
	}
	return "", false
}

// resolve finds the locks and tracked fields of the target by type and fills t.locks / t.fields / t.objects.
// Returns lock name -> is RWMutex, field name -> kind.
func (fc *fileCtx) resolve(t *ftarget) (map[string]bool, map[string]fieldKind, error) {
	st := fc.structs[t.typeName]
	if st == nil {
		return nil, nil, fmt.Errorf("struct type %s not declared", t.typeName)
	}
	fs := structFields(st)
	t.locks, t.fields, t.objects = map[string]string{}, map[string]string{}, map[string][]string{}
	lockRW := map[string]bool{}
	for _, ls := range t.lockSpecs {
		var cands []string
		for _, f := range fs {
			if fc.syncKind(f.typ) == ls.kind {
				cands = append(cands, f.name)
			}
		}
		name, ok := pick(cands, ls.canon, ls.nth)
		if !ok {
			return nil, nil, fmt.Errorf("%s has no field of type sync.%s for the lock %s", t.typeName, ls.kind, ls.canon)
		}
		if _, dup := t.locks[name]; dup {
			return nil, nil, fmt.Errorf("%s.%s is matched by two lock specifications", t.typeName, name)
		}
		t.locks[name] = ls.canon
		lockRW[name] = ls.kind == "RWMutex"
	}
	kinds := map[string]fieldKind{}
	matched := map[string]bool{}
	var res []*regexp.Regexp
	for _, sp := range t.fieldSpecs {
		if sp.typ != "@localstruct" {
			res = append(res, regexp.MustCompile(sp.typ))
		}
	}
	for _, sp := range t.fieldSpecs {
		var cands []string
		for _, f := range fs {
			if fc.syncKind(f.typ) != "" {
				continue
			}
			ts := types.ExprString(f.typ)
			if sp.typ == "@localstruct" {
				base, ptr := baseTypeName(f.typ)
				other := false
				for _, re := range res {
					other = other || re.MatchString(ts)
				}
				if ptr && fc.structs[base] != nil && base != t.typeName && !other {
					cands = append(cands, f.name)
				}
			} else if regexp.MustCompile(sp.typ).MatchString(ts) {
				cands = append(cands, f.name)
			}
		}
		name, ok := pick(cands, sp.canon, sp.nth)
		if !ok {
			return nil, nil, fmt.Errorf("%s has no field of type %s for %s", t.typeName, sp.typ, sp.canon)
		}
		if matched[name] {
			return nil, nil, fmt.Errorf("%s.%s is matched by two field specifications", t.typeName, name)
		}
		matched[name] = true
		t.fields[name] = sp.canon
		ft := structField(st, name)
		if sp.object != nil {
			if _, ptr := ft.(*ast.StarExpr); !ptr {
				return nil, nil, fmt.Errorf("%s.%s is declared an object but is not a pointer", t.typeName, name)
			}
			kinds[name] = kObject
			t.objects[name] = sp.object
			continue
		}
		switch x := ft.(type) {
		case *ast.StarExpr, *ast.FuncType, *ast.ChanType, *ast.InterfaceType:
			kinds[name] = kCell
		case *ast.ArrayType, *ast.MapType:
			kinds[name] = kContainer
		case *ast.Ident:
			switch x.Name {
			case "bool", "string", "int", "int8", "int16", "int32", "int64", "uint", "uint8", "uint16", "uint32", "uint64",
				"uintptr", "float32", "float64", "byte", "rune", "error":
				kinds[name] = kCell
			default:
				return nil, nil, fmt.Errorf("%s.%s has a named type (%s) whose kind is not known", t.typeName, name, x.Name)
			}
		default:
			return nil, nil, fmt.Errorf("%s.%s has an unsupported type %T", t.typeName, name, ft)
		}
	}
	return lockRW, kinds, nil
}

// ---------------------------------------------------------------------------------------------
// lock state and sections
// ---------------------------------------------------------------------------------------------

func copyState(s []fheld) []fheld { return append([]fheld(nil), s...) }

func sameState(x, y []fheld) bool {
	if len(x) != len(y) {
		return false
	}
	for i := range x {
		if x[i] != y[i] {
			return false
		}
	}
	return true
}

func (a *fan) heldList() [][2]string {
	var r [][2]string
	for _, h := range a.st {
		r = append(r, [2]string{a.t.locks[h.name], h.mode})
	}
	return r
}

func (a *fan) access(loc string, wr bool) {
	if a.cur == nil {
		a.cur = &fsection{held: a.heldList()}
		a.secs = append(a.secs, a.cur)
	}
	x := access{a.t.fields[loc], wr} // role name, not the Go field name
	for _, y := range a.cur.accs {
		if x == y {
			return
		}
	}
	a.cur.accs = append(a.cur.accs, x)
}

func (a *fan) find(name string) int {
	for i, h := range a.st {
		if h.name == name {
			return i
		}
	}
	return -1
}

func (a *fan) acquire(pos token.Pos, name, mode string) {
	a.nlock++
	if a.find(name) >= 0 {
		a.fail(pos, "lock %s acquired while it is already held (not re-entrant)", name)
	}
	if mode == "Rd" && !a.lockRW[name] {
		a.fail(pos, "RLock on %s, which is a sync.Mutex", name)
	}
	a.st = append(copyState(a.st), fheld{name: name, mode: mode, owner: a.fr})
	a.cur = &fsection{held: a.heldList()} // emitted even if it stays empty
	a.secs = append(a.secs, a.cur)
}

func (a *fan) release(pos token.Pos, name, mode string) {
	a.nlock++
	i := a.find(name)
	if i < 0 || a.st[i].mode != mode {
		a.fail(pos, "release of %s in mode %s while it is not held in that mode", name, mode)
	}
	if a.st[i].owner != a.fr {
		a.fail(pos, "release of lock %s acquired by a caller", name)
	}
	if a.st[i].covered {
		a.fail(pos, "explicit release of lock %s that also has a deferred release", name)
	}
	n := copyState(a.st)
	a.st = append(n[:i], n[i+1:]...)
	a.cur = nil
}

func (a *fan) deferRelease(pos token.Pos, name, mode string) {
	a.nlock++
	i := a.find(name)
	if i < 0 || a.st[i].mode != mode || a.st[i].owner != a.fr || a.st[i].covered {
		a.fail(pos, "deferred release of %s does not match a lock acquired in this function", name)
	}
	a.st = copyState(a.st)
	a.st[i].covered = true
}

func (a *fan) restore(s []fheld) {
	if !sameState(a.st, s) {
		a.cur = nil
		a.st = copyState(s)
	}
}

func (a *fan) requireSame(s []fheld, pos token.Pos, what string) {
	if !sameState(a.st, s) {
		a.fail(pos, "%s changes the lock state", what)
	}
}

func (a *fan) checkReturn(pos token.Pos) {
	for _, h := range a.st {
		if h.owner == a.fr && !h.covered {
			a.fail(pos, "return while lock %s is held by a non-deferred lock", h.name)
		}
	}
}

// endFrame: deferred unlocks fire; deferred closures run (analysed with no lock held: conservative)
func (a *fan) endFrame(pos token.Pos) {
	var keep []fheld
	for _, h := range a.st {
		if h.owner == a.fr {
			if !h.covered {
				a.fail(pos, "function ends while lock %s is held by a non-deferred lock", h.name)
			}
			continue
		}
		keep = append(keep, h)
	}
	if len(keep) != len(a.st) {
		a.st = keep
		a.cur = nil
	}
	fr := a.fr
	for i := len(fr.deferred) - 1; i >= 0; i-- {
		lit := fr.deferred[i]
		saved, savedLoops, savedBreaks, savedLabels := a.st, a.loops, a.breaks, a.labels
		a.st, a.cur = nil, nil
		a.loops, a.breaks, a.labels = nil, nil, map[string][]fheld{}
		a.fr = &fframe{}
		a.block(lit.Body.List)
		a.endFrame(lit.Body.Rbrace)
		if len(a.st) != 0 {
			a.fail(lit.Pos(), "deferred closure leaves a lock held")
		}
		a.fr = fr
		a.st, a.cur = saved, nil
		a.loops, a.breaks, a.labels = savedLoops, savedBreaks, savedLabels
	}
	for _, o := range fr.bound {
		delete(a.recv, o)
	}
}

// ---------------------------------------------------------------------------------------------
// expressions
// ---------------------------------------------------------------------------------------------

func (a *fan) objOf(id *ast.Ident) types.Object {
	if o := a.fc.info.Uses[id]; o != nil {
		return o
	}
	return a.fc.info.Defs[id]
}

func (a *fan) pkgOf(e ast.Expr) (string, bool) {
	id, ok := unparen(e).(*ast.Ident)
	if !ok {
		return "", false
	}
	switch o := a.objOf(id).(type) {
	case *types.PkgName:
		return o.Imported().Path(), true
	case nil:
		if p, ok := a.fc.imports[id.Name]; ok {
			return p, true
		}
	}
	return "", false
}

func (a *fan) classify(name string) fval {
	if _, ok := a.lockRW[name]; ok {
		return fval{vLock, name}
	}
	if _, ok := a.kinds[name]; ok {
		return fval{vField, name}
	}
	return fval{}
}

// resolve: what an expression denotes, WITHOUT producing events
func (a *fan) resolve(e ast.Expr) fval {
	switch e := unparen(e).(type) {
	case *ast.Ident:
		if o := a.objOf(e); o != nil && a.recv[o] {
			return fval{vRecv, ""}
		}
	case *ast.SelectorExpr:
		if a.resolve(e.X).k == vRecv {
			sel := a.fc.info.Selections[e]
			if sel == nil {
				a.fail(e.Pos(), "cannot resolve selector .%s on the receiver", e.Sel.Name)
			}
			if sel.Kind() == types.FieldVal && len(sel.Index()) == 1 {
				return a.classify(e.Sel.Name)
			}
			if sel.Kind() == types.MethodVal {
				return fval{vMethod, e.Sel.Name}
			}
			a.fail(e.Pos(), "unsupported selection .%s on the receiver", e.Sel.Name)
		}
	}
	return fval{}
}

func (a *fan) fieldRead(name string, pos token.Pos) {
	if a.kinds[name] == kContainer {
		a.fail(pos, "slice/map field %s used in an unrecognised form (would alias its content)", name)
	}
	a.access(name, false)
}

func (a *fan) useVal(v fval, pos token.Pos) {
	switch v.k {
	case vRecv:
		a.fail(pos, "the receiver escapes (stored, passed on or returned)")
	case vLock:
		a.fail(pos, "unrecognised use of lock %s", v.name)
	case vMethod:
		a.fail(pos, "method value %s of the receiver escapes", v.name)
	case vAppend:
		a.fail(pos, "result of append(%s, ...) is not assigned back to the field", v.name)
	case vField:
		a.fieldRead(v.name, pos)
	}
}

func (a *fan) use(e ast.Expr) {
	if e == nil {
		return
	}
	a.useVal(a.expr(e), e.Pos())
}

func (a *fan) useArgs(args []ast.Expr) {
	for _, x := range args {
		a.use(x)
	}
}

// rooted: does the operand of & reach into the receiver?
func (a *fan) rooted(e ast.Expr) bool {
	for {
		e = unparen(e)
		if a.resolve(e).k != vNone {
			return true
		}
		switch x := e.(type) {
		case *ast.IndexExpr:
			e = x.X
		case *ast.SliceExpr:
			e = x.X
		case *ast.SelectorExpr:
			e = x.X
		case *ast.StarExpr:
			e = x.X
		default:
			return false
		}
	}
}

func (a *fan) closureNoRecv(fl *ast.FuncLit) {
	ast.Inspect(fl, func(n ast.Node) bool {
		if id, ok := n.(*ast.Ident); ok {
			if o := a.objOf(id); o != nil && a.recv[o] {
				a.fail(id.Pos(), "the receiver is captured by a function literal that is not started by go/defer")
			}
		}
		return true
	})
}

func (a *fan) expr(e ast.Expr) fval {
	switch e := e.(type) {
	case nil:
		return fval{}
	case *ast.ParenExpr:
		return a.expr(e.X)
	case *ast.Ident:
		return a.resolve(e)
	case *ast.BasicLit:
		return fval{}
	case *ast.SelectorExpr:
		if _, ok := a.pkgOf(e.X); ok {
			return fval{}
		}
		if v := a.resolve(e); v.k != vNone {
			return v
		}
		if a.resolve(e.X).k == vRecv {
			return fval{} // a field of the receiver that is neither lock nor tracked: ignored
		}
		xv := a.expr(e.X)
		switch xv.k {
		case vField: // recv.F.x : reads F
			a.fieldRead(xv.name, e.Pos())
		default:
			a.useVal(xv, e.Pos())
		}
		return fval{}
	case *ast.IndexExpr:
		xv := a.expr(e.X)
		if xv.k == vField {
			a.access(xv.name, false)
		} else {
			a.useVal(xv, e.Pos())
		}
		a.use(e.Index)
		return fval{}
	case *ast.IndexListExpr:
		a.use(e.X)
		for _, i := range e.Indices {
			a.use(i)
		}
		return fval{}
	case *ast.SliceExpr:
		a.use(e.X) // a container field fails here: a sub-slice aliases the content
		a.use(e.Low)
		a.use(e.High)
		a.use(e.Max)
		return fval{}
	case *ast.StarExpr:
		a.use(e.X)
		return fval{}
	case *ast.UnaryExpr:
		if e.Op == token.AND && a.rooted(e.X) {
			a.fail(e.Pos(), "address of (part of) the receiver is taken")
		}
		a.use(e.X)
		return fval{}
	case *ast.BinaryExpr:
		a.use(e.X)
		a.use(e.Y)
		return fval{}
	case *ast.TypeAssertExpr:
		a.use(e.X)
		return fval{}
	case *ast.KeyValueExpr:
		a.use(e.Value)
		return fval{}
	case *ast.CompositeLit:
		for _, el := range e.Elts {
			if kv, ok := el.(*ast.KeyValueExpr); ok {
				if _, isId := kv.Key.(*ast.Ident); !isId {
					a.use(kv.Key)
				}
				a.use(kv.Value)
			} else {
				a.use(el)
			}
		}
		return fval{}
	case *ast.FuncLit:
		a.closureNoRecv(e)
		return fval{}
	case *ast.CallExpr:
		return a.call(e)
	case *ast.ArrayType, *ast.MapType, *ast.ChanType, *ast.FuncType, *ast.StructType, *ast.InterfaceType, *ast.Ellipsis:
		return fval{}
	}
	a.fail(e.Pos(), "unsupported expression %T", e)
	return fval{}
}

func (a *fan) lockOp(pos token.Pos, name, op string, nargs int) {
	if nargs != 0 {
		a.fail(pos, "unrecognised operation .%s on lock %s", op, name)
	}
	switch op {
	case "Lock":
		a.acquire(pos, name, "Wr")
	case "RLock":
		a.acquire(pos, name, "Rd")
	case "Unlock":
		a.release(pos, name, "Wr")
	case "RUnlock":
		a.release(pos, name, "Rd")
	default:
		a.fail(pos, "unrecognised operation .%s on lock %s", op, name)
	}
}

func (a *fan) call(c *ast.CallExpr) fval {
	fun := unparen(c.Fun)
	switch f := fun.(type) {
	case *ast.Ident:
		if _, ok := a.objOf(f).(*types.Builtin); ok {
			return a.builtin(f.Name, c)
		}
		if fd := a.sp.funcs[f.Name]; fd != nil {
			if _, isFunc := a.objOf(f).(*types.Func); isFunc {
				// a function of this file that is handed the receiver: analysed in place, like a private method
				ri := -1
				for i, arg := range c.Args {
					if a.resolve(arg).k == vRecv {
						if ri >= 0 {
							a.fail(c.Pos(), "the receiver is passed twice to %s", f.Name)
						}
						ri = i
					}
				}
				if ri >= 0 {
					for i, arg := range c.Args {
						if i != ri {
							a.use(arg)
						}
					}
					a.spliceFunc(fd, ri, c.Pos())
					return fval{}
				}
			}
		}
		if o := a.objOf(f); o == nil {
			switch f.Name { // type checking of the single file may not resolve everything
			case "len", "cap", "append", "copy", "delete", "clear", "make", "new":
				return a.builtin(f.Name, c)
			}
		}
	case *ast.SelectorExpr:
		if pkg, ok := a.pkgOf(f.X); ok {
			if pkg == "container/heap" && len(c.Args) >= 1 {
				if v := a.resolve(c.Args[0]); v.k == vField && a.kinds[v.name] == kObject {
					a.access(v.name, false)
					a.access(v.name, true)
					a.useArgs(c.Args[1:])
					return fval{}
				}
			}
			for _, arg := range c.Args {
				if fld, ok := a.containerArg(arg); ok && stdReaders[pkg][f.Sel.Name] {
					a.access(fld, false) // slices.Clone(recv.F), maps.Clone(recv.F), ...: reads, the result is fresh
				} else {
					a.use(arg)
				}
			}
			return fval{}
		}
		switch xv := a.resolve(f.X); xv.k {
		case vRecv:
			sel := a.fc.info.Selections[f]
			if sel == nil {
				a.fail(c.Pos(), "cannot resolve .%s on the receiver", f.Sel.Name)
			}
			if sel.Kind() == types.FieldVal { // a func-typed field is called
				a.useVal(a.classify(f.Sel.Name), c.Pos())
				a.useArgs(c.Args)
				return fval{}
			}
			fd := a.fc.methods[a.t.typeName][f.Sel.Name]
			if fd == nil {
				a.fail(c.Pos(), "method %s.%s is not declared in this file", a.t.typeName, f.Sel.Name)
			}
			a.useArgs(c.Args)
			a.splice(fd, c.Pos())
			return fval{}
		case vLock:
			a.lockOp(c.Pos(), xv.name, f.Sel.Name, len(c.Args))
			return fval{}
		case vField: // recv.F.M(args): the callee synchronises itself (cell) / is an unsynchronised object
			switch a.kinds[xv.name] {
			case kCell:
				a.access(xv.name, false)
			case kObject:
				a.access(xv.name, false)
				if !a.ro[xv.name][f.Sel.Name] {
					a.access(xv.name, true)
				}
			default:
				a.fail(c.Pos(), "method call on slice/map field %s", xv.name)
			}
			a.useArgs(c.Args)
			return fval{}
		case vMethod, vAppend:
			a.useVal(xv, c.Pos())
		}
		a.use(f.X)
		a.useArgs(c.Args)
		return fval{}
	case *ast.FuncLit:
		a.closureNoRecv(f)
		a.useArgs(c.Args)
		return fval{}
	}
	a.use(fun)
	a.useArgs(c.Args)
	return fval{}
}

func (a *fan) containerArg(e ast.Expr) (string, bool) {
	if v := a.resolve(e); v.k == vField && a.kinds[v.name] == kContainer {
		return v.name, true
	}
	return "", false
}

func (a *fan) builtin(name string, c *ast.CallExpr) fval {
	args := c.Args
	switch name {
	case "len", "cap":
		if len(args) == 1 {
			if f, ok := a.containerArg(args[0]); ok {
				a.access(f, false)
				return fval{}
			}
		}
	case "delete", "clear":
		if len(args) >= 1 {
			if f, ok := a.containerArg(args[0]); ok {
				a.useArgs(args[1:])
				a.access(f, true)
				return fval{}
			}
		}
	case "append":
		if len(args) >= 1 {
			f0, ok0 := a.containerArg(args[0])
			if !ok0 {
				a.use(args[0])
			}
			for i, x := range args[1:] {
				if f, ok := a.containerArg(x); ok && c.Ellipsis.IsValid() && i == len(args)-2 {
					a.access(f, false) // append(dst, recv.F...)
				} else {
					a.use(x)
				}
			}
			if ok0 {
				a.access(f0, false)
				a.access(f0, true) // may write into the shared backing array
				return fval{vAppend, f0}
			}
			return fval{}
		}
	case "copy":
		if len(args) == 2 {
			fd, okd := a.containerArg(args[0])
			fs, oks := a.containerArg(args[1])
			if !okd {
				a.use(args[0])
			}
			if !oks {
				a.use(args[1])
			}
			if oks {
				a.access(fs, false)
			}
			if okd {
				a.access(fd, true)
			}
			return fval{}
		}
	case "make", "new":
		if len(args) >= 1 {
			a.useArgs(args[1:])
			return fval{}
		}
	}
	a.useArgs(args)
	return fval{}
}

// splice: a method of the same receiver is called; its body is analysed in place
func (a *fan) splice(fd *ast.FuncDecl, pos token.Pos) {
	if a.depth >= maxDepth {
		a.fail(pos, "call depth limit %d exceeded", maxDepth)
	}
	if a.active[fd] {
		a.fail(pos, "recursive call cycle through %s", fd.Name.Name)
	}
	if fd.Body == nil {
		a.fail(pos, "method %s has no body", fd.Name.Name)
	}
	recv := fd.Recv.List[0]
	if _, ptr := baseTypeName(recv.Type); !ptr {
		a.fail(pos, "method %s has a value receiver (copies the struct)", fd.Name.Name)
	}
	for _, prm := range fd.Type.Params.List {
		if mentionsType(prm.Type, a.t.typeName) {
			a.fail(pos, "method %s takes a parameter of the target type", fd.Name.Name)
		}
	}
	var rid *ast.Ident
	if len(recv.Names) == 1 && recv.Names[0].Name != "_" {
		rid = recv.Names[0]
	}
	a.inline(fd, rid)
}

// inline analyses the body of fd in place, with rid (if any) denoting the receiver
func (a *fan) inline(fd *ast.FuncDecl, rid *ast.Ident) {
	saveFr, saveLoops, saveBreaks, saveLabels := a.fr, a.loops, a.breaks, a.labels
	a.fr = &fframe{}
	a.loops, a.breaks, a.labels = nil, nil, map[string][]fheld{}
	a.active[fd] = true
	a.sp.reached[fd] = true
	a.depth++
	if rid != nil {
		a.bindRecv(rid)
	}
	a.block(fd.Body.List)
	a.endFrame(fd.Body.Rbrace)
	a.depth--
	delete(a.active, fd)
	a.fr, a.loops, a.breaks, a.labels = saveFr, saveLoops, saveBreaks, saveLabels
}

// spliceFunc: a top-level function of the file is called with the receiver as its ri-th argument
func (a *fan) spliceFunc(fd *ast.FuncDecl, ri int, pos token.Pos) {
	if a.depth >= maxDepth {
		a.fail(pos, "call depth limit %d exceeded", maxDepth)
	}
	if a.active[fd] {
		a.fail(pos, "recursive call cycle through %s", fd.Name.Name)
	}
	if fd.Body == nil {
		a.fail(pos, "function %s has no body", fd.Name.Name)
	}
	var rid *ast.Ident
	k := 0
	for _, prm := range fd.Type.Params.List {
		names := prm.Names
		if len(names) == 0 {
			names = []*ast.Ident{nil}
		}
		for _, n := range names {
			if k == ri {
				base, ptr := baseTypeName(prm.Type)
				if base != a.t.typeName || !ptr {
					a.fail(pos, "function %s does not take the receiver as a pointer to %s", fd.Name.Name, a.t.typeName)
				}
				rid = n
			} else if mentionsType(prm.Type, a.t.typeName) {
				a.fail(pos, "function %s takes a second value of the target type", fd.Name.Name)
			}
			k++
		}
	}
	if rid != nil && rid.Name == "_" {
		rid = nil
	}
	a.inline(fd, rid)
}

func (a *fan) bindRecv(id *ast.Ident) {
	o := a.fc.info.Defs[id]
	if o == nil {
		a.fail(id.Pos(), "cannot resolve %s", id.Name)
	}
	a.recv[o] = true
	a.fr.bound = append(a.fr.bound, o)
}

// ---------------------------------------------------------------------------------------------
// statements
// ---------------------------------------------------------------------------------------------

func (a *fan) block(list []ast.Stmt) flow {
	for _, s := range list {
		if f := a.stmt(s); f != flowNext {
			return f
		}
	}
	return flowNext
}

func (a *fan) branch(pos token.Pos, what string, body func() flow) flow {
	s := copyState(a.st)
	f := body()
	if f == flowNext {
		a.requireSame(s, pos, what)
	} else {
		a.restore(s)
	}
	return f
}

func (a *fan) loopBody(pos token.Pos, body *ast.BlockStmt, post ast.Stmt) {
	s := copyState(a.st)
	a.loops = append(a.loops, s)
	a.breaks = append(a.breaks, s)
	a.branch(pos, "loop body", func() flow { return a.block(body.List) })
	a.loops = a.loops[:len(a.loops)-1]
	a.breaks = a.breaks[:len(a.breaks)-1]
	if post != nil {
		a.stmt(post)
		a.requireSame(s, pos, "loop post statement")
	}
}

func (a *fan) clauses(pos token.Pos, body *ast.BlockStmt) flow {
	s := copyState(a.st)
	a.breaks = append(a.breaks, s)
	hasDefault, all, n := false, flowReturn, 0
	isSelect := false
	for _, cl := range body.List {
		var cbody []ast.Stmt
		switch cc := cl.(type) {
		case *ast.CaseClause:
			if cc.List == nil {
				hasDefault = true
			}
			for _, x := range cc.List {
				if tv, ok := a.fc.info.Types[x]; ok && tv.IsType() {
					continue
				}
				a.use(x)
			}
			cbody = cc.Body
		case *ast.CommClause:
			isSelect = true
			if cc.Comm == nil {
				hasDefault = true
			} else {
				a.stmt(cc.Comm)
				a.requireSame(s, cc.Pos(), "communication of a select clause")
			}
			cbody = cc.Body
		default:
			a.fail(cl.Pos(), "unsupported clause %T", cl)
		}
		n++
		f := a.branch(cl.Pos(), "switch/select clause", func() flow { return a.block(cbody) })
		if f != flowReturn {
			all = flowNext
		}
	}
	a.breaks = a.breaks[:len(a.breaks)-1]
	if n > 0 && (hasDefault || isSelect) {
		return all // exactly one clause runs
	}
	return flowNext
}

// what an assignment target is: the field it writes ("" = none)
func (a *fan) lhsPre(l ast.Expr) string {
	l = unparen(l)
	switch l := l.(type) {
	case *ast.Ident:
		if l.Name == "_" {
			return ""
		}
		if o := a.objOf(l); o != nil && a.recv[o] {
			a.fail(l.Pos(), "assignment to the receiver variable")
		}
		return ""
	case *ast.SelectorExpr:
		switch v := a.resolve(l); v.k {
		case vField:
			return v.name
		case vLock:
			a.fail(l.Pos(), "assignment to lock %s", v.name)
		case vMethod:
			a.fail(l.Pos(), "assignment to a method")
		}
		if a.resolve(l.X).k == vRecv {
			return "" // an untracked field of the receiver
		}
		// recv.F.x = v : writes into what F points to
		if v := a.resolve(l.X); v.k == vField {
			switch a.kinds[v.name] {
			case kCell:
				a.access(v.name, false)
			case kObject:
				a.access(v.name, false)
				return v.name
			default:
				a.fail(l.Pos(), "selector on slice/map field %s", v.name)
			}
			return ""
		}
		a.use(l.X)
		return ""
	case *ast.IndexExpr:
		if v := a.resolve(l.X); v.k == vField {
			a.use(l.Index)
			a.access(v.name, false)
			if a.kinds[v.name] == kCell {
				return "" // element of what a pointer field points to: not the field
			}
			return v.name
		}
		a.use(l.X)
		a.use(l.Index)
		return ""
	case *ast.StarExpr:
		a.use(l.X)
		return ""
	}
	a.fail(l.Pos(), "unsupported assignment target %T", l)
	return ""
}

func (a *fan) assign(lhs, rhs []ast.Expr, tok token.Token, pos token.Pos) {
	if tok != token.ASSIGN && tok != token.DEFINE { // op=
		if len(lhs) != 1 || len(rhs) != 1 {
			a.fail(pos, "malformed assignment")
		}
		f := a.lhsPre(lhs[0])
		if f != "" {
			a.access(f, false)
		}
		a.use(rhs[0])
		if f != "" {
			a.access(f, true)
		}
		return
	}
	ts := make([]string, len(lhs))
	for i, l := range lhs {
		ts[i] = a.lhsPre(l)
	}
	if len(lhs) == len(rhs) {
		for i, r := range rhs {
			v := a.expr(r)
			if v.k == vAppend {
				if ts[i] != v.name {
					a.fail(r.Pos(), "result of append(%s, ...) is not assigned back to the field", v.name)
				}
				continue
			}
			a.useVal(v, r.Pos())
		}
	} else {
		a.useArgs(rhs)
	}
	for _, f := range ts {
		if f != "" {
			a.access(f, true)
		}
	}
}

func (a *fan) stmt(s ast.Stmt) flow {
	switch s := s.(type) {
	case nil, *ast.EmptyStmt:
		return flowNext
	case *ast.ExprStmt:
		a.use(s.X)
		return flowNext
	case *ast.AssignStmt:
		a.assign(s.Lhs, s.Rhs, s.Tok, s.Pos())
		return flowNext
	case *ast.IncDecStmt:
		if f := a.lhsPre(s.X); f != "" {
			a.access(f, false)
			a.access(f, true)
		}
		return flowNext
	case *ast.DeclStmt:
		gd, ok := s.Decl.(*ast.GenDecl)
		if !ok {
			a.fail(s.Pos(), "unsupported declaration")
		}
		if gd.Tok == token.VAR {
			for _, sp := range gd.Specs {
				a.useArgs(sp.(*ast.ValueSpec).Values)
			}
		}
		return flowNext
	case *ast.SendStmt:
		a.use(s.Chan)
		a.use(s.Value)
		return flowNext
	case *ast.BlockStmt:
		return a.block(s.List)
	case *ast.LabeledStmt:
		a.labels[s.Label.Name] = copyState(a.st)
		return a.stmt(s.Stmt)
	case *ast.ReturnStmt:
		a.useArgs(s.Results)
		a.checkReturn(s.Pos())
		return flowReturn
	case *ast.BranchStmt:
		var ref [][]fheld
		switch s.Tok {
		case token.GOTO:
			a.fail(s.Pos(), "goto")
		case token.CONTINUE:
			ref = a.loops
		default:
			ref = a.breaks
		}
		if s.Label != nil {
			ls, ok := a.labels[s.Label.Name]
			if !ok {
				a.fail(s.Pos(), "unknown label %s", s.Label.Name)
			}
			a.requireSame(ls, s.Pos(), "labelled "+s.Tok.String())
		} else {
			if len(ref) == 0 {
				a.fail(s.Pos(), "%s outside of a loop/switch", s.Tok)
			}
			a.requireSame(ref[len(ref)-1], s.Pos(), s.Tok.String())
		}
		return flowJump
	case *ast.IfStmt:
		a.stmt(s.Init)
		a.use(s.Cond)
		f1 := a.branch(s.Body.Pos(), "if branch", func() flow { return a.block(s.Body.List) })
		f2 := flowNext
		if s.Else != nil {
			f2 = a.branch(s.Else.Pos(), "else branch", func() flow { return a.stmt(s.Else) })
		}
		return joinFlow(f1, f2)
	case *ast.ForStmt:
		a.stmt(s.Init)
		a.use(s.Cond)
		a.loopBody(s.Pos(), s.Body, s.Post)
		return flowNext
	case *ast.RangeStmt:
		n0, overContainer := a.nlock, false
		if f, ok := a.containerArg(s.X); ok {
			a.access(f, false)
			overContainer = true
		} else {
			a.use(s.X)
		}
		if s.Tok == token.ASSIGN {
			for _, x := range []ast.Expr{s.Key, s.Value} {
				if x != nil {
					if f := a.lhsPre(x); f != "" {
						a.access(f, true)
					}
				}
			}
		}
		a.loopBody(s.Pos(), s.Body, nil)
		if overContainer && a.nlock != n0 {
			a.fail(s.Pos(), "lock operations inside a range over a tracked slice/map (its elements are read during the whole loop)")
		}
		return flowNext
	case *ast.SwitchStmt:
		a.stmt(s.Init)
		a.use(s.Tag)
		return a.clauses(s.Pos(), s.Body)
	case *ast.TypeSwitchStmt:
		a.stmt(s.Init)
		var x ast.Expr
		switch as := s.Assign.(type) {
		case *ast.ExprStmt:
			x = as.X
		case *ast.AssignStmt:
			if len(as.Rhs) == 1 {
				x = as.Rhs[0]
			}
		}
		ta, ok := unparen(x).(*ast.TypeAssertExpr)
		if !ok {
			a.fail(s.Pos(), "unsupported type switch")
		}
		a.use(ta.X)
		return a.clauses(s.Pos(), s.Body)
	case *ast.SelectStmt:
		return a.clauses(s.Pos(), s.Body)
	case *ast.DeferStmt:
		a.deferStmt(s)
		return flowNext
	case *ast.GoStmt:
		a.goStmt(s)
		return flowNext
	}
	a.fail(s.Pos(), "unsupported statement %T", s)
	return flowNext
}

func (a *fan) deferStmt(s *ast.DeferStmt) {
	fun := unparen(s.Call.Fun)
	if lit, ok := fun.(*ast.FuncLit); ok {
		a.useArgs(s.Call.Args)
		a.fr.deferred = append(a.fr.deferred, lit)
		return
	}
	if sel, ok := fun.(*ast.SelectorExpr); ok {
		switch v := a.resolve(sel.X); v.k {
		case vLock:
			if len(s.Call.Args) == 0 && sel.Sel.Name == "Unlock" {
				a.deferRelease(s.Pos(), v.name, "Wr")
				return
			}
			if len(s.Call.Args) == 0 && sel.Sel.Name == "RUnlock" {
				a.deferRelease(s.Pos(), v.name, "Rd")
				return
			}
			a.fail(s.Pos(), "defer of .%s on lock %s", sel.Sel.Name, v.name)
		case vRecv:
			if sl := a.fc.info.Selections[sel]; sl == nil || sl.Kind() != types.FieldVal {
				a.fail(s.Pos(), "defer of a method of the receiver")
			}
		}
	}
	// any other deferred call: function value and arguments are evaluated now; the callee is not tracked
	a.useVal(a.call(s.Call), s.Pos())
}

const maxSpawnDepth = 4

// newSpawn registers the goroutine started at this go statement as an entry "<entry>.go<k>" of its own
func (a *fan) newSpawn(site ast.Node, sp spawn) {
	if a.sites[site] {
		return // the same go statement again (loop, or the helper containing it inlined twice in this entry)
	}
	a.sites[site] = true
	a.nspawn++
	sp.name = fmt.Sprintf("%s.go%d", a.name, a.nspawn)
	sp.depth = a.sdepth + 1
	a.sp.list = append(a.sp.list, sp)
}

func (a *fan) goStmt(s *ast.GoStmt) {
	fun := unparen(s.Call.Fun)
	if lit, ok := fun.(*ast.FuncLit); ok {
		a.useArgs(s.Call.Args)
		var rs []types.Object
		for o := range a.recv {
			rs = append(rs, o)
		}
		a.newSpawn(s, spawn{lit: lit, recv: rs})
		return
	}
	if sel, ok := fun.(*ast.SelectorExpr); ok && a.resolve(sel.X).k == vRecv {
		sl := a.fc.info.Selections[sel]
		fd := a.fc.methods[a.t.typeName][sel.Sel.Name]
		if sl != nil && sl.Kind() == types.MethodVal && fd != nil {
			a.useArgs(s.Call.Args) // evaluated by the caller
			if !ast.IsExported(fd.Name.Name) {
				// a private method run as a goroutine: an instance of its own, named after the spawning entry
				a.sp.reached[fd] = true
				a.newSpawn(s, spawn{fd: fd})
			} // an exported method is an entry of the skeleton anyway
			return
		}
		a.fail(s.Pos(), "go statement on something of the receiver that is not one of its methods")
	}
	// a goroutine running an untracked function: arguments are evaluated here (the receiver must not be among them)
	a.use(fun)
	a.useArgs(s.Call.Args)
}

// ---------------------------------------------------------------------------------------------
// driver
// ---------------------------------------------------------------------------------------------

func (a *fan) finish() []*fsection {
	var r []*fsection
	for _, s := range a.secs {
		if len(s.accs) > 0 || len(s.held) > 0 {
			r = append(r, s)
		}
	}
	return r
}

func newFan(fc *fileCtx, t ftarget, lockRW map[string]bool, kinds map[string]fieldKind, sp *spawnSet, name string) *fan {
	ro := map[string]map[string]bool{}
	for f, ms := range t.objects {
		ro[f] = map[string]bool{}
		for _, m := range ms {
			ro[f][m] = true
		}
	}
	return &fan{fc: fc, t: t, lockRW: lockRW, kinds: kinds, ro: ro, recv: map[types.Object]bool{},
		active: map[*ast.FuncDecl]bool{}, labels: map[string][]fheld{}, sp: sp, name: name, sites: map[ast.Node]bool{}}
}

func catch(fc *fileCtx, e *fentry) {
	if r := recover(); r != nil {
		f, ok := r.(failure)
		if !ok {
			panic(r)
		}
		e.unknown, e.secs = true, nil
		e.reason = fmt.Sprintf("%s: %s", fc.fset.Position(f.pos), f.msg)
	}
}

// paramIdent: the identifier of the k-th parameter of fd (nil if unnamed)
func paramIdent(fd *ast.FuncDecl, k int) *ast.Ident {
	i := 0
	for _, prm := range fd.Type.Params.List {
		names := prm.Names
		if len(names) == 0 {
			names = []*ast.Ident{nil}
		}
		for _, n := range names {
			if i == k {
				return n
			}
			i++
		}
	}
	return nil
}

// analyseBody: one entry of the skeleton = the body of a method/function (rid denotes the receiver) or of a closure
// (the objects recv denote the receiver), started with no lock held
func analyseBody(fc *fileCtx, t ftarget, lockRW map[string]bool, kinds map[string]fieldKind, sp *spawnSet,
	name string, fd *ast.FuncDecl, rid *ast.Ident, lit *ast.FuncLit, recv []types.Object, sdepth int) (e fentry) {
	e.name = name
	defer catch(fc, &e)
	a := newFan(fc, t, lockRW, kinds, sp, name)
	a.sdepth = sdepth
	a.fr = &fframe{}
	var body *ast.BlockStmt
	if fd != nil {
		a.active[fd] = true
		body = fd.Body
		if body == nil {
			a.fail(fd.Pos(), "no body")
		}
		if rid != nil && rid.Name != "_" {
			a.bindRecv(rid)
		}
	} else {
		body = lit.Body
		for _, o := range recv {
			a.recv[o] = true
		}
	}
	if sdepth > maxSpawnDepth {
		a.fail(body.Pos(), "goroutines nested more than %d deep", maxSpawnDepth)
	}
	a.block(body.List)
	a.endFrame(body.Rbrace)
	if len(a.st) != 0 {
		a.fail(body.Rbrace, "ends with a lock held")
	}
	e.secs = a.finish()
	return e
}

// ctorSpawns: goroutines that a function WITHOUT the target as receiver/parameter (a constructor) starts on a value
// of the target type.  The constructor itself runs before the object is shared and is not analysed; what it starts
// with `go` outlives it: "<Ctor>.go<i>", i = position of the go statement in the function.
func ctorSpawns(fc *fileCtx, t ftarget, sp *spawnSet, fd *ast.FuncDecl) (spawns []spawn, bad []fentry) {
	if fd.Body == nil {
		return
	}
	i := 0
	ast.Inspect(fd.Body, func(n ast.Node) bool {
		g, ok := n.(*ast.GoStmt)
		if !ok {
			return true
		}
		i++
		name := fmt.Sprintf("%s.go%d", fd.Name.Name, i)
		var objs []types.Object
		seen := map[types.Object]bool{}
		ast.Inspect(g, func(m ast.Node) bool {
			if id, ok := m.(*ast.Ident); ok && isTargetValue(fc, id, t.typeName) {
				o := fc.info.Uses[id]
				if o == nil {
					o = fc.info.Defs[id]
				}
				if !seen[o] {
					seen[o] = true
					objs = append(objs, o)
				}
			}
			return true
		})
		if len(objs) == 0 {
			return false // a goroutine that does not know the object
		}
		fun := unparen(g.Call.Fun)
		argsClean := true
		for _, arg := range g.Call.Args {
			ast.Inspect(arg, func(m ast.Node) bool {
				if id, ok := m.(*ast.Ident); ok && isTargetValue(fc, id, t.typeName) {
					argsClean = false
				}
				return true
			})
		}
		switch f := fun.(type) {
		case *ast.FuncLit:
			if argsClean {
				spawns = append(spawns, spawn{name: name, lit: f, recv: objs, depth: 1})
				return false
			}
		case *ast.SelectorExpr:
			if id, ok := unparen(f.X).(*ast.Ident); ok && isTargetValue(fc, id, t.typeName) && argsClean {
				if m := fc.methods[t.typeName][f.Sel.Name]; m != nil {
					if !ast.IsExported(m.Name.Name) {
						sp.reached[m] = true
						spawns = append(spawns, spawn{name: name, fd: m, depth: 1})
					} // an exported method is an entry anyway
					return false
				}
			}
		}
		bad = append(bad, fentry{name: name, unknown: true,
			reason: fmt.Sprintf("%s: goroutine started on a %s in a form that is not understood", fc.fset.Position(g.Pos()), t.typeName)})
		return false
	})
	return
}

// The skeleton has one entry per EXPORTED method/function of the target (public names are API and stable).
// Unexported methods, and functions of the file that are handed the receiver, are analysed IN PLACE where they are
// called, so extracting, merging or renaming private helpers does not change the skeleton.  A goroutine started by an
// entry is an entry "<entry>.go<k>" of its own (k-th go statement met while analysing that entry); goroutines a
// constructor starts are "<Ctor>.go<i>".  An unexported method that nothing reaches still gets an entry of its own
// (it may be called from another file of the package).
func analyseFieldTarget(fc *fileCtx, t ftarget) []fentry {
	lockRW, kinds, verr := fc.resolve(&t)
	sp := &spawnSet{reached: map[*ast.FuncDecl]bool{}, funcs: map[string]*ast.FuncDecl{}}
	cands, others := discover(fc, t.typeName)
	for _, d := range fc.file.Decls {
		if fd, ok := d.(*ast.FuncDecl); ok && fd.Recv == nil {
			sp.funcs[fd.Name.Name] = fd
		}
	}
	var out []fentry
	drain := func() { // goroutines started by what was analysed so far (they may start further ones)
		for len(sp.list) > 0 {
			s := sp.list[0]
			sp.list = sp.list[1:]
			var rid *ast.Ident
			if s.fd != nil && s.fd.Recv != nil && len(s.fd.Recv.List[0].Names) == 1 {
				rid = s.fd.Recv.List[0].Names[0]
			}
			out = append(out, analyseBody(fc, t, lockRW, kinds, sp, s.name, s.fd, rid, s.lit, s.recv, s.depth))
		}
	}
	pass := func(exported bool) {
		for _, c := range cands {
			if ast.IsExported(c.fd.Name.Name) != exported || (!exported && sp.reached[c.fd]) {
				continue
			}
			switch {
			case verr != nil:
				out = append(out, fentry{name: c.fd.Name.Name, unknown: true, reason: verr.Error()})
			case c.bad != "":
				out = append(out, fentry{name: c.fd.Name.Name, unknown: true,
					reason: fmt.Sprintf("%s: %s", fc.fset.Position(c.fd.Pos()), c.bad)})
			default:
				out = append(out, analyseBody(fc, t, lockRW, kinds, sp, c.fd.Name.Name, c.fd, c.recv, nil, nil, 0))
				drain()
			}
		}
	}
	pass(true)
	if verr == nil {
		for _, fd := range others {
			spawns, bad := ctorSpawns(fc, t, sp, fd)
			out = append(out, bad...)
			sp.list = append(sp.list, spawns...)
			drain()
		}
	}
	pass(false)
	if verr != nil && len(out) == 0 {
		out = append(out, fentry{name: "<" + t.typeName + ">", unknown: true, reason: verr.Error()})
	}
	return out
}

func renderFields(w *bytes.Buffer, t ftarget, es []fentry) {
	if t.comment != "" {
		fmt.Fprintf(w, "(* %s *)\n", t.comment)
	}
	if len(es) == 0 {
		fmt.Fprintf(w, "Definition %s : skeleton := [].\n", t.defName)
		return
	}
	fmt.Fprintf(w, "Definition %s : skeleton := [\n", t.defName)
	for i, e := range es {
		var secs []string
		if e.unknown {
			secs = []string{"Unknown"}
		}
		for _, s := range e.secs {
			var hs, as []string
			for _, h := range s.held {
				hs = append(hs, fmt.Sprintf("(%q, %s)", h[0], h[1]))
			}
			for _, x := range s.accs {
				as = append(as, fmt.Sprintf("{| loc := %q; wr := %v |}", x.loc, x.wr))
			}
			secs = append(secs, fmt.Sprintf("Sec [%s] [%s]", strings.Join(hs, "; "), strings.Join(as, "; ")))
		}
		sep := ";"
		if i == len(es)-1 {
			sep = ""
		}
		fmt.Fprintf(w, "  (%q, [%s])%s\n", e.name, strings.Join(secs, "; "), sep)
	}
	fmt.Fprintf(w, "].\n")
}

// generateGroup returns the Coq text of one generated file and the summaries / Unknown reasons
func generateGroup(repo string, g fgroup) ([]byte, []string, []string, error) {
	var buf bytes.Buffer
	seen := map[string]bool{}
	var files []string
	for _, t := range g.targets {
		if !seen[t.file] {
			seen[t.file] = true
			files = append(files, t.file)
		}
	}
	fmt.Fprintf(&buf, "(* GENERATED by translator/lockskel (field mode) from %s. Do not edit. *)\n", strings.Join(files, " and "))
	buf.WriteString("From Coq Require Import List String.\nFrom TC.Lib Require Import Conc.\nImport ListNotations.\nLocal Open Scope string_scope.\n")
	var summary, reasons []string
	for _, t := range g.targets {
		fc, err := loadFile(filepath.Join(repo, filepath.FromSlash(t.file)))
		if err != nil {
			return nil, nil, nil, err
		}
		es := analyseFieldTarget(fc, t)
		unk := 0
		for _, e := range es {
			if e.unknown {
				unk++
				reasons = append(reasons, fmt.Sprintf("%s.%s (%s): Unknown: %s", t.typeName, e.name, t.defName, e.reason))
			}
		}
		summary = append(summary, fmt.Sprintf("%s: %d entries, %d Unknown -> %s", t.typeName, len(es), unk, t.defName))
		buf.WriteString("\n")
		renderFields(&buf, t, es)
	}
	return buf.Bytes(), summary, reasons, nil
}
