// Field-level lock skeletons (second analysis mode of lockskel).
//
// The first mode (main.go) follows ONE guarded location of a type with ONE RWMutex deep into helper
// objects (SafeMap.m, GenericStack.stack.entries).  This mode looks at SEVERAL fields of a struct guarded by
// SEVERAL mutexes and records, per method, under which locks each field of the receiver is read or written:
//
//	location  = a field of the receiver (the field cell; for slice/map fields also their content)
//	read      = the field is mentioned in an rvalue: recv.F, recv.F.M(...), recv.F[i], len(recv.F), range recv.F ...
//	            A method call THROUGH a pointer field is a read of the field only: the callee synchronises itself
//	            (for the cache: GenericStack and SafeMap, which are C11's and C07's subject).
//	write     = recv.F = e, recv.F op= e, recv.F++, recv.F[i] = e, append to / copy into / delete from recv.F
//	locks     = recv.L.Lock/Unlock/RLock/RUnlock and `defer recv.L.(R)Unlock()` on the listed sync.Mutex / sync.RWMutex
//	            fields; a sync.Mutex is a lock that only has the write mode
//	go f()    = `go recv.M(...)` starts another instance of an analysed method (nothing happens in the caller);
//	            `go func(){...}()` becomes a pseudo-method "<Func>.func<i>" (Go's own numbering) with no lock held
//	defer     = deferred unlocks fire at every return; a deferred closure is analysed at the end of the function with
//	            NO lock held (dropping locks is conservative)
//
// Fail closed: the receiver, a lock or a slice/map field used in any other way (stored, passed on, returned,
// address taken, captured by a closure that is not started by go/defer, sliced, ...) makes the method [Unknown].
package main

import (
	"bytes"
	"fmt"
	"go/ast"
	"go/token"
	"go/types"
	"path/filepath"
	"regexp"
	"sort"
	"strings"
)

// lockSpec / fieldSpec: how a lock or tracked field is FOUND in the struct declaration — by its TYPE, so that renaming
// a private field changes nothing.  [canon] is the role name printed in the generated skeleton.  When several fields
// have a matching type, the one called [canon] is taken if there is one, else the nth (declaration order).
type lockSpec struct {
	canon string
	kind  string // "RWMutex" | "Mutex"  (held by value or by pointer)
	nth   int
}

type fieldSpec struct {
	canon string
	typ   string // regular expression on the printed field type (types.ExprString), or "@localstruct": a pointer to a
	//               struct declared in the file that no other spec of the target matches
	nth    int
	object []string // non-nil: pointer to an object WITHOUT own synchronisation (exploration only); its read-only methods
	// chanState: a channel field on which the code SENDS.  A send is a read, close() a write of the pseudo-location
	// "<canon>.open" (whether the channel is still open), so that the lockset check demands what the lock is there for:
	// a send never meets a close.  (Receiving from a closed channel is harmless and is not an access.)
	chanState bool
}

type ftarget struct {
	file       string
	typeName   string
	lockSpecs  []lockSpec
	fieldSpecs []fieldSpec
	defName    string
	comment    string
	// nested: locks and fields may also sit one level down, in a struct declared in the file that a field of the target
	// holds by value or by pointer (paths "f.g")
	nested bool
	// foreign: EVERY function of the file is analysed, not only the methods of the target: a variable of the target
	// type anywhere denotes an object whose tracked fields and locks count; methods of other file-local types and
	// functions of the file are analysed in place where they are called; entry names are qualified ("Type.Method")
	foreign bool
	// reentrant: acquiring a lock that is already held does not make the method Unknown; the lock is listed twice in the
	// section's held list, for an explicit obligation on the Coq side (LocksetMore.no_reacquire)
	reentrant bool
	// filled in by resolve(): Go field path -> role name
	locks       map[string]string
	fields      map[string]string
	objects     map[string][]string
	chanState   map[string]bool
	prefixTypes map[string]string // nested: field of the target -> name of the file-local struct type it holds
}

type fgroup struct {
	outFile string
	targets []ftarget
}

var fgroups = []fgroup{
	{"CacheSkeleton_gen.v", []ftarget{{
		file: "storage/fifoMapCache.go", typeName: "FifoMapCache",
		lockSpecs: []lockSpec{{"currentPartitionMux", "RWMutex", 0}, {"sweepingMux", "Mutex", 0}},
		fieldSpecs: []fieldSpec{
			{canon: "partitions", typ: `^\*GenericStack\[`},
			{canon: "valuePartitionIndex", typ: `^\*SafeMap\[`},
			{canon: "currentPartitionId", typ: `^uint64$`},
			{canon: "partitionCapacity", typ: `^int$`, nth: 0},
			{canon: "maxPartitions", typ: `^int$`, nth: 1},
			{canon: "config", typ: "@localstruct"},
		},
		nested:  true,
		defName: "cache_skeleton",
		comment: "FifoMapCache: fields partitions, valuePartitionIndex, currentPartitionId, maxPartitions, partitionCapacity, config;\n   locks currentPartitionMux (RWMutex), sweepingMux (Mutex) — role names; the Go fields are found by type.\n   Calls into GenericStack / SafeMap are reads of the field.  One entry per exported method; private helpers are inlined.",
	}}},
	{"WQSkeleton_gen.v", []ftarget{{
		file: "workqueue/queue.go", typeName: "Queue",
		lockSpecs:  []lockSpec{{"errSubScriberMux", "Mutex", 0}},
		fieldSpecs: []fieldSpec{{canon: "errorSubscribers", typ: `^\[\]chan error$`}},
		nested:     true,
		defName:    "wq_err_skeleton",
		comment:    "Queue: the slice of error-subscriber channels ([]chan error, role name errorSubscribers) under the Queue's\n   sync.Mutex (role name errSubScriberMux) — property C14.",
	}, {
		file: "workqueue/queue.go", typeName: "Queue",
		lockSpecs:  []lockSpec{{"errSubScriberMux", "Mutex", 0}},
		fieldSpecs: []fieldSpec{{canon: "breaked", typ: `^bool$`}, {canon: "workQueue", typ: `^\*workHeap$`, object: []string{"Len"}}},
		nested:     true,
		defName:    "wq_shared_skeleton",
		comment:    "EXPLORATION ONLY (no property depends on it): the plain bool of Queue (Break's flag) and the heap object behind\n   the *workHeap field, which has no synchronisation of its own (every method call except Len counts as a write).",
	}}},
	{"PubSkeleton_gen.v", []ftarget{{
		file: "publisher/publication.go", typeName: "Subscriber",
		lockSpecs: []lockSpec{{"mu", "RWMutex", 0}},
		fieldSpecs: []fieldSpec{
			{canon: "closed", typ: `^bool$`},
			{canon: "receiveCh", typ: `^chan [A-Z]\w*$`, chanState: true},
			{canon: "done", typ: `^chan struct\{\}$`},
		},
		nested: true, foreign: true, reentrant: true,
		defName: "subscriber_skeleton",
		comment: "Subscriber (property C10): its sync.RWMutex (role name mu), the closed flag (its bool), receiveCh (its chan T; a send is a\n   read and close() a write of \"receiveCh.open\") and done (its chan struct{}).  EVERY function of the file is analysed: a\n   variable of type *Subscriber anywhere is an object; entries are the exported functions/methods (Type.Method), private\n   ones and methods of Publication are analysed in place; goroutines are <entry>.go<k>.  A lock acquired while it is\n   already held is listed twice in the section's held list.",
	}, {
		file: "publisher/publication.go", typeName: "Publication",
		fieldSpecs: []fieldSpec{{canon: "subscribers", typ: `^\*generic\.SyncMap\[`}},
		foreign:    true,
		defName:    "publication_skeleton",
		comment:    "Publication: the field holding the subscriber map (a *generic.SyncMap, which synchronises itself: calls are reads\n   of the field); there is no lock, so the field must never be written after construction.",
	}}},
	{"RankSkeleton_gen.v", []ftarget{{
		file: "rankCalculation/rankCalculator.go", typeName: "RankCalculator",
		lockSpecs:  []lockSpec{{"mux", "RWMutex", 0}},
		fieldSpecs: []fieldSpec{{canon: "entries", typ: `^\*storage\.SafeMap\[`}},
		defName:    "rank_skeleton",
		comment:    "RankCalculator (X05): the field holding the *storage.SafeMap (role name entries; Reset replaces it) under the\n   calculator's sync.RWMutex (role name mux).",
	}}},
}

type fieldKind int

const (
	kCell      fieldKind = iota // pointer / scalar / func / chan / interface: copying the value is just a read
	kContainer                  // slice or map: the content is part of the location, aliases are not allowed
	kObject                     // pointer to an unsynchronised object: calls through it are accesses of the object
)

type fheld struct {
	name, mode string
	owner      *fframe
	covered    bool         // a deferred release is registered
	obj        types.Object // foreign mode: the variable through which the lock was taken
}

type fsection struct {
	held [][2]string
	accs []access
}

type fentry struct {
	name    string
	unknown bool
	reason  string
	secs    []*fsection
}

type fframe struct {
	deferred []*ast.FuncLit
	bound    []types.Object
}

type vkind int

const (
	vNone vkind = iota
	vRecv
	vLock
	vField
	vMethod
	vAppend
	vPrefix // a struct inside the receiver that holds locks / tracked fields (path prefix)
)

type fval struct {
	k    vkind
	name string
	obj  types.Object // foreign mode: the variable of the target type the expression is rooted in
}

// spawn: a goroutine started by an analysed entry: a closure (lit) or an unexported method/function (fd); it becomes a
// skeleton entry "<entry>.go<k>" of its own, analysed with no lock held
type spawn struct {
	name     string
	lit      *ast.FuncLit
	fd       *ast.FuncDecl
	recv     []types.Object // objects denoting the receiver inside a closure
	depth    int
	prefix   string                  // fd is a method of a struct held inside the target: the path of that part
	prefixes map[types.Object]string // closure: receivers of such methods that it may capture
}

// shared by all entries of one target
type spawnSet struct {
	list    []spawn
	reached map[*ast.FuncDecl]bool   // unexported methods/functions analysed in place or as a goroutine somewhere
	funcs   map[string]*ast.FuncDecl // top-level functions of the file (no receiver) by name
}

type fan struct {
	fc      *fileCtx
	t       ftarget
	lockRW  map[string]bool
	kinds   map[string]fieldKind
	ro      map[string]map[string]bool
	recv    map[types.Object]bool
	st      []fheld
	fr      *fframe
	depth   int
	active  map[*ast.FuncDecl]bool
	secs    []*fsection
	cur     *fsection
	loops   [][]fheld
	breaks  [][]fheld
	labels  map[string][]fheld
	nlock   int // number of lock events so far
	sp      *spawnSet
	name    string                        // name of the entry being analysed
	nspawn  int                           // goroutines started by it so far
	sites   map[ast.Node]bool             // go statements already turned into a spawn (a site inside a loop counts once)
	sdepth  int                           // nesting of goroutines
	root    map[types.Object]types.Object // foreign mode: receiver of an inlined method -> the caller's variable
	lockObj types.Object                  // foreign mode: the variable through which the lock operation being analysed goes
	callObj types.Object                  // foreign mode: the variable the method being inlined is called on
	prefix  map[types.Object]string       // receivers of methods of structs held inside the target -> that part's path
	bindAs  string                        // path the receiver of the method about to be inlined stands for ("" = the whole target)
}

func (a *fan) fail(pos token.Pos, format string, args ...interface{}) {
	panic(failure{pos, fmt.Sprintf(format, args...)})
}

// ---------------------------------------------------------------------------------------------
// validation of the target table against the declarations
// ---------------------------------------------------------------------------------------------

type namedField struct {
	name string
	typ  ast.Expr
}

func structFields(st *ast.StructType) []namedField {
	var r []namedField
	for _, f := range st.Fields.List {
		for _, n := range f.Names {
			r = append(r, namedField{n.Name, f.Type})
		}
		if len(f.Names) == 0 { // embedded: the field is called like its type
			if base, _ := baseTypeName(f.Type); base != "" {
				r = append(r, namedField{base, f.Type})
			}
		}
	}
	return r
}

// pick: the field among the candidates that a spec denotes
func pick(cands []string, canon string, nth int) (string, bool) {
	if len(cands) == 1 {
		return cands[0], true
	}
	for _, c := range cands {
		if c == canon || strings.HasSuffix(c, "."+canon) {
			return c, true
		}
	}
	if nth < len(cands) && len(cands) > 0 {
		return cands[nth], true
	}
	return "", false
}

// resolve finds the locks and tracked fields of the target by type and fills t.locks / t.fields / t.objects.
// Returns lock name -> is RWMutex, field name -> kind.
func (fc *fileCtx) resolve(t *ftarget) (map[string]bool, map[string]fieldKind, error) {
	st := fc.structs[t.typeName]
	if st == nil {
		return nil, nil, fmt.Errorf("struct type %s not declared", t.typeName)
	}
	fs := structFields(st)
	innerType := map[string]string{}
	if t.nested {
		for _, f := range structFields(st) {
			base, _ := baseTypeName(f.typ)
			if inner := fc.structs[base]; inner != nil && base != t.typeName && fc.syncKind(f.typ) == "" {
				for _, g := range structFields(inner) {
					fs = append(fs, namedField{f.name + "." + g.name, g.typ})
				}
				innerType[f.name] = base
			}
		}
	}
	typeOf := map[string]ast.Expr{}
	for _, f := range fs {
		typeOf[f.name] = f.typ
	}
	t.locks, t.fields, t.objects = map[string]string{}, map[string]string{}, map[string][]string{}
	t.chanState = map[string]bool{}
	lockRW := map[string]bool{}
	for _, ls := range t.lockSpecs {
		var cands []string
		for _, f := range fs {
			if fc.syncKind(f.typ) == ls.kind {
				cands = append(cands, f.name)
			}
		}
		name, ok := pick(cands, ls.canon, ls.nth)
		if !ok {
			return nil, nil, fmt.Errorf("%s has no field of type sync.%s for the lock %s", t.typeName, ls.kind, ls.canon)
		}
		if _, dup := t.locks[name]; dup {
			return nil, nil, fmt.Errorf("%s.%s is matched by two lock specifications", t.typeName, name)
		}
		t.locks[name] = ls.canon
		lockRW[name] = ls.kind == "RWMutex"
	}
	kinds := map[string]fieldKind{}
	matched := map[string]bool{}
	var res []*regexp.Regexp
	for _, sp := range t.fieldSpecs {
		if sp.typ != "@localstruct" {
			res = append(res, regexp.MustCompile(sp.typ))
		}
	}
	for _, sp := range t.fieldSpecs {
		var cands []string
		for _, f := range fs {
			if fc.syncKind(f.typ) != "" {
				continue
			}
			ts := types.ExprString(f.typ)
			if sp.typ == "@localstruct" {
				base, ptr := baseTypeName(f.typ)
				other := false
				for _, re := range res {
					other = other || re.MatchString(ts)
				}
				if ptr && fc.structs[base] != nil && base != t.typeName && !other {
					cands = append(cands, f.name)
				}
			} else if regexp.MustCompile(sp.typ).MatchString(ts) {
				cands = append(cands, f.name)
			}
		}
		name, ok := pick(cands, sp.canon, sp.nth)
		if !ok {
			return nil, nil, fmt.Errorf("%s has no field of type %s for %s", t.typeName, sp.typ, sp.canon)
		}
		if matched[name] {
			return nil, nil, fmt.Errorf("%s.%s is matched by two field specifications", t.typeName, name)
		}
		matched[name] = true
		t.fields[name] = sp.canon
		ft := typeOf[name]
		if sp.chanState {
			if _, isChan := ft.(*ast.ChanType); !isChan {
				return nil, nil, fmt.Errorf("%s.%s is not a channel", t.typeName, name)
			}
			t.chanState[name] = true
		}
		if sp.object != nil {
			if _, ptr := ft.(*ast.StarExpr); !ptr {
				return nil, nil, fmt.Errorf("%s.%s is declared an object but is not a pointer", t.typeName, name)
			}
			kinds[name] = kObject
			t.objects[name] = sp.object
			continue
		}
		switch x := ft.(type) {
		case *ast.StarExpr, *ast.FuncType, *ast.ChanType, *ast.InterfaceType:
			kinds[name] = kCell
		case *ast.ArrayType, *ast.MapType:
			kinds[name] = kContainer
		case *ast.Ident:
			switch x.Name {
			case "bool", "string", "int", "int8", "int16", "int32", "int64", "uint", "uint8", "uint16", "uint32", "uint64",
				"uintptr", "float32", "float64", "byte", "rune", "error":
				kinds[name] = kCell
			default:
				return nil, nil, fmt.Errorf("%s.%s has a named type (%s) whose kind is not known", t.typeName, name, x.Name)
			}
		default:
			return nil, nil, fmt.Errorf("%s.%s has an unsupported type %T", t.typeName, name, ft)
		}
	}
	// the file-local struct types that host a lock or a tracked field (their methods are analysed with the receiver
	// bound to that part of the target)
	t.prefixTypes = map[string]string{}
	for _, m := range []map[string]string{t.locks, t.fields} {
		for path := range m {
			if i := strings.Index(path, "."); i > 0 {
				t.prefixTypes[path[:i]] = innerType[path[:i]]
			}
		}
	}
	return lockRW, kinds, nil
}

// ---------------------------------------------------------------------------------------------
// lock state and sections
// ---------------------------------------------------------------------------------------------

func copyState(s []fheld) []fheld { return append([]fheld(nil), s...) }

func sameState(x, y []fheld) bool {
	if len(x) != len(y) {
		return false
	}
	for i := range x {
		if x[i] != y[i] {
			return false
		}
	}
	return true
}

func (a *fan) heldList() [][2]string {
	var r [][2]string
	for _, h := range a.st {
		r = append(r, [2]string{a.t.locks[h.name], h.mode})
	}
	return r
}

func (a *fan) access(loc string, wr bool) {
	a.accessRole(a.t.fields[loc], wr) // role name, not the Go field name
}

func (a *fan) accessRole(role string, wr bool) {
	if a.cur == nil {
		a.cur = &fsection{held: a.heldList()}
		a.secs = append(a.secs, a.cur)
	}
	x := access{role, wr}
	for _, y := range a.cur.accs {
		if x == y {
			return
		}
	}
	a.cur.accs = append(a.cur.accs, x)
}

func (a *fan) find(name string) int {
	for i, h := range a.st {
		if h.name == name {
			return i
		}
	}
	return -1
}

// findLast: the innermost acquisition of the lock (a lock can be listed twice only with the option reentrant)
func (a *fan) findLast(name string) int {
	for i := len(a.st) - 1; i >= 0; i-- {
		if a.st[i].name == name {
			return i
		}
	}
	return -1
}

func (a *fan) acquire(pos token.Pos, name, mode string) {
	a.nlock++
	if a.find(name) >= 0 && !a.t.reentrant {
		a.fail(pos, "lock %s acquired while it is already held (not re-entrant)", name)
	}
	if mode == "Rd" && !a.lockRW[name] {
		a.fail(pos, "RLock on %s, which is a sync.Mutex", name)
	}
	a.st = append(copyState(a.st), fheld{name: name, mode: mode, owner: a.fr, obj: a.rootOf(a.lockObj)})
	a.cur = &fsection{held: a.heldList()} // emitted even if it stays empty
	a.secs = append(a.secs, a.cur)
}

func (a *fan) release(pos token.Pos, name, mode string) {
	a.nlock++
	i := a.findLast(name)
	if i < 0 || a.st[i].mode != mode {
		a.fail(pos, "release of %s in mode %s while it is not held in that mode", name, mode)
	}
	if a.st[i].owner != a.fr {
		a.fail(pos, "release of lock %s acquired by a caller", name)
	}
	if a.st[i].covered {
		a.fail(pos, "explicit release of lock %s that also has a deferred release", name)
	}
	n := copyState(a.st)
	a.st = append(n[:i], n[i+1:]...)
	a.cur = nil
}

func (a *fan) deferRelease(pos token.Pos, name, mode string) {
	a.nlock++
	i := a.findLast(name)
	if i < 0 || a.st[i].mode != mode || a.st[i].owner != a.fr || a.st[i].covered {
		a.fail(pos, "deferred release of %s does not match a lock acquired in this function", name)
	}
	a.st = copyState(a.st)
	a.st[i].covered = true
}

func (a *fan) restore(s []fheld) {
	if !sameState(a.st, s) {
		a.cur = nil
		a.st = copyState(s)
	}
}

func (a *fan) requireSame(s []fheld, pos token.Pos, what string) {
	if !sameState(a.st, s) {
		a.fail(pos, "%s changes the lock state", what)
	}
}

func (a *fan) checkReturn(pos token.Pos) {
	for _, h := range a.st {
		if h.owner == a.fr && !h.covered {
			a.fail(pos, "return while lock %s is held by a non-deferred lock", h.name)
		}
	}
}

// endFrame: deferred unlocks fire; deferred closures run (analysed with no lock held: conservative)
func (a *fan) endFrame(pos token.Pos) {
	var keep []fheld
	for _, h := range a.st {
		if h.owner == a.fr {
			if !h.covered {
				a.fail(pos, "function ends while lock %s is held by a non-deferred lock", h.name)
			}
			continue
		}
		keep = append(keep, h)
	}
	if len(keep) != len(a.st) {
		a.st = keep
		a.cur = nil
	}
	fr := a.fr
	for i := len(fr.deferred) - 1; i >= 0; i-- {
		lit := fr.deferred[i]
		saved, savedLoops, savedBreaks, savedLabels := a.st, a.loops, a.breaks, a.labels
		a.st, a.cur = nil, nil
		a.loops, a.breaks, a.labels = nil, nil, map[string][]fheld{}
		a.fr = &fframe{}
		a.block(lit.Body.List)
		a.endFrame(lit.Body.Rbrace)
		if len(a.st) != 0 {
			a.fail(lit.Pos(), "deferred closure leaves a lock held")
		}
		a.fr = fr
		a.st, a.cur = saved, nil
		a.loops, a.breaks, a.labels = savedLoops, savedBreaks, savedLabels
	}
	for _, o := range fr.bound {
		delete(a.recv, o)
	}
}

// ---------------------------------------------------------------------------------------------
// expressions
// ---------------------------------------------------------------------------------------------

func (a *fan) objOf(id *ast.Ident) types.Object {
	if o := a.fc.info.Uses[id]; o != nil {
		return o
	}
	return a.fc.info.Defs[id]
}

func (a *fan) pkgOf(e ast.Expr) (string, bool) {
	id, ok := unparen(e).(*ast.Ident)
	if !ok {
		return "", false
	}
	switch o := a.objOf(id).(type) {
	case *types.PkgName:
		return o.Imported().Path(), true
	case nil:
		if p, ok := a.fc.imports[id.Name]; ok {
			return p, true
		}
	}
	return "", false
}

func (a *fan) classify(name string) fval {
	if _, ok := a.lockRW[name]; ok {
		return fval{k: vLock, name: name}
	}
	if _, ok := a.kinds[name]; ok {
		return fval{k: vField, name: name}
	}
	for l := range a.lockRW {
		if strings.HasPrefix(l, name+".") {
			return fval{k: vPrefix, name: name}
		}
	}
	for f := range a.kinds {
		if strings.HasPrefix(f, name+".") {
			return fval{k: vPrefix, name: name}
		}
	}
	return fval{}
}

// targetMember: the name of a field or of a method (declared in this file) of the target type
func (a *fan) targetMember(name string) bool {
	if st := a.fc.structs[a.t.typeName]; st != nil && structField(st, name) != nil {
		return true
	}
	return a.fc.methods[a.t.typeName][name] != nil
}

// rootOf: foreign mode — the variable a receiver alias stands for
func (a *fan) rootOf(o types.Object) types.Object {
	for i := 0; i < 64; i++ {
		r, ok := a.root[o]
		if !ok || r == o {
			return o
		}
		o = r
	}
	return o
}

// sameObject: foreign mode — a lock or tracked field is used through variable o: every lock held must have been
// taken through the same variable (otherwise "holding a.mu while touching b.closed" would look protected)
func (a *fan) sameObject(o types.Object, pos token.Pos) {
	if !a.t.foreign {
		return
	}
	for _, h := range a.st {
		if h.obj != a.rootOf(o) {
			a.fail(pos, "a lock taken through one variable of type %s is held while another one is used", a.t.typeName)
		}
	}
}

// selPath: the field names along a (possibly promoted) field selection
func selPath(sel *types.Selection) (string, bool) {
	t := sel.Recv()
	var names []string
	for _, i := range sel.Index() {
		t = types.Unalias(t)
		if p, ok := t.Underlying().(*types.Pointer); ok {
			t = types.Unalias(p.Elem())
		}
		st, ok := t.Underlying().(*types.Struct)
		if !ok || i >= st.NumFields() {
			return "", false
		}
		names = append(names, st.Field(i).Name())
		t = st.Field(i).Type()
	}
	return strings.Join(names, "."), len(names) > 0
}

// resolveQuiet: like resolve, but without the same-object check (used to inspect code that is not being executed)
func (a *fan) resolveQuiet(e ast.Expr) fval {
	saved := a.st
	a.st = nil
	defer func() { a.st = saved }()
	return a.resolve(e)
}

// resolve: what an expression denotes, WITHOUT producing events
func (a *fan) resolve(e ast.Expr) fval {
	switch e := unparen(e).(type) {
	case *ast.Ident:
		if o := a.objOf(e); o != nil {
			if a.recv[o] {
				return fval{k: vRecv, obj: o}
			}
			if p, ok := a.prefix[o]; ok { // the receiver of a method of a struct held inside the target
				return fval{k: vPrefix, name: p}
			}
			if a.t.foreign && isTargetValue(a.fc, e, a.t.typeName) {
				return fval{k: vRecv, obj: o}
			}
		}
	case *ast.SelectorExpr:
		xv := a.resolve(e.X)
		if a.t.foreign && xv.k == vNone {
			// fail closed: a value whose static type could not be determined, used with a selector that names a field or
			// method of the target type, may well be an object of the target type
			if tv := a.fc.info.TypeOf(e.X); tv == nil || tv == types.Typ[types.Invalid] {
				if _, isPkg := a.pkgOf(e.X); !isPkg && a.targetMember(e.Sel.Name) {
					a.fail(e.Pos(), "cannot determine whether the value .%s is selected from is a %s", e.Sel.Name, a.t.typeName)
				}
			}
		}
		if xv.k == vRecv || xv.k == vPrefix {
			sel := a.fc.info.Selections[e]
			if sel == nil {
				a.fail(e.Pos(), "cannot resolve selector .%s on the receiver", e.Sel.Name)
			}
			if sel.Kind() == types.FieldVal {
				path, ok := selPath(sel) // more than one component when the field is promoted from an embedded struct
				if !ok {
					a.fail(e.Pos(), "cannot follow the selection .%s", e.Sel.Name)
				}
				if xv.k == vPrefix {
					path = xv.name + "." + path
				}
				v := a.classify(path)
				v.obj = xv.obj
				if v.k == vLock || v.k == vField {
					a.sameObject(xv.obj, e.Pos())
				}
				return v
			}
			if sel.Kind() == types.MethodVal && xv.k == vRecv {
				return fval{k: vMethod, name: e.Sel.Name, obj: xv.obj}
			}
			a.fail(e.Pos(), "unsupported selection .%s on the receiver", e.Sel.Name)
		}
	}
	return fval{}
}

func (a *fan) fieldRead(name string, pos token.Pos) {
	if a.kinds[name] == kContainer {
		a.fail(pos, "slice/map field %s used in an unrecognised form (would alias its content)", name)
	}
	a.access(name, false)
}

func (a *fan) useVal(v fval, pos token.Pos) {
	switch v.k {
	case vRecv:
		if !a.t.foreign { // in foreign mode objects of the target type are ordinary values that are passed around
			a.fail(pos, "the receiver escapes (stored, passed on or returned)")
		}
	case vPrefix:
		a.fail(pos, "the part %s of the receiver, which holds a lock or a guarded field, is copied or passed on", v.name)
	case vLock:
		a.fail(pos, "unrecognised use of lock %s", v.name)
	case vMethod:
		a.fail(pos, "method value %s of the receiver escapes", v.name)
	case vAppend:
		a.fail(pos, "result of append(%s, ...) is not assigned back to the field", v.name)
	case vField:
		a.fieldRead(v.name, pos)
	}
}

func (a *fan) use(e ast.Expr) {
	if e == nil {
		return
	}
	a.useVal(a.expr(e), e.Pos())
}

func (a *fan) useArgs(args []ast.Expr) {
	for _, x := range args {
		a.use(x)
	}
}

// rooted: does the operand of & reach into the receiver?
func (a *fan) rooted(e ast.Expr) bool {
	for {
		e = unparen(e)
		if a.resolve(e).k != vNone {
			return true
		}
		switch x := e.(type) {
		case *ast.IndexExpr:
			e = x.X
		case *ast.SliceExpr:
			e = x.X
		case *ast.SelectorExpr:
			e = x.X
		case *ast.StarExpr:
			e = x.X
		default:
			return false
		}
	}
}

func (a *fan) closureNoRecv(fl *ast.FuncLit) {
	if a.t.foreign {
		// a function literal that is neither started by go/defer nor called on the spot runs at a time the analysis
		// does not know: it must not touch a lock or a tracked field of an object of the target type (calling its
		// methods is fine: a private method reached in no other way keeps an entry of its own)
		ast.Inspect(fl.Body, func(n ast.Node) bool {
			if se, ok := n.(*ast.SelectorExpr); ok {
				if v := a.resolveQuiet(se); v.k == vLock || v.k == vField {
					a.fail(se.Pos(), "a function literal that is not started by go/defer touches %s of a %s", v.name, a.t.typeName)
				}
			}
			return true
		})
		return
	}
	ast.Inspect(fl, func(n ast.Node) bool {
		if id, ok := n.(*ast.Ident); ok {
			if o := a.objOf(id); o != nil && a.recv[o] {
				a.fail(id.Pos(), "the receiver is captured by a function literal that is not started by go/defer")
			}
		}
		return true
	})
}

func (a *fan) expr(e ast.Expr) fval {
	switch e := e.(type) {
	case nil:
		return fval{}
	case *ast.ParenExpr:
		return a.expr(e.X)
	case *ast.Ident:
		return a.resolve(e)
	case *ast.BasicLit:
		return fval{}
	case *ast.SelectorExpr:
		if _, ok := a.pkgOf(e.X); ok {
			return fval{}
		}
		if v := a.resolve(e); v.k != vNone {
			return v
		}
		if k := a.resolve(e.X).k; k == vRecv || k == vPrefix {
			return fval{} // a field of the receiver that is neither lock nor tracked: ignored
		}
		xv := a.expr(e.X)
		switch xv.k {
		case vField: // recv.F.x : reads F
			a.fieldRead(xv.name, e.Pos())
		default:
			a.useVal(xv, e.Pos())
		}
		return fval{}
	case *ast.IndexExpr:
		xv := a.expr(e.X)
		if xv.k == vField {
			a.access(xv.name, false)
		} else {
			a.useVal(xv, e.Pos())
		}
		a.use(e.Index)
		return fval{}
	case *ast.IndexListExpr:
		a.use(e.X)
		for _, i := range e.Indices {
			a.use(i)
		}
		return fval{}
	case *ast.SliceExpr:
		a.use(e.X) // a container field fails here: a sub-slice aliases the content
		a.use(e.Low)
		a.use(e.High)
		a.use(e.Max)
		return fval{}
	case *ast.StarExpr:
		a.use(e.X)
		return fval{}
	case *ast.UnaryExpr:
		if e.Op == token.AND && a.rooted(e.X) {
			a.fail(e.Pos(), "address of (part of) the receiver is taken")
		}
		a.use(e.X)
		return fval{}
	case *ast.BinaryExpr:
		a.use(e.X)
		a.use(e.Y)
		return fval{}
	case *ast.TypeAssertExpr:
		a.use(e.X)
		return fval{}
	case *ast.KeyValueExpr:
		a.use(e.Value)
		return fval{}
	case *ast.CompositeLit:
		for _, el := range e.Elts {
			if kv, ok := el.(*ast.KeyValueExpr); ok {
				if _, isId := kv.Key.(*ast.Ident); !isId {
					a.use(kv.Key)
				}
				a.use(kv.Value)
			} else {
				a.use(el)
			}
		}
		return fval{}
	case *ast.FuncLit:
		a.closureNoRecv(e)
		return fval{}
	case *ast.CallExpr:
		return a.call(e)
	case *ast.ArrayType, *ast.MapType, *ast.ChanType, *ast.FuncType, *ast.StructType, *ast.InterfaceType, *ast.Ellipsis:
		return fval{}
	}
	a.fail(e.Pos(), "unsupported expression %T", e)
	return fval{}
}

func (a *fan) lockOp(pos token.Pos, name, op string, nargs int) {
	if nargs != 0 {
		a.fail(pos, "unrecognised operation .%s on lock %s", op, name)
	}
	switch op {
	case "Lock":
		a.acquire(pos, name, "Wr")
	case "RLock":
		a.acquire(pos, name, "Rd")
	case "Unlock":
		a.release(pos, name, "Wr")
	case "RUnlock":
		a.release(pos, name, "Rd")
	default:
		a.fail(pos, "unrecognised operation .%s on lock %s", op, name)
	}
}

func (a *fan) call(c *ast.CallExpr) fval {
	fun := unparen(c.Fun)
	switch f := fun.(type) {
	case *ast.Ident:
		if _, ok := a.objOf(f).(*types.Builtin); ok {
			return a.builtin(f.Name, c)
		}
		if fd := a.sp.funcs[f.Name]; fd != nil {
			if _, isFunc := a.objOf(f).(*types.Func); isFunc {
				// a function of this file that is handed the receiver: analysed in place, like a private method
				ri := -1
				for i, arg := range c.Args {
					if a.resolve(arg).k == vRecv {
						if ri >= 0 {
							a.fail(c.Pos(), "the receiver is passed twice to %s", f.Name)
						}
						ri = i
					}
				}
				if ri >= 0 {
					for i, arg := range c.Args {
						if i != ri {
							a.use(arg)
						}
					}
					a.callObj = a.resolve(c.Args[ri]).obj
					a.spliceFunc(fd, ri, c.Pos())
					return fval{}
				}
				if a.t.foreign { // it may reach objects of the target type in other ways: analysed in place
					a.useArgs(c.Args)
					a.inlineForeign(fd, c.Pos())
					return fval{}
				}
			}
		}
		if o := a.objOf(f); o == nil {
			switch f.Name { // type checking of the single file may not resolve everything
			case "len", "cap", "append", "copy", "delete", "clear", "make", "new", "close":
				return a.builtin(f.Name, c)
			}
		}
	case *ast.SelectorExpr:
		if pkg, ok := a.pkgOf(f.X); ok {
			if pkg == "container/heap" && len(c.Args) >= 1 {
				if v := a.resolve(c.Args[0]); v.k == vField && a.kinds[v.name] == kObject {
					a.access(v.name, false)
					a.access(v.name, true)
					a.useArgs(c.Args[1:])
					return fval{}
				}
			}
			for _, arg := range c.Args {
				if fld, ok := a.containerArg(arg); ok && stdReaders[pkg][f.Sel.Name] {
					a.access(fld, false) // slices.Clone(recv.F), maps.Clone(recv.F), ...: reads, the result is fresh
				} else {
					a.use(arg)
				}
			}
			return fval{}
		}
		switch xv := a.resolve(f.X); xv.k {
		case vRecv:
			sel := a.fc.info.Selections[f]
			if sel == nil {
				a.fail(c.Pos(), "cannot resolve .%s on the receiver", f.Sel.Name)
			}
			if sel.Kind() == types.FieldVal { // a func-typed field is called
				a.useVal(a.classify(f.Sel.Name), c.Pos())
				a.useArgs(c.Args)
				return fval{}
			}
			fd := a.fc.methods[a.t.typeName][f.Sel.Name]
			if fd == nil {
				a.fail(c.Pos(), "method %s.%s is not declared in this file", a.t.typeName, f.Sel.Name)
			}
			a.useArgs(c.Args)
			a.callObj = xv.obj
			a.splice(fd, c.Pos())
			return fval{}
		case vLock:
			a.lockObj = xv.obj
			a.lockOp(c.Pos(), xv.name, f.Sel.Name, len(c.Args))
			return fval{}
		case vField: // recv.F.M(args): the callee synchronises itself (cell) / is an unsynchronised object
			switch a.kinds[xv.name] {
			case kCell:
				a.access(xv.name, false)
			case kObject:
				a.access(xv.name, false)
				if !a.ro[xv.name][f.Sel.Name] {
					a.access(xv.name, true)
				}
			default:
				a.fail(c.Pos(), "method call on slice/map field %s", xv.name)
			}
			a.useArgs(c.Args)
			return fval{}
		case vMethod, vAppend:
			a.useVal(xv, c.Pos())
		case vPrefix:
			// a method of the struct that this part of the target is: analysed in place, its receiver bound to the part
			fd := a.prefixMethod(xv.name, f, c.Pos())
			a.useArgs(c.Args)
			a.splicePrefix(fd, xv.name, c.Pos())
			return fval{}
		}
		a.use(f.X)
		a.useArgs(c.Args)
		if a.t.foreign {
			// a method of ANOTHER type of this file (p.unsubscribe(id), s.publisher.unsubscribe(id)): analysed in place,
			// it may reach objects of the target type
			if tn := a.localTypeOf(f.X); tn != "" && tn != a.t.typeName {
				if fd := a.fc.methods[tn][f.Sel.Name]; fd != nil {
					a.inlineForeign(fd, c.Pos())
				}
			}
		}
		return fval{}
	case *ast.FuncLit:
		a.closureNoRecv(f)
		a.useArgs(c.Args)
		return fval{}
	}
	a.use(fun)
	a.useArgs(c.Args)
	return fval{}
}

func (a *fan) containerArg(e ast.Expr) (string, bool) {
	if v := a.resolve(e); v.k == vField && a.kinds[v.name] == kContainer {
		return v.name, true
	}
	return "", false
}

func (a *fan) builtin(name string, c *ast.CallExpr) fval {
	args := c.Args
	switch name {
	case "len", "cap":
		if len(args) == 1 {
			if f, ok := a.containerArg(args[0]); ok {
				a.access(f, false)
				return fval{}
			}
		}
	case "delete", "clear":
		if len(args) >= 1 {
			if f, ok := a.containerArg(args[0]); ok {
				a.useArgs(args[1:])
				a.access(f, true)
				return fval{}
			}
		}
	case "append":
		if len(args) >= 1 {
			f0, ok0 := a.containerArg(args[0])
			if !ok0 {
				a.use(args[0])
			}
			for i, x := range args[1:] {
				if f, ok := a.containerArg(x); ok && c.Ellipsis.IsValid() && i == len(args)-2 {
					a.access(f, false) // append(dst, recv.F...)
				} else {
					a.use(x)
				}
			}
			if ok0 {
				a.access(f0, false)
				a.access(f0, true) // may write into the shared backing array
				return fval{k: vAppend, name: f0}
			}
			return fval{}
		}
	case "copy":
		if len(args) == 2 {
			fd, okd := a.containerArg(args[0])
			fs, oks := a.containerArg(args[1])
			if !okd {
				a.use(args[0])
			}
			if !oks {
				a.use(args[1])
			}
			if oks {
				a.access(fs, false)
			}
			if okd {
				a.access(fd, true)
			}
			return fval{}
		}
	case "make", "new":
		if len(args) >= 1 {
			a.useArgs(args[1:])
			return fval{}
		}
	case "close":
		if len(args) == 1 {
			a.use(args[0])
			if v := a.resolve(args[0]); v.k == vField && a.t.chanState[v.name] {
				a.accessRole(a.t.fields[v.name]+".open", true) // close ends the channel's open state
			}
			return fval{}
		}
	}
	a.useArgs(args)
	return fval{}
}

// splice: a method of the same receiver is called; its body is analysed in place
func (a *fan) splice(fd *ast.FuncDecl, pos token.Pos) {
	if a.depth >= maxDepth {
		a.fail(pos, "call depth limit %d exceeded", maxDepth)
	}
	if a.active[fd] {
		a.fail(pos, "recursive call cycle through %s", fd.Name.Name)
	}
	if fd.Body == nil {
		a.fail(pos, "method %s has no body", fd.Name.Name)
	}
	recv := fd.Recv.List[0]
	if _, ptr := baseTypeName(recv.Type); !ptr {
		a.fail(pos, "method %s has a value receiver (copies the struct)", fd.Name.Name)
	}
	for _, prm := range fd.Type.Params.List {
		if mentionsType(prm.Type, a.t.typeName) {
			a.fail(pos, "method %s takes a parameter of the target type", fd.Name.Name)
		}
	}
	var rid *ast.Ident
	if len(recv.Names) == 1 && recv.Names[0].Name != "_" {
		rid = recv.Names[0]
	}
	a.inline(fd, rid)
}

// inline analyses the body of fd in place, with rid (if any) denoting the receiver
func (a *fan) inline(fd *ast.FuncDecl, rid *ast.Ident) {
	saveFr, saveLoops, saveBreaks, saveLabels := a.fr, a.loops, a.breaks, a.labels
	a.fr = &fframe{}
	a.loops, a.breaks, a.labels = nil, nil, map[string][]fheld{}
	a.active[fd] = true
	a.sp.reached[fd] = true
	a.depth++
	if rid != nil && a.bindAs != "" {
		o := a.fc.info.Defs[rid]
		if o == nil {
			a.fail(rid.Pos(), "cannot resolve %s", rid.Name)
		}
		a.prefix[o] = a.bindAs
	} else if rid != nil {
		a.bindRecv(rid)
		if o := a.fc.info.Defs[rid]; o != nil && a.callObj != nil {
			a.root[o] = a.rootOf(a.callObj) // foreign mode: the callee's receiver IS the caller's variable
		}
	}
	a.callObj, a.bindAs = nil, ""
	a.block(fd.Body.List)
	a.endFrame(fd.Body.Rbrace)
	a.depth--
	delete(a.active, fd)
	a.fr, a.loops, a.breaks, a.labels = saveFr, saveLoops, saveBreaks, saveLabels
}

// prefixMethod: the declaration of the method .Sel of the file-local struct type held in the part [prefix] of the target
func (a *fan) prefixMethod(prefix string, f *ast.SelectorExpr, pos token.Pos) *ast.FuncDecl {
	tn := a.localTypeOf(f.X)
	if tn == "" {
		tn = a.t.prefixTypes[prefix]
	}
	fd := a.fc.methods[tn][f.Sel.Name]
	if tn == "" || fd == nil {
		a.fail(pos, "method call .%s on %s, which holds a lock or a guarded field, cannot be resolved in this file", f.Sel.Name, prefix)
	}
	return fd
}

func (a *fan) splicePrefix(fd *ast.FuncDecl, prefix string, pos token.Pos) {
	if a.depth >= maxDepth {
		a.fail(pos, "call depth limit %d exceeded", maxDepth)
	}
	if a.active[fd] {
		a.fail(pos, "recursive call cycle through %s", fd.Name.Name)
	}
	if fd.Body == nil {
		a.fail(pos, "method %s has no body", fd.Name.Name)
	}
	recv := fd.Recv.List[0]
	if _, ptr := baseTypeName(recv.Type); !ptr {
		a.fail(pos, "method %s has a value receiver (copies the struct that holds a lock or a guarded field)", fd.Name.Name)
	}
	var rid *ast.Ident
	if len(recv.Names) == 1 && recv.Names[0].Name != "_" {
		rid = recv.Names[0]
	}
	a.bindAs = prefix
	a.inline(fd, rid)
}

// inlineForeign: foreign mode — a function of the file, or a method of another type of the file, is analysed in place
// without a receiver binding (objects of the target type are recognised by their type)
func (a *fan) inlineForeign(fd *ast.FuncDecl, pos token.Pos) {
	if a.depth >= maxDepth {
		a.fail(pos, "call depth limit %d exceeded", maxDepth)
	}
	if a.active[fd] {
		a.fail(pos, "recursive call cycle through %s", fd.Name.Name)
	}
	if fd.Body == nil {
		a.fail(pos, "function %s has no body", fd.Name.Name)
	}
	a.callObj = nil
	a.inline(fd, nil)
}

// localTypeOf: name of the (pointer to a) named type of e if it has methods declared in this file
func (a *fan) localTypeOf(e ast.Expr) string {
	t := a.fc.info.TypeOf(e)
	if t == nil {
		return ""
	}
	t = types.Unalias(t)
	if p, ok := t.(*types.Pointer); ok {
		t = types.Unalias(p.Elem())
	}
	if n, ok := t.(*types.Named); ok && n.Obj() != nil && a.fc.methods[n.Obj().Name()] != nil {
		return n.Obj().Name()
	}
	return ""
}

// spliceFunc: a top-level function of the file is called with the receiver as its ri-th argument
func (a *fan) spliceFunc(fd *ast.FuncDecl, ri int, pos token.Pos) {
	if a.depth >= maxDepth {
		a.fail(pos, "call depth limit %d exceeded", maxDepth)
	}
	if a.active[fd] {
		a.fail(pos, "recursive call cycle through %s", fd.Name.Name)
	}
	if fd.Body == nil {
		a.fail(pos, "function %s has no body", fd.Name.Name)
	}
	var rid *ast.Ident
	k := 0
	for _, prm := range fd.Type.Params.List {
		names := prm.Names
		if len(names) == 0 {
			names = []*ast.Ident{nil}
		}
		for _, n := range names {
			if k == ri {
				base, ptr := baseTypeName(prm.Type)
				if base != a.t.typeName || !ptr {
					a.fail(pos, "function %s does not take the receiver as a pointer to %s", fd.Name.Name, a.t.typeName)
				}
				rid = n
			} else if mentionsType(prm.Type, a.t.typeName) {
				a.fail(pos, "function %s takes a second value of the target type", fd.Name.Name)
			}
			k++
		}
	}
	if rid != nil && rid.Name == "_" {
		rid = nil
	}
	a.inline(fd, rid)
}

func (a *fan) bindRecv(id *ast.Ident) {
	o := a.fc.info.Defs[id]
	if o == nil {
		a.fail(id.Pos(), "cannot resolve %s", id.Name)
	}
	a.recv[o] = true
	a.fr.bound = append(a.fr.bound, o)
}

// ---------------------------------------------------------------------------------------------
// statements
// ---------------------------------------------------------------------------------------------

func (a *fan) block(list []ast.Stmt) flow {
	for _, s := range list {
		if f := a.stmt(s); f != flowNext {
			return f
		}
	}
	return flowNext
}

func (a *fan) branch(pos token.Pos, what string, body func() flow) flow {
	s := copyState(a.st)
	f := body()
	if f == flowNext {
		a.requireSame(s, pos, what)
	} else {
		a.restore(s)
	}
	return f
}

func (a *fan) loopBody(pos token.Pos, body *ast.BlockStmt, post ast.Stmt) {
	s := copyState(a.st)
	a.loops = append(a.loops, s)
	a.breaks = append(a.breaks, s)
	a.branch(pos, "loop body", func() flow { return a.block(body.List) })
	a.loops = a.loops[:len(a.loops)-1]
	a.breaks = a.breaks[:len(a.breaks)-1]
	if post != nil {
		a.stmt(post)
		a.requireSame(s, pos, "loop post statement")
	}
}

func (a *fan) clauses(pos token.Pos, body *ast.BlockStmt) flow {
	s := copyState(a.st)
	a.breaks = append(a.breaks, s)
	hasDefault, all, n := false, flowReturn, 0
	isSelect := false
	for _, cl := range body.List {
		var cbody []ast.Stmt
		switch cc := cl.(type) {
		case *ast.CaseClause:
			if cc.List == nil {
				hasDefault = true
			}
			for _, x := range cc.List {
				if tv, ok := a.fc.info.Types[x]; ok && tv.IsType() {
					continue
				}
				a.use(x)
			}
			cbody = cc.Body
		case *ast.CommClause:
			isSelect = true
			if cc.Comm == nil {
				hasDefault = true
			} else {
				a.stmt(cc.Comm)
				a.requireSame(s, cc.Pos(), "communication of a select clause")
			}
			cbody = cc.Body
		default:
			a.fail(cl.Pos(), "unsupported clause %T", cl)
		}
		n++
		f := a.branch(cl.Pos(), "switch/select clause", func() flow { return a.block(cbody) })
		if f != flowReturn {
			all = flowNext
		}
	}
	a.breaks = a.breaks[:len(a.breaks)-1]
	if n > 0 && (hasDefault || isSelect) {
		return all // exactly one clause runs
	}
	return flowNext
}

// what an assignment target is: the field it writes ("" = none)
func (a *fan) lhsPre(l ast.Expr) string {
	l = unparen(l)
	switch l := l.(type) {
	case *ast.Ident:
		if l.Name == "_" {
			return ""
		}
		if o := a.objOf(l); o != nil && a.recv[o] {
			a.fail(l.Pos(), "assignment to the receiver variable")
		}
		return ""
	case *ast.SelectorExpr:
		switch v := a.resolve(l); v.k {
		case vField:
			return v.name
		case vLock:
			a.fail(l.Pos(), "assignment to lock %s", v.name)
		case vMethod:
			a.fail(l.Pos(), "assignment to a method")
		case vPrefix:
			a.fail(l.Pos(), "assignment to %s, which holds a lock or a guarded field", v.name)
		}
		if k := a.resolve(l.X).k; k == vRecv || k == vPrefix {
			return "" // an untracked field of the receiver
		}
		// recv.F.x = v : writes into what F points to
		if v := a.resolve(l.X); v.k == vField {
			switch a.kinds[v.name] {
			case kCell:
				a.access(v.name, false)
			case kObject:
				a.access(v.name, false)
				return v.name
			default:
				a.fail(l.Pos(), "selector on slice/map field %s", v.name)
			}
			return ""
		}
		a.use(l.X)
		return ""
	case *ast.IndexExpr:
		if v := a.resolve(l.X); v.k == vField {
			a.use(l.Index)
			a.access(v.name, false)
			if a.kinds[v.name] == kCell {
				return "" // element of what a pointer field points to: not the field
			}
			return v.name
		}
		a.use(l.X)
		a.use(l.Index)
		return ""
	case *ast.StarExpr:
		a.use(l.X)
		return ""
	}
	a.fail(l.Pos(), "unsupported assignment target %T", l)
	return ""
}

func (a *fan) assign(lhs, rhs []ast.Expr, tok token.Token, pos token.Pos) {
	if tok != token.ASSIGN && tok != token.DEFINE { // op=
		if len(lhs) != 1 || len(rhs) != 1 {
			a.fail(pos, "malformed assignment")
		}
		f := a.lhsPre(lhs[0])
		if f != "" {
			a.access(f, false)
		}
		a.use(rhs[0])
		if f != "" {
			a.access(f, true)
		}
		return
	}
	ts := make([]string, len(lhs))
	for i, l := range lhs {
		ts[i] = a.lhsPre(l)
	}
	if len(lhs) == len(rhs) {
		for i, r := range rhs {
			v := a.expr(r)
			if v.k == vAppend {
				if ts[i] != v.name {
					a.fail(r.Pos(), "result of append(%s, ...) is not assigned back to the field", v.name)
				}
				continue
			}
			a.useVal(v, r.Pos())
		}
	} else {
		a.useArgs(rhs)
	}
	for _, f := range ts {
		if f != "" {
			a.access(f, true)
		}
	}
}

func (a *fan) stmt(s ast.Stmt) flow {
	switch s := s.(type) {
	case nil, *ast.EmptyStmt:
		return flowNext
	case *ast.ExprStmt:
		a.use(s.X)
		return flowNext
	case *ast.AssignStmt:
		a.assign(s.Lhs, s.Rhs, s.Tok, s.Pos())
		return flowNext
	case *ast.IncDecStmt:
		if f := a.lhsPre(s.X); f != "" {
			a.access(f, false)
			a.access(f, true)
		}
		return flowNext
	case *ast.DeclStmt:
		gd, ok := s.Decl.(*ast.GenDecl)
		if !ok {
			a.fail(s.Pos(), "unsupported declaration")
		}
		if gd.Tok == token.VAR {
			for _, sp := range gd.Specs {
				a.useArgs(sp.(*ast.ValueSpec).Values)
			}
		}
		return flowNext
	case *ast.SendStmt:
		a.use(s.Chan)
		a.use(s.Value)
		if v := a.resolve(s.Chan); v.k == vField && a.t.chanState[v.name] {
			a.accessRole(a.t.fields[v.name]+".open", false) // a send needs the channel to be open
		}
		return flowNext
	case *ast.BlockStmt:
		return a.block(s.List)
	case *ast.LabeledStmt:
		a.labels[s.Label.Name] = copyState(a.st)
		return a.stmt(s.Stmt)
	case *ast.ReturnStmt:
		a.useArgs(s.Results)
		a.checkReturn(s.Pos())
		return flowReturn
	case *ast.BranchStmt:
		var ref [][]fheld
		switch s.Tok {
		case token.GOTO:
			a.fail(s.Pos(), "goto")
		case token.CONTINUE:
			ref = a.loops
		default:
			ref = a.breaks
		}
		if s.Label != nil {
			ls, ok := a.labels[s.Label.Name]
			if !ok {
				a.fail(s.Pos(), "unknown label %s", s.Label.Name)
			}
			a.requireSame(ls, s.Pos(), "labelled "+s.Tok.String())
		} else {
			if len(ref) == 0 {
				a.fail(s.Pos(), "%s outside of a loop/switch", s.Tok)
			}
			a.requireSame(ref[len(ref)-1], s.Pos(), s.Tok.String())
		}
		return flowJump
	case *ast.IfStmt:
		a.stmt(s.Init)
		a.use(s.Cond)
		f1 := a.branch(s.Body.Pos(), "if branch", func() flow { return a.block(s.Body.List) })
		f2 := flowNext
		if s.Else != nil {
			f2 = a.branch(s.Else.Pos(), "else branch", func() flow { return a.stmt(s.Else) })
		}
		return joinFlow(f1, f2)
	case *ast.ForStmt:
		a.stmt(s.Init)
		a.use(s.Cond)
		a.loopBody(s.Pos(), s.Body, s.Post)
		return flowNext
	case *ast.RangeStmt:
		n0, overContainer := a.nlock, false
		if f, ok := a.containerArg(s.X); ok {
			a.access(f, false)
			overContainer = true
		} else {
			a.use(s.X)
		}
		if s.Tok == token.ASSIGN {
			for _, x := range []ast.Expr{s.Key, s.Value} {
				if x != nil {
					if f := a.lhsPre(x); f != "" {
						a.access(f, true)
					}
				}
			}
		}
		a.loopBody(s.Pos(), s.Body, nil)
		if overContainer && a.nlock != n0 {
			a.fail(s.Pos(), "lock operations inside a range over a tracked slice/map (its elements are read during the whole loop)")
		}
		return flowNext
	case *ast.SwitchStmt:
		a.stmt(s.Init)
		a.use(s.Tag)
		return a.clauses(s.Pos(), s.Body)
	case *ast.TypeSwitchStmt:
		a.stmt(s.Init)
		var x ast.Expr
		switch as := s.Assign.(type) {
		case *ast.ExprStmt:
			x = as.X
		case *ast.AssignStmt:
			if len(as.Rhs) == 1 {
				x = as.Rhs[0]
			}
		}
		ta, ok := unparen(x).(*ast.TypeAssertExpr)
		if !ok {
			a.fail(s.Pos(), "unsupported type switch")
		}
		a.use(ta.X)
		return a.clauses(s.Pos(), s.Body)
	case *ast.SelectStmt:
		return a.clauses(s.Pos(), s.Body)
	case *ast.DeferStmt:
		a.deferStmt(s)
		return flowNext
	case *ast.GoStmt:
		a.goStmt(s)
		return flowNext
	}
	a.fail(s.Pos(), "unsupported statement %T", s)
	return flowNext
}

func (a *fan) deferStmt(s *ast.DeferStmt) {
	fun := unparen(s.Call.Fun)
	if lit, ok := fun.(*ast.FuncLit); ok {
		a.useArgs(s.Call.Args)
		a.fr.deferred = append(a.fr.deferred, lit)
		return
	}
	if sel, ok := fun.(*ast.SelectorExpr); ok {
		switch v := a.resolve(sel.X); v.k {
		case vLock:
			a.lockObj = v.obj
			if len(s.Call.Args) == 0 && sel.Sel.Name == "Unlock" {
				a.deferRelease(s.Pos(), v.name, "Wr")
				return
			}
			if len(s.Call.Args) == 0 && sel.Sel.Name == "RUnlock" {
				a.deferRelease(s.Pos(), v.name, "Rd")
				return
			}
			a.fail(s.Pos(), "defer of .%s on lock %s", sel.Sel.Name, v.name)
		case vRecv:
			if sl := a.fc.info.Selections[sel]; sl == nil || sl.Kind() != types.FieldVal {
				a.fail(s.Pos(), "defer of a method of the receiver")
			}
		}
	}
	// any other deferred call: function value and arguments are evaluated now; the callee is not tracked
	a.useVal(a.call(s.Call), s.Pos())
}

const maxSpawnDepth = 4

// newSpawn registers the goroutine started at this go statement as an entry "<entry>.go<k>" of its own
func (a *fan) newSpawn(site ast.Node, sp spawn) {
	if a.sites[site] {
		return // the same go statement again (loop, or the helper containing it inlined twice in this entry)
	}
	a.sites[site] = true
	a.nspawn++
	sp.name = fmt.Sprintf("%s.go%d", a.name, a.nspawn)
	sp.depth = a.sdepth + 1
	a.sp.list = append(a.sp.list, sp)
}

func (a *fan) goStmt(s *ast.GoStmt) {
	fun := unparen(s.Call.Fun)
	if lit, ok := fun.(*ast.FuncLit); ok {
		a.useArgs(s.Call.Args)
		var rs []types.Object
		for o := range a.recv {
			rs = append(rs, o)
		}
		ps := map[types.Object]string{}
		for o, p := range a.prefix {
			ps[o] = p
		}
		a.newSpawn(s, spawn{lit: lit, recv: rs, prefixes: ps})
		return
	}
	if sel, ok := fun.(*ast.SelectorExpr); ok && a.resolve(sel.X).k == vRecv {
		sl := a.fc.info.Selections[sel]
		fd := a.fc.methods[a.t.typeName][sel.Sel.Name]
		if sl != nil && sl.Kind() == types.MethodVal && fd != nil {
			a.useArgs(s.Call.Args) // evaluated by the caller
			if !ast.IsExported(fd.Name.Name) {
				// a private method run as a goroutine: an instance of its own, named after the spawning entry
				a.sp.reached[fd] = true
				a.newSpawn(s, spawn{fd: fd})
			} // an exported method is an entry of the skeleton anyway
			return
		}
		a.fail(s.Pos(), "go statement on something of the receiver that is not one of its methods")
	}
	if sel, ok := fun.(*ast.SelectorExpr); ok {
		if xv := a.resolve(sel.X); xv.k == vPrefix {
			fd := a.prefixMethod(xv.name, sel, s.Pos())
			if _, ptr := baseTypeName(fd.Recv.List[0].Type); !ptr {
				a.fail(s.Pos(), "method %s has a value receiver (copies the struct that holds a lock or a guarded field)", fd.Name.Name)
			}
			a.useArgs(s.Call.Args)
			a.sp.reached[fd] = true
			a.newSpawn(s, spawn{fd: fd, prefix: xv.name})
			return
		}
	}
	// a goroutine running an untracked function: arguments are evaluated here (the receiver must not be among them)
	a.use(fun)
	a.useArgs(s.Call.Args)
}

// ---------------------------------------------------------------------------------------------
// driver
// ---------------------------------------------------------------------------------------------

func (a *fan) finish() []*fsection {
	var r []*fsection
	for _, s := range a.secs {
		if len(s.accs) > 0 || len(s.held) > 0 {
			r = append(r, s)
		}
	}
	return r
}

func newFan(fc *fileCtx, t ftarget, lockRW map[string]bool, kinds map[string]fieldKind, sp *spawnSet, name string) *fan {
	ro := map[string]map[string]bool{}
	for f, ms := range t.objects {
		ro[f] = map[string]bool{}
		for _, m := range ms {
			ro[f][m] = true
		}
	}
	return &fan{fc: fc, t: t, lockRW: lockRW, kinds: kinds, ro: ro, recv: map[types.Object]bool{},
		active: map[*ast.FuncDecl]bool{}, labels: map[string][]fheld{}, sp: sp, name: name, sites: map[ast.Node]bool{},
		root: map[types.Object]types.Object{}, prefix: map[types.Object]string{}}
}

func catch(fc *fileCtx, e *fentry) {
	if r := recover(); r != nil {
		f, ok := r.(failure)
		if !ok {
			panic(r)
		}
		e.unknown, e.secs = true, nil
		e.reason = fmt.Sprintf("%s: %s", fc.fset.Position(f.pos), f.msg)
	}
}

// paramIdent: the identifier of the k-th parameter of fd (nil if unnamed)
func paramIdent(fd *ast.FuncDecl, k int) *ast.Ident {
	i := 0
	for _, prm := range fd.Type.Params.List {
		names := prm.Names
		if len(names) == 0 {
			names = []*ast.Ident{nil}
		}
		for _, n := range names {
			if i == k {
				return n
			}
			i++
		}
	}
	return nil
}

// analyseBody: one entry of the skeleton = the body of a method/function (rid denotes the receiver) or of a closure
// (the objects recv denote the receiver), started with no lock held
func analyseBody(fc *fileCtx, t ftarget, lockRW map[string]bool, kinds map[string]fieldKind, sp *spawnSet,
	name string, fd *ast.FuncDecl, rid *ast.Ident, lit *ast.FuncLit, recv []types.Object, sdepth int,
	prefix string, prefixes map[types.Object]string) (e fentry) {
	e.name = name
	defer catch(fc, &e)
	a := newFan(fc, t, lockRW, kinds, sp, name)
	a.sdepth = sdepth
	a.fr = &fframe{}
	var body *ast.BlockStmt
	if fd != nil {
		a.active[fd] = true
		body = fd.Body
		if body == nil {
			a.fail(fd.Pos(), "no body")
		}
		if rid != nil && rid.Name != "_" {
			if prefix != "" { // a method of a struct held inside the target: its receiver is that part
				if o := fc.info.Defs[rid]; o != nil {
					a.prefix[o] = prefix
				}
			} else {
				a.bindRecv(rid)
			}
		}
	} else {
		body = lit.Body
		for _, o := range recv {
			a.recv[o] = true
		}
		for o, p := range prefixes {
			a.prefix[o] = p
		}
	}
	if sdepth > maxSpawnDepth {
		a.fail(body.Pos(), "goroutines nested more than %d deep", maxSpawnDepth)
	}
	a.block(body.List)
	a.endFrame(body.Rbrace)
	if len(a.st) != 0 {
		a.fail(body.Rbrace, "ends with a lock held")
	}
	e.secs = a.finish()
	return e
}

// ctorSpawns: goroutines that a function WITHOUT the target as receiver/parameter (a constructor) starts on a value
// of the target type.  The constructor itself runs before the object is shared and is not analysed; what it starts
// with `go` outlives it: "<Ctor>.go<i>", i = position of the go statement in the function.
func ctorSpawns(fc *fileCtx, t ftarget, sp *spawnSet, fd *ast.FuncDecl) (spawns []spawn, bad []fentry) {
	if fd.Body == nil {
		return
	}
	i := 0
	ast.Inspect(fd.Body, func(n ast.Node) bool {
		g, ok := n.(*ast.GoStmt)
		if !ok {
			return true
		}
		i++
		name := fmt.Sprintf("%s.go%d", fd.Name.Name, i)
		var objs []types.Object
		seen := map[types.Object]bool{}
		ast.Inspect(g, func(m ast.Node) bool {
			if id, ok := m.(*ast.Ident); ok && isTargetValue(fc, id, t.typeName) {
				o := fc.info.Uses[id]
				if o == nil {
					o = fc.info.Defs[id]
				}
				if !seen[o] {
					seen[o] = true
					objs = append(objs, o)
				}
			}
			return true
		})
		if len(objs) == 0 {
			return false // a goroutine that does not know the object
		}
		fun := unparen(g.Call.Fun)
		argsClean := true
		for _, arg := range g.Call.Args {
			ast.Inspect(arg, func(m ast.Node) bool {
				if id, ok := m.(*ast.Ident); ok && isTargetValue(fc, id, t.typeName) {
					argsClean = false
				}
				return true
			})
		}
		switch f := fun.(type) {
		case *ast.FuncLit:
			if argsClean {
				spawns = append(spawns, spawn{name: name, lit: f, recv: objs, depth: 1})
				return false
			}
		case *ast.SelectorExpr:
			if id, ok := unparen(f.X).(*ast.Ident); ok && isTargetValue(fc, id, t.typeName) && argsClean {
				if m := fc.methods[t.typeName][f.Sel.Name]; m != nil {
					if !ast.IsExported(m.Name.Name) {
						sp.reached[m] = true
						spawns = append(spawns, spawn{name: name, fd: m, depth: 1})
					} // an exported method is an entry anyway
					return false
				}
			}
		}
		bad = append(bad, fentry{name: name, unknown: true,
			reason: fmt.Sprintf("%s: goroutine started on a %s in a form that is not understood", fc.fset.Position(g.Pos()), t.typeName)})
		return false
	})
	return
}

// The skeleton has one entry per EXPORTED method/function of the target (public names are API and stable).
// Unexported methods, and functions of the file that are handed the receiver, are analysed IN PLACE where they are
// called, so extracting, merging or renaming private helpers does not change the skeleton.  A goroutine started by an
// entry is an entry "<entry>.go<k>" of its own (k-th go statement met while analysing that entry); goroutines a
// constructor starts are "<Ctor>.go<i>".  An unexported method that nothing reaches still gets an entry of its own
// (it may be called from another file of the package).
func analyseFieldTarget(fc *fileCtx, t ftarget) []fentry {
	lockRW, kinds, verr := fc.resolve(&t)
	sp := &spawnSet{reached: map[*ast.FuncDecl]bool{}, funcs: map[string]*ast.FuncDecl{}}
	cands, others := discover(fc, t.typeName)
	for _, d := range fc.file.Decls {
		if fd, ok := d.(*ast.FuncDecl); ok && fd.Recv == nil {
			sp.funcs[fd.Name.Name] = fd
		}
	}
	name := func(fd *ast.FuncDecl) string { return fd.Name.Name }
	if t.foreign {
		// every function of the file is an entry (exported) or analysed in place (unexported); methods are named Type.Method
		cands, others = nil, nil
		for _, d := range fc.file.Decls {
			fd, ok := d.(*ast.FuncDecl)
			if !ok {
				continue
			}
			c := cand{fd: fd}
			if fd.Recv != nil && len(fd.Recv.List) == 1 {
				base, ptr := baseTypeName(fd.Recv.List[0].Type)
				if base == t.typeName {
					if !ptr {
						c.bad = "value receiver (copies the struct)"
					}
					if len(fd.Recv.List[0].Names) == 1 {
						c.recv = fd.Recv.List[0].Names[0]
					}
				}
			}
			cands = append(cands, c)
		}
		name = func(fd *ast.FuncDecl) string {
			if fd.Recv != nil && len(fd.Recv.List) == 1 {
				if base, _ := baseTypeName(fd.Recv.List[0].Type); base != "" {
					return base + "." + fd.Name.Name
				}
			}
			return fd.Name.Name
		}
	}
	var out []fentry
	drain := func() { // goroutines started by what was analysed so far (they may start further ones)
		for len(sp.list) > 0 {
			s := sp.list[0]
			sp.list = sp.list[1:]
			var rid *ast.Ident
			if s.fd != nil && s.fd.Recv != nil && len(s.fd.Recv.List[0].Names) == 1 {
				rid = s.fd.Recv.List[0].Names[0]
			}
			out = append(out, analyseBody(fc, t, lockRW, kinds, sp, s.name, s.fd, rid, s.lit, s.recv, s.depth, s.prefix, s.prefixes))
		}
	}
	pass := func(exported bool) {
		for _, c := range cands {
			if ast.IsExported(c.fd.Name.Name) != exported || (!exported && sp.reached[c.fd]) {
				continue
			}
			switch {
			case verr != nil:
				out = append(out, fentry{name: name(c.fd), unknown: true, reason: verr.Error()})
			case c.bad != "":
				out = append(out, fentry{name: name(c.fd), unknown: true,
					reason: fmt.Sprintf("%s: %s", fc.fset.Position(c.fd.Pos()), c.bad)})
			default:
				out = append(out, analyseBody(fc, t, lockRW, kinds, sp, name(c.fd), c.fd, c.recv, nil, nil, 0, "", nil))
				drain()
			}
		}
	}
	pass(true)
	if verr == nil {
		for _, fd := range others {
			spawns, bad := ctorSpawns(fc, t, sp, fd)
			out = append(out, bad...)
			sp.list = append(sp.list, spawns...)
			drain()
		}
	}
	pass(false)
	if verr == nil {
		// methods of the file-local structs that hold a lock or a tracked field, reached from nowhere: entries of their
		// own ("Type.method"), the receiver bound to that part of the target
		var prefixes []string
		for p := range t.prefixTypes {
			prefixes = append(prefixes, p)
		}
		sort.Strings(prefixes)
		for _, pfx := range prefixes {
			tn := t.prefixTypes[pfx]
			for _, d := range fc.file.Decls {
				fd, ok := d.(*ast.FuncDecl)
				if !ok || fd.Recv == nil || len(fd.Recv.List) != 1 || sp.reached[fd] {
					continue
				}
				base, ptr := baseTypeName(fd.Recv.List[0].Type)
				if base != tn || tn == "" {
					continue
				}
				if !ptr {
					out = append(out, fentry{name: tn + "." + fd.Name.Name, unknown: true,
						reason: fmt.Sprintf("%s: value receiver (copies the struct that holds a lock or a guarded field)", fc.fset.Position(fd.Pos()))})
					continue
				}
				var rid *ast.Ident
				if len(fd.Recv.List[0].Names) == 1 {
					rid = fd.Recv.List[0].Names[0]
				}
				sp.reached[fd] = true
				out = append(out, analyseBody(fc, t, lockRW, kinds, sp, tn+"."+fd.Name.Name, fd, rid, nil, nil, 0, pfx, nil))
				drain()
			}
		}
	}
	if verr != nil && len(out) == 0 {
		out = append(out, fentry{name: "<" + t.typeName + ">", unknown: true, reason: verr.Error()})
	}
	return out
}

func renderFields(w *bytes.Buffer, t ftarget, es []fentry) {
	if t.comment != "" {
		fmt.Fprintf(w, "(* %s *)\n", t.comment)
	}
	if len(es) == 0 {
		fmt.Fprintf(w, "Definition %s : skeleton := [].\n", t.defName)
		return
	}
	fmt.Fprintf(w, "Definition %s : skeleton := [\n", t.defName)
	for i, e := range es {
		var secs []string
		if e.unknown {
			secs = []string{"Unknown"}
		}
		for _, s := range e.secs {
			var hs, as []string
			for _, h := range s.held {
				hs = append(hs, fmt.Sprintf("(%q, %s)", h[0], h[1]))
			}
			for _, x := range s.accs {
				as = append(as, fmt.Sprintf("{| loc := %q; wr := %v |}", x.loc, x.wr))
			}
			secs = append(secs, fmt.Sprintf("Sec [%s] [%s]", strings.Join(hs, "; "), strings.Join(as, "; ")))
		}
		sep := ";"
		if i == len(es)-1 {
			sep = ""
		}
		fmt.Fprintf(w, "  (%q, [%s])%s\n", e.name, strings.Join(secs, "; "), sep)
	}
	fmt.Fprintf(w, "].\n")
}

// generateGroup returns the Coq text of one generated file and the summaries / Unknown reasons
func generateGroup(repo string, g fgroup) ([]byte, []string, []string, error) {
	var buf bytes.Buffer
	seen := map[string]bool{}
	var files []string
	for _, t := range g.targets {
		if !seen[t.file] {
			seen[t.file] = true
			files = append(files, t.file)
		}
	}
	fmt.Fprintf(&buf, "(* GENERATED by translator/lockskel (field mode) from %s. Do not edit. *)\n", strings.Join(files, " and "))
	buf.WriteString("From Coq Require Import List String.\nFrom TC.Lib Require Import Conc.\nImport ListNotations.\nLocal Open Scope string_scope.\n")
	var summary, reasons []string
	for _, t := range g.targets {
		mod := ""
		if t.foreign {
			mod = repo // objects of the target type may come out of containers of other packages of the module
		}
		fc, err := loadFileIn(filepath.Join(repo, filepath.FromSlash(t.file)), mod)
		if err != nil {
			return nil, nil, nil, err
		}
		es := analyseFieldTarget(fc, t)
		unk := 0
		for _, e := range es {
			if e.unknown {
				unk++
				reasons = append(reasons, fmt.Sprintf("%s.%s (%s): Unknown: %s", t.typeName, e.name, t.defName, e.reason))
			}
		}
		summary = append(summary, fmt.Sprintf("%s: %d entries, %d Unknown -> %s", t.typeName, len(es), unk, t.defName))
		buf.WriteString("\n")
		renderFields(&buf, t, es)
	}
	return buf.Bytes(), summary, reasons, nil
}
