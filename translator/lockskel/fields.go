// Field-level lock skeletons (second analysis mode of lockskel).
//
// The first mode (main.go) follows ONE guarded location of a type with ONE RWMutex deep into helper
// objects (SafeMap.m, GenericStack.stack.entries).  This mode looks at SEVERAL fields of a struct guarded by
// SEVERAL mutexes and records, per method, under which locks each field of the receiver is read or written:
//
//	location  = a field of the receiver (the field cell; for slice/map fields also their content)
//	read      = the field is mentioned in an rvalue: recv.F, recv.F.M(...), recv.F[i], len(recv.F), range recv.F ...
//	            A method call THROUGH a pointer field is a read of the field only: the callee synchronises itself
//	            (for the cache: GenericStack and SafeMap, which are C11's and C07's subject).
//	write     = recv.F = e, recv.F op= e, recv.F++, recv.F[i] = e, append to / copy into / delete from recv.F
//	locks     = recv.L.Lock/Unlock/RLock/RUnlock and `defer recv.L.(R)Unlock()` on the listed sync.Mutex / sync.RWMutex
//	            fields; a sync.Mutex is a lock that only has the write mode
//	go f()    = `go recv.M(...)` starts another instance of an analysed method (nothing happens in the caller);
//	            `go func(){...}()` becomes a pseudo-method "<Func>.func<i>" (Go's own numbering) with no lock held
//	defer     = deferred unlocks fire at every return; a deferred closure is analysed at the end of the function with
//	            NO lock held (dropping locks is conservative)
//
// Fail closed: the receiver, a lock or a slice/map field used in any other way (stored, passed on, returned,
// address taken, captured by a closure that is not started by go/defer, sliced, ...) makes the method [Unknown].
package main

import (
	"bytes"
	"fmt"
	"go/ast"
	"go/token"
	"go/types"
	"path/filepath"
	"strings"
)

type ftarget struct {
	file     string
	typeName string
	locks    []string            // fields of typeName of type (*)sync.Mutex or (*)sync.RWMutex
	fields   []string            // tracked fields
	objects  map[string][]string // exploration only: pointer fields to objects WITHOUT own synchronisation -> their read-only methods
	defName  string
	comment  string
}

type fgroup struct {
	outFile string
	targets []ftarget
}

var cacheFields = []string{"partitions", "valuePartitionIndex", "currentPartitionId", "maxPartitions", "partitionCapacity", "config"}

var fgroups = []fgroup{
	{"CacheSkeleton_gen.v", []ftarget{{
		file: "storage/fifoMapCache.go", typeName: "FifoMapCache",
		locks: []string{"currentPartitionMux", "sweepingMux"}, fields: cacheFields,
		defName: "cache_skeleton",
		comment: "FifoMapCache: fields partitions, valuePartitionIndex, currentPartitionId, maxPartitions, partitionCapacity, config;\n   locks currentPartitionMux (RWMutex), sweepingMux (Mutex).  Calls into GenericStack / SafeMap are reads of the field.",
	}}},
	{"WQSkeleton_gen.v", []ftarget{{
		file: "workqueue/queue.go", typeName: "Queue",
		locks: []string{"errSubScriberMux"}, fields: []string{"errorSubscribers"},
		defName: "wq_err_skeleton",
		comment: "Queue.errorSubscribers under errSubScriberMux (property C14).",
	}, {
		file: "workqueue/queue.go", typeName: "Queue",
		locks: []string{"errSubScriberMux"}, fields: []string{"breaked", "workQueue"},
		objects: map[string][]string{"workQueue": {"Len"}},
		defName: "wq_shared_skeleton",
		comment: "EXPLORATION ONLY (no property depends on it): the plain bool Queue.breaked and the heap object behind\n   Queue.workQueue, which has no synchronisation of its own (every method call except Len counts as a write).",
	}}},
}

type fieldKind int

const (
	kCell      fieldKind = iota // pointer / scalar / func / chan / interface: copying the value is just a read
	kContainer                  // slice or map: the content is part of the location, aliases are not allowed
	kObject                     // pointer to an unsynchronised object: calls through it are accesses of the object
)

type fheld struct {
	name, mode string
	owner      *fframe
	covered    bool // a deferred release is registered
}

type fsection struct {
	held [][2]string
	accs []access
}

type fentry struct {
	name    string
	unknown bool
	reason  string
	secs    []*fsection
}

type fframe struct {
	deferred []*ast.FuncLit
	bound    []types.Object
}

type vkind int

const (
	vNone vkind = iota
	vRecv
	vLock
	vField
	vMethod
	vAppend
)

type fval struct {
	k    vkind
	name string
}

type spawn struct {
	name string
	lit  *ast.FuncLit
	recv []types.Object
}

type spawnSet struct {
	seen  map[*ast.FuncLit]bool
	list  []spawn
	names map[*ast.FuncLit]string // Go-style closure names, computed per FuncDecl
}

type fan struct {
	fc     *fileCtx
	t      ftarget
	lockRW map[string]bool
	kinds  map[string]fieldKind
	ro     map[string]map[string]bool
	recv   map[types.Object]bool
	st     []fheld
	fr     *fframe
	depth  int
	active map[*ast.FuncDecl]bool
	secs   []*fsection
	cur    *fsection
	loops  [][]fheld
	breaks [][]fheld
	labels map[string][]fheld
	nlock  int // number of lock events so far
	sp     *spawnSet
}

func (a *fan) fail(pos token.Pos, format string, args ...interface{}) {
	panic(failure{pos, fmt.Sprintf(format, args...)})
}

// ---------------------------------------------------------------------------------------------
// validation of the target table against the declarations
// ---------------------------------------------------------------------------------------------

func (fc *fileCtx) validateFields(t ftarget) (map[string]bool, map[string]fieldKind, error) {
	st := fc.structs[t.typeName]
	if st == nil {
		return nil, nil, fmt.Errorf("struct type %s not declared", t.typeName)
	}
	lockRW := map[string]bool{}
	for _, l := range t.locks {
		lt := structField(st, l)
		if lt == nil {
			return nil, nil, fmt.Errorf("%s has no field %s", t.typeName, l)
		}
		if se, ok := lt.(*ast.StarExpr); ok {
			lt = se.X
		}
		sel, ok := lt.(*ast.SelectorExpr)
		pk, ok2 := ast.Expr(nil), false
		if ok {
			pk, ok2 = sel.X, true
		}
		id, ok3 := pk.(*ast.Ident)
		if !ok || !ok2 || !ok3 || fc.imports[id.Name] != "sync" || (sel.Sel.Name != "RWMutex" && sel.Sel.Name != "Mutex") {
			return nil, nil, fmt.Errorf("%s.%s is neither sync.Mutex nor sync.RWMutex", t.typeName, l)
		}
		lockRW[l] = sel.Sel.Name == "RWMutex"
	}
	kinds := map[string]fieldKind{}
	for _, f := range t.fields {
		ft := structField(st, f)
		if ft == nil {
			return nil, nil, fmt.Errorf("%s has no field %s", t.typeName, f)
		}
		if _, isLock := lockRW[f]; isLock {
			return nil, nil, fmt.Errorf("%s.%s is listed as lock and as field", t.typeName, f)
		}
		if _, obj := t.objects[f]; obj {
			if _, ptr := ft.(*ast.StarExpr); !ptr {
				return nil, nil, fmt.Errorf("%s.%s is declared an object but is not a pointer", t.typeName, f)
			}
			kinds[f] = kObject
			continue
		}
		switch x := ft.(type) {
		case *ast.StarExpr, *ast.FuncType, *ast.ChanType, *ast.InterfaceType:
			kinds[f] = kCell
		case *ast.ArrayType, *ast.MapType:
			kinds[f] = kContainer
		case *ast.Ident:
			switch x.Name {
			case "bool", "string", "int", "int8", "int16", "int32", "int64", "uint", "uint8", "uint16", "uint32", "uint64",
				"uintptr", "float32", "float64", "byte", "rune", "error":
				kinds[f] = kCell
			default:
				return nil, nil, fmt.Errorf("%s.%s has a named type (%s) whose kind is not known", t.typeName, f, x.Name)
			}
		default:
			return nil, nil, fmt.Errorf("%s.%s has an unsupported type %T", t.typeName, f, ft)
		}
	}
	return lockRW, kinds, nil
}

// ---------------------------------------------------------------------------------------------
// lock state and sections
// ---------------------------------------------------------------------------------------------

func copyState(s []fheld) []fheld { return append([]fheld(nil), s...) }

func sameState(x, y []fheld) bool {
	if len(x) != len(y) {
		return false
	}
	for i := range x {
		if x[i] != y[i] {
			return false
		}
	}
	return true
}

func (a *fan) heldList() [][2]string {
	var r [][2]string
	for _, h := range a.st {
		r = append(r, [2]string{h.name, h.mode})
	}
	return r
}

func (a *fan) access(loc string, wr bool) {
	if a.cur == nil {
		a.cur = &fsection{held: a.heldList()}
		a.secs = append(a.secs, a.cur)
	}
	x := access{loc, wr}
	for _, y := range a.cur.accs {
		if x == y {
			return
		}
	}
	a.cur.accs = append(a.cur.accs, x)
}

func (a *fan) find(name string) int {
	for i, h := range a.st {
		if h.name == name {
			return i
		}
	}
	return -1
}

func (a *fan) acquire(pos token.Pos, name, mode string) {
	a.nlock++
	if a.find(name) >= 0 {
		a.fail(pos, "lock %s acquired while it is already held (not re-entrant)", name)
	}
	if mode == "Rd" && !a.lockRW[name] {
		a.fail(pos, "RLock on %s, which is a sync.Mutex", name)
	}
	a.st = append(copyState(a.st), fheld{name: name, mode: mode, owner: a.fr})
	a.cur = &fsection{held: a.heldList()} // emitted even if it stays empty
	a.secs = append(a.secs, a.cur)
}

func (a *fan) release(pos token.Pos, name, mode string) {
	a.nlock++
	i := a.find(name)
	if i < 0 || a.st[i].mode != mode {
		a.fail(pos, "release of %s in mode %s while it is not held in that mode", name, mode)
	}
	if a.st[i].owner != a.fr {
		a.fail(pos, "release of lock %s acquired by a caller", name)
	}
	if a.st[i].covered {
		a.fail(pos, "explicit release of lock %s that also has a deferred release", name)
	}
	n := copyState(a.st)
	a.st = append(n[:i], n[i+1:]...)
	a.cur = nil
}

func (a *fan) deferRelease(pos token.Pos, name, mode string) {
	a.nlock++
	i := a.find(name)
	if i < 0 || a.st[i].mode != mode || a.st[i].owner != a.fr || a.st[i].covered {
		a.fail(pos, "deferred release of %s does not match a lock acquired in this function", name)
	}
	a.st = copyState(a.st)
	a.st[i].covered = true
}

func (a *fan) restore(s []fheld) {
	if !sameState(a.st, s) {
		a.cur = nil
		a.st = copyState(s)
	}
}

func (a *fan) requireSame(s []fheld, pos token.Pos, what string) {
	if !sameState(a.st, s) {
		a.fail(pos, "%s changes the lock state", what)
	}
}

func (a *fan) checkReturn(pos token.Pos) {
	for _, h := range a.st {
		if h.owner == a.fr && !h.covered {
			a.fail(pos, "return while lock %s is held by a non-deferred lock", h.name)
		}
	}
}

// endFrame: deferred unlocks fire; deferred closures run (analysed with no lock held: conservative)
func (a *fan) endFrame(pos token.Pos) {
	var keep []fheld
	for _, h := range a.st {
		if h.owner == a.fr {
			if !h.covered {
				a.fail(pos, "function ends while lock %s is held by a non-deferred lock", h.name)
			}
			continue
		}
		keep = append(keep, h)
	}
	if len(keep) != len(a.st) {
		a.st = keep
		a.cur = nil
	}
	fr := a.fr
	for i := len(fr.deferred) - 1; i >= 0; i-- {
		lit := fr.deferred[i]
		saved, savedLoops, savedBreaks, savedLabels := a.st, a.loops, a.breaks, a.labels
		a.st, a.cur = nil, nil
		a.loops, a.breaks, a.labels = nil, nil, map[string][]fheld{}
		a.fr = &fframe{}
		a.block(lit.Body.List)
		a.endFrame(lit.Body.Rbrace)
		if len(a.st) != 0 {
			a.fail(lit.Pos(), "deferred closure leaves a lock held")
		}
		a.fr = fr
		a.st, a.cur = saved, nil
		a.loops, a.breaks, a.labels = savedLoops, savedBreaks, savedLabels
	}
	for _, o := range fr.bound {
		delete(a.recv, o)
	}
}

// ---------------------------------------------------------------------------------------------
// expressions
// ---------------------------------------------------------------------------------------------

func (a *fan) objOf(id *ast.Ident) types.Object {
	if o := a.fc.info.Uses[id]; o != nil {
		return o
	}
	return a.fc.info.Defs[id]
}

func (a *fan) pkgOf(e ast.Expr) (string, bool) {
	id, ok := unparen(e).(*ast.Ident)
	if !ok {
		return "", false
	}
	switch o := a.objOf(id).(type) {
	case *types.PkgName:
		return o.Imported().Path(), true
	case nil:
		if p, ok := a.fc.imports[id.Name]; ok {
			return p, true
		}
	}
	return "", false
}

func (a *fan) classify(name string) fval {
	if _, ok := a.lockRW[name]; ok {
		return fval{vLock, name}
	}
	if _, ok := a.kinds[name]; ok {
		return fval{vField, name}
	}
	return fval{}
}

// resolve: what an expression denotes, WITHOUT producing events
func (a *fan) resolve(e ast.Expr) fval {
	switch e := unparen(e).(type) {
	case *ast.Ident:
		if o := a.objOf(e); o != nil && a.recv[o] {
			return fval{vRecv, ""}
		}
	case *ast.SelectorExpr:
		if a.resolve(e.X).k == vRecv {
			sel := a.fc.info.Selections[e]
			if sel == nil {
				a.fail(e.Pos(), "cannot resolve selector .%s on the receiver", e.Sel.Name)
			}
			if sel.Kind() == types.FieldVal && len(sel.Index()) == 1 {
				return a.classify(e.Sel.Name)
			}
			if sel.Kind() == types.MethodVal {
				return fval{vMethod, e.Sel.Name}
			}
			a.fail(e.Pos(), "unsupported selection .%s on the receiver", e.Sel.Name)
		}
	}
	return fval{}
}

func (a *fan) fieldRead(name string, pos token.Pos) {
	if a.kinds[name] == kContainer {
		a.fail(pos, "slice/map field %s used in an unrecognised form (would alias its content)", name)
	}
	a.access(name, false)
}

func (a *fan) useVal(v fval, pos token.Pos) {
	switch v.k {
	case vRecv:
		a.fail(pos, "the receiver escapes (stored, passed on or returned)")
	case vLock:
		a.fail(pos, "unrecognised use of lock %s", v.name)
	case vMethod:
		a.fail(pos, "method value %s of the receiver escapes", v.name)
	case vAppend:
		a.fail(pos, "result of append(%s, ...) is not assigned back to the field", v.name)
	case vField:
		a.fieldRead(v.name, pos)
	}
}

func (a *fan) use(e ast.Expr) {
	if e == nil {
		return
	}
	a.useVal(a.expr(e), e.Pos())
}

func (a *fan) useArgs(args []ast.Expr) {
	for _, x := range args {
		a.use(x)
	}
}

// rooted: does the operand of & reach into the receiver?
func (a *fan) rooted(e ast.Expr) bool {
	for {
		e = unparen(e)
		if a.resolve(e).k != vNone {
			return true
		}
		switch x := e.(type) {
		case *ast.IndexExpr:
			e = x.X
		case *ast.SliceExpr:
			e = x.X
		case *ast.SelectorExpr:
			e = x.X
		case *ast.StarExpr:
			e = x.X
		default:
			return false
		}
	}
}

func (a *fan) closureNoRecv(fl *ast.FuncLit) {
	ast.Inspect(fl, func(n ast.Node) bool {
		if id, ok := n.(*ast.Ident); ok {
			if o := a.objOf(id); o != nil && a.recv[o] {
				a.fail(id.Pos(), "the receiver is captured by a function literal that is not started by go/defer")
			}
		}
		return true
	})
}

func (a *fan) expr(e ast.Expr) fval {
	switch e := e.(type) {
	case nil:
		return fval{}
	case *ast.ParenExpr:
		return a.expr(e.X)
	case *ast.Ident:
		return a.resolve(e)
	case *ast.BasicLit:
		return fval{}
	case *ast.SelectorExpr:
		if _, ok := a.pkgOf(e.X); ok {
			return fval{}
		}
		if v := a.resolve(e); v.k != vNone {
			return v
		}
		if a.resolve(e.X).k == vRecv {
			return fval{} // a field of the receiver that is neither lock nor tracked: ignored
		}
		xv := a.expr(e.X)
		switch xv.k {
		case vField: // recv.F.x : reads F
			a.fieldRead(xv.name, e.Pos())
		default:
			a.useVal(xv, e.Pos())
		}
		return fval{}
	case *ast.IndexExpr:
		xv := a.expr(e.X)
		if xv.k == vField {
			a.access(xv.name, false)
		} else {
			a.useVal(xv, e.Pos())
		}
		a.use(e.Index)
		return fval{}
	case *ast.IndexListExpr:
		a.use(e.X)
		for _, i := range e.Indices {
			a.use(i)
		}
		return fval{}
	case *ast.SliceExpr:
		a.use(e.X) // a container field fails here: a sub-slice aliases the content
		a.use(e.Low)
		a.use(e.High)
		a.use(e.Max)
		return fval{}
	case *ast.StarExpr:
		a.use(e.X)
		return fval{}
	case *ast.UnaryExpr:
		if e.Op == token.AND && a.rooted(e.X) {
			a.fail(e.Pos(), "address of (part of) the receiver is taken")
		}
		a.use(e.X)
		return fval{}
	case *ast.BinaryExpr:
		a.use(e.X)
		a.use(e.Y)
		return fval{}
	case *ast.TypeAssertExpr:
		a.use(e.X)
		return fval{}
	case *ast.KeyValueExpr:
		a.use(e.Value)
		return fval{}
	case *ast.CompositeLit:
		for _, el := range e.Elts {
			if kv, ok := el.(*ast.KeyValueExpr); ok {
				if _, isId := kv.Key.(*ast.Ident); !isId {
					a.use(kv.Key)
				}
				a.use(kv.Value)
			} else {
				a.use(el)
			}
		}
		return fval{}
	case *ast.FuncLit:
		a.closureNoRecv(e)
		return fval{}
	case *ast.CallExpr:
		return a.call(e)
	case *ast.ArrayType, *ast.MapType, *ast.ChanType, *ast.FuncType, *ast.StructType, *ast.InterfaceType, *ast.Ellipsis:
		return fval{}
	}
	a.fail(e.Pos(), "unsupported expression %T", e)
	return fval{}
}

func (a *fan) lockOp(pos token.Pos, name, op string, nargs int) {
	if nargs != 0 {
		a.fail(pos, "unrecognised operation .%s on lock %s", op, name)
	}
	switch op {
	case "Lock":
		a.acquire(pos, name, "Wr")
	case "RLock":
		a.acquire(pos, name, "Rd")
	case "Unlock":
		a.release(pos, name, "Wr")
	case "RUnlock":
		a.release(pos, name, "Rd")
	default:
		a.fail(pos, "unrecognised operation .%s on lock %s", op, name)
	}
}

func (a *fan) call(c *ast.CallExpr) fval {
	fun := unparen(c.Fun)
	switch f := fun.(type) {
	case *ast.Ident:
		if _, ok := a.objOf(f).(*types.Builtin); ok {
			return a.builtin(f.Name, c)
		}
		if o := a.objOf(f); o == nil {
			switch f.Name { // type checking of the single file may not resolve everything
			case "len", "cap", "append", "copy", "delete", "clear", "make", "new":
				return a.builtin(f.Name, c)
			}
		}
	case *ast.SelectorExpr:
		if pkg, ok := a.pkgOf(f.X); ok {
			if pkg == "container/heap" && len(c.Args) >= 1 {
				if v := a.resolve(c.Args[0]); v.k == vField && a.kinds[v.name] == kObject {
					a.access(v.name, false)
					a.access(v.name, true)
					a.useArgs(c.Args[1:])
					return fval{}
				}
			}
			a.useArgs(c.Args)
			return fval{}
		}
		switch xv := a.resolve(f.X); xv.k {
		case vRecv:
			sel := a.fc.info.Selections[f]
			if sel == nil {
				a.fail(c.Pos(), "cannot resolve .%s on the receiver", f.Sel.Name)
			}
			if sel.Kind() == types.FieldVal { // a func-typed field is called
				a.useVal(a.classify(f.Sel.Name), c.Pos())
				a.useArgs(c.Args)
				return fval{}
			}
			fd := a.fc.methods[a.t.typeName][f.Sel.Name]
			if fd == nil {
				a.fail(c.Pos(), "method %s.%s is not declared in this file", a.t.typeName, f.Sel.Name)
			}
			a.useArgs(c.Args)
			a.splice(fd, c.Pos())
			return fval{}
		case vLock:
			a.lockOp(c.Pos(), xv.name, f.Sel.Name, len(c.Args))
			return fval{}
		case vField: // recv.F.M(args): the callee synchronises itself (cell) / is an unsynchronised object
			switch a.kinds[xv.name] {
			case kCell:
				a.access(xv.name, false)
			case kObject:
				a.access(xv.name, false)
				if !a.ro[xv.name][f.Sel.Name] {
					a.access(xv.name, true)
				}
			default:
				a.fail(c.Pos(), "method call on slice/map field %s", xv.name)
			}
			a.useArgs(c.Args)
			return fval{}
		case vMethod, vAppend:
			a.useVal(xv, c.Pos())
		}
		a.use(f.X)
		a.useArgs(c.Args)
		return fval{}
	case *ast.FuncLit:
		a.closureNoRecv(f)
		a.useArgs(c.Args)
		return fval{}
	}
	a.use(fun)
	a.useArgs(c.Args)
	return fval{}
}

func (a *fan) containerArg(e ast.Expr) (string, bool) {
	if v := a.resolve(e); v.k == vField && a.kinds[v.name] == kContainer {
		return v.name, true
	}
	return "", false
}

func (a *fan) builtin(name string, c *ast.CallExpr) fval {
	args := c.Args
	switch name {
	case "len", "cap":
		if len(args) == 1 {
			if f, ok := a.containerArg(args[0]); ok {
				a.access(f, false)
				return fval{}
			}
		}
	case "delete", "clear":
		if len(args) >= 1 {
			if f, ok := a.containerArg(args[0]); ok {
				a.useArgs(args[1:])
				a.access(f, true)
				return fval{}
			}
		}
	case "append":
		if len(args) >= 1 {
			f0, ok0 := a.containerArg(args[0])
			if !ok0 {
				a.use(args[0])
			}
			for i, x := range args[1:] {
				if f, ok := a.containerArg(x); ok && c.Ellipsis.IsValid() && i == len(args)-2 {
					a.access(f, false) // append(dst, recv.F...)
				} else {
					a.use(x)
				}
			}
			if ok0 {
				a.access(f0, false)
				a.access(f0, true) // may write into the shared backing array
				return fval{vAppend, f0}
			}
			return fval{}
		}
	case "copy":
		if len(args) == 2 {
			fd, okd := a.containerArg(args[0])
			fs, oks := a.containerArg(args[1])
			if !okd {
				a.use(args[0])
			}
			if !oks {
				a.use(args[1])
			}
			if oks {
				a.access(fs, false)
			}
			if okd {
				a.access(fd, true)
			}
			return fval{}
		}
	case "make", "new":
		if len(args) >= 1 {
			a.useArgs(args[1:])
			return fval{}
		}
	}
	a.useArgs(args)
	return fval{}
}

// splice: a method of the same receiver is called; its body is analysed in place
func (a *fan) splice(fd *ast.FuncDecl, pos token.Pos) {
	if a.depth >= maxDepth {
		a.fail(pos, "call depth limit %d exceeded", maxDepth)
	}
	if a.active[fd] {
		a.fail(pos, "recursive call cycle through %s", fd.Name.Name)
	}
	if fd.Body == nil {
		a.fail(pos, "method %s has no body", fd.Name.Name)
	}
	recv := fd.Recv.List[0]
	if _, ptr := baseTypeName(recv.Type); !ptr {
		a.fail(pos, "method %s has a value receiver (copies the struct)", fd.Name.Name)
	}
	for _, prm := range fd.Type.Params.List {
		if mentionsType(prm.Type, a.t.typeName) {
			a.fail(pos, "method %s takes a parameter of the target type", fd.Name.Name)
		}
	}
	saveFr, saveLoops, saveBreaks, saveLabels := a.fr, a.loops, a.breaks, a.labels
	a.fr = &fframe{}
	a.loops, a.breaks, a.labels = nil, nil, map[string][]fheld{}
	a.active[fd] = true
	a.depth++
	if len(recv.Names) == 1 && recv.Names[0].Name != "_" {
		a.bindRecv(recv.Names[0])
	}
	a.block(fd.Body.List)
	a.endFrame(fd.Body.Rbrace)
	a.depth--
	delete(a.active, fd)
	a.fr, a.loops, a.breaks, a.labels = saveFr, saveLoops, saveBreaks, saveLabels
}

func (a *fan) bindRecv(id *ast.Ident) {
	o := a.fc.info.Defs[id]
	if o == nil {
		a.fail(id.Pos(), "cannot resolve %s", id.Name)
	}
	a.recv[o] = true
	a.fr.bound = append(a.fr.bound, o)
}

// ---------------------------------------------------------------------------------------------
// statements
// ---------------------------------------------------------------------------------------------

func (a *fan) block(list []ast.Stmt) flow {
	for _, s := range list {
		if f := a.stmt(s); f != flowNext {
			return f
		}
	}
	return flowNext
}

func (a *fan) branch(pos token.Pos, what string, body func() flow) flow {
	s := copyState(a.st)
	f := body()
	if f == flowNext {
		a.requireSame(s, pos, what)
	} else {
		a.restore(s)
	}
	return f
}

func (a *fan) loopBody(pos token.Pos, body *ast.BlockStmt, post ast.Stmt) {
	s := copyState(a.st)
	a.loops = append(a.loops, s)
	a.breaks = append(a.breaks, s)
	a.branch(pos, "loop body", func() flow { return a.block(body.List) })
	a.loops = a.loops[:len(a.loops)-1]
	a.breaks = a.breaks[:len(a.breaks)-1]
	if post != nil {
		a.stmt(post)
		a.requireSame(s, pos, "loop post statement")
	}
}

func (a *fan) clauses(pos token.Pos, body *ast.BlockStmt) flow {
	s := copyState(a.st)
	a.breaks = append(a.breaks, s)
	hasDefault, all, n := false, flowReturn, 0
	isSelect := false
	for _, cl := range body.List {
		var cbody []ast.Stmt
		switch cc := cl.(type) {
		case *ast.CaseClause:
			if cc.List == nil {
				hasDefault = true
			}
			for _, x := range cc.List {
				if tv, ok := a.fc.info.Types[x]; ok && tv.IsType() {
					continue
				}
				a.use(x)
			}
			cbody = cc.Body
		case *ast.CommClause:
			isSelect = true
			if cc.Comm == nil {
				hasDefault = true
			} else {
				a.stmt(cc.Comm)
				a.requireSame(s, cc.Pos(), "communication of a select clause")
			}
			cbody = cc.Body
		default:
			a.fail(cl.Pos(), "unsupported clause %T", cl)
		}
		n++
		f := a.branch(cl.Pos(), "switch/select clause", func() flow { return a.block(cbody) })
		if f != flowReturn {
			all = flowNext
		}
	}
	a.breaks = a.breaks[:len(a.breaks)-1]
	if n > 0 && (hasDefault || isSelect) {
		return all // exactly one clause runs
	}
	return flowNext
}

// what an assignment target is: the field it writes ("" = none)
func (a *fan) lhsPre(l ast.Expr) string {
	l = unparen(l)
	switch l := l.(type) {
	case *ast.Ident:
		if l.Name == "_" {
			return ""
		}
		if o := a.objOf(l); o != nil && a.recv[o] {
			a.fail(l.Pos(), "assignment to the receiver variable")
		}
		return ""
	case *ast.SelectorExpr:
		switch v := a.resolve(l); v.k {
		case vField:
			return v.name
		case vLock:
			a.fail(l.Pos(), "assignment to lock %s", v.name)
		case vMethod:
			a.fail(l.Pos(), "assignment to a method")
		}
		if a.resolve(l.X).k == vRecv {
			return "" // an untracked field of the receiver
		}
		// recv.F.x = v : writes into what F points to
		if v := a.resolve(l.X); v.k == vField {
			switch a.kinds[v.name] {
			case kCell:
				a.access(v.name, false)
			case kObject:
				a.access(v.name, false)
				return v.name
			default:
				a.fail(l.Pos(), "selector on slice/map field %s", v.name)
			}
			return ""
		}
		a.use(l.X)
		return ""
	case *ast.IndexExpr:
		if v := a.resolve(l.X); v.k == vField {
			a.use(l.Index)
			a.access(v.name, false)
			if a.kinds[v.name] == kCell {
				return "" // element of what a pointer field points to: not the field
			}
			return v.name
		}
		a.use(l.X)
		a.use(l.Index)
		return ""
	case *ast.StarExpr:
		a.use(l.X)
		return ""
	}
	a.fail(l.Pos(), "unsupported assignment target %T", l)
	return ""
}

func (a *fan) assign(lhs, rhs []ast.Expr, tok token.Token, pos token.Pos) {
	if tok != token.ASSIGN && tok != token.DEFINE { // op=
		if len(lhs) != 1 || len(rhs) != 1 {
			a.fail(pos, "malformed assignment")
		}
		f := a.lhsPre(lhs[0])
		if f != "" {
			a.access(f, false)
		}
		a.use(rhs[0])
		if f != "" {
			a.access(f, true)
		}
		return
	}
	ts := make([]string, len(lhs))
	for i, l := range lhs {
		ts[i] = a.lhsPre(l)
	}
	if len(lhs) == len(rhs) {
		for i, r := range rhs {
			v := a.expr(r)
			if v.k == vAppend {
				if ts[i] != v.name {
					a.fail(r.Pos(), "result of append(%s, ...) is not assigned back to the field", v.name)
				}
				continue
			}
			a.useVal(v, r.Pos())
		}
	} else {
		a.useArgs(rhs)
	}
	for _, f := range ts {
		if f != "" {
			a.access(f, true)
		}
	}
}

func (a *fan) stmt(s ast.Stmt) flow {
	switch s := s.(type) {
	case nil, *ast.EmptyStmt:
		return flowNext
	case *ast.ExprStmt:
		a.use(s.X)
		return flowNext
	case *ast.AssignStmt:
		a.assign(s.Lhs, s.Rhs, s.Tok, s.Pos())
		return flowNext
	case *ast.IncDecStmt:
		if f := a.lhsPre(s.X); f != "" {
			a.access(f, false)
			a.access(f, true)
		}
		return flowNext
	case *ast.DeclStmt:
		gd, ok := s.Decl.(*ast.GenDecl)
		if !ok {
			a.fail(s.Pos(), "unsupported declaration")
		}
		if gd.Tok == token.VAR {
			for _, sp := range gd.Specs {
				a.useArgs(sp.(*ast.ValueSpec).Values)
			}
		}
		return flowNext
	case *ast.SendStmt:
		a.use(s.Chan)
		a.use(s.Value)
		return flowNext
	case *ast.BlockStmt:
		return a.block(s.List)
	case *ast.LabeledStmt:
		a.labels[s.Label.Name] = copyState(a.st)
		return a.stmt(s.Stmt)
	case *ast.ReturnStmt:
		a.useArgs(s.Results)
		a.checkReturn(s.Pos())
		return flowReturn
	case *ast.BranchStmt:
		var ref [][]fheld
		switch s.Tok {
		case token.GOTO:
			a.fail(s.Pos(), "goto")
		case token.CONTINUE:
			ref = a.loops
		default:
			ref = a.breaks
		}
		if s.Label != nil {
			ls, ok := a.labels[s.Label.Name]
			if !ok {
				a.fail(s.Pos(), "unknown label %s", s.Label.Name)
			}
			a.requireSame(ls, s.Pos(), "labelled "+s.Tok.String())
		} else {
			if len(ref) == 0 {
				a.fail(s.Pos(), "%s outside of a loop/switch", s.Tok)
			}
			a.requireSame(ref[len(ref)-1], s.Pos(), s.Tok.String())
		}
		return flowJump
	case *ast.IfStmt:
		a.stmt(s.Init)
		a.use(s.Cond)
		f1 := a.branch(s.Body.Pos(), "if branch", func() flow { return a.block(s.Body.List) })
		f2 := flowNext
		if s.Else != nil {
			f2 = a.branch(s.Else.Pos(), "else branch", func() flow { return a.stmt(s.Else) })
		}
		return joinFlow(f1, f2)
	case *ast.ForStmt:
		a.stmt(s.Init)
		a.use(s.Cond)
		a.loopBody(s.Pos(), s.Body, s.Post)
		return flowNext
	case *ast.RangeStmt:
		n0, overContainer := a.nlock, false
		if f, ok := a.containerArg(s.X); ok {
			a.access(f, false)
			overContainer = true
		} else {
			a.use(s.X)
		}
		if s.Tok == token.ASSIGN {
			for _, x := range []ast.Expr{s.Key, s.Value} {
				if x != nil {
					if f := a.lhsPre(x); f != "" {
						a.access(f, true)
					}
				}
			}
		}
		a.loopBody(s.Pos(), s.Body, nil)
		if overContainer && a.nlock != n0 {
			a.fail(s.Pos(), "lock operations inside a range over a tracked slice/map (its elements are read during the whole loop)")
		}
		return flowNext
	case *ast.SwitchStmt:
		a.stmt(s.Init)
		a.use(s.Tag)
		return a.clauses(s.Pos(), s.Body)
	case *ast.TypeSwitchStmt:
		a.stmt(s.Init)
		var x ast.Expr
		switch as := s.Assign.(type) {
		case *ast.ExprStmt:
			x = as.X
		case *ast.AssignStmt:
			if len(as.Rhs) == 1 {
				x = as.Rhs[0]
			}
		}
		ta, ok := unparen(x).(*ast.TypeAssertExpr)
		if !ok {
			a.fail(s.Pos(), "unsupported type switch")
		}
		a.use(ta.X)
		return a.clauses(s.Pos(), s.Body)
	case *ast.SelectStmt:
		return a.clauses(s.Pos(), s.Body)
	case *ast.DeferStmt:
		a.deferStmt(s)
		return flowNext
	case *ast.GoStmt:
		a.goStmt(s)
		return flowNext
	}
	a.fail(s.Pos(), "unsupported statement %T", s)
	return flowNext
}

func (a *fan) deferStmt(s *ast.DeferStmt) {
	fun := unparen(s.Call.Fun)
	if lit, ok := fun.(*ast.FuncLit); ok {
		a.useArgs(s.Call.Args)
		a.fr.deferred = append(a.fr.deferred, lit)
		return
	}
	if sel, ok := fun.(*ast.SelectorExpr); ok {
		switch v := a.resolve(sel.X); v.k {
		case vLock:
			if len(s.Call.Args) == 0 && sel.Sel.Name == "Unlock" {
				a.deferRelease(s.Pos(), v.name, "Wr")
				return
			}
			if len(s.Call.Args) == 0 && sel.Sel.Name == "RUnlock" {
				a.deferRelease(s.Pos(), v.name, "Rd")
				return
			}
			a.fail(s.Pos(), "defer of .%s on lock %s", sel.Sel.Name, v.name)
		case vRecv:
			if sl := a.fc.info.Selections[sel]; sl == nil || sl.Kind() != types.FieldVal {
				a.fail(s.Pos(), "defer of a method of the receiver")
			}
		}
	}
	// any other deferred call: function value and arguments are evaluated now; the callee is not tracked
	a.useVal(a.call(s.Call), s.Pos())
}

func (a *fan) goStmt(s *ast.GoStmt) {
	fun := unparen(s.Call.Fun)
	if lit, ok := fun.(*ast.FuncLit); ok {
		a.useArgs(s.Call.Args)
		if !a.sp.seen[lit] {
			a.sp.seen[lit] = true
			name := a.sp.names[lit]
			if name == "" {
				a.fail(s.Pos(), "cannot name the goroutine closure")
			}
			var rs []types.Object
			for o := range a.recv {
				rs = append(rs, o)
			}
			a.sp.list = append(a.sp.list, spawn{name: name, lit: lit, recv: rs})
		}
		return
	}
	if sel, ok := fun.(*ast.SelectorExpr); ok && a.resolve(sel.X).k == vRecv {
		sl := a.fc.info.Selections[sel]
		if sl != nil && sl.Kind() == types.MethodVal && a.fc.methods[a.t.typeName][sel.Sel.Name] != nil {
			a.useArgs(s.Call.Args) // evaluated by the caller; the method itself is an entry of the skeleton
			return
		}
		a.fail(s.Pos(), "go statement on something of the receiver that is not one of its methods")
	}
	// a goroutine running an untracked function: arguments are evaluated here (the receiver must not be among them)
	a.use(fun)
	a.useArgs(s.Call.Args)
}

// ---------------------------------------------------------------------------------------------
// driver
// ---------------------------------------------------------------------------------------------

// closureNames assigns Go's closure names (Outer.func1, Outer.func1.1, ...) to the function literals of a declaration
func closureNames(fd *ast.FuncDecl, names map[*ast.FuncLit]string) {
	var walk func(n ast.Node, prefix string)
	walk = func(n ast.Node, prefix string) {
		i := 0
		ast.Inspect(n, func(m ast.Node) bool {
			if m == n {
				return true
			}
			if lit, ok := m.(*ast.FuncLit); ok {
				i++
				var name string
				if strings.Contains(prefix, ".func") {
					name = fmt.Sprintf("%s.%d", prefix, i)
				} else {
					name = fmt.Sprintf("%s.func%d", prefix, i)
				}
				names[lit] = name
				walk(lit.Body, name)
				return false
			}
			return true
		})
	}
	if fd.Body != nil {
		walk(fd.Body, fd.Name.Name)
	}
}

func (a *fan) finish() []*fsection {
	var r []*fsection
	for _, s := range a.secs {
		if len(s.accs) > 0 || len(s.held) > 0 {
			r = append(r, s)
		}
	}
	return r
}

func newFan(fc *fileCtx, t ftarget, lockRW map[string]bool, kinds map[string]fieldKind, sp *spawnSet) *fan {
	ro := map[string]map[string]bool{}
	for f, ms := range t.objects {
		ro[f] = map[string]bool{}
		for _, m := range ms {
			ro[f][m] = true
		}
	}
	return &fan{fc: fc, t: t, lockRW: lockRW, kinds: kinds, ro: ro, recv: map[types.Object]bool{},
		active: map[*ast.FuncDecl]bool{}, labels: map[string][]fheld{}, sp: sp}
}

func catch(fc *fileCtx, e *fentry) {
	if r := recover(); r != nil {
		f, ok := r.(failure)
		if !ok {
			panic(r)
		}
		e.unknown, e.secs = true, nil
		e.reason = fmt.Sprintf("%s: %s", fc.fset.Position(f.pos), f.msg)
	}
}

func analyseFieldEntry(fc *fileCtx, t ftarget, lockRW map[string]bool, kinds map[string]fieldKind, sp *spawnSet,
	fd *ast.FuncDecl, recv *ast.Ident) (e fentry) {
	e.name = fd.Name.Name
	defer catch(fc, &e)
	a := newFan(fc, t, lockRW, kinds, sp)
	a.active[fd] = true
	a.fr = &fframe{}
	if fd.Body == nil {
		a.fail(fd.Pos(), "no body")
	}
	if recv != nil && recv.Name != "_" {
		a.bindRecv(recv)
	}
	a.block(fd.Body.List)
	a.endFrame(fd.Body.Rbrace)
	if len(a.st) != 0 {
		a.fail(fd.Body.Rbrace, "function ends with a lock held")
	}
	e.secs = a.finish()
	return e
}

func analyseSpawn(fc *fileCtx, t ftarget, lockRW map[string]bool, kinds map[string]fieldKind, sp *spawnSet, s spawn) (e fentry) {
	e.name = s.name
	defer catch(fc, &e)
	a := newFan(fc, t, lockRW, kinds, sp)
	for _, o := range s.recv {
		a.recv[o] = true
	}
	a.fr = &fframe{}
	a.block(s.lit.Body.List)
	a.endFrame(s.lit.Body.Rbrace)
	if len(a.st) != 0 {
		a.fail(s.lit.Body.Rbrace, "goroutine ends with a lock held")
	}
	e.secs = a.finish()
	return e
}

func analyseFieldTarget(fc *fileCtx, t ftarget) []fentry {
	lockRW, kinds, verr := fc.validateFields(t)
	sp := &spawnSet{seen: map[*ast.FuncLit]bool{}, names: map[*ast.FuncLit]string{}}
	var out []fentry
	for _, d := range fc.file.Decls {
		fd, ok := d.(*ast.FuncDecl)
		if !ok {
			continue
		}
		closureNames(fd, sp.names)
		var recv *ast.Ident
		bad := ""
		params := fd.Type.Params.List
		if fd.Recv != nil && len(fd.Recv.List) == 1 {
			base, ptr := baseTypeName(fd.Recv.List[0].Type)
			if base == t.typeName {
				if !ptr {
					bad = "value receiver (copies the struct)"
				}
				if len(fd.Recv.List[0].Names) == 1 {
					recv = fd.Recv.List[0].Names[0]
				}
			} else {
				mentions := false
				for _, p := range params {
					mentions = mentions || mentionsType(p.Type, t.typeName)
				}
				if !mentions {
					continue
				}
				bad = "method of another type that takes the target type as a parameter"
			}
		} else {
			first, mentions := false, false
			for i, p := range params {
				if mentionsType(p.Type, t.typeName) {
					mentions = true
					base, ptr := baseTypeName(p.Type)
					if i == 0 && len(p.Names) == 1 && base == t.typeName && ptr {
						first = true
						recv = p.Names[0]
					}
				}
			}
			if !mentions {
				continue // constructors and unrelated functions
			}
			if !first {
				// a function that RETURNS a closure over the target type (an option) or takes it elsewhere
				bad = "takes the target type, but not as a single pointer in first position"
			}
			if first {
				params = params[1:]
			}
		}
		if bad == "" {
			for _, p := range params {
				if mentionsType(p.Type, t.typeName) {
					bad = "takes a second value of the target type"
				}
			}
		}
		switch {
		case verr != nil:
			out = append(out, fentry{name: fd.Name.Name, unknown: true, reason: verr.Error()})
		case bad != "":
			out = append(out, fentry{name: fd.Name.Name, unknown: true,
				reason: fmt.Sprintf("%s: %s", fc.fset.Position(fd.Pos()), bad)})
		default:
			out = append(out, analyseFieldEntry(fc, t, lockRW, kinds, sp, fd, recv))
		}
	}
	for i := 0; i < len(sp.list); i++ { // goroutine closures (may start further ones)
		out = append(out, analyseSpawn(fc, t, lockRW, kinds, sp, sp.list[i]))
	}
	if verr != nil && len(out) == 0 {
		out = append(out, fentry{name: "<" + t.typeName + ">", unknown: true, reason: verr.Error()})
	}
	return out
}

func renderFields(w *bytes.Buffer, t ftarget, es []fentry) {
	if t.comment != "" {
		fmt.Fprintf(w, "(* %s *)\n", t.comment)
	}
	if len(es) == 0 {
		fmt.Fprintf(w, "Definition %s : skeleton := [].\n", t.defName)
		return
	}
	fmt.Fprintf(w, "Definition %s : skeleton := [\n", t.defName)
	for i, e := range es {
		var secs []string
		if e.unknown {
			secs = []string{"Unknown"}
		}
		for _, s := range e.secs {
			var hs, as []string
			for _, h := range s.held {
				hs = append(hs, fmt.Sprintf("(%q, %s)", h[0], h[1]))
			}
			for _, x := range s.accs {
				as = append(as, fmt.Sprintf("{| loc := %q; wr := %v |}", x.loc, x.wr))
			}
			secs = append(secs, fmt.Sprintf("Sec [%s] [%s]", strings.Join(hs, "; "), strings.Join(as, "; ")))
		}
		sep := ";"
		if i == len(es)-1 {
			sep = ""
		}
		fmt.Fprintf(w, "  (%q, [%s])%s\n", e.name, strings.Join(secs, "; "), sep)
	}
	fmt.Fprintf(w, "].\n")
}

// generateGroup returns the Coq text of one generated file and the summaries / Unknown reasons
func generateGroup(repo string, g fgroup) ([]byte, []string, []string, error) {
	var buf bytes.Buffer
	seen := map[string]bool{}
	var files []string
	for _, t := range g.targets {
		if !seen[t.file] {
			seen[t.file] = true
			files = append(files, t.file)
		}
	}
	fmt.Fprintf(&buf, "(* GENERATED by translator/lockskel (field mode) from %s. Do not edit. *)\n", strings.Join(files, " and "))
	buf.WriteString("From Coq Require Import List String.\nFrom TC.Lib Require Import Conc.\nImport ListNotations.\nLocal Open Scope string_scope.\n")
	var summary, reasons []string
	for _, t := range g.targets {
		fc, err := loadFile(filepath.Join(repo, filepath.FromSlash(t.file)))
		if err != nil {
			return nil, nil, nil, err
		}
		es := analyseFieldTarget(fc, t)
		unk := 0
		for _, e := range es {
			if e.unknown {
				unk++
				reasons = append(reasons, fmt.Sprintf("%s.%s (%s): Unknown: %s", t.typeName, e.name, t.defName, e.reason))
			}
		}
		summary = append(summary, fmt.Sprintf("%s: %d entries, %d Unknown -> %s", t.typeName, len(es), unk, t.defName))
		buf.WriteString("\n")
		renderFields(&buf, t, es)
	}
	return buf.Bytes(), summary, reasons, nil
}
