module lockskel

go 1.23
