package main

import (
	"bytes"
	"os"
	"path/filepath"
	"strings"
	"testing"
)

// Golden tests: testdata/<case>/storage/{safeMap.go,genericStack.go} -> testdata/<case>/expected.v
//
//	pinned      the code as pinned (GetOrAdd: three sections; Pop/Values: unlocked read first)
//	fixed       GetOrAdd fixed (two sections); unlocked reads of Pop/Values moved inside the lock
//	failclosed  pinned + methods that must come out as [Unknown] (and a few that must not)
//	badguard    SafeMap.mux declared as *sync.Mutex: every SafeMap method is [Unknown]
func TestGolden(t *testing.T) {
	for _, c := range []string{"pinned", "fixed", "failclosed", "badguard"} {
		dir := filepath.Join("..", "testdata", c)
		got, _, _, err := generate(dir)
		if err != nil {
			t.Fatalf("%s: %v", c, err)
		}
		if os.Getenv("LOCKSKEL_UPDATE") != "" {
			os.WriteFile(filepath.Join(dir, "expected.v"), got, 0o644)
		}
		want, err := os.ReadFile(filepath.Join(dir, "expected.v"))
		if err != nil {
			t.Fatalf("%s: %v", c, err)
		}
		if string(got) != string(want) {
			t.Errorf("%s: output differs from expected.v\n--- got\n%s", c, got)
		}
	}
}

func entryLine(t *testing.T, text, name string) string {
	for _, l := range strings.Split(text, "\n") {
		if strings.HasPrefix(l, "  (\""+name+"\", ") {
			return strings.TrimSuffix(strings.TrimSpace(l), ";")
		}
	}
	t.Fatalf("no entry %s", name)
	return ""
}

const (
	rdM  = `{| loc := "m"; wr := false |}`
	wrM  = `{| loc := "m"; wr := true |}`
	rdSE = `{| loc := "stack.entries"; wr := false |}`
	wrSE = `{| loc := "stack.entries"; wr := true |}`
)

func TestKeyEntries(t *testing.T) {
	gen := func(c string) string {
		got, _, _, err := generate(filepath.Join("..", "testdata", c))
		if err != nil {
			t.Fatal(err)
		}
		return string(got)
	}
	pinned, fixed, fc := gen("pinned"), gen("fixed"), gen("failclosed")
	check := func(text, name, want string) {
		t.Helper()
		if got := entryLine(t, text, name); got != want {
			t.Errorf("%s:\n got  %s\n want %s", name, got, want)
		}
	}
	check(pinned, "GetOrAdd", `("GetOrAdd", [Sec [("mux", Rd)] [`+rdM+`]; Sec [("mux", Rd)] [`+rdM+`]; Sec [("mux", Wr)] [`+rdM+`; `+wrM+`]])`)
	check(fixed, "GetOrAdd", `("GetOrAdd", [Sec [("mux", Rd)] [`+rdM+`]; Sec [("mux", Wr)] [`+rdM+`; `+wrM+`]])`)
	check(pinned, "Pop", `("Pop", [Sec [] [`+rdSE+`]; Sec [("mux", Wr)] [`+rdSE+`; `+wrSE+`]])`)
	check(fixed, "Pop", `("Pop", [Sec [("mux", Wr)] [`+rdSE+`; `+wrSE+`]])`)
	check(pinned, "Push", `("Push", [Sec [("mux", Wr)] [`+rdSE+`; `+wrSE+`]])`)
	check(fc, "Raw", `("Raw", [Unknown])`)
	check(fc, "LockInIf", `("LockInIf", [Unknown])`)
	check(fc, "Barrier", `("Barrier", [Sec [("mux", Wr)] []])`)
	// "Values" exists in both files; look at the gstack part only
	gs := func(s string) string { return s[strings.Index(s, "gstack_skeleton"):] }
	check(gs(pinned), "Values", `("Values", [Sec [] [`+rdSE+`]; Sec [("mux", Rd)] [`+rdSE+`]])`)
	check(gs(fixed), "Values", `("Values", [Sec [("mux", Rd)] [`+rdSE+`]])`)
}

// ---------------------------------------------------------------------------------------------
// field mode (fields.go): several fields, several mutexes, go statements, closures, defer, select
//
//	fields_main        storage/fifoMapCache.go and workqueue/queue.go as on main -> expected_<file>
//	fields_mut         (i) Sweep without RLock, pinned getCurrentPartition, an unlocked fast path,
//	                   (ii) the monitor ranging over the subscribers without the mutex (pinned F14),
//	                   (iii) an append outside the mutex
//	fields_failclosed  a synthetic type: shapes that must be analysed and shapes that must be [Unknown]
// ---------------------------------------------------------------------------------------------

func TestFieldsGolden(t *testing.T) {
	for _, c := range []string{"fields_main", "fields_mut"} {
		dir := filepath.Join("..", "testdata", c)
		for _, g := range fgroups[:2] { // the cache and the work queue; publisher / rankCalculation: TestPubRank* below
			got, _, _, err := generateGroup(dir, g)
			if err != nil {
				t.Fatalf("%s: %v", c, err)
			}
			wantFile := filepath.Join(dir, "expected_"+g.outFile)
			if os.Getenv("LOCKSKEL_UPDATE") != "" {
				os.WriteFile(wantFile, got, 0o644)
			}
			want, err := os.ReadFile(wantFile)
			if err != nil {
				t.Fatalf("%s: %v", c, err)
			}
			if string(got) != string(want) {
				t.Errorf("%s/%s: output differs from expected\n--- got\n%s", c, g.outFile, got)
			}
		}
	}
}

func fieldGen(t *testing.T, dir string, gi int) string {
	got, _, _, err := generateGroup(filepath.Join("..", "testdata", dir), fgroups[gi])
	if err != nil {
		t.Fatal(err)
	}
	return string(got)
}

func rd(f string) string  { return `{| loc := "` + f + `"; wr := false |}` }
func wrt(f string) string { return `{| loc := "` + f + `"; wr := true |}` }

func TestFieldsKeyEntries(t *testing.T) {
	check := func(text, name, want string) {
		t.Helper()
		if got := entryLine(t, text, name); got != want {
			t.Errorf("%s:\n got  %s\n want %s", name, got, want)
		}
	}
	cpmR, cpmW, swm := `("currentPartitionMux", Rd)`, `("currentPartitionMux", Wr)`, `("sweepingMux", Wr)`
	fast := `Sec [` + cpmR + `] [` + rd("partitions") + `; ` + rd("currentPartitionId") + `; ` + rd("partitionCapacity") + `]`
	slow := `Sec [` + cpmW + `] [` + rd("partitions") + `; ` + rd("currentPartitionId") + `; ` + rd("partitionCapacity") + `; ` + wrt("currentPartitionId") + `]`
	cache := fieldGen(t, "fields_main", 0)
	unl := `Sec [] [` + rd("valuePartitionIndex") + `; ` + rd("partitions") + `]`
	// getCurrentPartition is private: analysed in place inside Set, no entry of its own
	check(cache, "Set", `("Set", [`+unl+`; `+fast+`; `+slow+`; Sec [] [`+rd("valuePartitionIndex")+`]])`)
	if strings.Contains(cache, `("getCurrentPartition"`) {
		t.Errorf("private method getCurrentPartition has an entry of its own")
	}
	check(cache, "NewFifoMapCache.go1", `("NewFifoMapCache.go1", [Sec [`+swm+`] []; Sec [`+swm+`; `+cpmR+`] [`+rd("partitions")+`; `+rd("maxPartitions")+`]])`)
	check(cache, "Sweep", `("Sweep", [Sec [`+swm+`] []; Sec [`+swm+`; `+cpmR+`] [`+rd("partitions")+`; `+rd("maxPartitions")+`]])`)
	check(cache, "Get", `("Get", [Sec [] [`+rd("valuePartitionIndex")+`; `+rd("partitions")+`]])`)
	check(cache, "Capacity", `("Capacity", [Sec [] [`+rd("maxPartitions")+`; `+rd("partitionCapacity")+`]])`)
	check(cache, "Clear", `("Clear", [Sec [`+cpmW+`] [`+rd("maxPartitions")+`; `+wrt("partitions")+`; `+wrt("valuePartitionIndex")+`; `+rd("partitionCapacity")+`; `+rd("partitions")+`; `+wrt("currentPartitionId")+`]])`)
	mut := fieldGen(t, "fields_mut", 0)
	check(mut, "Sweep", `("Sweep", [Sec [`+swm+`] [`+rd("partitions")+`; `+rd("maxPartitions")+`]])`)
	check(mut, "getCurrentPartitionPinned", `("getCurrentPartitionPinned", [`+fast+`; Sec [`+cpmW+`] [`+rd("partitionCapacity")+`; `+rd("partitions")+`; `+wrt("currentPartitionId")+`; `+rd("currentPartitionId")+`]])`)
	check(mut, "currentIdUnlocked", `("currentIdUnlocked", [Sec [] [`+rd("currentPartitionId")+`]])`)

	em := `("errSubScriberMux", Wr)`
	es := "errorSubscribers"
	wq := fieldGen(t, "fields_main", 1)
	wqErr := wq[strings.Index(wq, "wq_err_skeleton"):strings.Index(wq, "wq_shared_skeleton")]
	check(wqErr, "Errors", `("Errors", [Sec [`+em+`] [`+rd(es)+`; `+wrt(es)+`]])`)
	check(wqErr, "NewQueue.go1.go1", `("NewQueue.go1.go1", [Sec [`+em+`] [`+rd(es)+`]])`)
	check(wqErr, "NewQueue.go1", `("NewQueue.go1", [])`)
	if strings.Contains(wqErr, `("start"`) || strings.Contains(wqErr, `("doWork"`) {
		t.Errorf("private methods start/doWork have entries of their own")
	}
	wqm := fieldGen(t, "fields_mut", 1)
	wqmErr := wqm[strings.Index(wqm, "wq_err_skeleton"):strings.Index(wqm, "wq_shared_skeleton")]
	check(wqmErr, "NewQueue.go1.go1", `("NewQueue.go1.go1", [Sec [] [`+rd(es)+`]])`)
	check(wqmErr, "Errors2", `("Errors2", [Sec [`+em+`] []; Sec [] [`+rd(es)+`; `+wrt(es)+`]])`)
}

var boxTarget = ftarget{file: "box.go", typeName: "Box",
	lockSpecs:  []lockSpec{{"mu", "RWMutex", 0}, {"aux", "Mutex", 0}},
	fieldSpecs: []fieldSpec{{canon: "items", typ: `^\[\]int$`}, {canon: "n", typ: `^int$`, nth: 0}, {canon: "ptr", typ: `^\*Other$`}},
	defName:    "box_skeleton"}

func TestFieldsFailClosed(t *testing.T) {
	fc, err := loadFile(filepath.Join("..", "testdata", "fields_failclosed", "box.go"))
	if err != nil {
		t.Fatal(err)
	}
	var buf bytes.Buffer
	es := analyseFieldTarget(fc, boxTarget)
	renderFields(&buf, boxTarget, es)
	text := buf.String()
	wantFile := filepath.Join("..", "testdata", "fields_failclosed", "expected.v")
	if os.Getenv("LOCKSKEL_UPDATE") != "" {
		os.WriteFile(wantFile, buf.Bytes(), 0o644)
	}
	if want, err := os.ReadFile(wantFile); err != nil || string(want) != text {
		t.Errorf("fields_failclosed: output differs from expected.v (%v)\n--- got\n%s", err, text)
	}
	check := func(name, want string) {
		t.Helper()
		if got := entryLine(t, text, name); got != want {
			t.Errorf("%s:\n got  %s\n want %s", name, got, want)
		}
	}
	muR, muW, aux := `("mu", Rd)`, `("mu", Wr)`, `("aux", Wr)`
	check("Nested", `("Nested", [Sec [`+aux+`] []; Sec [`+aux+`; `+muR+`] [`+rd("n")+`; `+rd("items")+`]])`)
	check("Writes", `("Writes", [Sec [`+muW+`] [`+rd("items")+`; `+wrt("items")+`; `+rd("n")+`; `+wrt("n")+`]; Sec [`+aux+`] [`+rd("n")+`; `+wrt("n")+`]])`)
	check("Through", `("Through", [Sec [] [`+rd("ptr")+`]])`)
	check("Spawns", `("Spawns", [Sec [`+muW+`] [`+wrt("n")+`]])`)
	check("Spawns.go1", `("Spawns.go1", [Sec [`+muR+`] [`+rd("n")+`]; Sec [] [`+wrt("n")+`]])`)
	check("UsesPrivate", `("UsesPrivate", [Sec [`+muW+`] [`+rd("n")+`; `+wrt("n")+`]])`)
	check("StartsWorker", `("StartsWorker", [])`)
	check("StartsWorker.go1", `("StartsWorker.go1", [Sec [`+muR+`] [`+rd("n")+`]])`)
	check("StartsWorker.go2", `("StartsWorker.go2", [Sec [`+muR+`] [`+rd("n")+`]])`)
	check("NewBox.go1", `("NewBox.go1", [Sec [`+muR+`] [`+rd("n")+`]])`)
	check("NewBox.go2", `("NewBox.go2", [Sec [] [`+wrt("n")+`]])`)
	check("orphan", `("orphan", [Sec [] [`+wrt("n")+`]])`)
	check("CloneItems", `("CloneItems", [Sec [`+muR+`] [`+rd("items")+`]])`)
	for _, n := range []string{"locked", "bump", "worker", "rec", "rec2", "NewBox.go3"} {
		if strings.Contains(text, `("`+n+`"`) {
			t.Errorf("%s has an entry of its own", n)
		}
	}
	check("Deferred", `("Deferred", [Sec [`+muW+`] [`+wrt("n")+`]; Sec [] [`+wrt("n")+`]])`)
	check("FastSlow", `("FastSlow", [Sec [`+muR+`] [`+rd("n")+`]; Sec [`+muW+`] [`+wrt("n")+`; `+rd("n")+`]])`)
	check("Calls", `("Calls", [Sec [] [`+rd("ptr")+`]; Sec [`+muW+`] []; Sec [`+muR+`] [`+rd("n")+`]; Sec [`+muW+`] [`+wrt("n")+`; `+rd("n")+`]])`)
	check("Snapshot", `("Snapshot", [Sec [`+muR+`] [`+rd("items")+`]])`)
	check("Loop", `("Loop", [Sec [`+muR+`] [`+rd("n")+`]])`)
	for _, n := range []string{"EscapeRecv", "PassRecv", "AliasSlice", "ReturnSlice", "SubSlice", "AddrField", "AddrFree",
		"MethodValue", "StoreLock", "TryLock", "RLockOnMutex", "Reentrant", "CallUnderLock", "LeakOnReturn", "NeverUnlocked",
		"AppendElsewhere", "DeferMethod", "GoWithRecv", "LockInIf", "CaptureElsewhere", "SelectUnbalanced",
		"RangeWithLockInside", "DeferInLoop", "Goto", "ValueReceiver", "Merge", "Recursive", "both", "PassTwice", "SortItems",
		"NewBoxBad.go1"} {
		check(n, `("`+n+`", [Unknown])`)
	}
	// a lock that is not a sync mutex, a field that does not exist: everything is Unknown
	bad := boxTarget
	bad.lockSpecs = []lockSpec{{"mu", "RWMutex", 0}, {"aux", "RWMutex", 1}}
	for _, e := range analyseFieldTarget(fc, bad) {
		if !e.unknown {
			t.Errorf("bad lock: %s is not Unknown", e.name)
		}
	}
	bad = boxTarget
	bad.fieldSpecs = []fieldSpec{{canon: "nosuch", typ: `^float64$`}}
	for _, e := range analyseFieldTarget(fc, bad) {
		if !e.unknown {
			t.Errorf("bad field: %s is not Unknown", e.name)
		}
	}
}

// ---------------------------------------------------------------------------------------------
// robustness against behaviour-preserving rewrites
//
//	refactored   main + the four rewrites of seeded/_refactorings (storage-r1: private renames in genericStack.go;
//	             storage-r2: helpers lookupPartition / resetPartitionsLocked / sweepPeriodically extracted in
//	             fifoMapCache.go, Resize with early return; storage-r3: Has delegates to Contains, maps.Keys/Values/Clone,
//	             slices.AppendSeq in safeMap.go; workqueue-r1: private renames in Queue, mutex held by value) PLUS a
//	             rename of every remaining lock and guarded field (SafeMap.mux/m, GenericStack.stack/entries, all of
//	             FifoMapCache's, Queue.errorSubscribers).  The skeletons must be those of fields_main (= main).
// ---------------------------------------------------------------------------------------------

type canonEntry struct {
	name string
	secs map[string]bool // each section as "held|sorted accesses"
}

func canonical(text string) map[string][]canonEntry {
	out := map[string][]canonEntry{}
	def := ""
	for _, l := range strings.Split(text, "\n") {
		if strings.HasPrefix(l, "Definition ") {
			def = strings.Fields(l)[1]
		}
		if !strings.HasPrefix(l, `  ("`) {
			continue
		}
		l = strings.TrimSuffix(strings.TrimSpace(l), ";")
		name := l[2:strings.Index(l, `", `)]
		e := canonEntry{name: name, secs: map[string]bool{}}
		for _, sec := range strings.Split(l, "Sec ")[1:] {
			i := strings.Index(sec, "] [")
			held := sec[:i+1]
			accs := strings.Split(strings.Trim(strings.TrimRight(strings.TrimSpace(sec[i+2:]), ";)]"), "[]"), "; {|")
			for k := range accs {
				accs[k] = strings.Trim(accs[k], " {|}")
			}
			// a read of a location the same section also writes adds nothing (a write covers a read)
			var keep []string
			for _, x := range accs {
				if strings.HasSuffix(x, "wr := false") {
					w := strings.TrimSuffix(x, "false") + "true"
					covered := false
					for _, y := range accs {
						covered = covered || y == w
					}
					if covered {
						continue
					}
				}
				keep = append(keep, x)
			}
			sortStrings(keep)
			e.secs[held+"|"+strings.Join(keep, ",")] = true
		}
		if strings.Contains(l, "Unknown") {
			e.secs["Unknown"] = true
		}
		out[def] = append(out[def], e)
	}
	return out
}

func sortStrings(a []string) {
	for i := range a {
		for j := i + 1; j < len(a); j++ {
			if a[j] < a[i] {
				a[i], a[j] = a[j], a[i]
			}
		}
	}
}

func TestRefactoringsDoNotChangeTheSkeletons(t *testing.T) {
	gen := func(dir string) string {
		var all []byte
		got, _, _, err := generate(filepath.Join("..", "testdata", dir))
		if err != nil {
			t.Fatal(err)
		}
		all = append(all, got...)
		for _, g := range fgroups[:2] {
			got, _, _, err := generateGroup(filepath.Join("..", "testdata", dir), g)
			if err != nil {
				t.Fatal(err)
			}
			all = append(all, got...)
		}
		return string(all)
	}
	for _, dir := range []string{"refactored", "batch2"} {
		compareSkeletons(t, dir, canonical(gen("fields_main")), canonical(gen(dir)))
	}
}

// batch2 = main + storage-b1 (maxPartitions/partitionCapacity regrouped into an EMBEDDED private struct, private renames, the
// "current partition has room" check extracted into openPartitionLocked, called only under the lock) + storage-b3 (Keys/Values
// through a generic helper FUNCTION collect(s, pick), CopyToMap delegating to the function TranslateToMapOf, Clear delegating
// to ClearAndResize) + workqueue-b1 (errChan/mutex/subscribers regrouped into a private sub-struct errorHub held by value,
// Errors() moved to errorHub.subscribe, the monitor goroutine became the method errorHub.monitor started with go)
func compareSkeletons(t *testing.T, dir string, main, ref map[string][]canonEntry) {
	for _, def := range []string{"safemap_skeleton", "gstack_skeleton", "cache_skeleton", "wq_err_skeleton", "wq_shared_skeleton"} {
		m, r := main[def], ref[def]
		if len(m) == 0 || len(m) != len(r) {
			t.Errorf("%s/%s: %d entries on main, %d after the rewrites", dir, def, len(m), len(r))
			continue
		}
		for i := range m {
			if m[i].name != r[i].name {
				t.Errorf("%s: entry %d is %s on main, %s after the rewrites", def, i, m[i].name, r[i].name)
				continue
			}
			if m[i].secs["Unknown"] || r[i].secs["Unknown"] {
				t.Errorf("%s.%s: Unknown", def, m[i].name)
			}
			if m[i].name == "NewFifoMapCache.go1" {
				continue // storage-r2 moves the read of f.config.sweepFrequency into the goroutine: a genuine (harmless) difference
			}
			for s := range m[i].secs {
				if !r[i].secs[s] {
					t.Errorf("%s.%s: section %s of main is missing after the rewrites (%v)", def, m[i].name, s, r[i].secs)
				}
			}
			for s := range r[i].secs {
				if !m[i].secs[s] {
					t.Errorf("%s.%s: section %s appears after the rewrites (%v)", def, m[i].name, s, m[i].secs)
				}
			}
		}
	}
}

// type-based inference of the deep mode: guard by value, other names and order; ambiguity => everything Unknown
func TestInference(t *testing.T) {
	fc, err := loadFile(filepath.Join("..", "testdata", "infer", "shapes.go"))
	if err != nil {
		t.Fatal(err)
	}
	render1 := func(typeName string) string {
		tg := target{file: "shapes.go", typeName: typeName, lockCanon: "L", locCanon: "X", defName: "sk"}
		var buf bytes.Buffer
		render(&buf, tg, analyseTarget(fc, tg))
		return buf.String()
	}
	check := func(text, name, want string) {
		t.Helper()
		if got := entryLine(t, text, name); got != want {
			t.Errorf("%s:\n got  %s\n want %s", name, got, want)
		}
	}
	rdX, wrX := `{| loc := "X"; wr := false |}`, `{| loc := "X"; wr := true |}`
	bv := render1("ByValue")
	check(bv, "Get", `("Get", [Sec [("L", Rd)] [`+rdX+`]])`)
	check(bv, "Put", `("Put", [Sec [("L", Wr)] [`+wrX+`]])`)
	ou := render1("Outer")
	check(ou, "Len", `("Len", [Sec [("L", Rd)] [`+rdX+`]])`)
	check(ou, "Add", `("Add", [Sec [("L", Wr)] [`+rdX+`; `+wrX+`]])`)
	check(ou, "Peek", `("Peek", [Sec [] [`+rdX+`]])`)
	for _, tn := range []string{"TwoMaps", "TwoLocks", "NoGuard"} {
		check(render1(tn), "Get", `("Get", [Unknown])`)
	}
	// field mode: two fields of the wanted type and no name to tell them apart beyond the position => positional;
	// no field of the wanted type => everything Unknown
	ft := ftarget{file: "shapes.go", typeName: "TwoMaps", lockSpecs: []lockSpec{{"mu", "RWMutex", 0}},
		fieldSpecs: []fieldSpec{{canon: "first", typ: `^map\[string\]int$`, nth: 0}, {canon: "second", typ: `^map\[string\]int$`, nth: 1}}, defName: "sk"}
	var buf bytes.Buffer
	renderFields(&buf, ft, analyseFieldTarget(fc, ft))
	check(buf.String(), "Get", `("Get", [Sec [("mu", Rd)] [{| loc := "first"; wr := false |}]])`)
	ft.fieldSpecs = []fieldSpec{{canon: "first", typ: `^\[\]float64$`}}
	for _, e := range analyseFieldTarget(fc, ft) {
		if !e.unknown {
			t.Errorf("unresolvable field: %s is not Unknown", e.name)
		}
	}
	ft.fieldSpecs = nil
	ft.lockSpecs = []lockSpec{{"mu", "Mutex", 0}}
	for _, e := range analyseFieldTarget(fc, ft) {
		if !e.unknown {
			t.Errorf("unresolvable lock: %s is not Unknown", e.name)
		}
	}
}

// ---------------------------------------------------------------------------------------------
// publisher/publication.go (C10) and rankCalculation/rankCalculator.go (X05): foreign mode (every function of the file,
// objects recognised by type — also when they come out of generic.SyncMap of another package of the module), nested
// lock/field paths, re-acquired locks listed twice, channel open-state
//
//	pub_main       the files as on main (+ go.mod, generic/syncmap.go for the module importer)
//	pub_r1..r3     the three harmless rewrites of seeded/_refactorings/publisher-r*
//	pub_m*         lock-discipline mutations (each must show up in the skeleton in its specific way)
// ---------------------------------------------------------------------------------------------

func pubGen(t *testing.T, dir string, gi int) string {
	got, _, _, err := generateGroup(filepath.Join("..", "testdata", dir), fgroups[gi])
	if err != nil {
		t.Fatal(err)
	}
	if gi == 2 {
		s := string(got)
		s = s[strings.Index(s, "subscriber_skeleton"):]
		return s[:strings.Index(s, "\n].")+3]
	}
	return string(got)
}

func TestPubRankGolden(t *testing.T) {
	dir := filepath.Join("..", "testdata", "pub_main")
	for _, g := range fgroups[2:] {
		got, _, _, err := generateGroup(dir, g)
		if err != nil {
			t.Fatal(err)
		}
		wantFile := filepath.Join(dir, "expected_"+g.outFile)
		if os.Getenv("LOCKSKEL_UPDATE") != "" {
			os.WriteFile(wantFile, got, 0o644)
		}
		if want, err := os.ReadFile(wantFile); err != nil || string(want) != string(got) {
			t.Errorf("pub_main/%s: output differs from expected (%v)\n--- got\n%s", g.outFile, err, got)
		}
	}
}

// flat: entry -> set of "held|access" (the structure into sections is not compared: publisher-r3 splits one read section)
func flat(text string) map[string]map[string]bool {
	out := map[string]map[string]bool{}
	for _, es := range canonical(text) {
		for _, e := range es {
			m := map[string]bool{}
			for s := range e.secs {
				i := strings.Index(s, "|")
				for _, a := range strings.Split(s[i+1:], ",") {
					if a != "" {
						m[s[:i]+"|"+a] = true
					}
				}
			}
			out[e.name] = m
		}
	}
	return out
}

func TestPubRefactoringsDoNotChangeTheSkeleton(t *testing.T) {
	main := flat("Definition x\n" + pubGen(t, "pub_main", 2))
	if len(main) < 8 || len(main["Publication.Publish.go1"]) == 0 || len(main["Subscriber.Close"]) == 0 {
		t.Fatalf("unexpected skeleton of main: %v", main)
	}
	for _, r := range []string{"pub_r1", "pub_r2", "pub_r3"} {
		ref := flat("Definition x\n" + pubGen(t, r, 2))
		for name, m := range main {
			if r == "pub_r3" && name == "Publication.Close" {
				continue // r3 closes the subscribers from a callback handed to SyncMap.Range: not followed (Subscriber.Close has the sections)
			}
			rm, ok := ref[name]
			if !ok {
				t.Errorf("%s: entry %s is missing", r, name)
				continue
			}
			for a := range m {
				if !rm[a] {
					t.Errorf("%s.%s: %s missing after the rewrite", r, name, a)
				}
			}
			for a := range rm {
				if !m[a] {
					t.Errorf("%s.%s: %s appears after the rewrite", r, name, a)
				}
			}
		}
		for name := range ref {
			if _, ok := main[name]; !ok {
				t.Errorf("%s: new entry %s", r, name)
			}
		}
	}
}

func TestPubRankKeyEntriesAndMutations(t *testing.T) {
	check := func(text, name, want string) {
		t.Helper()
		if got := entryLine(t, text, name); got != want {
			t.Errorf("%s:\n got  %s\n want %s", name, got, want)
		}
	}
	muR, muW := `("mu", Rd)`, `("mu", Wr)`
	send := `Sec [` + muR + `] [` + rd("closed") + `; ` + rd("receiveCh") + `; ` + rd("receiveCh.open") + `; ` + rd("done") + `]`
	shut := `Sec [] [` + rd("done") + `]; Sec [` + muW + `] [` + wrt("closed") + `; ` + rd("receiveCh") + `; ` + wrt("receiveCh.open") + `]`
	m := pubGen(t, "pub_main", 2)
	check(m, "Publication.Publish.go1", `("Publication.Publish.go1", [`+send+`])`)
	check(m, "Subscriber.Close", `("Subscriber.Close", [`+shut+`])`)
	check(m, "Publication.Close", `("Publication.Close", [`+shut+`])`)
	check(m, "Subscriber.Receive", `("Subscriber.Receive", [Sec [] [`+rd("receiveCh")+`]])`)
	for _, private := range []string{"send", "shutdown", "unsubscribe"} {
		if strings.Contains(m, "."+private+`"`) || strings.Contains(m, `("`+private+`"`) {
			t.Errorf("private method %s has an entry of its own", private)
		}
	}
	// the mutations
	check(pubGen(t, "pub_m1_read_outside", 2), "Publication.Publish.go1",
		`("Publication.Publish.go1", [Sec [] [`+rd("closed")+`]; Sec [`+muR+`] [`+rd("receiveCh")+`; `+rd("receiveCh.open")+`; `+rd("done")+`]])`)
	check(pubGen(t, "pub_m2_close_outside", 2), "Subscriber.Close",
		`("Subscriber.Close", [Sec [] [`+rd("done")+`]; Sec [`+muW+`] [`+wrt("closed")+`]; Sec [] [`+rd("receiveCh")+`; `+wrt("receiveCh.open")+`]])`)
	check(pubGen(t, "pub_m3_send_nolock", 2), "Publication.Publish.go1",
		`("Publication.Publish.go1", [Sec [] [`+rd("closed")+`; `+rd("receiveCh")+`; `+rd("receiveCh.open")+`; `+rd("done")+`]])`)
	check(pubGen(t, "pub_m4_recursive_rlock", 2), "Publication.Publish.go1",
		`("Publication.Publish.go1", [Sec [`+muR+`] []; Sec [`+muR+`; `+muR+`] [`+rd("closed")+`]; Sec [`+muR+`] [`+rd("receiveCh")+`; `+rd("receiveCh.open")+`; `+rd("done")+`]])`)
	check(pubGen(t, "pub_m5_leak_on_return", 2), "Subscriber.Close", `("Subscriber.Close", [Unknown])`)
	check(pubGen(t, "pub_m7_write_under_rlock", 2), "Subscriber.Close",
		`("Subscriber.Close", [Sec [] [`+rd("done")+`]; Sec [`+muR+`] [`+wrt("closed")+`]; Sec [`+muW+`] [`+rd("receiveCh")+`; `+wrt("receiveCh.open")+`]])`)
	// rank
	mxR, mxW := `("mux", Rd)`, `("mux", Wr)`
	r := pubGen(t, "pub_main", 3)
	check(r, "Accumulate", `("Accumulate", [Sec [`+mxR+`] [`+rd("entries")+`]])`)
	check(r, "Reset", `("Reset", [Sec [`+mxW+`] [`+wrt("entries")+`]])`)
	check(r, "Calculate", `("Calculate", [Sec [`+mxR+`] [`+rd("entries")+`]])`)
	check(pubGen(t, "pub_m6_rank_nolock", 3), "Accumulate", `("Accumulate", [Sec [] [`+rd("entries")+`]])`)
}

// a struct held by value inside the target (lock + tracked slice), with methods; an EMBEDDED struct with promoted fields
func TestNestedStructsAndEmbedding(t *testing.T) {
	fc, err := loadFile(filepath.Join("..", "testdata", "fields_failclosed", "box.go"))
	if err != nil {
		t.Fatal(err)
	}
	tg := ftarget{file: "box.go", typeName: "Hubbed", nested: true,
		lockSpecs:  []lockSpec{{"L", "Mutex", 0}},
		fieldSpecs: []fieldSpec{{canon: "S", typ: `^\[\]chan int$`}, {canon: "rows", typ: `^int$`, nth: 0}, {canon: "cols", typ: `^int$`, nth: 1}},
		defName:    "hubbed"}
	var buf bytes.Buffer
	renderFields(&buf, tg, analyseFieldTarget(fc, tg))
	text := buf.String()
	check := func(name, want string) {
		t.Helper()
		if got := entryLine(t, text, name); got != want {
			t.Errorf("%s:\n got  %s\n want %s", name, got, want)
		}
	}
	check("Add", `("Add", [Sec [("L", Wr)] [`+rd("S")+`; `+wrt("S")+`]])`)
	check("Start", `("Start", [])`)
	check("Start.go1", `("Start.go1", [Sec [("L", Wr)] [`+rd("S")+`]])`)
	check("Area", `("Area", [Sec [] [`+rd("rows")+`; `+rd("cols")+`]])`)
	check("SetRows", `("SetRows", [Sec [("L", Wr)] [`+wrt("rows")+`]])`)
	check("hub.lonely", `("hub.lonely", [Sec [] [`+rd("S")+`]])`)
	check("hub.byValue", `("hub.byValue", [Unknown])`)
	check("CopyHub", `("CopyHub", [Unknown])`)
	if strings.Contains(text, `("hub.add"`) || strings.Contains(text, `("hub.pump"`) {
		t.Errorf("reached methods of the nested struct have entries of their own:\n%s", text)
	}
}

// deep mode: a function of the file that is handed the receiver is analysed in place
func TestDeepFunctionInlining(t *testing.T) {
	fc, err := loadFile(filepath.Join("..", "testdata", "infer", "shapes.go"))
	if err != nil {
		t.Fatal(err)
	}
	tg := target{file: "shapes.go", typeName: "Outer", lockCanon: "L", locCanon: "X", defName: "sk"}
	var buf bytes.Buffer
	render(&buf, tg, analyseTarget(fc, tg))
	text := buf.String()
	rdX := `{| loc := "X"; wr := false |}`
	for name, want := range map[string]string{
		"Sum":      `("Sum", [Sec [("L", Rd)] [` + rdX + `]])`,
		"SumTwice": `("SumTwice", [Unknown])`,
		"Total":    `("Total", [Sec [("L", Rd)] [` + rdX + `]])`,
	} {
		if got := entryLine(t, text, name); got != want {
			t.Errorf("%s:\n got  %s\n want %s", name, got, want)
		}
	}
	if strings.Contains(text, `("total"`) {
		t.Errorf("the private function total has an entry of its own")
	}
}
