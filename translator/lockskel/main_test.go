package main

import (
	"os"
	"path/filepath"
	"strings"
	"testing"
)

// Golden tests: testdata/<case>/storage/{safeMap.go,genericStack.go} -> testdata/<case>/expected.v
//
//	pinned      the code as pinned (GetOrAdd: three sections; Pop/Values: unlocked read first)
//	fixed       GetOrAdd fixed (two sections); unlocked reads of Pop/Values moved inside the lock
//	failclosed  pinned + methods that must come out as [Unknown] (and a few that must not)
//	badguard    SafeMap.mux declared as *sync.Mutex: every SafeMap method is [Unknown]
func TestGolden(t *testing.T) {
	for _, c := range []string{"pinned", "fixed", "failclosed", "badguard"} {
		dir := filepath.Join("..", "testdata", c)
		got, _, _, err := generate(dir)
		if err != nil {
			t.Fatalf("%s: %v", c, err)
		}
		want, err := os.ReadFile(filepath.Join(dir, "expected.v"))
		if err != nil {
			t.Fatalf("%s: %v", c, err)
		}
		if string(got) != string(want) {
			t.Errorf("%s: output differs from expected.v\n--- got\n%s", c, got)
		}
	}
}

func entryLine(t *testing.T, text, name string) string {
	for _, l := range strings.Split(text, "\n") {
		if strings.HasPrefix(l, "  (\""+name+"\", ") {
			return strings.TrimSuffix(strings.TrimSpace(l), ";")
		}
	}
	t.Fatalf("no entry %s", name)
	return ""
}

const (
	rdM  = `{| loc := "m"; wr := false |}`
	wrM  = `{| loc := "m"; wr := true |}`
	rdSE = `{| loc := "stack.entries"; wr := false |}`
	wrSE = `{| loc := "stack.entries"; wr := true |}`
)

func TestKeyEntries(t *testing.T) {
	gen := func(c string) string {
		got, _, _, err := generate(filepath.Join("..", "testdata", c))
		if err != nil {
			t.Fatal(err)
		}
		return string(got)
	}
	pinned, fixed, fc := gen("pinned"), gen("fixed"), gen("failclosed")
	check := func(text, name, want string) {
		t.Helper()
		if got := entryLine(t, text, name); got != want {
			t.Errorf("%s:\n got  %s\n want %s", name, got, want)
		}
	}
	check(pinned, "GetOrAdd", `("GetOrAdd", [Sec [("mux", Rd)] [`+rdM+`]; Sec [("mux", Rd)] [`+rdM+`]; Sec [("mux", Wr)] [`+rdM+`; `+wrM+`]])`)
	check(fixed, "GetOrAdd", `("GetOrAdd", [Sec [("mux", Rd)] [`+rdM+`]; Sec [("mux", Wr)] [`+rdM+`; `+wrM+`]])`)
	check(pinned, "Pop", `("Pop", [Sec [] [`+rdSE+`]; Sec [("mux", Wr)] [`+rdSE+`; `+wrSE+`]])`)
	check(fixed, "Pop", `("Pop", [Sec [("mux", Wr)] [`+rdSE+`; `+wrSE+`]])`)
	check(pinned, "Push", `("Push", [Sec [("mux", Wr)] [`+rdSE+`; `+wrSE+`]])`)
	check(fc, "Raw", `("Raw", [Unknown])`)
	check(fc, "LockInIf", `("LockInIf", [Unknown])`)
	check(fc, "Barrier", `("Barrier", [Sec [("mux", Wr)] []])`)
	// "Values" exists in both files; look at the gstack part only
	gs := func(s string) string { return s[strings.Index(s, "gstack_skeleton"):] }
	check(gs(pinned), "Values", `("Values", [Sec [] [`+rdSE+`]; Sec [("mux", Rd)] [`+rdSE+`]])`)
	check(gs(fixed), "Values", `("Values", [Sec [("mux", Rd)] [`+rdSE+`]])`)
}
