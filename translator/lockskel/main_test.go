package main

import (
	"bytes"
	"os"
	"path/filepath"
	"strings"
	"testing"
)

// Golden tests: testdata/<case>/storage/{safeMap.go,genericStack.go} -> testdata/<case>/expected.v
//
//	pinned      the code as pinned (GetOrAdd: three sections; Pop/Values: unlocked read first)
//	fixed       GetOrAdd fixed (two sections); unlocked reads of Pop/Values moved inside the lock
//	failclosed  pinned + methods that must come out as [Unknown] (and a few that must not)
//	badguard    SafeMap.mux declared as *sync.Mutex: every SafeMap method is [Unknown]
func TestGolden(t *testing.T) {
	for _, c := range []string{"pinned", "fixed", "failclosed", "badguard"} {
		dir := filepath.Join("..", "testdata", c)
		got, _, _, err := generate(dir)
		if err != nil {
			t.Fatalf("%s: %v", c, err)
		}
		want, err := os.ReadFile(filepath.Join(dir, "expected.v"))
		if err != nil {
			t.Fatalf("%s: %v", c, err)
		}
		if string(got) != string(want) {
			t.Errorf("%s: output differs from expected.v\n--- got\n%s", c, got)
		}
	}
}

func entryLine(t *testing.T, text, name string) string {
	for _, l := range strings.Split(text, "\n") {
		if strings.HasPrefix(l, "  (\""+name+"\", ") {
			return strings.TrimSuffix(strings.TrimSpace(l), ";")
		}
	}
	t.Fatalf("no entry %s", name)
	return ""
}

const (
	rdM  = `{| loc := "m"; wr := false |}`
	wrM  = `{| loc := "m"; wr := true |}`
	rdSE = `{| loc := "stack.entries"; wr := false |}`
	wrSE = `{| loc := "stack.entries"; wr := true |}`
)

func TestKeyEntries(t *testing.T) {
	gen := func(c string) string {
		got, _, _, err := generate(filepath.Join("..", "testdata", c))
		if err != nil {
			t.Fatal(err)
		}
		return string(got)
	}
	pinned, fixed, fc := gen("pinned"), gen("fixed"), gen("failclosed")
	check := func(text, name, want string) {
		t.Helper()
		if got := entryLine(t, text, name); got != want {
			t.Errorf("%s:\n got  %s\n want %s", name, got, want)
		}
	}
	check(pinned, "GetOrAdd", `("GetOrAdd", [Sec [("mux", Rd)] [`+rdM+`]; Sec [("mux", Rd)] [`+rdM+`]; Sec [("mux", Wr)] [`+rdM+`; `+wrM+`]])`)
	check(fixed, "GetOrAdd", `("GetOrAdd", [Sec [("mux", Rd)] [`+rdM+`]; Sec [("mux", Wr)] [`+rdM+`; `+wrM+`]])`)
	check(pinned, "Pop", `("Pop", [Sec [] [`+rdSE+`]; Sec [("mux", Wr)] [`+rdSE+`; `+wrSE+`]])`)
	check(fixed, "Pop", `("Pop", [Sec [("mux", Wr)] [`+rdSE+`; `+wrSE+`]])`)
	check(pinned, "Push", `("Push", [Sec [("mux", Wr)] [`+rdSE+`; `+wrSE+`]])`)
	check(fc, "Raw", `("Raw", [Unknown])`)
	check(fc, "LockInIf", `("LockInIf", [Unknown])`)
	check(fc, "Barrier", `("Barrier", [Sec [("mux", Wr)] []])`)
	// "Values" exists in both files; look at the gstack part only
	gs := func(s string) string { return s[strings.Index(s, "gstack_skeleton"):] }
	check(gs(pinned), "Values", `("Values", [Sec [] [`+rdSE+`]; Sec [("mux", Rd)] [`+rdSE+`]])`)
	check(gs(fixed), "Values", `("Values", [Sec [("mux", Rd)] [`+rdSE+`]])`)
}

// ---------------------------------------------------------------------------------------------
// field mode (fields.go): several fields, several mutexes, go statements, closures, defer, select
//
//	fields_main        storage/fifoMapCache.go and workqueue/queue.go as on main -> expected_<file>
//	fields_mut         (i) Sweep without RLock, pinned getCurrentPartition, an unlocked fast path,
//	                   (ii) the monitor ranging over the subscribers without the mutex (pinned F14),
//	                   (iii) an append outside the mutex
//	fields_failclosed  a synthetic type: shapes that must be analysed and shapes that must be [Unknown]
// ---------------------------------------------------------------------------------------------

func TestFieldsGolden(t *testing.T) {
	for _, c := range []string{"fields_main", "fields_mut"} {
		dir := filepath.Join("..", "testdata", c)
		for _, g := range fgroups {
			got, _, _, err := generateGroup(dir, g)
			if err != nil {
				t.Fatalf("%s: %v", c, err)
			}
			wantFile := filepath.Join(dir, "expected_"+g.outFile)
			if os.Getenv("LOCKSKEL_UPDATE") != "" {
				os.WriteFile(wantFile, got, 0o644)
			}
			want, err := os.ReadFile(wantFile)
			if err != nil {
				t.Fatalf("%s: %v", c, err)
			}
			if string(got) != string(want) {
				t.Errorf("%s/%s: output differs from expected\n--- got\n%s", c, g.outFile, got)
			}
		}
	}
}

func fieldGen(t *testing.T, dir string, gi int) string {
	got, _, _, err := generateGroup(filepath.Join("..", "testdata", dir), fgroups[gi])
	if err != nil {
		t.Fatal(err)
	}
	return string(got)
}

func rd(f string) string  { return `{| loc := "` + f + `"; wr := false |}` }
func wrt(f string) string { return `{| loc := "` + f + `"; wr := true |}` }

func TestFieldsKeyEntries(t *testing.T) {
	check := func(text, name, want string) {
		t.Helper()
		if got := entryLine(t, text, name); got != want {
			t.Errorf("%s:\n got  %s\n want %s", name, got, want)
		}
	}
	cpmR, cpmW, swm := `("currentPartitionMux", Rd)`, `("currentPartitionMux", Wr)`, `("sweepingMux", Wr)`
	fast := `Sec [` + cpmR + `] [` + rd("partitions") + `; ` + rd("currentPartitionId") + `; ` + rd("partitionCapacity") + `]`
	slow := `Sec [` + cpmW + `] [` + rd("partitions") + `; ` + rd("currentPartitionId") + `; ` + rd("partitionCapacity") + `; ` + wrt("currentPartitionId") + `]`
	cache := fieldGen(t, "fields_main", 0)
	check(cache, "getCurrentPartition", `("getCurrentPartition", [`+fast+`; `+slow+`])`)
	check(cache, "Sweep", `("Sweep", [Sec [`+swm+`] []; Sec [`+swm+`; `+cpmR+`] [`+rd("partitions")+`; `+rd("maxPartitions")+`]])`)
	check(cache, "Get", `("Get", [Sec [] [`+rd("valuePartitionIndex")+`; `+rd("partitions")+`]])`)
	check(cache, "Capacity", `("Capacity", [Sec [] [`+rd("maxPartitions")+`; `+rd("partitionCapacity")+`]])`)
	check(cache, "Clear", `("Clear", [Sec [`+cpmW+`] [`+rd("maxPartitions")+`; `+wrt("partitions")+`; `+wrt("valuePartitionIndex")+`; `+rd("partitionCapacity")+`; `+rd("partitions")+`; `+wrt("currentPartitionId")+`]])`)
	mut := fieldGen(t, "fields_mut", 0)
	check(mut, "Sweep", `("Sweep", [Sec [`+swm+`] [`+rd("partitions")+`; `+rd("maxPartitions")+`]])`)
	check(mut, "getCurrentPartitionPinned", `("getCurrentPartitionPinned", [`+fast+`; Sec [`+cpmW+`] [`+rd("partitionCapacity")+`; `+rd("partitions")+`; `+wrt("currentPartitionId")+`; `+rd("currentPartitionId")+`]])`)
	check(mut, "currentIdUnlocked", `("currentIdUnlocked", [Sec [] [`+rd("currentPartitionId")+`]])`)

	em := `("errSubScriberMux", Wr)`
	es := "errorSubscribers"
	wq := fieldGen(t, "fields_main", 1)
	wqErr := wq[strings.Index(wq, "wq_err_skeleton"):strings.Index(wq, "wq_shared_skeleton")]
	check(wqErr, "Errors", `("Errors", [Sec [`+em+`] [`+rd(es)+`; `+wrt(es)+`]])`)
	check(wqErr, "start.func2", `("start.func2", [Sec [`+em+`] [`+rd(es)+`]])`)
	check(wqErr, "start", `("start", [])`)
	wqm := fieldGen(t, "fields_mut", 1)
	wqmErr := wqm[strings.Index(wqm, "wq_err_skeleton"):strings.Index(wqm, "wq_shared_skeleton")]
	check(wqmErr, "start.func2", `("start.func2", [Sec [] [`+rd(es)+`]])`)
	check(wqmErr, "Errors2", `("Errors2", [Sec [`+em+`] []; Sec [] [`+rd(es)+`; `+wrt(es)+`]])`)
}

var boxTarget = ftarget{file: "box.go", typeName: "Box", locks: []string{"mu", "aux"},
	fields: []string{"items", "n", "ptr"}, defName: "box_skeleton"}

func TestFieldsFailClosed(t *testing.T) {
	fc, err := loadFile(filepath.Join("..", "testdata", "fields_failclosed", "box.go"))
	if err != nil {
		t.Fatal(err)
	}
	var buf bytes.Buffer
	es := analyseFieldTarget(fc, boxTarget)
	renderFields(&buf, boxTarget, es)
	text := buf.String()
	wantFile := filepath.Join("..", "testdata", "fields_failclosed", "expected.v")
	if os.Getenv("LOCKSKEL_UPDATE") != "" {
		os.WriteFile(wantFile, buf.Bytes(), 0o644)
	}
	if want, err := os.ReadFile(wantFile); err != nil || string(want) != text {
		t.Errorf("fields_failclosed: output differs from expected.v (%v)\n--- got\n%s", err, text)
	}
	check := func(name, want string) {
		t.Helper()
		if got := entryLine(t, text, name); got != want {
			t.Errorf("%s:\n got  %s\n want %s", name, got, want)
		}
	}
	muR, muW, aux := `("mu", Rd)`, `("mu", Wr)`, `("aux", Wr)`
	check("Nested", `("Nested", [Sec [`+aux+`] []; Sec [`+aux+`; `+muR+`] [`+rd("n")+`; `+rd("items")+`]])`)
	check("Writes", `("Writes", [Sec [`+muW+`] [`+rd("items")+`; `+wrt("items")+`; `+rd("n")+`; `+wrt("n")+`]; Sec [`+aux+`] [`+rd("n")+`; `+wrt("n")+`]])`)
	check("Through", `("Through", [Sec [] [`+rd("ptr")+`]])`)
	check("Spawns", `("Spawns", [Sec [`+muW+`] [`+wrt("n")+`]])`)
	check("Spawns.func1", `("Spawns.func1", [Sec [`+muR+`] [`+rd("n")+`]; Sec [] [`+wrt("n")+`]])`)
	check("Deferred", `("Deferred", [Sec [`+muW+`] [`+wrt("n")+`]; Sec [] [`+wrt("n")+`]])`)
	check("FastSlow", `("FastSlow", [Sec [`+muR+`] [`+rd("n")+`]; Sec [`+muW+`] [`+wrt("n")+`; `+rd("n")+`]])`)
	check("Calls", `("Calls", [Sec [] [`+rd("ptr")+`]; Sec [`+muW+`] []; Sec [`+muR+`] [`+rd("n")+`]; Sec [`+muW+`] [`+wrt("n")+`; `+rd("n")+`]])`)
	check("Snapshot", `("Snapshot", [Sec [`+muR+`] [`+rd("items")+`]])`)
	check("Loop", `("Loop", [Sec [`+muR+`] [`+rd("n")+`]])`)
	for _, n := range []string{"EscapeRecv", "PassRecv", "AliasSlice", "ReturnSlice", "SubSlice", "AddrField", "AddrFree",
		"MethodValue", "StoreLock", "TryLock", "RLockOnMutex", "Reentrant", "CallUnderLock", "LeakOnReturn", "NeverUnlocked",
		"AppendElsewhere", "DeferMethod", "GoWithRecv", "LockInIf", "CaptureElsewhere", "SelectUnbalanced",
		"RangeWithLockInside", "DeferInLoop", "Goto", "ValueReceiver", "Merge"} {
		check(n, `("`+n+`", [Unknown])`)
	}
	// a lock that is not a sync mutex, a field that does not exist: everything is Unknown
	bad := boxTarget
	bad.locks = []string{"done"}
	for _, e := range analyseFieldTarget(fc, bad) {
		if !e.unknown {
			t.Errorf("bad lock: %s is not Unknown", e.name)
		}
	}
	bad = boxTarget
	bad.fields = []string{"nosuch"}
	for _, e := range analyseFieldTarget(fc, bad) {
		if !e.unknown {
			t.Errorf("bad field: %s is not Unknown", e.name)
		}
	}
}
