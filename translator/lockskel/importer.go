// A source importer for the packages of the analysed MODULE (foreign mode only).
//
// The default importer of lockskel returns empty packages, which is enough as long as the values the analysis cares
// about are declared in the analysed file.  In publisher/publication.go the *Subscriber values come out of a generic
// container of another package of the module (generic.SyncMap[uint64, *Subscriber[T]]: Iterate, LoadAndDelete), so their
// static type is only known if that package's declarations are.  moduleImporter type-checks the DECLARATIONS (function
// bodies ignored) of module-internal packages from <repo>/<dir>, recursively; "iter" is synthesised (Seq, Seq2: the two
// generic function types range-over-func needs); every other import is an empty package as before.  Only go/parser and
// go/types are used.
package main

import (
	"go/ast"
	"go/parser"
	"go/token"
	"go/types"
	"os"
	"path"
	"path/filepath"
	"strings"
)

type moduleImporter struct {
	repo   string
	module string
	fset   *token.FileSet
	pkgs   map[string]*types.Package
	busy   map[string]bool
}

func newModuleImporter(repo string, fset *token.FileSet) *moduleImporter {
	m := &moduleImporter{repo: repo, fset: fset, pkgs: map[string]*types.Package{}, busy: map[string]bool{}}
	if b, err := os.ReadFile(filepath.Join(repo, "go.mod")); err == nil {
		for _, l := range strings.Split(string(b), "\n") {
			if f := strings.Fields(l); len(f) == 2 && f[0] == "module" {
				m.module = f[1]
			}
		}
	}
	return m
}

func emptyPackage(p string) *types.Package {
	pkg := types.NewPackage(p, path.Base(p))
	pkg.MarkComplete()
	return pkg
}

// iterPackage: type Seq[V any] func(yield func(V) bool); type Seq2[K, V any] func(yield func(K, V) bool)
func iterPackage() *types.Package {
	pkg := types.NewPackage("iter", "iter")
	anyT := types.Universe.Lookup("any").Type()
	mk := func(name string, n int) {
		tn := types.NewTypeName(token.NoPos, pkg, name, nil)
		named := types.NewNamed(tn, nil, nil)
		var tps []*types.TypeParam
		var params []*types.Var
		for i := 0; i < n; i++ {
			tp := types.NewTypeParam(types.NewTypeName(token.NoPos, pkg, string(rune('K'+i)), nil), anyT)
			tps = append(tps, tp)
			params = append(params, types.NewVar(token.NoPos, pkg, "", tp))
		}
		named.SetTypeParams(tps)
		yield := types.NewSignatureType(nil, nil, nil, types.NewTuple(params...),
			types.NewTuple(types.NewVar(token.NoPos, pkg, "", types.Typ[types.Bool])), false)
		named.SetUnderlying(types.NewSignatureType(nil, nil, nil,
			types.NewTuple(types.NewVar(token.NoPos, pkg, "yield", yield)), nil, false))
		pkg.Scope().Insert(tn)
	}
	mk("Seq", 1)
	mk("Seq2", 2)
	pkg.MarkComplete()
	return pkg
}

func (m *moduleImporter) Import(p string) (*types.Package, error) {
	if pkg, ok := m.pkgs[p]; ok {
		return pkg, nil
	}
	var pkg *types.Package
	switch {
	case p == "iter":
		pkg = iterPackage()
	case m.module != "" && strings.HasPrefix(p, m.module+"/") && !m.busy[p]:
		m.busy[p] = true
		pkg = m.checkDir(p, filepath.Join(m.repo, filepath.FromSlash(strings.TrimPrefix(p, m.module+"/"))))
		delete(m.busy, p)
	}
	if pkg == nil {
		pkg = emptyPackage(p)
	}
	m.pkgs[p] = pkg
	return pkg, nil
}

// checkDir: the declarations of the non-test files of one directory (nil if there is nothing usable)
func (m *moduleImporter) checkDir(p, dir string) *types.Package {
	ents, err := os.ReadDir(dir)
	if err != nil {
		return nil
	}
	var files []*ast.File
	for _, e := range ents {
		n := e.Name()
		if e.IsDir() || !strings.HasSuffix(n, ".go") || strings.HasSuffix(n, "_test.go") {
			continue
		}
		f, err := parser.ParseFile(m.fset, filepath.Join(dir, n), nil, parser.SkipObjectResolution)
		if err != nil {
			continue
		}
		if len(files) > 0 && f.Name.Name != files[0].Name.Name {
			continue
		}
		files = append(files, f)
	}
	if len(files) == 0 {
		return nil
	}
	conf := types.Config{Importer: m, Error: func(error) {}, IgnoreFuncBodies: true}
	pkg, _ := conf.Check(p, m.fset, files, nil)
	return pkg
}
