#!/usr/bin/env bash
# translator/run.sh -- regenerate coq/Gen/LockSkeleton_gen.v from the Go sources.
#
# usage:   bash translator/run.sh                       (repository under /repo)
#          VERIF_REPO=/path/to/repo bash translator/run.sh
#
# Builds translator/lockskel (a go/ast + go/types analyser without dependencies) into
# .work/bin/lockskel and runs it on $REPO/storage/safeMap.go, $REPO/storage/genericStack.go (deep mode) and on
# $REPO/storage/fifoMapCache.go, $REPO/workqueue/queue.go (field mode: several fields, several mutexes).
# The result, coq/Gen/LockSkeleton_gen.v, defines [safemap_skeleton] and [gstack_skeleton]
# (type [skeleton] of TC.Lib.Conc); the Coq side then decides [lockset_check] on them.
#
# IMPORTANT: the generated file is an input of the Coq build.  bin/setup has to run this script
# BEFORE the Coq build (before gen-coqproject / make), and so has everything else that builds coq/.
# The file is rewritten only when its content changes, so an unchanged repository does not make
# `make` rebuild anything.
#
# Exit code: 0 whenever the two source files could be read and parsed -- also when some methods
# could not be analysed.  Those are emitted as [Unknown] sections, which make [lockset_check]
# false: fail-closed lives in the OUTPUT, not in the exit code.  Non-zero: build failure or
# unreadable/unparsable sources.
#
# Tests of the translator itself:  cd translator/lockskel && go test ./...
set -euo pipefail

REPO=${VERIF_REPO:-/repo}
HERE=$(cd "$(dirname "${BASH_SOURCE[0]}")" && pwd)
ROOT=$(dirname "$HERE")

export GOFLAGS=-mod=mod GOPROXY=off

mkdir -p "$ROOT/.work/bin" "$ROOT/coq/Gen"
(cd "$HERE/lockskel" && go build -o "$ROOT/.work/bin/lockskel" .)
# deep mode: SafeMap.m / GenericStack.stack.entries (C07, C11)  ->  Gen/LockSkeleton_gen.v
# field mode: FifoMapCache's fields (C08) -> Gen/CacheSkeleton_gen.v ; Queue.errorSubscribers (C14) -> Gen/WQSkeleton_gen.v
#             Subscriber / Publication of publisher/publication.go (C10) -> Gen/PubSkeleton_gen.v ;
#             RankCalculator.entries (X05) -> Gen/RankSkeleton_gen.v
# (separate files, so that a property depends only on the skeletons of its own package)
exec "$ROOT/.work/bin/lockskel" -repo "$REPO" -out "$ROOT/coq/Gen/LockSkeleton_gen.v" -outdir "$ROOT/coq/Gen"
