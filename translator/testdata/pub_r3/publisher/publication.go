/*
 * Copyright (c) 2025 by Randy Bell.  All rights reserved.
 *
 * This Source Code Form is subject to the terms of the Apache Public License, version 2.0. If a copy of the APL was not distributed with this file, you can obtain one at https://www.apache.org/licenses/LICENSE-2.0.txt.
 */

package publisher

import (
	"sync"
	"sync/atomic"
	"time"

	"github.com/rbell/toolchest/generic"
)

// defaultTimeout is the default timeout used when publishing a message.
var defaultTimeout = 10 * time.Second

// Publication is a generic struct that manages the publication of messages to subscribers.
type Publication[T any] struct {
	subscribers     *generic.SyncMap[uint64, *Subscriber[T]]
	subscriberCount atomic.Uint64
}

// Subscriber is a struct that represents a subscriber to a publication.
type Subscriber[T any] struct {
	subscriberID uint64
	filter       func(T) bool
	onFiltered   func(T)
	receiveCh    chan T
	publisher    *Publication[T]
	timeout      time.Duration
	onTimeout    func(T)

	// mu is held for reading by a delivery while it waits to send and for writing
	// while receiveCh is closed, so a send never meets a closed channel.
	mu     sync.RWMutex
	closed bool
	// done is closed first when the subscriber is closed; it wakes pending deliveries.
	done chan struct{}
}

type SubscriberOption[T any] func(sub *Subscriber[T])

// NewPublication creates a new Publication.
func NewPublication[T any]() *Publication[T] {
	return &Publication[T]{
		subscribers:     generic.NewSyncMap[uint64, *Subscriber[T]](),
		subscriberCount: atomic.Uint64{},
	}
}

// Subscribe creates a new subscriber to the publication.
//
//	buffer: the size of the buffer for the subscriber's receive channel.
//	options: optional options for the subscriber.
//
// Returns a reference to the new subscriber.
func (p *Publication[T]) Subscribe(buffer int, opts ...SubscriberOption[T]) *Subscriber[T] {
	sub := &Subscriber[T]{
		subscriberID: p.subscriberCount.Add(1),
		receiveCh:    make(chan T, buffer),
		publisher:    p,
		timeout:      defaultTimeout,
		done:         make(chan struct{}),
	}

	for _, opt := range opts {
		opt(sub)
	}

	p.subscribers.Store(sub.subscriberID, sub)
	return sub
}

// Publish publishes a message to all subscribers.
//
//	message: the message to publish.
//	timeout: the timeout for sending the message to each subscriber. If nil, the default timeout is used.
func (p *Publication[T]) Publish(message T) {
	for _, sub := range p.subscribers.Iterate() {
		if sub.filter == nil || sub.filter(message) {
			go func() {
				if sub.send(message) && sub.onTimeout != nil {
					sub.onTimeout(message)
				}
			}()
		} else if sub.onFiltered != nil {
			sub.onFiltered(message)
		}
	}
}

// Close closes the publication and all subscriber channels.
func (p *Publication[T]) Close() {
	p.subscribers.Range(func(id uint64, _ *Subscriber[T]) bool {
		p.unsubscribe(id)
		return true
	})
}

// unsubscribe removes a subscriber from the publication.
func (p *Publication[T]) unsubscribe(subscriberID uint64) {
	// only the caller that takes the subscriber out of the map closes its channels
	s, ok := p.subscribers.LoadAndDelete(subscriberID)
	if !ok {
		return
	}
	s.shutdown()
}

// send delivers message to the subscriber's channel. It reports whether the
// delivery was given up because the subscriber's timeout expired; a delivery
// that is pending when the subscriber is closed is dropped.
func (s *Subscriber[T]) send(message T) (timedOut bool) {
	s.mu.RLock()
	if s.closed {
		s.mu.RUnlock()
		return false
	}
	// nothing below can panic: receiveCh is closed only under the write lock
	expiry := time.NewTimer(s.timeout)
	select {
	case s.receiveCh <- message:
	case <-s.done:
	case <-expiry.C:
		timedOut = true
	}
	s.mu.RUnlock()
	// release the timer of a delivery that did not time out
	expiry.Stop()
	return timedOut
}

// shutdown wakes the pending deliveries, waits until they have left and closes
// the receive channel. Messages already buffered remain readable.
func (s *Subscriber[T]) shutdown() {
	close(s.done)
	s.mu.Lock()
	s.closed = true
	close(s.receiveCh)
	s.mu.Unlock()
}

// Close closes the subscriber's receive channel and unsubscribes them from the publication.
func (s *Subscriber[T]) Close() {
	s.publisher.unsubscribe(s.subscriberID)
}

// Receive returns the subscriber's receive channel.
func (s *Subscriber[T]) Receive() <-chan T {
	return s.receiveCh
}

//region Subscriber Options

func WithFilter[T any](filter func(T) bool) SubscriberOption[T] {
	return func(sub *Subscriber[T]) {
		sub.filter = filter
	}
}

func WithTimeout[T any](timeout time.Duration) SubscriberOption[T] {
	return func(sub *Subscriber[T]) {
		sub.timeout = timeout
	}
}

func OnTimeout[T any](onTimeout func(T)) SubscriberOption[T] {
	return func(sub *Subscriber[T]) {
		sub.onTimeout = onTimeout
	}
}

func OnFiltered[T any](onFiltered func(T)) SubscriberOption[T] {
	return func(sub *Subscriber[T]) {
		sub.onFiltered = onFiltered
	}
}

//endregion
