/*
 * Copyright (c) 2025 by Randy Bell.  All rights reserved.
 *
 * This Source Code Form is subject to the terms of the Apache Public License, version 2.0. If a copy of the APL was not distributed with this file, you can obtain one at https://www.apache.org/licenses/LICENSE-2.0.txt.
 */

package generic

import (
	"iter"
	"sync"
)

// SyncMap is a generic wrapper around sync.Map that provides type safety
type SyncMap[K comparable, V any] struct {
	*sync.Map
}

func NewSyncMap[K comparable, V any]() *SyncMap[K, V] {
	return &SyncMap[K, V]{
		Map: &sync.Map{},
	}
}

// Load returns the value stored in the map for a key, or the zero value if no
// value is present. The ok result indicates whether value was found in the map.
func (m *SyncMap[K, V]) Load(key K) (value V, ok bool) {
	v, ok := m.Map.Load(key)
	if !ok {
		return
	}

	// comma-ok: a stored nil interface value yields the zero V (nil) instead of a panic
	value, _ = v.(V)
	return value, ok
}

// Store sets the value for a key.
func (m *SyncMap[K, V]) Store(key K, value V) {
	m.Map.Store(key, value)
}

// Swap swaps the value for a key and returns the previous value if any. The loaded result reports whether the key was present.
func (m *SyncMap[K, V]) Swap(key K, value V) (previous V, loaded bool) {
	v, l := m.Map.Swap(key, value)
	if !l {
		return
	}
	previous, _ = v.(V)
	return previous, l
}

// Delete deletes the value for a key.
func (m *SyncMap[K, V]) Delete(key K) {
	m.Map.Delete(key)
}

// LoadOrStore returns the existing value for the key if present.
// Otherwise, it stores and returns the given value. The loaded result is true if the value was loaded, false if stored.
func (m *SyncMap[K, V]) LoadOrStore(key K, value V) (actual V, loaded bool) {
	v, l := m.Map.LoadOrStore(key, value)
	actual, _ = v.(V)
	return actual, l
}

// LoadAndDelete deletes the value for a key, returning the previous value if any.
// The loaded result reports whether the key was present.
func (m *SyncMap[K, V]) LoadAndDelete(key K) (value V, loaded bool) {
	v, l := m.Map.LoadAndDelete(key)
	if !l {
		return
	}
	value, _ = v.(V)
	return value, l
}

// CompareAndDelete deletes the entry for key if its value is equal to old.
// The old value must be of a comparable type.
func (m *SyncMap[K, V]) CompareAndDelete(key K, old V) bool {
	return m.Map.CompareAndDelete(key, old)
}

// CompareAndSwap swaps the old and new values for key if the value stored in the map is equal to old.
func (m *SyncMap[K, V]) CompareAndSwap(key K, old V, new V) bool {
	return m.Map.CompareAndSwap(key, old, new)
}

// Range calls f sequentially for each key and value present in the map. If f returns false, range stops the iteration.
func (m *SyncMap[K, V]) Range(f func(key K, value V) bool) {
	m.Map.Range(func(k any, v any) bool {
		key, _ := k.(K)
		value, _ := v.(V)
		return f(key, value)
	})
}

// Iterate returns an iterator that can be used to iterate over the map.
func (m *SyncMap[K, V]) Iterate() iter.Seq2[K, V] {
	return func(yield func(K, V) bool) {
		for anyKey, anyValue := range m.Map.Range {
			key, _ := anyKey.(K)
			value, _ := anyValue.(V)
			if !yield(key, value) {
				break
			}
		}
	}
}
