/*
 * Copyright (c) 2023  by Randy Bell.  All rights reserved.
 *
 * This Source Code Form is subject to the terms of the Apache Public License, version 2.0. If a copy of the APL was not distributed with this file, you can obtain one at https://www.apache.org/licenses/LICENSE-2.0.txt.
 */

package storage

import (
	"fmt"
	"sync"
)

// SafeMap wraps a map[K]V with a simple RWMutex to facilitate concurrency
type SafeMap[K comparable, V any] struct {
	mux *sync.RWMutex
	m   map[K]V
}

// NewSafeMap returns an initialized reference to a SafeMap of K, V
func NewSafeMap[K comparable, V any](initialCapacity int) *SafeMap[K, V] {
	var m map[K]V
	if initialCapacity > 0 {
		m = make(map[K]V, initialCapacity)
	} else {
		m = make(map[K]V)
	}

	return &SafeMap[K, V]{
		mux: &sync.RWMutex{},
		m:   m,
	}
}

// Contains returns true if the key of type K is in the map
func (s *SafeMap[K, V]) Contains(key K) bool {
	s.mux.RLock()
	defer s.mux.RUnlock()
	_, ok := s.m[key]
	return ok
}

// Get returns the value of type V for the key of type K.  If the key is not found, the zero value of V is returned.
func (s *SafeMap[K, V]) Get(key K) (value V) {
	s.mux.RLock()
	defer s.mux.RUnlock()
	value = s.m[key]
	return
}

// GetOrAdd returns the value of type V for the key of type K.  If the key is not found, the value is added to the map and returned.
func (s *SafeMap[K, V]) GetOrAdd(key K, val V) (value V) {
	if s.Has(key) {
		return s.Get(key)
	}
	s.mux.Lock()
	defer s.mux.Unlock()
	if v, ok := s.m[key]; ok {
		return v
	}
	s.m[key] = val
	return val
}

// Set sets the value of type V for the key of type K.
func (s *SafeMap[K, V]) Set(key K, value V) {
	s.mux.Lock()
	defer s.mux.Unlock()
	s.m[key] = value
}

// Delete deletes the key of type K from the map
func (s *SafeMap[K, V]) Delete(key K) {
	s.mux.Lock()
	defer s.mux.Unlock()
	delete(s.m, key)
}

// Clear removes all the keys and values from the map
func (s *SafeMap[K, V]) Clear() {
	s.mux.Lock()
	defer s.mux.Unlock()
	s.m = make(map[K]V)
}

// ClearAndResize clears the map and resize it to the new size
func (s *SafeMap[K, V]) ClearAndResize(newSize int) {
	s.mux.Lock()
	defer s.mux.Unlock()
	s.m = make(map[K]V, newSize)
}

// Has returns true if the key of type K is in the map
func (s *SafeMap[K, V]) Has(key K) bool {
	s.mux.RLock()
	defer s.mux.RUnlock()
	_, ok := s.m[key]
	return ok
}

// Len returns the length of the map
func (s *SafeMap[K, V]) Len() int {
	s.mux.RLock()
	defer s.mux.RUnlock()
	return len(s.m)
}

// Keys returns a slice of all the keys in the map
func (s *SafeMap[K, V]) Keys() []K {
	s.mux.RLock()
	defer s.mux.RUnlock()
	keys := make([]K, 0, len(s.m))
	for k := range s.m {
		keys = append(keys, k)
	}
	return keys
}

// Values returns a slice of all the values in the map
func (s *SafeMap[K, V]) Values() []V {
	s.mux.RLock()
	defer s.mux.RUnlock()

	values := make([]V, 0, len(s.m))
	for _, v := range s.m {
		values = append(values, v)
	}
	return values
}

// CopyToMap returns a copy of the map
func (s *SafeMap[K, V]) CopyToMap() map[K]V {
	s.mux.RLock()
	defer s.mux.RUnlock()
	result := make(map[K]V, len(s.m))
	for k, v := range s.m {
		result[k] = v
	}
	return result
}

// TranslateToMapOf returns a map of type D from the map of type V
func TranslateToMapOf[K comparable, V any, D any](s *SafeMap[K, V], translator func(V) D) map[K]D {
	s.mux.RLock()
	defer s.mux.RUnlock()
	result := make(map[K]D, len(s.m))
	for k, v := range s.m {
		result[k] = translator(v)
	}
	return result
}

// ---- fail-closed test methods (not part of the real code) ----

// (a) the guarded map escapes
func (s *SafeMap[K, V]) Raw() map[K]V { return s.m }

// (b) lock taken in a branch only
func (s *SafeMap[K, V]) LockInIf(key K, lock bool) V {
	if lock {
		s.mux.RLock()
	}
	v := s.m[key]
	if lock {
		s.mux.RUnlock()
	}
	return v
}

// re-entrant acquire through a call of another method
func (s *SafeMap[K, V]) Reentrant(key K) bool {
	s.mux.RLock()
	defer s.mux.RUnlock()
	return s.Has(key)
}

// assigning the map to a variable is accepted as a local alias; using it after the unlock is an
// access outside of the critical section (second section, no lock held)
func (s *SafeMap[K, V]) AliasAfterUnlock(key K) V {
	s.mux.RLock()
	m := s.m
	s.mux.RUnlock()
	return m[key]
}

func (s *SafeMap[K, V]) AssignReceiver() int {
	t := s
	return len(t.m)
}

func (s *SafeMap[K, V]) PassToFunc() { fmt.Println(s.m) }

func (s *SafeMap[K, V]) Capture() func() int {
	return func() int { return len(s.m) }
}

func (s *SafeMap[K, V]) Spawn(key K, v V) {
	go s.Set(key, v)
}

func (s *SafeMap[K, V]) AddrOf() *map[K]V { return &s.m }

func (s *SafeMap[K, V]) DeferOther(key K) {
	s.mux.Lock()
	defer s.Delete(key)
	s.mux.Unlock()
}

func (s *SafeMap[K, V]) LeakOnReturn(key K) bool {
	s.mux.RLock()
	if _, ok := s.m[key]; ok {
		return true
	}
	s.mux.RUnlock()
	return false
}

func (s *SafeMap[K, V]) Cycle(n int) int {
	if n == 0 {
		return 0
	}
	return s.Cycle(n - 1)
}

func (s *SafeMap[K, V]) Select(c chan K) {
	select {
	case k := <-c:
		s.Delete(k)
	}
}

func (s *SafeMap[K, V]) LoopLock(keys []K) {
	for range keys {
		s.mux.Lock()
	}
}

func (s *SafeMap[K, V]) TryLock() bool { return s.mux.TryLock() }

func (s SafeMap[K, V]) ValueReceiver() int { return len(s.m) }

func Merge[K comparable, V any](dst *SafeMap[K, V], src *SafeMap[K, V]) {
	dst.mux.Lock()
	defer dst.mux.Unlock()
	for k, v := range src.m {
		dst.m[k] = v
	}
}

// ---- things that must still be analysable ----

// manual unlock on the early-return path, lock still held on the fall-through path
func (s *SafeMap[K, V]) ManualEarlyReturn(key K, val V) V {
	s.mux.Lock()
	if v, ok := s.m[key]; ok {
		s.mux.Unlock()
		return v
	}
	s.m[key] = val
	s.mux.Unlock()
	return val
}

// empty critical section is emitted, lock-free stretch without accesses is dropped
func (s *SafeMap[K, V]) Barrier() {
	s.mux.Lock()
	s.mux.Unlock()
}

func (s *SafeMap[K, V]) Unguarded(key K) V { return s.m[key] }

func (s *SafeMap[K, V]) Counter(key K) {
	s.mux.Lock()
	defer s.mux.Unlock()
	for i := 0; i < 3; i++ {
		if i == 1 {
			continue
		}
		delete(s.m, key)
	}
}
