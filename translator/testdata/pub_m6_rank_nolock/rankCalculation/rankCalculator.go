/*
 * Copyright (c) 2023  by Randy Bell.  All rights reserved.
 *
 * This Source Code Form is subject to the terms of the Apache Public License, version 2.0. If a copy of the APL was not distributed with this file, you can obtain one at https://www.apache.org/licenses/LICENSE-2.0.txt.
 */

package rankCalculation

import (
	"github.com/rbell/toolchest/storage"
	"sync"
	"sync/atomic"
)

type RankCalculatorOption[T comparable] func(calculator *RankCalculator[T])

type Ranker[T comparable] interface {
	Rank(entries map[T]int64) (map[T]float64, error) // calculates and returns the ranking of the entries
}

// RankCalculator is a thread-safe implementation of a rank calculator
type RankCalculator[T comparable] struct {
	entries *storage.SafeMap[T, *atomic.Int64] // map of entries to their number of hits
	ranker  Ranker[T]                          // the ranker to use
	mux     *sync.RWMutex
}

// NewRankCalculator returns an initialized reference to a RankCalculator of T
func NewRankCalculator[T comparable](options ...RankCalculatorOption[T]) *RankCalculator[T] {
	calculator := &RankCalculator[T]{
		entries: storage.NewSafeMap[T, *atomic.Int64](0),
		ranker:  NewPercentileRanker[T](false),
		mux:     &sync.RWMutex{},
	}
	for _, option := range options {
		option(calculator)
	}
	return calculator
}

// Accumulate adds the value of type T to the rank calculator if it does not already exist, and increments the count
func (r *RankCalculator[T]) Accumulate(entry T) {
	// Reset replaces r.entries under the write lock; read the field under the read lock
	r.entries.GetOrAdd(entry, &atomic.Int64{}).Add(1)
}

// Reset clears the rank calculator
func (r *RankCalculator[T]) Reset() {
	r.mux.Lock()
	defer r.mux.Unlock()
	r.entries = storage.NewSafeMap[T, *atomic.Int64](0)
}

// Calculate returns the ranking of the entries
func (r *RankCalculator[T]) Calculate() (map[T]float64, error) {
	r.mux.RLock()
	defer r.mux.RUnlock()
	entryCpy := storage.TranslateToMapOf[T, *atomic.Int64, int64](r.entries, func(v *atomic.Int64) int64 {
		return v.Load()
	})
	return r.ranker.Rank(entryCpy)
}
