// Synthetic inputs for the type-based inference of locks and guarded locations.
package infer

import "sync"

// guard held BY VALUE, fields in another order and under other names: found by type
type ByValue struct {
	table map[string]int
	count int
	lk    sync.RWMutex
}

func (b *ByValue) Get(k string) int { b.lk.RLock(); defer b.lk.RUnlock(); return b.table[k] }
func (b *ByValue) Put(k string)     { b.lk.Lock(); b.table[k] = 1; b.lk.Unlock() }

// two candidate locations: not decidable, everything Unknown
type TwoMaps struct {
	mu sync.RWMutex
	a  map[string]int
	b  map[string]int
}

func (t *TwoMaps) Get(k string) int { t.mu.RLock(); defer t.mu.RUnlock(); return t.a[k] }

// two RWMutexes: which one is the guard is not decidable, everything Unknown
type TwoLocks struct {
	mu1 sync.RWMutex
	mu2 sync.RWMutex
	a   map[string]int
}

func (t *TwoLocks) Get(k string) int { t.mu1.RLock(); defer t.mu1.RUnlock(); return t.a[k] }

// no RWMutex at all (a plain Mutex is not a guard of the deep mode)
type NoGuard struct {
	mu sync.Mutex
	a  map[string]int
}

func (t *NoGuard) Get(k string) int { t.mu.Lock(); defer t.mu.Unlock(); return t.a[k] }

// the location sits behind a pointer to a file-local struct
type inner struct {
	vals []int
	n    int
}
type Outer struct {
	in *inner
	g  *sync.RWMutex
}

func (o *Outer) Len() int   { o.g.RLock(); defer o.g.RUnlock(); return len(o.in.vals) }
func (o *Outer) Add(x int)  { o.g.Lock(); defer o.g.Unlock(); o.in.vals = append(o.in.vals, x) }
func (o *Outer) Peek() int  { return o.in.vals[0] }

// functions that are handed the receiver are analysed in place (deep mode)
func total(scale int, o *Outer) int {
	o.g.RLock()
	defer o.g.RUnlock()
	t := 0
	for _, v := range o.in.vals {
		t += v * scale
	}
	return t
}
func Total(o *Outer) int       { return total(1, o) }
func (o *Outer) Sum() int      { return total(2, o) }
func pair(a, b *Outer) int     { return 0 }
func (o *Outer) SumTwice() int { return pair(o, o) }
