/*
 * Copyright (c) 2023  by Randy Bell.  All rights reserved.
 *
 * This Source Code Form is subject to the terms of the Apache Public License, version 2.0. If a copy of the APL was not distributed with this file, you can obtain one at https://www.apache.org/licenses/LICENSE-2.0.txt.
 */

package storage

import "sync"

// SafeMap wraps a map[K]V with a simple RWMutex to facilitate concurrency
type SafeMap[K comparable, V any] struct {
	mux *sync.RWMutex
	m   map[K]V
}

// NewSafeMap returns an initialized reference to a SafeMap of K, V
func NewSafeMap[K comparable, V any](initialCapacity int) *SafeMap[K, V] {
	var m map[K]V
	if initialCapacity > 0 {
		m = make(map[K]V, initialCapacity)
	} else {
		m = make(map[K]V)
	}

	return &SafeMap[K, V]{
		mux: &sync.RWMutex{},
		m:   m,
	}
}

// Contains returns true if the key of type K is in the map
func (s *SafeMap[K, V]) Contains(key K) bool {
	s.mux.RLock()
	defer s.mux.RUnlock()
	_, ok := s.m[key]
	return ok
}

// Get returns the value of type V for the key of type K.  If the key is not found, the zero value of V is returned.
func (s *SafeMap[K, V]) Get(key K) (value V) {
	s.mux.RLock()
	defer s.mux.RUnlock()
	value = s.m[key]
	return
}

// GetOrAdd returns the value of type V for the key of type K.  If the key is not found, the value is added to the map and returned.
func (s *SafeMap[K, V]) GetOrAdd(key K, val V) (value V) {
	// look the key up in ONE read section: Has followed by Get would let a concurrent Delete slip in between
	// and make GetOrAdd return the zero value
	s.mux.RLock()
	v, ok := s.m[key]
	s.mux.RUnlock()
	if ok {
		return v
	}
	s.mux.Lock()
	defer s.mux.Unlock()
	if v, ok := s.m[key]; ok {
		return v
	}
	s.m[key] = val
	return val
}

// Set sets the value of type V for the key of type K.
func (s *SafeMap[K, V]) Set(key K, value V) {
	s.mux.Lock()
	defer s.mux.Unlock()
	s.m[key] = value
}

// Delete deletes the key of type K from the map
func (s *SafeMap[K, V]) Delete(key K) {
	s.mux.Lock()
	defer s.mux.Unlock()
	delete(s.m, key)
}

// Clear removes all the keys and values from the map
func (s *SafeMap[K, V]) Clear() {
	s.mux.Lock()
	defer s.mux.Unlock()
	s.m = make(map[K]V)
}

// ClearAndResize clears the map and resize it to the new size
func (s *SafeMap[K, V]) ClearAndResize(newSize int) {
	s.mux.Lock()
	defer s.mux.Unlock()
	s.m = make(map[K]V, newSize)
}

// Has returns true if the key of type K is in the map
func (s *SafeMap[K, V]) Has(key K) bool {
	s.mux.RLock()
	defer s.mux.RUnlock()
	_, ok := s.m[key]
	return ok
}

// Len returns the length of the map
func (s *SafeMap[K, V]) Len() int {
	s.mux.RLock()
	defer s.mux.RUnlock()
	return len(s.m)
}

// Keys returns a slice of all the keys in the map
func (s *SafeMap[K, V]) Keys() []K {
	s.mux.RLock()
	defer s.mux.RUnlock()
	keys := make([]K, 0, len(s.m))
	for k := range s.m {
		keys = append(keys, k)
	}
	return keys
}

// Values returns a slice of all the values in the map
func (s *SafeMap[K, V]) Values() []V {
	s.mux.RLock()
	defer s.mux.RUnlock()

	values := make([]V, 0, len(s.m))
	for _, v := range s.m {
		values = append(values, v)
	}
	return values
}

// CopyToMap returns a copy of the map
func (s *SafeMap[K, V]) CopyToMap() map[K]V {
	s.mux.RLock()
	defer s.mux.RUnlock()
	result := make(map[K]V, len(s.m))
	for k, v := range s.m {
		result[k] = v
	}
	return result
}

// TranslateToMapOf returns a map of type D from the map of type V
func TranslateToMapOf[K comparable, V any, D any](s *SafeMap[K, V], translator func(V) D) map[K]D {
	s.mux.RLock()
	defer s.mux.RUnlock()
	result := make(map[K]D, len(s.m))
	for k, v := range s.m {
		result[k] = translator(v)
	}
	return result
}
