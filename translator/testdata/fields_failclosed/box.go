// Synthetic input for the field mode of lockskel: shapes that must be analysed, and shapes that must come out as
// [Unknown] (fail closed).
package box

import (
	"fmt"
	"slices"
	"sort"
	"sync"
)

type Other struct{ v int }

func (o *Other) Poke() {}

type Box struct {
	mu    *sync.RWMutex
	aux   sync.Mutex
	items []int
	n     int
	ptr   *Other
	free  int // not tracked
	done  chan bool
}

// ---- analysable ----

// two mutexes, nested; deferred unlocks
func (b *Box) Nested() int {
	b.aux.Lock()
	defer b.aux.Unlock()
	b.mu.RLock()
	defer b.mu.RUnlock()
	return b.n + len(b.items)
}

// explicit unlock, then a second section; write forms
func (b *Box) Writes(x int) {
	b.mu.Lock()
	b.items = append(b.items, x)
	b.items[0] = x
	b.n++
	b.mu.Unlock()
	b.aux.Lock()
	b.n += 2
	b.aux.Unlock()
}

// a call through a pointer field is a read of the field; copying the pointer too
func (b *Box) Through() {
	b.ptr.Poke()
	p := b.ptr
	p.Poke()
	b.free = 7
}

// goroutine closure = pseudo-method without locks; go on a method = nothing in the caller
func (b *Box) Spawns() {
	b.mu.Lock()
	defer b.mu.Unlock()
	go func() {
		for {
			select {
			case <-b.done:
				b.mu.RLock()
				_ = b.n
				b.mu.RUnlock()
				return
			default:
				b.n = 1
			}
		}
	}()
	go b.Nested()
	b.n = 2
}

// deferred closure: analysed at the end with no lock held
func (b *Box) Deferred() {
	defer func() {
		b.n = 0
	}()
	b.mu.Lock()
	defer b.mu.Unlock()
	b.n = 1
}

// deferred unlock inside a branch that returns; explicit unlock on the other path
func (b *Box) FastSlow() int {
	b.mu.RLock()
	if b.n > 0 {
		defer b.mu.RUnlock()
		return b.n
	}
	b.mu.RUnlock()
	b.mu.Lock()
	defer b.mu.Unlock()
	b.n = 1
	return b.n
}

// calls of own methods are spliced
func (b *Box) Calls() {
	b.Through()
	b.mu.Lock()
	b.mu.Unlock()
	_ = b.FastSlow()
}

// copy out of the slice under the lock, range over the copy outside
func (b *Box) Snapshot() []int {
	b.mu.RLock()
	c := make([]int, len(b.items))
	copy(c, b.items)
	b.mu.RUnlock()
	for range c {
	}
	return c
}

// labelled break out of a select in a loop
func (b *Box) Loop() {
outer:
	for {
		select {
		case <-b.done:
			break outer
		default:
			b.mu.RLock()
			fmt.Println(b.n)
			b.mu.RUnlock()
		}
	}
}

// private helpers — methods, and functions that are handed the receiver — are analysed in place and have no entry
func (b *Box) locked() int { return b.n }
func bump(x int, b *Box)   { b.n += x }
func (b *Box) UsesPrivate() int {
	b.mu.Lock()
	defer b.mu.Unlock()
	bump(1, b)
	return b.locked()
}

// a private method started as a goroutine is an entry "<entry>.go<k>"; so is what a constructor starts
func (b *Box) worker() {
	b.mu.RLock()
	_ = b.n
	b.mu.RUnlock()
}
func (b *Box) StartsWorker() {
	go b.worker()
	go b.worker()
}
func NewBox() *Box {
	b := &Box{mu: &sync.RWMutex{}}
	go b.worker()
	go func() { b.n = 9 }()
	go fmt.Println("unrelated")
	return b
}

// nobody in this file calls orphan: it keeps an entry of its own
func (b *Box) orphan() { b.n = 3 }

// a standard-library function known to only read its argument
func (b *Box) CloneItems() []int {
	b.mu.RLock()
	defer b.mu.RUnlock()
	return slices.Clone(b.items)
}

// a struct held BY VALUE inside the target that hosts a lock and a tracked field: its methods are analysed with their
// receiver bound to that part (called: in place; started with go: "<entry>.go<k>"; reached from nowhere: "Type.method")
type hub struct {
	hmu  sync.Mutex
	subs []chan int
	in   chan int
}

func (h *hub) add(c chan int) {
	h.hmu.Lock()
	defer h.hmu.Unlock()
	h.subs = append(h.subs, c)
}
func (h *hub) pump() {
	for v := range h.in {
		h.hmu.Lock()
		n := len(h.subs)
		h.hmu.Unlock()
		_ = n + v
	}
}
func (h *hub) lonely() int   { return len(h.subs) }
func (h hub) byValue() int   { return len(h.subs) }

type Hubbed struct {
	geometry
	h hub
}
type geometry struct{ rows, cols int }

func (x *Hubbed) Add(c chan int) { x.h.add(c) }
func (x *Hubbed) Start()         { go x.h.pump() }
func (x *Hubbed) Area() int      { return x.rows * x.geometry.cols }
func (x *Hubbed) SetRows(n int)  { x.h.hmu.Lock(); x.rows = n; x.h.hmu.Unlock() }
func (x *Hubbed) CopyHub() hub   { return x.h }
func (x *Hubbed) CopyGeo() geometry { return x.geometry }

// ---- must be Unknown ----

func (b *Box) rec()        { b.rec2() }
func (b *Box) rec2()       { b.rec() }
func (b *Box) Recursive()  { b.rec() }
func both(x *Box, y *Box)  {}
func (b *Box) PassTwice()  { both(b, b) }
func (b *Box) SortItems()  { b.mu.RLock(); defer b.mu.RUnlock(); sort.Ints(b.items) }
func NewBoxBad() *Box      { b := &Box{}; go fmt.Println(b); return b }


func (b *Box) EscapeRecv() *Box      { return b }
func (b *Box) PassRecv()             { fmt.Println(b) }
func (b *Box) AliasSlice() int       { s := b.items; return len(s) }
func (b *Box) ReturnSlice() []int    { return b.items }
func (b *Box) SubSlice() []int       { return b.items[1:] }
func (b *Box) AddrField() *int       { return &b.n }
func (b *Box) AddrFree() *int        { return &b.free }
func (b *Box) MethodValue() func()   { return b.Through }
func (b *Box) StoreLock() *sync.RWMutex { return b.mu }
func (b *Box) TryLock() bool         { return b.mu.TryLock() }
func (b *Box) RLockOnMutex()         { b.aux.RLock() }
func (b *Box) Reentrant()            { b.mu.RLock(); b.mu.RLock(); b.mu.RUnlock(); b.mu.RUnlock() }
func (b *Box) CallUnderLock()        { b.mu.Lock(); defer b.mu.Unlock(); _ = b.FastSlow() }
func (b *Box) LeakOnReturn() int     { b.mu.Lock(); if b.n > 0 { return 1 }; b.mu.Unlock(); return 0 }
func (b *Box) NeverUnlocked()        { b.mu.Lock(); b.n = 1 }
func (b *Box) AppendElsewhere() []int { return append(b.items, 1) }
func (b *Box) DeferMethod()          { defer b.Through() }
func (b *Box) GoWithRecv()           { go fmt.Println(b) }

func (b *Box) LockInIf(c bool) {
	if c {
		b.mu.Lock()
	}
	b.n = 1
}

func (b *Box) CaptureElsewhere() func() int {
	return func() int { return b.n }
}

func (b *Box) SelectUnbalanced() {
	select {
	case <-b.done:
		b.mu.Lock()
	default:
	}
	b.n = 1
}

func (b *Box) RangeWithLockInside() {
	for range b.items {
		b.mu.Lock()
		b.mu.Unlock()
	}
}

func (b *Box) DeferInLoop() {
	for i := 0; i < 2; i++ {
		b.mu.Lock()
		defer b.mu.Unlock()
	}
}

func (b *Box) Goto() {
L:
	b.n++
	goto L
}

func (b Box) ValueReceiver() int { return b.n }

func Merge(a *Box, b *Box) {}
