Definition box_skeleton : skeleton := [
  ("Nested", [Sec [("aux", Wr)] []; Sec [("aux", Wr); ("mu", Rd)] [{| loc := "n"; wr := false |}; {| loc := "items"; wr := false |}]]);
  ("Writes", [Sec [("mu", Wr)] [{| loc := "items"; wr := false |}; {| loc := "items"; wr := true |}; {| loc := "n"; wr := false |}; {| loc := "n"; wr := true |}]; Sec [("aux", Wr)] [{| loc := "n"; wr := false |}; {| loc := "n"; wr := true |}]]);
  ("Through", [Sec [] [{| loc := "ptr"; wr := false |}]]);
  ("Spawns", [Sec [("mu", Wr)] [{| loc := "n"; wr := true |}]]);
  ("Deferred", [Sec [("mu", Wr)] [{| loc := "n"; wr := true |}]; Sec [] [{| loc := "n"; wr := true |}]]);
  ("FastSlow", [Sec [("mu", Rd)] [{| loc := "n"; wr := false |}]; Sec [("mu", Wr)] [{| loc := "n"; wr := true |}; {| loc := "n"; wr := false |}]]);
  ("Calls", [Sec [] [{| loc := "ptr"; wr := false |}]; Sec [("mu", Wr)] []; Sec [("mu", Rd)] [{| loc := "n"; wr := false |}]; Sec [("mu", Wr)] [{| loc := "n"; wr := true |}; {| loc := "n"; wr := false |}]]);
  ("Snapshot", [Sec [("mu", Rd)] [{| loc := "items"; wr := false |}]]);
  ("Loop", [Sec [("mu", Rd)] [{| loc := "n"; wr := false |}]]);
  ("EscapeRecv", [Unknown]);
  ("PassRecv", [Unknown]);
  ("AliasSlice", [Unknown]);
  ("ReturnSlice", [Unknown]);
  ("SubSlice", [Unknown]);
  ("AddrField", [Unknown]);
  ("AddrFree", [Unknown]);
  ("MethodValue", [Unknown]);
  ("StoreLock", [Unknown]);
  ("TryLock", [Unknown]);
  ("RLockOnMutex", [Unknown]);
  ("Reentrant", [Unknown]);
  ("CallUnderLock", [Unknown]);
  ("LeakOnReturn", [Unknown]);
  ("NeverUnlocked", [Unknown]);
  ("AppendElsewhere", [Unknown]);
  ("DeferMethod", [Unknown]);
  ("GoWithRecv", [Unknown]);
  ("LockInIf", [Unknown]);
  ("CaptureElsewhere", [Unknown]);
  ("SelectUnbalanced", [Unknown]);
  ("RangeWithLockInside", [Unknown]);
  ("DeferInLoop", [Unknown]);
  ("Goto", [Unknown]);
  ("ValueReceiver", [Unknown]);
  ("Merge", [Unknown]);
  ("Spawns.func1", [Sec [("mu", Rd)] [{| loc := "n"; wr := false |}]; Sec [] [{| loc := "n"; wr := true |}]])
].
