/*
 * Copyright (c) 2023  by Randy Bell.  All rights reserved.
 *
 * This Source Code Form is subject to the terms of the Apache Public License, version 2.0. If a copy of the APL was not distributed with this file, you can obtain one at https://www.apache.org/licenses/LICENSE-2.0.txt.
 */

package storage

import (
	"container/heap"
	"github.com/rbell/toolchest/errors"
	"sort"
	"sync"
	"sync/atomic"
)

type stackEntry[T any] struct {
	id    uint64
	entry T
}

type GenericStack[T any] struct {
	stack      *stack[T]
	currentKey atomic.Uint64
	mux        *sync.RWMutex
}

// NewGenericStack returns an initialized reference to a GenericStack of T
func NewGenericStack[T any](initialSize int) *GenericStack[T] {
	return &GenericStack[T]{
		stack:      newStack[T](initialSize),
		currentKey: atomic.Uint64{},
		mux:        &sync.RWMutex{},
	}
}

// Push pushes value of type T on the stack, returning the assigned id in the stack
func (s *GenericStack[T]) Push(value T) (id uint64) {
	v := &stackEntry[T]{
		id:    s.currentKey.Add(1),
		entry: value,
	}
	s.mux.Lock()
	defer s.mux.Unlock()
	heap.Push(s.stack, v)
	return v.id
}

// Pop removes the next T from the stack and returns it
func (s *GenericStack[T]) Pop() T {
	s.mux.Lock()
	defer s.mux.Unlock()
	// test for emptiness under the lock: another Pop may have taken the last entry in the meantime
	if s.stack.Len() == 0 {
		var zero T
		return zero
	}
	entry := heap.Pop(s.stack)
	return entry.(*stackEntry[T]).entry
}

// Peek returns the value on the stack that was assigned the id requested.  IDNotFoundError returned if id not found.
func (s *GenericStack[T]) Peek(id uint64) (value T, err error) {
	s.mux.RLock()
	defer s.mux.RUnlock()
	for _, v := range s.stack.entries {
		if v.id == id {
			value = v.entry
			return
		}
	}
	err = &errors.NotFound{}
	return
}

// Len returns the number of elements on the stack
func (s *GenericStack[T]) Len() int {
	s.mux.RLock()
	defer s.mux.RUnlock()
	return s.stack.Len()
}

// Values returns a slice of all the values on the stack
func (s *GenericStack[T]) Values() []T {
	s.mux.RLock()
	values := make([]T, 0, s.stack.Len())
	stackCpy := make([]*stackEntry[T], s.stack.Len())
	// Make copy of entries and sort by id since heap may not be kept in order
	copy(stackCpy, s.stack.entries)
	s.mux.RUnlock()
	sort.SliceStable(stackCpy, func(i, j int) bool {
		return stackCpy[i].id < stackCpy[j].id
	})
	for _, v := range stackCpy {
		values = append(values, v.entry)
	}
	return values
}

// Implements container/heap, with push / pop acting in a FIFO order, where each element is a *stackEntry[T]
type stack[T any] struct {
	entries []*stackEntry[T]
	mux     *sync.Mutex
}

func (s *stack[T]) Len() int {
	return len(s.entries)
}
func (s *stack[T]) Less(i, j int) bool {
	return s.entries[i].id < s.entries[j].id
}
func (s *stack[T]) Swap(i, j int) {
	s.entries[i], s.entries[j] = s.entries[j], s.entries[i]
}

func newStack[T any](initialSize int) *stack[T] {
	result := &stack[T]{
		entries: make([]*stackEntry[T], 0, initialSize),
		mux:     &sync.Mutex{},
	}
	heap.Init(result)
	return result
}

// Push pushes x, which must be a *stackEntry[T], to the stack
func (s *stack[T]) Push(x any) {
	s.mux.Lock()
	defer s.mux.Unlock()

	s.entries = append(s.entries, x.(*stackEntry[T]))
}

// Pop pops and returns the next *stackEntry[T] from the stack
func (s *stack[T]) Pop() any {
	s.mux.Lock()
	defer s.mux.Unlock()

	old := s.entries
	var result *stackEntry[T]
	result, s.entries = old[len(old)-1], old[:len(old)-1]
	cpy := *result // dereference and return another reference to the value
	//nolint:ineffassign // false positive
	result = nil // nil out the reference to the popped stackEntry in the backing array of the entries to protect memory
	return &cpy
}
