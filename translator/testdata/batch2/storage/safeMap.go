/*
 * Copyright (c) 2023  by Randy Bell.  All rights reserved.
 *
 * This Source Code Form is subject to the terms of the Apache Public License, version 2.0. If a copy of the APL was not distributed with this file, you can obtain one at https://www.apache.org/licenses/LICENSE-2.0.txt.
 */

package storage

import "sync"

// SafeMap wraps a map[K]V with a simple RWMutex to facilitate concurrency
type SafeMap[K comparable, V any] struct {
	mux *sync.RWMutex
	m   map[K]V
}

// NewSafeMap returns an initialized reference to a SafeMap of K, V
func NewSafeMap[K comparable, V any](initialCapacity int) *SafeMap[K, V] {
	var m map[K]V
	if initialCapacity > 0 {
		m = make(map[K]V, initialCapacity)
	} else {
		m = make(map[K]V)
	}

	return &SafeMap[K, V]{
		mux: &sync.RWMutex{},
		m:   m,
	}
}

// Contains returns true if the key of type K is in the map
func (s *SafeMap[K, V]) Contains(key K) bool {
	s.mux.RLock()
	defer s.mux.RUnlock()
	_, ok := s.m[key]
	return ok
}

// Get returns the value of type V for the key of type K.  If the key is not found, the zero value of V is returned.
func (s *SafeMap[K, V]) Get(key K) (value V) {
	s.mux.RLock()
	defer s.mux.RUnlock()
	value = s.m[key]
	return
}

// GetOrAdd returns the value of type V for the key of type K.  If the key is not found, the value is added to the map and returned.
func (s *SafeMap[K, V]) GetOrAdd(key K, val V) (value V) {
	// look the key up in ONE read section: Has followed by Get would let a concurrent Delete slip in between
	// and make GetOrAdd return the zero value
	s.mux.RLock()
	v, ok := s.m[key]
	s.mux.RUnlock()
	if ok {
		return v
	}
	s.mux.Lock()
	defer s.mux.Unlock()
	// re-check under the write lock: the key may have been added since the read section
	value, ok = s.m[key]
	if !ok {
		s.m[key] = val
		value = val
	}
	return value
}

// Set sets the value of type V for the key of type K.
func (s *SafeMap[K, V]) Set(key K, value V) {
	s.mux.Lock()
	defer s.mux.Unlock()
	s.m[key] = value
}

// Delete deletes the key of type K from the map
func (s *SafeMap[K, V]) Delete(key K) {
	s.mux.Lock()
	defer s.mux.Unlock()
	delete(s.m, key)
}

// Clear removes all the keys and values from the map
func (s *SafeMap[K, V]) Clear() {
	// a size hint of 0 is the same as no size hint
	s.ClearAndResize(0)
}

// ClearAndResize clears the map and resize it to the new size
func (s *SafeMap[K, V]) ClearAndResize(newSize int) {
	s.mux.Lock()
	defer s.mux.Unlock()
	s.m = make(map[K]V, newSize)
}

// Has returns true if the key of type K is in the map
func (s *SafeMap[K, V]) Has(key K) bool {
	s.mux.RLock()
	defer s.mux.RUnlock()
	_, ok := s.m[key]
	return ok
}

// Len returns the length of the map
func (s *SafeMap[K, V]) Len() int {
	s.mux.RLock()
	defer s.mux.RUnlock()
	return len(s.m)
}

// Keys returns a slice of all the keys in the map
func (s *SafeMap[K, V]) Keys() []K {
	return collect(s, func(k K, _ V) K { return k })
}

// Values returns a slice of all the values in the map
func (s *SafeMap[K, V]) Values() []V {
	return collect(s, func(_ K, v V) V { return v })
}

// collect returns, in map iteration order, pick(k, v) of every entry of the map; the read lock is held throughout
func collect[K comparable, V any, T any](s *SafeMap[K, V], pick func(K, V) T) []T {
	s.mux.RLock()
	defer s.mux.RUnlock()
	picked := make([]T, 0, len(s.m))
	for k, v := range s.m {
		picked = append(picked, pick(k, v))
	}
	return picked
}

// CopyToMap returns a copy of the map
func (s *SafeMap[K, V]) CopyToMap() map[K]V {
	// a copy is a translation that keeps every value as it is
	return TranslateToMapOf(s, func(v V) V { return v })
}

// TranslateToMapOf returns a map of type D from the map of type V
func TranslateToMapOf[K comparable, V any, D any](s *SafeMap[K, V], translator func(V) D) map[K]D {
	s.mux.RLock()
	defer s.mux.RUnlock()
	result := make(map[K]D, len(s.m))
	for k, v := range s.m {
		result[k] = translator(v)
	}
	return result
}
