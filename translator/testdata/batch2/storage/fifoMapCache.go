/*
 * Copyright (c) 2023  by Randy Bell.  All rights reserved.
 *
 * This Source Code Form is subject to the terms of the Apache Public License, version 2.0. If a copy of the APL was not distributed with this file, you can obtain one at https://www.apache.org/licenses/LICENSE-2.0.txt.
 */

package storage

import (
	"context"
	"math"
	"sync"
	"time"
)

type FifoMapCache[K comparable, V any] struct {
	// fifoGeometry (maxPartitions, partitionCapacity) is written only while currentPartitionMux is held for writing
	fifoGeometry
	partitions          *GenericStack[*SafeMap[K, V]]
	currentPartitionId  uint64
	currentPartitionMux *sync.RWMutex
	valuePartitionIndex *SafeMap[K, uint64]
	ctx                 context.Context
	sweepMux            *sync.Mutex // serializes sweeps
	settings            *fifoMapConfiguration
}

// fifoGeometry is the shape of the cache as calculated by the configured numPartitionCalculator
type fifoGeometry struct {
	maxPartitions     int // number of partitions a sweep retains
	partitionCapacity int // number of keys a partition takes before a new one is opened
}

type numPartitionCalculator func(capacity int) (int, int)

type fifoMapConfiguration struct {
	numPartitionCalculator numPartitionCalculator
	sweepFrequency         time.Duration
}

type fifoInitializationOption func(configuration *fifoMapConfiguration)

func NewFifoMapCache[K comparable, V any](ctx context.Context, capacity int, options ...fifoInitializationOption) *FifoMapCache[K, V] {
	// default config
	cfg := &fifoMapConfiguration{
		numPartitionCalculator: calcBalancedPartitions,
		sweepFrequency:         time.Second * 20,
	}
	for _, opt := range options {
		opt(cfg)
	}

	numPartitions, partitionLength := cfg.numPartitionCalculator(capacity)
	cache := &FifoMapCache[K, V]{
		partitions:          NewGenericStack[*SafeMap[K, V]](numPartitions),
		fifoGeometry:        fifoGeometry{maxPartitions: numPartitions, partitionCapacity: partitionLength},
		ctx:                 ctx,
		valuePartitionIndex: NewSafeMap[K, uint64](0),
		currentPartitionMux: &sync.RWMutex{},
		sweepMux:            &sync.Mutex{},
		settings:            cfg,
	}

	go func() {

		ticker := time.NewTicker(cfg.sweepFrequency)
		for {
			select {
			case <-ticker.C:
				cache.Sweep()
			case <-cache.ctx.Done():
				return
			}
		}

	}()

	return cache
}

// Capacity returns the actual capacity of the map once the number of partitions and the partition capacity are calculated
func (f *FifoMapCache[K, V]) Capacity() int {
	return f.maxPartitions * f.partitionCapacity
}

// Contains returns true if the key of type K is in the map
func (f *FifoMapCache[K, V]) Contains(key K) bool {
	if partitionId := f.valuePartitionIndex.Get(key); partitionId > 0 {
		partition, _ := f.partitions.Peek(partitionId)
		if partition != nil {
			return partition.Contains(key)
		}
	}
	return false
}

// Get returns the value of type V for the key of type K.  If the key is not found, the zero value of V is returned.
func (f *FifoMapCache[K, V]) Get(key K) (value V) {
	if partitionId := f.valuePartitionIndex.Get(key); partitionId > 0 {
		partition, _ := f.partitions.Peek(partitionId)
		if partition != nil {
			return partition.Get(key)
		}
	}
	return
}

// Set sets the value of type V for the key of type K.
func (f *FifoMapCache[K, V]) Set(key K, value V) {
	var partitionId uint64
	// if key exists, update value
	if partitionId = f.valuePartitionIndex.Get(key); partitionId > 0 {
		partition, _ := f.partitions.Peek(partitionId)
		if partition != nil {
			partition.Set(key, value)
			return
		}
	}

	partition, partitionId := f.getCurrentPartition()
	partition.Set(key, value)
	f.valuePartitionIndex.Set(key, partitionId)
}

func (f *FifoMapCache[K, V]) Delete(key K) {
	if partitionId := f.valuePartitionIndex.Get(key); partitionId > 0 {
		partition, _ := f.partitions.Peek(partitionId)
		if partition != nil && partition.Has(key) {
			partition.Delete(key)
			// forget where the key lived: a later Set must insert it as a new entry in the current partition
			f.valuePartitionIndex.Delete(key)
		}
	}
}

// Len returns the length of the map
func (f *FifoMapCache[K, V]) Len() int {
	return len(f.Keys())
}

// Clear clears the map
func (f *FifoMapCache[K, V]) Clear() {
	f.currentPartitionMux.Lock()
	defer f.currentPartitionMux.Unlock()
	f.partitions = NewGenericStack[*SafeMap[K, V]](f.maxPartitions)
	f.valuePartitionIndex = NewSafeMap[K, uint64](0)
	newPartition := NewSafeMap[K, V](f.partitionCapacity)
	f.currentPartitionId = f.partitions.Push(newPartition)
}

// Keys returns a slice of keys
func (f *FifoMapCache[K, V]) Keys() []K {
	keys := make([]K, 0, f.partitionCapacity*f.partitions.Len())
	for _, partition := range f.partitions.Values() {
		keys = append(keys, partition.Keys()...)
	}
	return keys
}

// Values returns a slice of values
func (f *FifoMapCache[K, V]) Values() []V {
	values := make([]V, 0, f.partitionCapacity*f.partitions.Len())
	for _, partition := range f.partitions.Values() {
		values = append(values, partition.Values()...)
	}
	return values
}

func (f *FifoMapCache[K, V]) Resize(capacity int) {
	numPartitions, partitionLength := f.settings.numPartitionCalculator(capacity)
	if numPartitions != f.maxPartitions || partitionLength != f.partitionCapacity {
		f.currentPartitionMux.Lock()
		f.maxPartitions = numPartitions
		f.partitionCapacity = partitionLength
		oldPartitions := f.partitions
		f.partitions = NewGenericStack[*SafeMap[K, V]](numPartitions)
		f.valuePartitionIndex = NewSafeMap[K, uint64](0)
		newPartition := NewSafeMap[K, V](f.partitionCapacity)
		f.currentPartitionId = f.partitions.Push(newPartition)
		f.currentPartitionMux.Unlock()

		for {
			partition := oldPartitions.Pop()
			if partition == nil {
				break
			}
			for _, key := range partition.Keys() {
				value := partition.Get(key)
				f.Set(key, value)
			}
			f.Sweep()
		}
	}
}

// getCurrentPartition returns reference to the currentPartition which new key/values should be added to
func (f *FifoMapCache[K, V]) getCurrentPartition() (*SafeMap[K, V], uint64) {
	f.currentPartitionMux.RLock()
	partition, partitionId := f.openPartitionLocked()
	f.currentPartitionMux.RUnlock()
	if partition != nil {
		return partition, partitionId
	}
	f.currentPartitionMux.Lock()
	defer f.currentPartitionMux.Unlock()
	// re-check under the write lock: another writer may have opened a new partition between RUnlock and Lock
	if partition, partitionId = f.openPartitionLocked(); partition != nil {
		return partition, partitionId
	}
	newPartition := NewSafeMap[K, V](f.partitionCapacity)
	f.currentPartitionId = f.partitions.Push(newPartition)
	go f.Sweep()
	return newPartition, f.currentPartitionId
}

// openPartitionLocked returns the current partition and its id if that partition still has room, (nil, 0) otherwise.
// The caller must hold currentPartitionMux (for reading or writing).
func (f *FifoMapCache[K, V]) openPartitionLocked() (*SafeMap[K, V], uint64) {
	partitionId := f.currentPartitionId
	if partition, _ := f.partitions.Peek(partitionId); partition != nil && partition.Len() < f.partitionCapacity {
		return partition, partitionId
	}
	return nil, 0
}

// sweep removes partitions from the stack if the number of partitions exceeds the maxPartitions
func (f *FifoMapCache[K, V]) Sweep() {
	// restrict to single sweep at a time
	f.sweepMux.Lock()
	defer f.sweepMux.Unlock()

	f.currentPartitionMux.RLock()
	defer f.currentPartitionMux.RUnlock()
	// the stack can neither be replaced nor pushed to while the read lock is held, and only a sweep pops from it
	for excess := f.partitions.Len() - f.maxPartitions; excess > 0; excess-- {
		f.partitions.Pop()
	}
}

// default numPartitionCalculator, creates a balance between number of partitions and the size of each partition.
func calcBalancedPartitions(capacity int) (int, int) {
	numPartitions := int(math.Floor(math.Sqrt(float64(capacity))))
	partitionLenth := int(math.Floor(float64(capacity) / float64(numPartitions)))
	return numPartitions, partitionLenth
}

//region fifoMapCacheOptions

// WithBalancedPartitions balances the partitions based upon the nRoot parameter, calculating the number of partitions equal to the Nth root of capacity
// nRoot should be greater than 1.
// nRoot of 2 is same as the default number of partitions, which balances the number of values in each partition close to the number of partitions.
// nRoot less than 2 (greater than 1) will reduce number of partitions, making each partition containing more values.
// nRoot greater than 2 will increase number of partitions, making each partition contains fewer values.
// If the calculated number of partitions is less than minimumPartitions, minimumPartitions is used.
func WithBalancedPartitions(nRoot float64, minimumPartitions int) fifoInitializationOption {
	return func(configuration *fifoMapConfiguration) {
		configuration.numPartitionCalculator = func(capacity int) (int, int) {
			factor := 1 / nRoot

			rawNumPartitions := math.Pow(float64(capacity), factor)
			numPartitions := int(math.Floor(rawNumPartitions))
			if numPartitions < minimumPartitions {
				numPartitions = minimumPartitions
			}
			partitionLenth := int(math.Floor(float64(capacity) / float64(numPartitions)))
			return numPartitions, partitionLenth
		}
	}
}

func WithSweepFrequency(frequency time.Duration) fifoInitializationOption {
	return func(configuration *fifoMapConfiguration) {
		configuration.sweepFrequency = frequency
	}
}

//endregion
