/*
 * Copyright (c) 2023  by Randy Bell.  All rights reserved.
 *
 * This Source Code Form is subject to the terms of the Apache Public License, version 2.0. If a copy of the APL was not distributed with this file, you can obtain one at https://www.apache.org/licenses/LICENSE-2.0.txt.
 */

package workqueue

import (
	"container/heap"
	"context"
	"fmt"
	"runtime"
	"sync"
	"sync/atomic"

	"github.com/google/uuid"
)

type workOption func(item *workItem)

// Queue allow work to be queued up and worked on in a set number of go routines
type Queue struct {
	workerCount  int
	queueLength  *atomic.Int32
	workChan     chan *workItem
	workQueue    *workHeap
	errs         errorHub
	stopped      atomic.Bool
	breaked      bool
	workItems    *sync.Map
	queueContext context.Context
	queueCancel  context.CancelFunc
}

// errorHub fans the errors reported by the workers out to every channel handed out by Queue.Errors
type errorHub struct {
	in          chan error   // workers report on this channel; closed when the dispatcher exits
	mu          *sync.Mutex  // guards subscribers
	subscribers []chan error // one channel per call of Queue.Errors
}

// subscribe registers and returns a new subscriber channel
func (h *errorHub) subscribe() chan error {
	h.mu.Lock()
	defer h.mu.Unlock()

	ch := make(chan error)
	h.subscribers = append(h.subscribers, ch)
	return ch
}

// monitor forwards every error received on in to all current subscribers until ctx is done
func (h *errorHub) monitor(ctx context.Context) {
	for {
		select {
		case e := <-h.in:
			// snapshot the subscribers under the mutex that guards the append in subscribe
			h.mu.Lock()
			subs := make([]chan error, len(h.subscribers))
			copy(subs, h.subscribers)
			h.mu.Unlock()
			for _, sub := range subs {
				sub <- e
			}
		case <-ctx.Done():
			return
		}
	}
}

// NewQueue returns a reference to an initialized Queue
func NewQueue(options ...WorkQueueOption) *Queue {
	wq := &Queue{
		workerCount: runtime.NumCPU(),
		queueLength: &atomic.Int32{},
		errs:        errorHub{in: make(chan error), mu: &sync.Mutex{}, subscribers: []chan error{}},
		stopped:     atomic.Bool{},
		breaked:     false,
		workItems:   &sync.Map{},
	}

	ctx, cancel := context.WithCancel(context.Background())
	wq.queueContext = ctx
	wq.queueCancel = cancel
	wq.queueLength.Store(int32(runtime.NumCPU() * 2))
	wq.stopped.Store(false)
	for _, o := range options {
		o(wq)
	}

	wq.workChan = make(chan *workItem)
	wq.workQueue = newWorkHeap(int(wq.queueLength.Load()))

	go wq.start()

	return wq
}

// Enqueue queues work to do on the workChan to be processed
func (w *Queue) Enqueue(workToDo Work, options ...workOption) uuid.UUID {
	wi := &workItem{
		QueuedWork: &QueuedWork{
			id:       uuid.New(),
			priority: 1,
			position: -1, // not in the priority queue (yet)
			state:    &atomic.Int32{},
		},

		workToDo: workToDo,
	}
	for _, option := range options {
		option(wi)
	}

	w.workItems.Store(wi.id, wi)

	if !w.stopped.Load() {
		w.workChan <- wi
	}

	return wi.id
}

// Dequeue removes from the queue the work item with the specified id.  If the work item is in process or has already been
// handed to the worker pool, then an error is returned and the item is not affected.
func (w *Queue) Dequeue(id uuid.UUID) error {
	if i, ok := w.workItems.Load(id); ok {
		wi := i.(*workItem)
		if wi.state.Load() == int32(IN_QUEUE) {
			if wi.position < 0 {
				// not (or no longer) in the priority queue: already handed to the worker pool, which will run it
				return fmt.Errorf("cannot delete work item %v because it is not waiting in the queue", id.String())
			}
			w.workQueue.Remove(wi.position)
			w.workQueue.AdjustPriorities()
			w.workItems.Delete(wi.id)
		} else if wi.state.Load() == int32(IN_PROGRESS) {
			return fmt.Errorf("cannot delete work item %v because it is in process", id.String())
		}
	}
	return nil
}

// SetPriority changes the priority of the queued work item with the uuid and re-orders the queue accordingly.
func (w *Queue) SetPriority(id uuid.UUID, priority int) error {
	if i, ok := w.workItems.Load(id); ok {
		wi := i.(*workItem)
		if wi.state.Load() == int32(IN_QUEUE) {
			if wi.position < 0 {
				return fmt.Errorf("cannot adjust priority on work item %v because it is not waiting in the queue", id.String())
			}
			wi.priority = priority
			heap.Fix(w.workQueue, wi.position)
			w.workQueue.AdjustPriorities()
		} else if wi.state.Load() == int32(IN_PROGRESS) {
			return fmt.Errorf("cannot adjust prioroty on work item %v because it is in process", id.String())
		}
	}
	return nil
}

// WorkItems returns the current state of all queued work items
func (w *Queue) WorkItems() []*QueuedWork {
	result := []*QueuedWork{}
	w.workItems.Range(func(key, value any) bool {
		result = append(result, value.(*workItem).QueuedWork)
		return true
	})
	return result
}

// Errors allows monitoring errors that occur on work submitted to queue
func (w *Queue) Errors() chan error {
	return w.errs.subscribe()
}

// Stop stops the queue from accepting work
func (w *Queue) Stop() {
	w.stopped.Store(true)
	w.queueCancel()
}

// Break stops the queue form accepting any work and any work in queue is skipped
func (w *Queue) Break() {
	w.breaked = true
	w.Stop()
}

// ResizeQueueLength adjusts the size of the queue
func (w *Queue) ResizeQueueLength(length int) {
	w.queueLength.Store(int32(length))
}

func (w *Queue) start() {
	defer func() {
		close(w.errs.in)
		close(w.workChan)
		w.queueCancel()
	}()

	heap.Init(w.workQueue)

	// monitor for errors on a go routine
	go w.errs.monitor(w.queueContext)

	workerSemaphore := make(chan bool, w.workerCount)
	workerCh := make(chan *workItem, w.workerCount)
	defer close(workerCh)
	defer close(workerSemaphore)
	for i := 0; i < w.workerCount; i++ {
		go w.doWork(workerCh, workerSemaphore)
	}

	// Process work
	var arrivals uint64
outsideFor:
	for {
	insideFor:
		select {
		case work := <-w.workChan:
			if work != nil {
				arrivals++
				work.seq = arrivals
				// If queue is empty try to send directly to workers via workerCh
				if w.workQueue.Len() == 0 {
					select {
					case workerCh <- work:
						break insideFor
					default:
					}
				}
				// Workers are busy and placing the workToDo on the channel failed - queue it on prioritized queue
				if w.workQueue.Len() < int(w.queueLength.Load()) {
					heap.Push(w.workQueue, work)
					//w.workQueue.AdjustPriorities()
				} else {
					// queue is full, block and wait for worker to finish a task then add work to queue
					fmt.Println("Waiting for free worker")
					<-workerSemaphore
					w.workQueue.AdjustPriorities()
					wtemp := heap.Pop(w.workQueue).(*workItem)
					workerCh <- wtemp
					heap.Push(w.workQueue, work)
				}
				fmt.Printf("Queue Length %v\n", w.workQueue.Len())
			}
		case <-workerSemaphore:
			// worker done, pop and start next work (if anything in queue)
			if w.workQueue.Len() > 0 {
				w.workQueue.AdjustPriorities()
				wtemp := heap.Pop(w.workQueue).(*workItem)
				workerCh <- wtemp
			}
		case <-w.queueContext.Done():
			break outsideFor
		}
	}

	// Finish any work left on queue
	for _, work := range w.workQueue.items {
		if !w.breaked {
			workerCh <- work
		}
	}
}

func (w *Queue) doWork(workCh chan *workItem, semaphore chan bool) {
	for wi := range workCh {
		wi.state.Store(int32(IN_PROGRESS))
		err := wi.workToDo()
		if err != nil {
			w.errs.in <- err
		}
		w.workItems.Delete(wi.id)
		semaphore <- true
	}
}
