module github.com/rbell/toolchest

go 1.23.7

require (
	github.com/google/btree v1.1.3
	github.com/google/uuid v1.6.0
	github.com/richardwilkes/toolbox v1.122.1
	github.com/stretchr/testify v1.10.0
	google.golang.org/grpc v1.71.0
	google.golang.org/protobuf v1.36.5
)

require (
	github.com/davecgh/go-spew v1.1.1 // indirect
	github.com/google/go-cmp v0.7.0 // indirect
	github.com/kr/pretty v0.3.1 // indirect
	github.com/pmezard/go-difflib v1.0.0 // indirect
	github.com/rogpeppe/go-internal v1.14.1 // indirect
	github.com/stretchr/objx v0.5.2 // indirect
	golang.org/x/net v0.37.0 // indirect
	golang.org/x/sys v0.31.0 // indirect
	golang.org/x/text v0.23.0 // indirect
	google.golang.org/genproto/googleapis/rpc v0.0.0-20250313205543-e70fdf4c4cb4 // indirect
	gopkg.in/check.v1 v1.0.0-20201130134442-10cb98267c6c // indirect
	gopkg.in/yaml.v3 v3.0.1 // indirect
)
