"""Per-property configuration and the runner kinds used by bin/check."""
import os, json, subprocess

TRUSTED_COMMON = [
    "Coq 8.16.1 kernel and coqc's vm_compute (no native_compute)",
    "hand-written Gallina model, tied to /repo by this run's correspondence cases only as far as they go",
    "Go harness + bin/check orchestration (python launches and collects; comparisons are evaluated in Coq)",
]

HARNESS_BUILD_FLAGS = {}


def run_coqcases(chk, pid, runner, tier, seed, workdir, log, only_key):
    """Go harness writes cases.v / cases.json / stats.json; Coq evaluates verdicts.
    With runner["shards"] = N the harness is started N times in parallel (-shard i -nshards N: each process
    executes every N-th case of the same deterministic generation) and the N case files are evaluated in parallel."""
    import concurrent.futures as cf
    name = runner["harness"]
    exe, hook_mode = chk.go_build(name, log)
    out = os.path.join(workdir, name)
    res = {"failures": [], "hook_mode": hook_mode}
    if exe is None:
        res["failures"].append({"kind": "correspondence", "theorem_or_correspondence": runner["corr"],
                                "detail": "harness does not build against the current tree: " + log[-1][2][-1500:],
                                "signature": "harness-build", "found_failing_input": False})
        return res
    nsh = int(runner.get("shards", 1))
    outs = [out if nsh == 1 else os.path.join(out, "shard%d" % i) for i in range(nsh)]

    def launch(i):
        cmd = [exe, "-seed", str(seed), "-tier", tier, "-out", outs[i]] + runner.get("args", [])
        if nsh > 1:
            cmd += ["-shard", str(i), "-nshards", str(nsh)]
        return chk.run(cmd, cwd=workdir, timeout=runner.get("timeout", 420 if tier == "quick" else 5400))

    with cf.ThreadPoolExecutor(max_workers=nsh) as ex:
        rs = list(ex.map(launch, range(nsh)))
    for r in rs:
        log.append(("harness " + name, r.returncode, (r.stdout[-1000:] + r.stderr[-3000:])))
        if r.returncode == -9 and "TIMEOUT" in r.stderr:
            res["failures"].append({"kind": "correspondence", "theorem_or_correspondence": runner["corr"],
                                    "detail": "harness did not finish within its time limit (the code under test hangs, spins or has become far slower): " + r.stderr[-800:],
                                    "signature": "harness-timeout", "found_failing_input": False})
            return res
        if r.returncode != 0:
            res["failures"].append({"kind": "correspondence", "theorem_or_correspondence": runner["corr"],
                                    "detail": "harness crashed: " + r.stderr[-3000:], "signature": "harness-crash:" + r.stderr[-300:],
                                    "found_failing_input": True})
            return res
    with cf.ThreadPoolExecutor(max_workers=nsh) as ex:
        evs = list(ex.map(lambda o: chk.eval_cases(o, log), outs))
    cases, verdicts, hist, extra_stats = [], [], {}, {}
    eval_failed = False
    for o, (vd, stats) in zip(outs, evs):
        cs = json.load(open(os.path.join(o, "cases.json")))
        base = len(cases)
        cases += cs
        if vd is None:
            eval_failed = True
        else:
            verdicts += [(base + i, v) for (i, v) in vd]
        for k, v in stats["histogram"].items():
            hist[k] = hist.get(k, 0) + v
        for k, v in stats.items():
            if k not in ("histogram", "evaluations", "distinct", "distinct_nontrivial", "chunk", "chunks"):
                extra_stats[k] = v
    nontrivial = len({c["key"] for c in cases if not c.get("trivial")})
    res.update({"evaluations": len(cases), "distinct_nontrivial": nontrivial,
                "histogram": hist, "rule": runner.get("rule", "") + " Scope this run: " + str(extra_stats.get("scope", "")),
                "samples": [c["desc"] for c in cases[:: max(1, len(cases) // 4)][:4]],
                "extra": {k: v for k, v in extra_stats.items() if k != "scope"}})
    if eval_failed:
        res["failures"].append({"kind": "correspondence", "theorem_or_correspondence": runner["corr"],
                                "detail": "coqc could not evaluate the cases: " + log[-1][2][-1500:],
                                "signature": "cases-eval", "found_failing_input": False})
        return res
    # smallest failing cases first; monitor failures (verdict 1) before pure correspondence mismatches (2)
    bad = sorted(verdicts, key=lambda iv: (iv[1] != 1, len(json.dumps(cases[iv[0]]["desc"]))))
    seen_sig = set()
    any_monitor = any(v == 1 for _, v in bad)
    for idx, v in bad:
        c = cases[idx]
        sig = (runner.get("sigfn") or (lambda c, v: "%s:%s" % (c["tags"][0] if c["tags"] else "", v)))(c, v)
        if sig in seen_sig:
            continue
        seen_sig.add(sig)
        if v != 1 and any_monitor:
            continue  # a concrete monitor failure is already being reported; mismatches add nothing
        res["failures"].append({
            "kind": "monitor" if v == 1 else "correspondence",
            "theorem_or_correspondence": runner["corr"],
            "case": c["desc"], "key": c["key"], "verdict": v, "signature": sig,
            "found_failing_input": v == 1,
            "n_failing_cases": len(bad),
        })
    return res


RUNNERS = {"coqcases": run_coqcases}


import importlib.util, glob

PROPS = {}
META = {}
KNOWN = []
_here = os.path.dirname(os.path.abspath(__file__))
for _f in sorted(glob.glob(os.path.join(_here, "props", "[CX]*.py"))):
    _spec = importlib.util.spec_from_file_location("prop_" + os.path.basename(_f)[:-3], _f)
    _m = importlib.util.module_from_spec(_spec)
    _spec.loader.exec_module(_m)
    _pid = os.path.basename(_f)[:-3]
    PROPS[_pid] = _m.SPEC
    META[_pid] = _m.META
    KNOWN += getattr(_m, "KNOWN", [])
    RUNNERS.update(getattr(_m, "RUNNERS", {}))
    HARNESS_BUILD_FLAGS.update(getattr(_m, "HARNESS_BUILD_FLAGS", {}))
