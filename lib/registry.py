"""Per-property configuration and the runner kinds used by bin/check."""
import os, json, subprocess

TRUSTED_COMMON = [
    "Coq 8.16.1 kernel and coqc's vm_compute (no native_compute)",
    "hand-written Gallina model, tied to /repo by this run's correspondence cases only as far as they go",
    "Go harness + bin/check orchestration (python launches and collects; comparisons are evaluated in Coq)",
]

HARNESS_BUILD_FLAGS = {}


def run_coqcases(chk, pid, runner, tier, seed, workdir, log, only_key):
    """Go harness writes cases.v / cases.json / stats.json; Coq evaluates verdicts."""
    name = runner["harness"]
    exe, hook_mode = chk.go_build(name, log)
    out = os.path.join(workdir, name)
    res = {"failures": [], "hook_mode": hook_mode}
    if exe is None:
        res["failures"].append({"kind": "correspondence", "theorem_or_correspondence": runner["corr"],
                                "detail": "harness does not build against the current tree: " + log[-1][2][-1500:],
                                "signature": "harness-build", "found_failing_input": False})
        return res
    cmd = [exe, "-seed", str(seed), "-tier", tier, "-out", out] + runner.get("args", [])
    r = chk.run(cmd, cwd=workdir, timeout=runner.get("timeout", 1800))
    log.append(("harness " + name, r.returncode, (r.stdout[-1000:] + r.stderr[-3000:])))
    if r.returncode != 0:
        res["failures"].append({"kind": "correspondence", "theorem_or_correspondence": runner["corr"],
                                "detail": "harness crashed: " + r.stderr[-3000:], "signature": "harness-crash:" + r.stderr[-300:],
                                "found_failing_input": True})
        return res
    verdicts, stats = chk.eval_cases(out, log)
    cases = json.load(open(os.path.join(out, "cases.json")))
    res.update({"evaluations": stats["evaluations"], "distinct_nontrivial": stats["distinct_nontrivial"],
                "histogram": stats["histogram"], "rule": runner.get("rule", "") + " Scope this run: " + str(stats.get("scope", "")),
                "samples": [c["desc"] for c in cases[:: max(1, len(cases) // 4)][:4]],
                "extra": {k: v for k, v in stats.items() if k not in ("histogram", "evaluations", "distinct", "distinct_nontrivial", "chunk", "chunks", "scope")}})
    if verdicts is None:
        res["failures"].append({"kind": "correspondence", "theorem_or_correspondence": runner["corr"],
                                "detail": "coqc could not evaluate the cases: " + log[-1][2][-1500:],
                                "signature": "cases-eval", "found_failing_input": False})
        return res
    # smallest failing cases first; monitor failures (verdict 1) before pure correspondence mismatches (2)
    bad = sorted(verdicts, key=lambda iv: (iv[1] != 1, len(json.dumps(cases[iv[0]]["desc"]))))
    seen_sig = set()
    any_monitor = any(v == 1 for _, v in bad)
    for idx, v in bad:
        c = cases[idx]
        sig = (runner.get("sigfn") or (lambda c, v: "%s:%s" % (c["tags"][0] if c["tags"] else "", v)))(c, v)
        if sig in seen_sig:
            continue
        seen_sig.add(sig)
        if v != 1 and any_monitor:
            continue  # a concrete monitor failure is already being reported; mismatches add nothing
        res["failures"].append({
            "kind": "monitor" if v == 1 else "correspondence",
            "theorem_or_correspondence": runner["corr"],
            "case": c["desc"], "key": c["key"], "verdict": v, "signature": sig,
            "found_failing_input": v == 1,
            "n_failing_cases": len(bad),
        })
    return res


RUNNERS = {"coqcases": run_coqcases}


import importlib.util, glob

PROPS = {}
META = {}
KNOWN = []
_here = os.path.dirname(os.path.abspath(__file__))
for _f in sorted(glob.glob(os.path.join(_here, "props", "C*.py"))):
    _spec = importlib.util.spec_from_file_location("prop_" + os.path.basename(_f)[:-3], _f)
    _m = importlib.util.module_from_spec(_spec)
    _spec.loader.exec_module(_m)
    _pid = os.path.basename(_f)[:-3]
    PROPS[_pid] = _m.SPEC
    META[_pid] = _m.META
    KNOWN += getattr(_m, "KNOWN", [])
    RUNNERS.update(getattr(_m, "RUNNERS", {}))
    HARNESS_BUILD_FLAGS.update(getattr(_m, "HARNESS_BUILD_FLAGS", {}))
