"""Runner kinds shared by the publication properties C06, C15, C10 (imported by lib/props/C06.py etc.).

pubscript : scripted schedules (harness/cmd/pubscript) evaluated by Coq (Run/CorrPub.v); a failing script is
            re-executed three times on the real code and reported only if it fails again at least twice
            (a defect of the logic is deterministic under a script, a scheduling hiccup is not).
pubstress : free-running -race stress (harness/cmd/pubstress) with Go-side monitors; a failure there is a
            monitor failure with the round's seed as the replay.
"""
import os, json, re

HARNESS_BUILD_FLAGS = {"pubstress": ["-race"]}


def _sig_script(c, v):
    d = c["desc"]
    if "panic" in d:
        return "script:%s:%s" % (d.get("panic", ""), d.get("frame", ""))
    t = c["tags"]
    extra = [x for x in t[1:] if x in ("blocked", "notquiet")]
    return "script:%s:%s:%s" % (t[0] if t else "", ",".join(extra), v)


def _run_harness(chk, exe, args, workdir, out, log, timeout):
    r = chk.run([exe] + args + ["-out", out], cwd=workdir, timeout=timeout)
    log.append(("harness " + " ".join(args[:6]), r.returncode, (r.stdout[-500:] + r.stderr[-2000:])))
    return r


def run_pubscript(chk, pid, runner, tier, seed, workdir, log, only_key):
    exe, hook_mode = chk.go_build("pubscript", log)
    res = {"failures": [], "hook_mode": hook_mode}
    corr = runner["corr"]
    if exe is None:
        res["failures"].append({"kind": "correspondence", "theorem_or_correspondence": corr,
                                "detail": "harness does not build against the current tree: " + log[-1][2][-1500:],
                                "signature": "harness-build", "found_failing_input": False})
        return res
    if only_key and only_key.startswith("stress:"):
        return res
    out = os.path.join(workdir, "pubscript")
    args = ["-prop", pid, "-seed", str(seed), "-tier", tier]
    if only_key:
        args += ["-only", only_key]
    r = _run_harness(chk, exe, args, workdir, out, log, runner.get("timeout", 3000))
    if r.returncode != 0:
        res["failures"].append({"kind": "correspondence", "theorem_or_correspondence": corr,
                                "detail": "harness crashed: " + r.stderr[-3000:], "signature": "harness-crash",
                                "found_failing_input": True})
        return res
    verdicts, stats = chk.eval_cases(out, log)
    cases = json.load(open(os.path.join(out, "cases.json"))) or []
    res.update({"evaluations": stats["evaluations"], "distinct_nontrivial": stats["distinct_nontrivial"],
                "histogram": stats["histogram"],
                "rule": runner.get("rule", "") + " Scope this run: " + str(stats.get("scope", "")),
                "samples": [{"script": c["desc"]["script"], "trace": c["desc"].get("trace", [])[:40]}
                            for c in cases[:: max(1, len(cases) // 3)][:3]],
                "extra": {"scripted_" + k: v for k, v in stats.items()
                          if k in ("scripts_panicked", "scripts_blocked", "scripts_not_quiescent")}})
    if verdicts is None:
        res["failures"].append({"kind": "correspondence", "theorem_or_correspondence": corr,
                                "detail": "coqc could not evaluate the cases: " + log[-1][2][-1500:],
                                "signature": "cases-eval", "found_failing_input": False})
        return res
    if not verdicts:
        return res
    # three-fold reproduction of every failing script (at most 12 distinct ones, smallest first)
    bad = sorted(verdicts, key=lambda iv: (iv[1] != 1, len(json.dumps(cases[iv[0]]["desc"]["script"]))))
    chosen, seen = [], set()
    for idx, v in bad:
        sig = _sig_script(cases[idx], v)
        if sig in seen:
            continue
        seen.add(sig)
        chosen.append((idx, v, sig))
        if len(chosen) >= 12:
            break
    scripts = [{"idx": k, "family": cases[idx]["desc"]["family"], "tags": cases[idx]["desc"]["script_tags"],
                "stims": cases[idx]["desc"]["script_json"]} for k, (idx, v, sig) in enumerate(chosen)]
    sf = os.path.join(workdir, "rerun_scripts.json")
    json.dump(scripts, open(sf, "w"))
    again = [0] * len(chosen)
    last_case = [None] * len(chosen)
    for rep in range(3):
        o2 = os.path.join(workdir, "rerun%d" % rep)
        r2 = _run_harness(chk, exe, ["-prop", pid, "-scripts", sf, "-workers", "1"], workdir, o2, log, 600)
        if r2.returncode != 0:
            continue
        v2, _ = chk.eval_cases(o2, log)
        c2 = json.load(open(os.path.join(o2, "cases.json")))
        for k, vv in (v2 or []):
            again[k] += 1
            last_case[k] = (c2[k], vv)
    res["extra"]["scripted_failures_first_pass"] = len(verdicts)
    res["extra"]["scripted_failures_reproduced"] = sum(1 for a in again if a >= 2)
    any_monitor = any(v == 1 and again[k] >= 2 for k, (idx, v, sig) in enumerate(chosen))
    for k, (idx, v, sig) in enumerate(chosen):
        if again[k] < 2:
            continue
        if v != 1 and any_monitor:
            continue
        c = cases[idx]
        res["failures"].append({
            "kind": "monitor" if v == 1 else "correspondence", "theorem_or_correspondence": corr,
            "case": {"script": c["desc"]["script"], "observed": c["desc"].get("observed"),
                     "trace": c["desc"].get("trace"), "script_json": c["desc"]["script_json"],
                     "family": c["desc"]["family"]},
            "key": c["key"], "verdict": v, "signature": sig, "found_failing_input": v == 1,
            "reproduced": "%d of 3 re-executions failed again" % again[k], "n_failing_cases": len(verdicts)})
    return res


def run_pubstress(chk, pid, runner, tier, seed, workdir, log, only_key):
    exe, hook_mode = chk.go_build("pubstress", log)
    res = {"failures": [], "hook_mode": hook_mode}
    corr = runner["corr"]
    if exe is None:
        res["failures"].append({"kind": "correspondence", "theorem_or_correspondence": corr,
                                "detail": "stress harness does not build against the current tree: " + log[-1][2][-1500:],
                                "signature": "harness-build", "found_failing_input": False})
        return res
    if only_key and not only_key.startswith("stress:"):
        return res
    out = os.path.join(workdir, "pubstress")
    mode = runner["mode"]
    args = ["-mode", mode, "-seed", str(seed), "-tier", tier]
    if only_key:
        parts = only_key.split(":")
        if len(parts) < 3 or parts[1] != mode:
            return res
        args += ["-roundseed", parts[2]]
    e = dict(chk.env())
    e["GORACE"] = "halt_on_error=0 exitcode=0"
    import subprocess
    r = chk.run([exe] + args + ["-out", out], cwd=workdir, timeout=runner.get("timeout", 3000), env=e)
    log.append(("stress " + mode, r.returncode, (r.stdout[-500:] + r.stderr[-3000:])))
    race = "WARNING: DATA RACE" in r.stderr
    rep = None
    p = os.path.join(out, "stress.json")
    if os.path.exists(p):
        rep = json.load(open(p))
    if rep is None:
        m = re.search(r"^(panic: .*|fatal error: .*)$", r.stderr, flags=re.M)
        res["failures"].append({"kind": "monitor", "theorem_or_correspondence": corr,
                                "detail": "stress run died: " + r.stderr[-3000:],
                                "signature": "stress:%s:%s" % (mode, m.group(1) if m else "died"),
                                "found_failing_input": True})
        return res
    res.update({"evaluations": rep["evaluations"], "distinct_nontrivial": rep["distinct_nontrivial"],
                "histogram": rep["histogram"], "rule": runner.get("rule", ""),
                "samples": rep.get("samples") or [],
                "extra": {"stress_rounds": rep["rounds"], "stress_race_detector": "on (-race)"}})
    for f in rep.get("failures") or []:
        res["failures"].append({"kind": "monitor", "theorem_or_correspondence": corr, "case": f,
                                "key": "stress:%s:%s:%s" % (mode, f.get("seed"), f.get("round")),
                                "signature": f["signature"], "found_failing_input": True})
    if race and not res["failures"]:
        i = r.stderr.index("WARNING: DATA RACE")
        res["failures"].append({"kind": "monitor", "theorem_or_correspondence": corr,
                                "case": {"what": "the race detector reported a data race", "detail": r.stderr[i:i + 2500]},
                                "signature": "%s-stress:race" % mode, "found_failing_input": True})
    return res


RUNNERS = {"pubscript": run_pubscript, "pubstress": run_pubstress}
