#!/usr/bin/env python3
"""Regenerates MANIFEST.json from lib/registry.py + lib/manifest_meta.py (kept valid at all times)."""
import json, os, sys
ROOT = os.path.dirname(os.path.dirname(os.path.abspath(__file__)))
sys.path.insert(0, os.path.join(ROOT, "lib"))
import registry, manifest_meta as mm
mm.META = registry.META

props = [json.loads(l) for l in open(os.path.join(ROOT, "properties.jsonl"))]
checks = []
na = []
for p in props:
    pid = p["id"]
    if pid in registry.PROPS and pid in mm.META:
        m = mm.META[pid]
        checks.append({
            "property_id": pid,
            "quick_cmd": "bin/check %s --tier quick" % pid,
            "thorough_cmd": "bin/check %s --tier thorough" % pid,
            "evidence_file": "/verif/evidence/%s.json" % pid,
            "replay_cmd_template": "bin/check replay {path}",
            "engine": "coq-proof+correspondence",
            "level_claimed": {"category": "proof", "text": m["text"], "design_ref": m["design_ref"]},
            "level_note": m["note"],
            "technique": m["technique"],
        })
    else:
        na.append({"property_id": pid, "reason": mm.NOT_YET.get(pid, "check not built yet (work in progress; see DESIGN.md section 7)")})
man = {
    "version": 1,
    "setup_cmd": "bash /verif/bin/setup",
    "hooks": {
        "guard": "verif",
        "enable": "go build -tags verif (harness module replaces github.com/rbell/toolchest by /repo)",
        "baseline_off_cmd": "cd /repo && GOFLAGS=-mod=mod GOPROXY=off go test -json -vet=off -count=1 -timeout 25m ./...",
        "source_commits": mm.HOOK_COMMITS,
        "add_only": True,
    },
    "engines": [{"name": "coq-proof+correspondence", "path": "/verif/coq + /verif/harness + /verif/bin/check",
                 "serves_properties": [c["property_id"] for c in checks],
                 "kind_free_text": "Coq 8.16.1 theorems about hand-written executable models; Go harness runs the real code and Coq (vm_compute) compares observations with the model and evaluates the property monitor"}],
    "checks": checks,
    "notes": mm.NOTES,
    "not_applicable": na,
}
json.dump(man, open(os.path.join(ROOT, "MANIFEST.json"), "w"), indent=1)
json.dump(registry.KNOWN, open(os.path.join(ROOT, "known_findings.json"), "w"), indent=1)
print("checks:", len(checks), "not claimed:", len(na))
