def _sig(c, v):
    """failure signature = listener/group tag + a diagnosis read off the case (only used to group and name failures)"""
    d = c["desc"]
    t = c["tags"][0] if c["tags"] else ""
    if d.get("kind") == "reference-servemux-vs-server" and v == 1:
        return "server-differs-from-reference-servemux:1"
    if d.get("kind") == "with-vs-without-logging-middleware" and v == 1:
        if d.get("handler_ends_with", "").startswith("panic"):
            return "panicking-handler-differs-behind-logging-middleware:1"
        return "exchange-differs-behind-logging-middleware:1"
    if d.get("kind") == "http-exchange" and v == 1:
        o, cfg = d["observed"], d["config"]
        mws = [m["mw"] for m in (cfg.get("middleware") or [])]
        if d["listener"] == "https" and "registered" in c["tags"] and o["status"] == 404 and not o["events"]:
            return "https-registered-route-404:1"
        if d["listener"] == "https" and mws and not d.get("https_builder_has_UsingMiddleWare"):
            return "https-middleware-not-configurable:1"
        if "logresp" in mws and (t.endswith("-respwrite") or "interim-1xx-responses" in c["tags"]
                                 or any(h.get("op") == "flush" or (h.get("op") == "status" and 100 <= h.get("k", 0) < 200)
                                        for r in cfg["addroute_calls"] for h in r["handler"])):
            return "response-writing-differs-behind-logresponse:1"
        if "overlapping-requests" in c["tags"]:
            return "overlapping-requests-mixed-up:1"
        if "logreq" in mws and d["request"]["body"]:
            if "unsized-body" in c["tags"]:
                return "unsized-body-after-logrequest:1"
            return "body-after-logrequest:1"
        if any(st["call"] == "getroutes" for st in (cfg.get("config_call_sequence") or [])):
            return "served-differs-after-getroutes-in-config-sequence:1"
    return "%s:%s" % (t, v)


SPEC = {
    "runners": [{
        "sigfn": _sig,
        "kind": "coqcases", "module": "CorrC17", "harness": "c17", "corr": "Run/CorrC17.v (model of middleware + route table vs the running server.Server)",
        "timeout": 2400,
        "rule": "each case = one real exchange (HTTP, HTTPS/TLS with a certificate generated at run time, or one gRPC call / reflection listing) against a started server.Server on loopback, re-run in Coq on the model: the monitor checks routing against the AddRoute call list, the enter/exit order of recording middleware, and equality with the run WITHOUT LogRequest/LogResponse; then the full event log incl. the logger's messages is compared with the model. Generation: the refutation witnesses first; every subset of 6 (method,path) pairs x 12 requests x both listeners; every middleware list over {LogRequest, LogResponse, rec1, rec2} up to a length bound x 4 handler programs (echo, partial reads, headers/status, empty); a second routing universe (all subsets of GET/PUT /a/b, GET /a/b/c, DELETE /p0/q, OPTIONS /p0 x 20 requests: prefix-sharing paths, HEAD on GET, other methods); configuration call SEQUENCES (every sequence up to a length bound over {AddRoute x3, GetRoutes} containing both, adds through the builder and through the config object returned by Config.GetHttp[s]ServerConfig(), GetMiddleware/TLS getters, middleware set after reads or replacing an earlier one); seeded random configurations (routes over 7 methods x 8 paths, handler programs, scripted middleware, headers, bodies; half of them as call sequences with read accessors); request bodies sent with Content-Length and WITHOUT (chunked HTTP/1.1, unsized HTTP/2), incl. 300 B - 70 kB (thorough 1.1 MB) bodies; route PATTERNS beyond literals (subtrees, /, {id}, {$}, {p...}) and request paths that need cleaning, compared with a reference http.ServeMux built from the same (method, path) list (CSame 0); handler programs ending in panic(http.ErrAbortHandler) / an ordinary panic after nothing, headers, partial writes or a flush, each run on a server with the middleware list and on one with the logging middleware removed and compared (CSame 1: aborted/completed, bytes received, panic value seen by recovering middleware); RESPONSE-WRITING handler programs (every sequence up to length 2, thorough 3, over WriteHeader 103/102/404/201, Write, empty Write, Flush, Header().Set: interim then final status, final twice, WriteHeader after Write, none, Flush in between) behind LogResponse bundled/direct/with others and without it, the client's interim 1xx responses being part of what is compared; OVERLAPPING requests (8, thorough 16, at once through each of 5 middleware lists; every handler waits at a barrier until all handlers have been entered and only then reads its body; recorder events are kept per request); every subset of 5 gRPC descriptors with re-registration, initializers, reflection and the gRPC config's getters called between registrations. distinct = by (listener, AddRoute calls, middleware list, request) resp. (registrations, called service); non-trivial = the listener has at least one route / the server at least one registration.",
    }],
    "trusted": [
        "panicking handlers and route patterns beyond clean literals are NOT in the Coq model: they are checked relationally (same handler with vs without the logging middleware; server vs a reference http.ServeMux built from the same route list)",
        "net/http (ServeMux matching of literal 'METHOD /path' patterns, ResponseWriter header-snapshot semantics, TLS, HTTP/1.1 and HTTP/2 framing) and grpc-go dispatch/reflection are modelled by contract; the contract is exercised by this run's cases only",
        "Read on r.Body is modelled as io.ReadFull / io.ReadAll (no short reads); reads after Close and http.Flusher/Hijacker on the wrapped writer are outside the model",
        "gRPC clause: only the registration map is modelled (C17_grpc_registered_partial); callability is observed by the harness",
    ],
    "assumptions": [
        "route paths are clean literals without a trailing slash or {wildcards}; methods are non-empty tokens",
        "final status codes written by handlers allow a body (not 204/304); interim codes are 102/103 (not 100/101), at most 3 per response (the Go client gives up after 5)", "handlers and middleware read the request body before they flush the response (net/http discards an unread HTTP/1.1 body once the response is flushed, with or without middleware)",
        "middleware other than the supplied ones is well behaved (cannot observe logger output or wrapper-private state): hypothesis others_respectful of C17_transparent",
    ],
}
META = {
  "text": "Coq theorems (Props/C17.v, 14, closed under the global context): BundleMiddleware(m1..mn)(h) = m1(m2(..mn(h))) for every list, with the enter/exit trace of recording middleware 1..n,h,n..1; LogRequest (after the fix) and LogResponse are related to the identity by a logical relation over ALL handlers/writers/states, hence for every middleware list, handler program and request the client view (status, sent headers, body) and every observation of handlers and other middleware are the same as without them; for every sequence of AddRoute calls, every map iteration order and every request the ServeMux model serves exactly the registered (method,path) pairs (HEAD on GET) by the last registered handler wrapped in the middleware and rejects the rest with 405/404, for the HTTP and the HTTPS provider, also after any configuration call sequence with read accessors in between (getters are inert, the middleware set last counts); end-to-end composition of both. The model is tied to the code by real exchanges over loopback (HTTP, TLS, HTTP/2, gRPC) on every run. PARTIAL by design: TLS, wire format, ServeMux and gRPC dispatch are library code (contract + harness only).",
  "design_ref": "DESIGN.md section 7, C17; section 6 F13",
  "note": "Trusted: Coq kernel + vm_compute; hand-written model; net/http and grpc-go contracts; handler programs cover terminating handlers that use the request/writer interfaces only.",
  "technique": "Coq proof (logical relation for transparency, induction for bundle order, functional-table lemma for the router) over an executable model + differential correspondence (vm_compute) against a live server",
}
KNOWN = [
 {"property": "C17", "id": "F13d", "status": "fixed", "commit": "e782aef",
  "what": "ResponseWriterWrapper (LogResponse) did not implement http.Flusher: a handler that flushes when its writer can did so without the middleware and not behind it; 'Flush(); WriteHeader(404)' -> client got 200 without LogResponse, 404 with it",
  "line": "fixed: property=C17 e782aef LogResponse hid http.Flusher (flush; WriteHeader(c) gave a different status behind the middleware)",
  "signature": "^response-writing-differs-behind-logresponse:1$"},
 {"property": "C17", "id": "F13a", "status": "fixed", "commit": "f753480",
  "what": "NewHttpsProvider never assigned its ServeMux to srvr.Handler: every route registered for the HTTPS listener answered 404 (GET /p1 registered, https GET /p1 -> 404, handler never ran)",
  "line": "fixed: property=C17 f753480 HTTPS listener answered 404 for every registered route (mux never installed as handler)",
  "signature": "^https-registered-route-404:1$"},
 {"property": "C17", "id": "F13b", "status": "fixed", "commit": "498db0b",
  "what": "LogRequest read r.Body to EOF and left it drained: POST /p1 body [104,105] to an echo handler behind LogRequest -> handler read 0 bytes, client got an empty body",
  "line": "fixed: property=C17 498db0b handler behind LogRequest read an empty request body (middleware not transparent)",
  "signature": "^body-after-logrequest:1$"},
 {"property": "C17", "id": "F13c", "status": "fixed", "commit": "2d484aa",
  "what": "HttpsServerConfigBuilder had no UsingMiddleWare although NewHttpsProvider wraps routes in cfg.GetMiddleware(): middleware could not be configured for the HTTPS listener at all (recording middleware requested on HTTPS never ran)",
  "line": "fixed: property=C17 2d484aa middleware requested for the HTTPS listener was never applied (builder had no way to set it)",
  "signature": "^https-middleware-not-configurable:1$"},
]
