import re as _re


def _sig(c, v):
    """Signature of a failing case: which operation, and how it failed (panic message / what differs)."""
    d = c["desc"]
    tag = c["tags"][0] if c["tags"] else ""
    if d.get("panic"):
        msg = _re.sub(r"0x[0-9a-f]+", "ADDR", d["panic"])
        msg = _re.sub(r"\*main\.\w+", "*T", msg)
        return "%s:%s:%s" % (tag, v, msg[:90])
    if d.get("kind") == "reads":
        how = "receiver-changed" if d.get("snapshot_before") != d.get("snapshot_after") else "wrong-result"
    else:
        how = "result-changed-by-reads" if d.get("result_before_reads") != d.get("result_after_reads") else "wrong-result"
    return "%s:%s:%s" % (tag, v, how)


SPEC = {
    "runners": [{
        "kind": "coqcases", "harness": "c20", "corr": "Run/CorrC20.v (heap model of errors/validationError.go vs /repo/errors)",
        "rule": "PLACEHOLDER",
        "sigfn": _sig,
    }],
    "trusted": [],
    "assumptions": [],
}
META = {
  "text": "PLACEHOLDER",
  "design_ref": "DESIGN.md section 7, C20; section 6 row F12",
  "note": "",
  "technique": "Coq proof over an executable heap model + differential correspondence (vm_compute) against the Go code",
}
KNOWN = []
