import re as _re


def _sig(c, v):
    """Signature of a failing case: which operation, and how it failed (panic message / what differs)."""
    d = c["desc"]
    tag = c["tags"][0] if c["tags"] else ""
    if d.get("panic"):
        msg = _re.sub(r"0x[0-9a-f]+", "ADDR", d["panic"])
        msg = _re.sub(r"\*main\.\w+", "*T", msg)
        return "%s:%s:%s" % (tag, v, msg[:90])
    if d.get("kind") == "reads":
        how = "receiver-changed" if d.get("snapshot_before") != d.get("snapshot_after") else "wrong-result"
    else:
        how = "result-changed-by-reads" if d.get("result_before_reads") != d.get("result_after_reads") else "wrong-result"
    return "%s:%s:%s" % (tag, v, how)


SPEC = {
    "runners": [{
        "kind": "coqcases", "module": "CorrC20", "harness": "c20", "corr": "Run/CorrC20.v (heap model of errors/validationError.go vs /repo/errors)",
        "rule": "each case = one history on the real code: (reads) a tree of ValidationErrors built through the three public constructors from caller-made maps (possibly nil, empty, shared between nodes; message slices alternately carved out of one backing array with spare capacity), then a sequence of reads (Error, GetFlatErrorMap, GetFlatWarningMap, GetErrorMap, GetWarningMap) applied twice, with a deep snapshot through the getters before and after; or (add) one call of AddErrorToValidation on a pair of arguments (nil, nil pointer, pointer/non-pointer plain error, ValidationError tree, wrappers of any of them, the same object twice) followed by 8 reads of the result between two snapshots. Coq evaluates the monitor (the property on the observations: no panic, flat maps = specified pairs of the snapshot, Error() one line per message, snapshot unchanged, result contains the messages of both arguments) and the model (same construction and operations in the heap model proved correct in Props/C20.v). Generation: corpus = the Findings/VErr.v witnesses; exhaustive = every tree of depth <= 1 made of 7 top shapes x {nil, empty, a, a.b, a+a.b children} x 12 leaf shapes over an alphabet with colliding dotted keys, and every ordered pair of a menu of argument shapes; random = trees of depth <= 4, fan-out <= 3, random arguments. distinct = by (construction, operations, slice mode); non-trivial = a read case whose tree has a message below the root and whose sequence contains a flattening read or Error(), an add case with both arguments non-nil.",
        "sigfn": _sig,
        "timeout": 3000,
    }],
    "trusted": ["Go maps are modelled as heap objects holding association lists (address = identity, nil = None); map iteration order is not modelled: results are compared as multisets of (key, message) pairs and the theorems are stated up to Permutation, with the specification proved independent of entry/children order",
                "message slices are values in the model: sharing of their backing arrays (append into spare capacity) is observed by the harness only (arena mode), not covered by the theorems",
                "errors.As / reflect nil-ness are modelled by contract: [as_ve] walks the Unwrap chain, [is_nil] = nil interface or nil pointer; custom As/Is methods and multi-error Unwrap() []error are outside the model",
                "the ValidationError node structs are values in the model (tree), only the maps are shared objects: a cyclic children graph is excluded (Go would recurse forever), a child pointer shared by two parents behaves like two copies because reads never write to a node"],
    "assumptions": ["children maps contain no nil *ValidationError values and form a finite tree (no cycle)",
                    "no other goroutine mutates the maps during a read (the type is not synchronised and the property is sequential)",
                    "messages observed through Error() contain no newline (the harness splits the string into lines); keys and messages are arbitrary strings in the theorems",
                    "AddErrorToValidation: an argument that is not and does not wrap a ValidationError counts as one error message (its Error() text) under the empty key; whether the first argument is mutated or returned is not specified and not asserted"],
}
META = {
  "text": "Coq theorems (Props/C20.v, 11, closed under the global context) about an executable HEAP model of errors/validationError.go (maps are shared objects, so that 'a read writes into the receiver' is expressible): for every well-formed tree in every heap (proved to include every nesting of calls of the three constructors, any map nil/empty/shared) GetFlatErrorMap/GetFlatWarningMap return a FRESH map holding exactly the specified multiset of (dotted key, message) pairs - errors and warnings apart, characterised by paths, independent of iteration order - and change no existing map; Error() writes one ERROR:/WARNING: line per flat message, each exactly once; every sequence of reads runs without panic, leaves every map and the receiver's value unchanged and answers each read as specified by the value before the sequence (hence repeatable); AddErrorToValidation never panics on any pair of nil / nil-pointer / plain / ValidationError / wrapped arguments (even sharing maps or identical) and its result is well formed and contains the flat errors and flat warnings of both arguments as multisets. Pinned defects are refuted in Findings/VErr.v by vm_compute witnesses, which are also the harness corpus. The model is tied to /repo on every run by building trees through the public constructors, reading through the public API, and comparing in Coq (monitor = the property on the observations; correspondence = the model's prediction including nil-ness, key sets and line format).",
  "design_ref": "DESIGN.md section 7, C20; section 6 row F12",
  "note": "Trusted: Coq kernel + vm_compute; the hand-written model (validated by this run's cases only); errors.As/reflect by contract; slice backing-array aliasing is checked by the harness only (arena mode), not proved. Deviation from DESIGN: a heap of map objects instead of 'functions return the post-state of the receiver' (stronger: sharing between nodes/arguments is covered); AddErrorToValidation merges the second argument through its flat maps only (children of the second argument are not re-attached), the result is nil when both arguments are nil.",
  "technique": "Coq proof (heap model, frame/agree invariants, multiset inclusion) + differential correspondence (vm_compute) against the Go code",
}
KNOWN = [
 {"property": "C20", "id": "F12a", "status": "fixed", "commit": "4a23b92",
  "what": "GetFlatErrorMap/GetFlatWarningMap merged the children's messages INTO the receiver's own map (flatMap := e.errorMap): a second read returned them twice, GetErrorMap showed dotted keys never supplied, Error() grew; with a nil map (warningMap after NewValidationErrors, ...) the merge panicked 'assignment to entry in nil map'",
  "line": "fixed: property=C20 4a23b92 reads changed the receiver (second GetFlatErrorMap returned more) and panicked on nil maps",
  "signature": "^read(\\.panic)?:1:(receiver-changed|wrong-result|assignment to entry in nil map)"},
 {"property": "C20", "id": "F12c", "status": "fixed", "commit": "8225db0",
  "what": "flattening appended into the caller's own message slices (prefixKeys stored them uncopied): with spare capacity behind a slice, a read overwrote the messages stored after it",
  "line": "fixed: property=C20 8225db0 a read overwrote messages behind a caller-supplied slice with spare capacity",
  "signature": "^read:1:receiver-changed$"},
 {"property": "C20", "id": "F12b", "status": "fixed", "commit": "3e7551b",
  "what": "AddErrorToValidation panicked on (nil,nil), a nil second argument, a non-pointer error (reflect IsNil), a wrapped ValidationError (direct type assertion after errors.As), and when the first argument lacked errorMap/warningMap/children that the second had entries for; children of the second argument replaced equally named children of the first (messages lost) and were counted twice",
  "line": "fixed: property=C20 3e7551b AddErrorToValidation panicked on nil/plain/wrapped arguments and missing maps, and lost messages of equally named children",
  "signature": "^add(\\.panic)?:1:(wrong-result|AddErrorToValidation: )"},
 {"property": "C20", "id": "F12d", "status": "fixed", "commit": "f48b035",
  "what": "addMsgs appended in place into slices stored in the first argument of AddErrorToValidation: with spare capacity the append overwrote other messages of that argument, so the result did not contain them",
  "line": "fixed: property=C20 f48b035 AddErrorToValidation overwrote messages behind a slice with spare capacity (result missed a message)",
  "signature": "^add:1:wrong-result$"},
]
