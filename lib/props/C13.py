import re as _re
def _sig(c, v):
    prog = c["desc"].get("program", "")
    feats = [n for n, pat in (("resize", r"\br\d"), ("delete", r"\bd\d"), ("clear", r"\bx\b")) if _re.search(pat, prog)]
    return "%s:%s" % ({1: "monitor", 2: "mismatch"}.get(v, v), "+".join(feats) or "plain")

def _runner(prop):
    return {"kind": "coqcases", "module": "CorrCache", "shards": 8, "harness": "cache", "args": ["-prop", prop],
            "corr": "Run/CorrCache.v (Model/Cache.v vs /repo/storage/fifoMapCache.go; monitor of %s)" % prop,
            "sigfn": _sig,
            "rule": "case = one history on a fresh FifoMapCache with sweeps held by the verif hook (Sweep happens exactly where the history says); every output and periodic observation blocks (Get/Contains for the whole key universe, Keys, Values, Len, Capacity) are compared with the model and checked by the property's black-box monitor; distinct = by (option, capacity, program); non-trivial = an eviction happened, or a Resize, or an update plus a delete of a present key."}

SPEC = {
    "runners": [_runner("C13")],
    "trusted": ["GenericStack as the FIFO queue of Props/C11.v; SafeMap as a plain map (C07); float64 partition arithmetic modelled on nat (validated by the C02 rounding sweep)",
                "verif hook storage/export_verif.go (holds sweepingMux; layout snapshot for Resize replay order)"],
    "assumptions": ["keys have a reflexive ==; values used by the harness are unique and non-zero",
                    "configured calculator yields P >= 1, C >= 1 (minimumPartitions <= capacity)"],
}
META = {
  "text": "Coq theorems (Props/C13.v) for every replay order of Go's map ranges: Capacity after Resize = calculator(new capacity); survivors keep their values and nothing appears; all survive when they fit, otherwise survivors are a suffix of the replay order (older old-partition evicted first) and Len <= Capacity; later insertions are newer (C03's FIFO theorem covers histories containing Resize); Clear yields a state with identical outputs to a new cache for every continuation (bisimulation). Tied to /repo by histories with Resize/Clear over all (old,new) capacity pairs in a range and four options, the replay order being reconstructed from the hook's layout snapshot and validated in Coq (valid_order, proved sound).",
  "design_ref": 'DESIGN.md section 7, C13',
  "note": "Trusted: Coq kernel/vm_compute; model validated by this run's histories; GenericStack/SafeMap by their own properties (C11, C07); hook file; float64 partition arithmetic modelled on nat and validated numerically by the rounding sweep; sequential use only.",
  "technique": 'Coq proofs over an oracle-parameterised Resize model (all valid replay orders) + bisimulation for Clear + differential correspondence with layout-derived order',
}
KNOWN = [
 {"property": "C13", "id": "F2", "status": "fixed", "commit": "56b7f21",
  "what": "Resize used the default calculator instead of the configured one and did nothing when only the partition size changed (Resize(12) on capacity 9 kept 9; Resize(1) on capacity 2 kept 2)",
  "line": "fixed: property=C13 56b7f21 Resize ignored the configured calculator and skipped size-only changes",
  "signature": "^monitor:resize"},
]
