import wqrunner
RUNNERS = {"wqcases": wqrunner.run_wqcases, "wqstress": wqrunner.run_wqstress}
HARNESS_BUILD_FLAGS = {"wqstress": ["-race"]}
SPEC = {
    "runners": [{
        "kind": "wqcases", "module": "CorrC14", "harness": "wqscript", "prop": "C14",
        "corr": "Run/CorrC14.v + Run/CorrWQ.v (model of the work queue vs /repo/workqueue, scripted schedules)",
        "rule": "scripted: each case = one script with 0..n Errors() subscriptions before and during processing, work completions with nil or distinct error values (pointer identity is what the subscriber-side comparison uses), and subscriber receives issued one at a time as non-blocking receives at quiescent moments; run on the real queue and replayed in Coq on Model/WQ.v with all internal interleavings; observed = the value each receive returns (which error, nothing, nil, foreign), started work functions, WorkItems(). distinct = by (W, L, stimuli); corpus scripts call Errors() again while an earlier error still waits for a subscriber that has not started reading (the call must return, other work must complete, the late channel gets nothing of that fan-out); every synchronous API call runs under a watchdog (not returned at a quiescent moment = violation). work errors are drawn from every dynamic kind of error value (pointer, struct value, integer kind, string kind, a typed nil pointer in a non-nil interface, a wrapped error, a struct with an uncomparable field; harness/internal/werr) and recognised on the subscriber side by identity / equality / tag; scripts with 8, 9, 17 subscribers (thorough up to 100) read every channel in turn. non-trivial = some work function returned an error.",
    }, {
        "kind": "wqstress", "name": "stress", "prop": "C14",
        "rule": "free-running: each case = one queue under real scheduling (built with -race) with 0..3 subscribers registered before the work, error results for every n-th item, twelve runs with 0, 1, 2, 7, 8, 9, 16, 17, 33, 64, 65, 100 subscribers (every channel must hold every error exactly once), three lazy-subscriber runs first (a subscriber that has not started reading, one failing item, then Errors() again with a 20 s bound, ordinary work must complete meanwhile, then both channels are read); half of the runs calling Errors() again while work is running (20 s bound on the call), half of the runs registering 2-8 subscribers CONCURRENTLY (goroutines released together, before any work is enqueued); evaluated = every early subscriber received every error exactly once as the same value, no nil, late subscriber no duplicates, exactly-once/max-concurrency monitors of C04/C09, race reports; non-trivial = more items than W+L+1.",
    }],
    "trusted": ["channels, select, sync.Map, atomics, context are modelled by contract (one step each)",
                "quiescence detector",
                "race freedom of the subscriber slice (F14): C14_subscribers_race_free is the lockset theorem of Lib/Conc.v over the skeleton REGENERATED from workqueue/queue.go on every run (Gen/WQSkeleton_gen.v); trusted for it: the translator translator/lockskel (fail-closed go/ast walk), sync.Mutex by contract, DRF-SC of the Go memory model; the -race stress re-checks it on every run"],
    "assumptions": ["subscribers keep receiving (ErrRecv is an environment label)",
                    "work functions return pairwise distinct error values where exactly-once is counted per value",
                    "no Stop/Break (after the close of errChan the monitor fans out nil: C19/K5)"],
}
META = {
  "text": "Coq theorems (Props/C14.v, 8, closed under the global context) over Model/WQ.v for ALL W, L, label sequences: for every subscriber and error value, deliveries + what the fan-out in progress still owes = fan-outs of that value that include the subscriber (C14_accounting); every fan-out goes to exactly the subscribers registered before it, each once, in particular all registered before the item was enqueued (C14_recipients); hence with the monitor idle a subscriber registered before the fan-out has received the value exactly once and a later one never (C14_exactly_once); whatever is received was fanned out and is the non-nil result of a work function - nil results produce no delivery (C14_only_errors); the monitor's state influences no step of the dispatcher or of workers holding no error (C14_others_progress) and a pending error at a quiescent state means the monitor waits for a subscriber (C14_pending_error_waits_for_subscriber); Errors() is enabled at any moment and changes only the subscriber list (C14_subscribe_safe). F14 (subscriber slice ranged without its mutex) is a data race, i.e. outside the interleaving model: it was reported by the -race stress of this check and fixed; since then C14_subscribers_race_free states race freedom of Queue.errorSubscribers (Errors vs the monitor goroutine, entry NewQueue.go1.go1; mutex and slice found by type) over the lock skeleton regenerated from workqueue/queue.go on every run.",
  "design_ref": "DESIGN.md section 7, C14 (and 'Work queue model', Appendix C)",
  "note": "Trusted: Coq kernel + vm_compute; hand-written model validated by this run's scripts; Go runtime primitives by contract. Race freedom of errorSubscribers: lockset theorem over the regenerated skeleton (translator trusted, fail-closed) plus the -race stress; other unsynchronised fields of Queue (breaked, the heap behind workQueue) are reported in notes/C14.md and are not part of C14.",
  "technique": "Coq invariant proof (delivery accounting) over an interleaving model + scripted differential correspondence (vm_compute) + free-running -race stress",
}
KNOWN = [
 {"property": "C14", "id": "F14", "status": "fixed", "commit": "bfd4c0a",
  "what": "errorSubscribers appended under errSubScriberMux in Errors() but ranged without it by the monitor goroutine: data race whenever Errors() is called while work is running",
  "line": "fixed: property=C14 bfd4c0a data race between Errors() and the error monitor on the subscriber slice",
  "signature": "^race:.*Errors"},
]
