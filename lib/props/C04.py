import wqrunner
RUNNERS = {"wqcases": wqrunner.run_wqcases, "wqstress": wqrunner.run_wqstress}
HARNESS_BUILD_FLAGS = {"wqstress": ["-race"]}
SPEC = {
    "runners": [{
        "kind": "wqcases", "module": "CorrC04", "harness": "wqscript", "prop": "C04",
        "corr": "Run/CorrC04.v + Run/CorrWQ.v (model of the work queue vs /repo/workqueue, scripted schedules)",
        "rule": 'scripted: each case = one script (Enqueue with 1..3 producers blocked at a time, work completion with nil/error, Dequeue, subscriber receive, resize; one stimulus at a time, quiescence from goroutine stacks) run on the real queue and replayed in Coq on Model/WQ.v with every interleaving of internal steps explored; observed = started work functions, returned Enqueue calls, WorkItems() (name, priority, state). Generated as corpus (Findings witnesses), every word over {enqueue p1, enqueue p2, finish oldest, finish newest} up to a length bound for W,L in a small grid, adaptive random scripts that fill the queue. distinct = by (W, L, stimuli); every synchronous API call of a script (Errors, Dequeue, SetPriority, ResizeQueueLength, Stop, Break) runs under a watchdog: if it has not returned at a quiescent moment the script ends there and the case is a violation (callers never hang), after the 3x reproduction; corpus scripts call Errors() again while an earlier error waits for a subscriber that has not read yet. every third random script is Dequeue/SetPriority-bearing without errors or subscribers, plus corpus scripts with several Dequeue calls on a heap whose array layout is not sorted; the black-box monitor of C16 (nil-dequeued items never start, other calls change nothing, every accepted item that was not dequeued has started when the script has run to completion) is applied to all C04 scripts. non-trivial = some item had to wait (was not started by its own Enqueue).',
    }, {
        "kind": "wqstress", "name": "stress", "prop": "C04",
        "rule": 'free-running: each case = one queue under real scheduling (built with -race): P producers x items with random priorities and durations; evaluated = per-item run counters (exactly once), watchdog (nothing lost, no Enqueue hangs), max concurrency <= W, distinct ids, WorkItems() empty at the end and well-formed in flight; non-trivial = more items than W+L+1 (the queue filled and producers had to wait).',
    }],
    "trusted": ["channels, select, sync.Map, atomics, context are modelled by contract (one step each)",
                "quiescence detector (all goroutines blocked in two consecutive runtime.Stack snapshots)",
                "Go race detector and scheduler for the free-running part (testing, not proof)"],
    "assumptions": ['W >= 1, L >= 1', 'running work terminates; the runtime schedules every enabled goroutine eventually', 'uuid.New() never collides', 'no Stop/Break in the history (C19)'],
}
META = {
  "text": 'Coq theorems (Props/C04.v, 7, closed under the global context) over Model/WQ.v for ALL W, L, label sequences (any number of producers, any interleaving): conservation - every id issued is in exactly one place (C04_conservation, also across Dequeue/Stop/Break); ids distinct (C04_distinct_ids); a work function is called at most once and exactly for the items executing or past execution (C04_at_most_once); on a running queue a state with no enabled internal step and nothing executing has no blocked producer, empty dispatcher/heap/worker channel, all workers idle (C04_stuck_free, via invariants I1: F<=3W and I2: waiting => F>=W), hence every issued id is finished-and-started-exactly-once or dequeued (C04_exactly_once); every internal step and completion decreases a measure (C04_terminates); workItems = ids not yet deleted and not dequeued, executing ones IN_PROGRESS (C04_workitems). Tied to /repo by scripted schedules (Coq replay with all internal interleavings) and -race stress with per-item counters.',
  "design_ref": "DESIGN.md section 7, C04 (and 'Work queue model', Appendix C)",
  "note": "Trusted: Coq kernel + vm_compute; hand-written model validated by this run's scripts; Go runtime primitives by contract; liveness is termination + stuck-freedom under weak fairness and terminating work (not a temporal-logic proof). A worker's receive and state.Store are one model step.",
  "technique": "Coq invariant proof over an interleaving model (conservation, token invariants I1/I2, termination measure, stuck-freedom) + scripted differential correspondence (vm_compute) + free-running -race stress with Go-side monitors",
}
KNOWN = []
