import re as _re
def _sig(c, v):
    prog = c["desc"].get("program", "")
    feats = [n for n, pat in (("resize", r"\br\d"), ("delete", r"\bd\d"), ("clear", r"\bx\b")) if _re.search(pat, prog)]
    return "%s:%s" % ({1: "monitor", 2: "mismatch"}.get(v, v), "+".join(feats) or "plain")

def _runner(prop):
    return {"kind": "coqcases", "module": "CorrCache", "shards": 8, "harness": "cache", "args": ["-prop", prop],
            "corr": "Run/CorrCache.v (Model/Cache.v vs /repo/storage/fifoMapCache.go; monitor of %s)" % prop,
            "sigfn": _sig,
            "rule": "case = one history on a fresh FifoMapCache with sweeps held by the verif hook (Sweep happens exactly where the history says); every output and periodic observation blocks (Get/Contains for the whole key universe, Keys, Values, Len, Capacity) are compared with the model and checked by the property's black-box monitor; distinct = by (option, capacity, program); non-trivial = an eviction happened, or a Resize, or an update plus a delete of a present key."}

SPEC = {
    "runners": [_runner("C02")],
    "trusted": ["GenericStack as the FIFO queue of Props/C11.v; SafeMap as a plain map (C07); float64 partition arithmetic modelled on nat (validated by the C02 rounding sweep)",
                "verif hook storage/export_verif.go (holds sweepingMux; layout snapshot for Resize replay order)"],
    "assumptions": ["keys have a reflexive ==; values used by the harness are unique and non-zero",
                    "configured calculator yields P >= 1, C >= 1 (minimumPartitions <= capacity)"],
}
META = {
  "text": 'Coq theorems (Props/C02.v): for EVERY history ending in a Sweep, Len <= P*C = Capacity (from the invariant: at most P partitions after a sweep, each holding at most C entries, which needs Delete to drop the index entry); Capacity rounding P*C <= requested < P*C + P proved for the default (sqrt) calculator and for WithBalancedPartitions with any Nth-root value. Tied to /repo by histories with held sweeps and by comparing Capacity() of a new cache with the model for every requested capacity in a range and five option settings (this also validates the nat model of the float64 arithmetic).',
  "design_ref": 'DESIGN.md section 7, C02',
  "note": "Trusted: Coq kernel/vm_compute; model validated by this run's histories; GenericStack/SafeMap by their own properties (C11, C07); hook file; float64 partition arithmetic modelled on nat and validated numerically by the rounding sweep; sequential use only.",
  "technique": 'Coq invariant proof (bound after sweep) + arithmetic proof (rounding) + differential correspondence incl. exhaustive capacity sweep',
}
KNOWN = [
 {"property": "C02", "id": "F1", "status": "fixed", "commit": "da62576",
  "what": "Delete left the index entry: capacity 4, Set a,b,c,d; Delete c; Set e; Set c; Sweep => Len()=5 > Capacity()=4",
  "line": "fixed: property=C02 da62576 Delete left the key's index entry, a re-Set went into the old partition and Len() exceeded Capacity() after a sweep",
  "signature": "^monitor:.*delete"},
]
