import os, sys
sys.path.insert(0, os.path.dirname(os.path.dirname(os.path.abspath(__file__))))
import pubrunner

RUNNERS = pubrunner.RUNNERS
HARNESS_BUILD_FLAGS = pubrunner.HARNESS_BUILD_FLAGS

SPEC = {
    "coq_targets": ["Props/C10Lock.vo"],
    "runners": [
        {"kind": "pubscript", "name": "scripted", "module": "CorrC10", "corr": "Run/CorrPub.v (Model/Pub.v vs /repo/publisher, scripted schedules, monitor mon10)",
         "rule": "scripted: each case = one script in which Subscriber.Close and/or Publication.Close (once, twice, both) is injected at a position of a base script, or is called from inside an OnTimeout / OnFiltered callback (of the own subscriber, of the publication; must return within 3s), of Subscribe / Publish / non-blocking receive / Advance stimuli, run in a child process (a panic is an observation: exit status + stderr); after every stimulus the harness waits for quiescence; the trace (close = LoadAndDelete + wake-up, dropped deliveries, channel closed, receive outcomes value/nothing/closed, channel lengths, live delivery goroutines) is replayed through the model by Coq; the C10 monitor: no panic, no call stuck for 3s, 'closed' seen only on a closed subscriber, nothing received after 'closed', subscribers that were not closed still receive every accepted message exactly once, no delivery goroutine left. distinct = by (family, stimuli); non-trivial = a close happened while deliveries to that subscriber were pending or messages were buffered."},
        {"kind": "pubstress", "name": "stress", "mode": "c10", "corr": "Go-side monitor (harness/cmd/pubstress -mode c10, -race, one child process per round)",
         "rule": "free-running (-race): first 2 child processes x 80 'hot close' trials (8 goroutines publish as fast as they can to a draining subscriber with buffer 0/1/64 and timeout 1min/0/-1s; after 100-800us 1-2 callers close the subscriber or the publication: Close must return within 10s - on a hang the stacks of the package's goroutines go into the replay -, no panic, the reader sees 'closed', publishers are not stuck, the other subscriber still works); then one child process x 320 trials of 4-32 consumers that re-subscribe the moment their channel closes while Publication.Close is still running (each new subscriber must afterwards be either closed or fully alive: a later Publish reaches it and its own Close closes its channel); then 3 child processes x 4000 trials of 2-6 closers (Subscriber.Close, one of them possibly Publication.Close) released at the same instant on a subscriber holding a buffered message (no panic, no hang, the message readable then 'closed', the other subscriber untouched); then each round (own child process) = 1-4 publishers publishing continuously for 20-80ms, 1-6 subscribers with draining receivers, 0-3 concurrent closers per subscriber at random moments, half of the short-timeout subscribers closing themselves (or the publication) from inside OnTimeout, (same subscriber closed from several goroutines), in a third of the rounds 1-2 concurrent Publication.Close; a panic, a race report, a Close not returning within 10s, a receiver not seeing 'closed', duplicates / foreign / rejected values, a never-closed 60s-timeout subscriber missing a message, or goroutines of the package left = failure."},
    ],
    "trusted": ["sync.Map (Range/Store/LoadAndDelete), channels/select (send on / close of a closed channel panics), close(done) wake-up, sync.RWMutex (writer waits for readers; readers arriving later see the writer's writes) are modelled by contract",
                "the three actions LoadAndDelete / close(s.done) of Close are one atomic step of the model (CloseSub); the lock acquisition + closed=true + close(receiveCh) another (FinishClose)",
                "the harness's placement of internal steps in observed traces (Coq validates the placed trace)",
                "quiescence detection by parsing runtime.Stack output"],
    "assumptions": ["callbacks do not call Close on their own subscriber from inside OnTimeout (the delivery goroutine holds the read lock while it waits, not while it runs the callback)"],
}
META = {
  "text": "Coq theorems (Props/C10.v, closed under the global context) over the publication LTS (Model/Pub.v) in which the Go runtime's panics (send on a closed channel, close of a closed channel) are explicit transitions: for EVERY reachable state (every schedule, every position and repetition of Close of subscribers and of the publication from any number of callers) no panic transition has fired; a subscriber's channel is closed at most once and exactly when the one closer that took it out of the map has passed the lock; from the close on, what was buffered is exactly what receives yield, in order, followed by 'closed', and nothing is added; every run with closes of s is matched by a run without any close of s that is identical for all other subscribers; Close is enabled in every state and a closing subscriber is always either finished or has an enabled internal step (no deadlock). Props/C10Lock.v adds four obligations over the lock skeleton that the translator regenerates from publisher/publication.go on every run: every access to closed / every send on or close of receiveCh holds the subscriber's RWMutex (writes in write mode), no lock is re-acquired on a path that already holds it (recursive RLock), the publication's subscriber map is race free. Tied to the code by scripts with Close injected at every position (child processes) replayed in Coq and by -race stress of closers racing publishers.",
  "design_ref": "DESIGN.md section 7, 'Publication model shared by C06, C10, C15' and 'C10'",
  "note": "Trusted: Coq kernel + vm_compute; the hand-written LTS (atomicity of map/channel/lock operations, RWMutex contract); the harness's trace annotation; scheduler fairness.",
  "technique": "Coq invariant + simulation proofs over an interleaving model (LTS) with explicit runtime panics + lockset theorems over a lock skeleton regenerated from the source by a translator + scripted close-injection correspondence replayed by vm_compute + free-running -race stress in child processes",
}
KNOWN = [
 {"property": "C10", "id": "F16a", "status": "fixed", "commit": "6b76eb1",
  "what": "Subscribe(0); Publish(1); Close() (Subscriber.Close or Publication.Close) while the delivery goroutine is still waiting to send: 'panic: send on closed channel' in the delivery goroutine; the race detector also reports close vs send on the channel",
  "line": "fixed: property=C10 6b76eb1 closing a subscriber/publication while a delivery is pending panicked with 'send on closed channel'",
  "signature": "^script:panic: send on closed channel:|^c10-stress:(race|panic: send on closed channel)$"},
 {"property": "C10", "id": "F16b", "status": "fixed", "commit": "653c37d",
  "what": "two concurrent closers of the same subscriber (Subscriber.Close twice, or racing Publication.Close) both find it in the map (Load, then close, then Delete) and close its channel twice: 'panic: close of closed channel'",
  "line": "fixed: property=C10 653c37d concurrent Close calls closed a subscriber's channel twice ('close of closed channel')",
  "signature": "^c10-stress:panic: close of closed channel$"},
]
