def _sig(c, v):
    o = c["desc"]["observed"]
    sc = c["desc"]["scenario"]
    if v == 1 and 2 in (sc.get("held_before_serve_loop") or []):
        if o["stop_returned_while_requests_blocked"] or not all(o["port_refuses"]):
            return "stop-during-start-did-not-stop-everything:1"
    if v == 1 and sc.get("held_before_serve_loop"):
        if o["stop_returned_while_requests_blocked"]:
            return "stop-returned-before-provider-goroutine:1"
    if v == 1:
        if not o["start_returned"]:
            return "start-did-not-return:1"
        if not sc["immediate"] and not all(o["reachable"]):
            return "listener-unreachable:1"
        if not o["stop_returned"]:
            return "stop-did-not-return:1"
        if sc["ctx"] == 0 and o["stop_returned_while_requests_blocked"]:
            return "stop-did-not-wait-for-requests:1"
        if sc["ctx"] != 0 and sum(sc["inflight"]) > 0 and not o["stop_returned_while_requests_blocked"]:
            if sc.get("grpc_handlers_ignore_cancellation") and all(
                    k == 2 or n == 0 for k, n in zip(sc["kinds"], sc["inflight"])) and o["stop_returned"]:
                return "grpc-handler-ignoring-cancellation-outlives-stop-context:1"
            return "stop-outlived-its-context:1"
        if not o["waitgroup_released"]:
            return "waitgroup-not-released:1"
        if not all(o["port_refuses"]) or not all(o["port_rebindable"]):
            return "port-not-released:1"
    return "%s:%s" % (c["tags"][0] if c["tags"] else "", v)


SPEC = {
    "runners": [{
        "kind": "coqcases", "module": "CorrC18", "harness": "c18", "corr": "Run/CorrC18.v (monitor of the lifecycle clauses + prediction of Model/Lifecycle.v vs a running server.Server)",
        "timeout": 3000, "sigfn": _sig,
        "rule": "each case = one life of a real server.Server on loopback (HTTP, HTTPS with a certificate generated at run time, gRPC example service): Start, real requests until every listener answers, k requests per provider blocked inside their handlers (scripted: handlers wait on a channel), Stop with an ample / already expired / expiring context, release, then WaitGroup, connection-refused and re-bind checks (and for some a second server on the same ports); or Stop contexts WITH a deadline sized relative to what the blocked requests still need (0.05x, 0.7x: Stop returns by itself; 1.7x, 20x: Stop waits, returns nil, clients get their responses) on 2 and 3 listeners, these lives running concurrently; or Start immediately followed by Stop after a 0-5000us pause; or scripted schedules through a blocking logger: HTTP/HTTPS provider goroutines held between startWg.Done and ListenAndServe (Stop before the serve loop), the gRPC provider goroutine held before it listens and signals (Stop issued WHILE Start is still in progress). Generation: every non-empty provider subset x in-flight patterns x context kinds; immediate stops repeated with varying pauses; seeded random scenarios. Observations that look wrong are re-run up to 3 times and reported only if they reproduce every time. distinct = by (providers, in-flight vector, context kind, immediate, pause, idle connections, TLS mode, restart); every case is non-trivial (at least one provider).",
    }],
    "trusted": [
        "net/http.Server and grpc.Server are NOT modelled; the theorems constrain them only by the contracts L1-L3 (and their converses where stated), which are Section hypotheses closed by the instance lib_serve_ret/lib_drain_ret",
        "real sockets: reachability, connection draining and port release are observed by the harness only (PARTIAL by design)",
        "Stop may be issued from another goroutine once Start has launched every provider (model: two program counters); a Stop overlapping Start's launching loop itself would call WaitGroup.Wait concurrently with Add at counter zero (forbidden by sync.WaitGroup) and is excluded",
    ],
    "assumptions": [
        "listening succeeds (ports free): GrpcProvider.Start continues after a failed net.Listen and Serve(nil) panics - outside the property, see notes/C18.md",
        "the caller-supplied WaitGroup is used by nobody else (w0 = 0) for the liveness theorems; safety theorems hold for every w0 >= 0",
        "handlers of in-flight requests terminate (or the context ends)",
    ],
}
META = {
  "text": "Coq theorems (Props/C18.v, 9, closed under the global context) about the interleaving system of Server.Start/Stop, the provider goroutines (HTTP/HTTPS/gRPC) and both WaitGroups, for EVERY provider list and EVERY schedule: counters never negative; whenever Start has returned every provider has called startWg.Done exactly once; Start cannot get stuck and returns within a bounded number of steps (no assumption on the libraries); whenever Stop has returned every provider goroutine has returned, no listening socket is open, every library server was shut down and the caller's WaitGroup is back to its initial value, including Stop issued before a goroutine entered its serve loop; under the contracts L1-L3 Stop cannot get stuck except while waiting for a request in flight with a live context, and returns within a bounded number of steps once requests finish or the context ends; under the converse contracts Stop with a live context returns only when nothing is in flight and every listener is up once Start has settled. The runtime clauses (real sockets answer, Stop really waits, ports can be bound again, WaitGroup released, immediate Stop) are observed on every run against a real server.",
  "design_ref": "DESIGN.md section 7, C18",
  "note": "PARTIAL by design: the library servers are contracts, sockets are observed only by the harness.",
  "technique": "Coq proof (inductive invariant over an executable labelled transition system, termination measure + stuck-freedom) + scripted runtime scenarios against the real server evaluated by a Coq monitor and model prediction",
}
KNOWN = [
 {"property": "C18", "id": "K6", "status": "known",
  "what": "K6 Stop outlives its context while a gRPC handler that ignores the cancellation of its call is still running: the forced grpc.Server.Stop does not end GracefulStop, which waits for running handlers (grpc-go v1.71 Server.stop: handlersWG.Wait under the server mutex); Stop returns when the handler does. Handlers that honour cancellation, and all HTTP/HTTPS handlers, are not affected.",
  "line": "known: property=C18 K6 Stop outlives its context while a gRPC handler ignoring cancellation runs (grpc-go GracefulStop waits for handlers)",
  "signature": "^grpc-handler-ignoring-cancellation-outlives-stop-context:1$"},
]
