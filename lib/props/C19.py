import wqrunner
RUNNERS = {"wqcases": wqrunner.run_wqcases}
SPEC = {
    "runners": [{
        "kind": "wqcases", "module": "CorrC19", "harness": "wqscript", "prop": "C19",
        "corr": "Run/CorrC19.v + Run/CorrWQ.v (model of the work queue incl. its shutdown path vs /repo/workqueue, child processes)",
        "rule": "each case = one child process running a scripted workload (n equal-priority items finished in order, optionally an error result and a subscriber) with Stop or Break injected at one position (every position is used), then the remaining Enqueue calls plus one more, then an adaptive drain; the child's exit status and stderr classify crashes (panic message + frames of the panicking goroutine), the steps it completed are replayed in Coq on Model/WQ.v. Black-box clauses on every case: no work function starts twice, work enqueued after Stop/Break never starts, and an Enqueue issued after Stop/Break has returned when its step ends. In addition 200 burst trials (thorough 1000) in child processes: one goroutine makes n in 1..6 Enqueue calls of never-returning work and immediately calls Stop, with W >= n workers (the regime where the code is deterministic and outside K5); evaluated by a Go-side monitor: every call returned, every accepted item started exactly once, a later Enqueue returns and never runs. 50 shutdown-sequence children (Stop-Break, Break-Stop, Stop-Stop, Break-Break, Stop-Break-Stop on an idle queue, with all workers executing, and with the worker channel full and 1-2 items waiting; the gated work is never released, so nothing finishes after the shutdown): every call must return (hang detector), nothing may start afterwards, a later Enqueue returns. Burst children also run 200 trials (thorough 1000) in which Stop or Break is the very first call on a fresh queue (no yield after NewQueue), followed by one Enqueue that must return, never run and not panic. distinct = by (W, L, stimuli); every case is non-trivial (it contains a Stop or Break).",
    }],
    "trusted": ["channels, select, sync.Map, atomics, context are modelled by contract (one step each)",
                "quiescence detector; exit status / stderr of the child processes"],
    "assumptions": ["Dequeue/SetPriority are not called after Stop/Break (the model's drain loop deviates there, notes/WQ.md)"],
}
META = {
  "text": "PARTIAL (known finding K5). Props/C19.v (5 theorems, closed): two refutations - concrete label sequences of the model of the code as written that reach `send on closed channel` (Stop with one item executing; an Enqueue racing with Stop) - and the part that holds for ALL continuations: Stop/Break issued when nothing submitted is unfinished never panics whatever happens afterwards, nothing executes again, items enqueued afterwards are stored and returned but never started (C19_partial_idle_stop), the dispatcher exits in six internal steps (C19_partial_dispatcher_exits), and with Break the drain loop skips every waiting item (C19_partial_break_skips). The check runs workloads with Stop/Break injected at every position in child processes: crashes whose panic is send on/close of a closed channel out of doWork|Enqueue|start are the known finding; any other crash, a hang, a work function that runs twice or runs although submitted after Stop, or a disagreement with the model is a violation.",
  "design_ref": "DESIGN.md section 7, C19 (and section 6 K5, Appendix C)",
  "note": "The full property is false of the pinned code (K5: start() closes workerSemaphore/workerCh/errChan/workChan while workers and producers still use them; shutdown has to be re-designed, not patched). Cannot be exhibited by the model: nothing beyond the listed deviations (Dequeue/SetPriority after Stop).",
  "technique": "Coq refutation witnesses + invariant proof for the idle-stop fragment over an interleaving model + child-process differential correspondence (vm_compute) with crash classification",
}
KNOWN = [
 {"property": "C19", "id": "K5", "status": "known",
  "what": "Stop/Break with work in flight: start() closes workerSemaphore/errChan/workChan while workers and producers still send on them (panic: send on closed channel in doWork/Enqueue)",
  "line": "KNOWN-FINDING: property=C19 Stop/Break with work in flight: start() closes workerSemaphore/errChan/workChan while workers and producers still send on them (panic: send on closed channel in doWork/Enqueue)",
  "signature": "^crash:panic: (send on closed channel|close of closed channel):(doWork|Enqueue|start)(,(doWork|Enqueue|start))*$"},
]
