# Extra component X04 (not in properties.jsonl): storage/orderedBTree.go
SPEC = {
    "runners": [{
        "kind": "coqcases", "module": "CorrX04", "harness": "extras", "args": ["-comp", "x04"],
        "corr": "Run/CorrX04.v (sorted-map model vs $VERIF_REPO/storage OrderedBTree)",
        "rule": "each case = one history of operations (Set/Get/Delete/Has/Len/Min/Max/DeleteMin/DeleteMax/Clone and the 8 Ascend*/Descend* variants with scripted callbacks) on two real OrderedBTree values, executed at key types int, string and float64 (which must agree); every return value and every (key, value) sequence seen by a callback is compared in Coq with the model proved to refine the finite-map specification; distinct = by history; non-trivial = histories whose trees are non-empty.",
    }],
    "trusted": ["github.com/google/btree is trusted by contract as an ordered map with range iteration (the model's sorted association list); it is nevertheless exercised by every run (splits, merges, copy-on-write clones)",
                "single-threaded histories only: the wrapper's mutex discipline is outside this component"],
    "assumptions": ["keys of a totally ordered type with reflexive == (no NaN keys)",
                    "callbacks do not modify the tree they iterate over"],
}
META = {
  "text": "Extra component. Coq theorems (Props/X04.v, 8, closed under the global context): for EVERY history of operations on two trees, each step keeps the key-sorted model well formed, answers and changes the receiver exactly as the finite-map specification (stated through get only; canonical) says, leaves the other tree alone (Clone copies); every Ascend*/Descend* variant visits exactly the bound entries in its range (bounds listed per variant, incl. the argument order of DescendRange), in strictly ascending / descending key order, as a prefix that stops at the first callback returning false; range and visited list are uniquely determined. Each run executes exhaustive small-scope and random histories on the real wrapper + google/btree and compares every observation in Coq.",
  "design_ref": "none (extra component; statement in notes/X04.md)",
  "note": "Trusted: Coq kernel + vm_compute; the model; google/btree by contract. Keys are modelled as Z (the order type of any cmp.Ordered instantiation).",
  "technique": "Coq refinement proof (sorted association list vs finite-map specification) + differential correspondence (vm_compute) against the Go code",
}
KNOWN = []
