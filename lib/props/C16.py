import wqrunner
RUNNERS = {"wqcases": wqrunner.run_wqcases}
SPEC = {
    "runners": [{
        "kind": "wqcases", "module": "CorrC16", "harness": "wqscript", "prop": "C16",
        "corr": "Run/CorrC16.v + Run/CorrWQ.v (model of the work queue vs /repo/workqueue, scripted schedules)",
        "rule": "each case = one script (stimuli Enqueue/work completion/Dequeue(any item: executing, handed off, waiting at any heap index, finished, unknown)/SetPriority/adjust-function value change; Dequeue and SetPriority only while the dispatcher goroutine is parked at its select, one at a time, quiescence detected from goroutine stacks) run on the real queue and replayed in Coq on Model/WQ.v with every interleaving of internal steps explored; observed = which work functions start after each stimulus, which Enqueue calls returned, WorkItems(), adjust-function consultations. Generated as: refutation witnesses of Findings/WQ.v first, every word over a small stimulus alphabet (small scope), adaptive random scripts that fill the queue. distinct = by (W, L, stimulus list); half of the random scripts change adjust-function values often (so that they differ from the stored priorities when Dequeue/SetPriority is called), plus corpus scripts for exactly that; besides the model replay a black-box monitor evaluates C16's clauses on the observed history alone (nil Dequeue => target never starts and leaves WorkItems(); error => nothing changes; executing => error; unknown/finished => nil no-op; SetPriority shows p and leaves other priorities alone; every other accepted item has started when the script has run to completion). every fourth random script uses SetPriority arguments / priorities / adjust values at the ends of the int range. non-trivial = the script contains a Dequeue or SetPriority call with a definite result and at least one item had to wait (so the call could hit a waiting or handed-off item).",
    }],
    "trusted": ["channels, select, sync.Map, atomics, context are modelled by contract (one step each)",
                "quiescence detector (all goroutines blocked in two consecutive runtime.Stack snapshots)",
                "container/heap is NOT trusted: Lib/GoHeap.v mirrors it and is verified"],
    "assumptions": ["L >= 1", "adjust functions are total and side-effect free (their values are environment input)",
                    "uuid.New() never collides"],
}
META = {
  "text": "Coq theorems (Props/C16.v, 10, closed under the global context) over Model/WQ.v for every reachable state (all W, L, label sequences): Dequeue of an item waiting in the heap returns nil, removes exactly that item (position = index, proved), keeps the heap order and changes nothing else (C16_dequeue_waiting); a removed item never starts in any continuation (C16_dequeued_never_starts); for an executing, handed-off or not-yet-arrived item Dequeue and SetPriority return an error and leave the state unchanged, unknown ids are no-ops (C16_dequeue_not_waiting, _executing, _unknown, C16_setprio_not_waiting, _unknown); SetPriority of a waiting item yields the same heap items with the target at priority p in heap order (C16_setprio_waiting, C16_setprio_items); after either call the state is a reachable state, so conservation and at-most-once hold for every other item (C16_others_conserved). F6 refuted in Findings/WQ.v. Tied to /repo by scripted schedules that reach every placement of the target.",
  "design_ref": "DESIGN.md section 7, C16 (and 'Work queue model', Appendix C)",
  "note": "Trusted: Coq kernel + vm_compute; hand-written model validated by this run's scripts; Go runtime primitives by contract; quiescence detector. Scope as in the property: calls made while the dispatcher is idle (Findings/WQ.v dequeue_while_dispatcher_waits_crashes shows a Dequeue during the full-queue wait can crash even the fixed code; recorded in notes, outside C16). Liveness of the other items is C04.",
  "technique": "Coq invariant proof over an interleaving model + verified container/heap mirror + scripted differential correspondence (vm_compute) against the Go code",
}
KNOWN = [
 {"property": "C16", "id": "F6", "status": "fixed", "commit": "8bb36a4",
  "what": "position defaulted to 0 and state to IN_QUEUE: Dequeue of a handed-off item returned nil, the item ran anyway and a different waiting item was removed and never ran (index panic on an empty heap); SetPriority did not re-order the heap",
  "line": "fixed: property=C16 8bb36a4 Dequeue of a handed-off item removed a different item; SetPriority did not re-order",
  "signature": "^corpus-F6"},
]
