SPEC = {
    "runners": [
        {"kind": "coqcases", "module": "CorrC11", "harness": "c11", "name": "seq",
         "corr": "Run/CorrC11.v (GStack model/queue spec vs /repo/storage/genericStack.go; Lib/GoHeap vs container/heap)",
         "rule": "case = one operation sequence on a fresh GenericStack (compared output-for-output with the queue specification and the heap model) or one random container/heap run (array compared after every call with the verified mirror); distinct = by sequence; non-trivial = a Pop returned a stored value or a Peek hit (heap runs always count)."},
    ],
    "trusted": ["sync.RWMutex, atomic.Uint64 and sort.SliceStable by contract; uint64 ids do not overflow",
                "critical sections are atomic steps of the concurrent model: justified by the lockset check over the translator-generated skeleton + DRF-SC of the Go memory model"],
    "assumptions": ["pushed values used by the harness are non-zero so that 'zero value' means empty"],
}
META = {
  "text": "Coq theorems (Props/C11.v): for every operation sequence the heap-based model produces exactly the outputs of a FIFO queue specification (ids 1,2,3..; Pop = oldest; Peek exact; Values/Len in id order) — resting on the verified mirror of container/heap (Lib/GoHeapProofs.v, every operation preserves the heap, pop is minimal); for every interleaving of the concurrent model: no panic, ids distinct, every issued (id,value) is in exactly one of pending/popped/stack, and Pop removes the minimum present. Tied to /repo by exhaustive short + random long sequences, an array-for-array differential of Lib/GoHeap against the real container/heap, and a -race stress run with a conservation monitor.",
  "design_ref": "DESIGN.md section 7, C11",
  "note": "Trusted: Coq kernel, model (validated by this run's cases), RWMutex/atomic/sort contracts, atomicity of critical sections (lockset over generated skeleton + DRF-SC), no uint64 overflow.",
  "technique": "Coq refinement proof (heap implementation -> FIFO queue spec) + inductive invariant over all interleavings + differential correspondence and -race stress",
}
KNOWN = [
 {"property": "C11", "id": "F9", "status": "fixed", "commit": "5a1af0f",
  "what": "GenericStack.Pop tested emptiness before taking the lock: two poppers on a one-element stack -> heap.Pop on an empty heap panics (index out of range); unlocked Len() reads in Pop/Values race with Push/Pop",
  "line": "fixed: property=C11 5a1af0f two concurrent Pops on a one-element stack panic (index out of range); unlocked Len() reads race",
  "signature": "^(panic:.*index out of range|race:storage\\.\\(\\*stack\\)\\.Len)"},
]

import os, json, re, glob


def parse_race_reports(text):
    """returns a list of sorted tuples of function names involved in each DATA RACE report"""
    reps = []
    for block in text.split("WARNING: DATA RACE")[1:]:
        block = block.split("==================")[0]
        funcs = re.findall(r"^\s+([\w./*()\[\]·-]+)\(\)\s*$", block, flags=re.M)
        top = []
        # first frame after each 'by goroutine' / 'Previous' header that belongs to the repository
        for sect in re.split(r"\n(?=(?:Read|Write|Previous read|Previous write|Atomic).* by )", block):
            fs = [f for f in re.findall(r"^\s+([\w./*()\[\]·-]+)\(\)\s*$", sect, flags=re.M) if "rbell/toolchest" in f]
            if fs and re.match(r"\s*(Read|Write|Previous|Atomic)", sect.lstrip("\n")):
                top.append(re.sub(r"\[.*?\]", "", fs[0]).split("/")[-1])
        reps.append(tuple(sorted(set(top))) or ("?",))
    return reps


def run_stress(chk, pid, runner, tier, seed, workdir, log, only_key):
    name = runner["harness"]
    exe, hook_mode = chk.go_build(name, log)
    res = {"failures": [], "hook_mode": hook_mode}
    if exe is None:
        res["failures"].append({"kind": "correspondence", "theorem_or_correspondence": runner["corr"],
                                "detail": "stress harness does not build: " + log[-1][2][-1500:],
                                "signature": "harness-build", "found_failing_input": False})
        return res
    out = os.path.join(workdir, name)
    os.makedirs(out, exist_ok=True)
    e = chk.env()
    e["GORACE"] = "halt_on_error=0 log_path=%s" % os.path.join(out, "race")
    import subprocess
    r = chk.run([exe, "-seed", str(seed), "-tier", tier, "-out", out] + runner.get("args", []), cwd=workdir, env=e,
                timeout=runner.get("timeout", 600 if tier == "quick" else 3000))
    rc, err = r.returncode, r.stderr
    log.append(("stress " + name, rc, err[-3000:]))
    races = []
    for f in glob.glob(os.path.join(out, "race.*")):
        races += parse_race_reports(open(f, errors="replace").read())
    rp = os.path.join(out, "result.json")
    if rc not in (0, 66) or not os.path.exists(rp):
        res["failures"].append({"kind": "monitor", "theorem_or_correspondence": runner["corr"],
                                "detail": "stress harness crashed or hung (exit %s): %s" % (rc, err[-2500:]),
                                "signature": "crash:" + (re.findall(r"(?:panic|fatal error): [^\n]*", err) or ["?"])[0],
                                "found_failing_input": True})
        return res
    d = json.load(open(rp))
    nev = d.get("rounds", 0) + d.get("one_element_races", 0) + d.get("extra_evaluations", 0)
    res.update({"evaluations": nev, "distinct_nontrivial": nev,
                "rule": runner.get("rule", "") + " Scope this run: " + d.get("scope", ""),
                "samples": d.get("samples", [])[:3], "histogram": dict(d.get("failure_kinds", {}), race_reports=len(races)),
                "extra": {name + "_counts": {k: v for k, v in d.items() if isinstance(v, (int, float))}}})
    seen = set()
    for fl in (d.get("failures") or []):
        kind = fl.split(":")[0]
        sig = "%s:%s" % (kind, re.sub(r"\d+", "N", fl)[:160])
        if sig in seen:
            continue
        seen.add(sig)
        res["failures"].append({"kind": "monitor", "theorem_or_correspondence": runner["corr"], "detail": fl,
                                "signature": sig, "found_failing_input": True, "stress_seed": seed})
    for fs in sorted(set(races)):
        sig = "race:" + "|".join(fs)
        res["failures"].append({"kind": "monitor", "theorem_or_correspondence": runner["corr"] + " (data race reported by the Go race detector)",
                                "detail": "DATA RACE between " + " and ".join(fs), "signature": sig,
                                "found_failing_input": True, "stress_seed": seed})
    return res


RUNNERS = {"stress": run_stress}
HARNESS_BUILD_FLAGS = {"c11conc": ["-race"]}
SPEC["runners"].append(
    {"kind": "stress", "harness": "c11conc", "name": "conc",
     "corr": "free-running -race stress of GenericStack (conservation, id, Peek monitors; panic capture)",
     "rule": "each evaluation = one free-running concurrent round on the real GenericStack under the race detector, checked by the Go-side monitor of Props/C11.v's conservation statement (pushed = popped + remaining as multisets, ids distinct and within 1..N, Peek exact, no panic, no race report); rounds differ by seed-derived goroutine counts and sizes, all count as non-trivial."})
