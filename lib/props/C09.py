import wqrunner
RUNNERS = {"wqcases": wqrunner.run_wqcases, "wqstress": wqrunner.run_wqstress}
HARNESS_BUILD_FLAGS = {"wqstress": ["-race"]}
SPEC = {
    "runners": [{
        "kind": "wqcases", "module": "CorrC09", "harness": "wqscript", "prop": "C09",
        "corr": "Run/CorrC09.v + Run/CorrWQ.v (model of the work queue vs /repo/workqueue, scripted schedules)",
        "rule": 'scripted: each case = one script (bursts of Enqueue that fill the queue and block producers, completions with nil AND with error results (a third of the random scripts without any error subscriber, a third with subscribers that receive, a third without errors; corpus scripts: failing items followed by ordinary ones on one worker, all items failing with a blocked producer), ResizeQueueLength; one stimulus at a time, quiescence from goroutine stacks) run on the real queue and replayed in Coq on Model/WQ.v with all internal interleavings; observed = started work functions, returned Enqueue calls; plus a black-box monitor on the log: running <= W always and running = min(unfinished, W) at every quiescent point (a failing item counts as finished: exact as long as not both an error and a subscriber have occurred). The queue is built from an OPTION LIST whose effective W and L are computed in Coq (Model/WQ.v effective: defaults NumCPU / 2*NumCPU, last option of each kind wins): 14 configuration scripts (WithWorkers/WithQueueLength in both orders, one option alone with the other at its default, repeated options, ResizeQueueLength right after construction) each fill the queue with gated work until two producers block, complete three items and drain; every exhaustive/random script picks one of the two option orders; Enqueue options (WithName/WithPriority/WithAdjustPriority) come in every order, priority 1 sometimes only by default. Black-box bounds on the log while nothing has completed: returned Enqueue calls <= L+2W+1, and >= W+L+1 while a call is blocked. Generated as corpus, every word over {enqueue, enqueue, finish oldest, finish newest} up to a length bound, adaptive random bursts with W in 1..4. distinct = by (W, L, stimuli); non-trivial = a producer was blocked or an item had to wait.',
    }, {
        "kind": "wqstress", "name": "stress", "prop": "C09",
        "rule": 'free-running: each case = one queue under real scheduling (-race) with an atomic current/max counter inside the work functions, every n-th item failing (n random, 0 = none) with 0-2 receiving error subscribers: max concurrency <= W, nothing lost, no Enqueue hangs; non-trivial = more items than W+L+1.',
    }],
    "trusted": ["channels, select, sync.Map, atomics, context are modelled by contract (one step each)",
                "quiescence detector (all goroutines blocked in two consecutive runtime.Stack snapshots)",
                "Go race detector and scheduler for the free-running part (testing, not proof)"],
    "assumptions": ['W >= 1, L >= 1 (L = 0 makes the dispatcher pop an empty heap: outside the property)', 'no Stop/Break in the history (C19)'],
}
META = {
  "text": 'Coq theorems (Props/C09.v, 7, closed under the global context; two are labelled _partial) over Model/WQ.v for ALL W, L, label sequences: |running| <= W and the worker-goroutine identity (C09_workers); at an internally-quiescent state of a running queue, if anything waits no worker is idle (C09_work_conserving), so min(k, W) items execute (C09_min_k_W); while nothing completes at most L+2W+1 Enqueue calls return and a producer is found blocked only after W+L+1 returned (C09_backpressure_upper/_lower); resume: explicit schedules for the queue-full state - a completion yields a token and an idle worker, a token lets the dispatcher hand out an item and receive the next blocked producer (C09_resume_partial: the blocked-in-send phases and the every-fair-schedule step are argued from C04_terminates + quiescent-state lemmas, not proved); ResizeQueueLength only stores the length and the push/full decision reads the length in force at that moment (C09_resize_partial: the numeric bounds are proved for a constant length only).',
  "design_ref": "DESIGN.md section 7, C09 (and 'Work queue model', Appendix C)",
  "note": "Trusted: Coq kernel + vm_compute; hand-written model validated by this run's scripts; Go runtime primitives by contract. Partial: C09_resume and C09_resize as described in the text.",
  "technique": "Coq invariant proof over an interleaving model (conservation, token invariants I1/I2, termination measure, stuck-freedom) + scripted differential correspondence (vm_compute) + free-running -race stress with Go-side monitors",
}
KNOWN = []
