# Extra component X03 (not in properties.jsonl): storage/tree.go
SPEC = {
    "runners": [{
        "kind": "coqcases", "module": "CorrX03", "harness": "extras", "args": ["-comp", "x03"],
        "corr": "Run/CorrX03.v (rose-tree model vs $VERIF_REPO/storage Tree / AddAncestryChain / Walk)",
        "rule": "each case = one history of AddAncestryChain calls on a new storage.Tree (default node factory) with the error flag of every call and the complete Walk report ((value, level) in callback order) before the first and after every call, executed at element types int, string and float64 (which must agree) and compared in Coq with the model; equal Walk reports mean equal trees (X03_walk_determines_tree); distinct = by history; non-trivial = at least one non-empty chain accepted.",
    }],
    "trusted": ["node pointers are modelled as paths; the default simpleNode factory only (the node interface is unexported, so no other factory can be supplied from outside the package)"],
    "assumptions": ["element == is reflexive (no NaN-bearing elements)", "single-threaded use (Tree has no locking)"],
}
META = {
  "text": "Extra component. Coq theorems (Props/X03.v, 12, closed under the global context) for ALL rose trees and ALL chains: AddAncestryChain fails exactly when the tree is non-empty and the chain is empty or does not start with the root value; after success the value paths are exactly the old ones plus the non-empty prefixes of the chain; equal-valued siblings are neither created nor removed (trees built by the API have none); the root never changes; re-adding is the identity; the same for every history; Walk reports every node exactly once in pre-order with its depth (positions: complete, duplicate-free, lexicographically sorted), nothing on an empty tree, and its report determines the tree. Each run executes all small histories and random ones on the real code, observing Walk after every call, and compares in Coq.",
  "design_ref": "none (extra component; statement in notes/X03.md)",
  "note": "Trusted: Coq kernel + vm_compute; the model (pointers as paths).",
  "technique": "Coq proofs by structural induction over an executable rose-tree model + differential correspondence (vm_compute) against the Go code",
}
KNOWN = [
 {"property": "X03", "id": "X03-F1", "status": "fixed", "commit": "83efdf5",
  "what": "Tree.Walk on an empty tree (new tree, or only empty chains added) panicked with a nil pointer dereference instead of visiting nothing",
  "line": "fixed: property=X03 83efdf5 Walk on an empty tree panicked (nil interface method call) instead of visiting nothing",
  "signature": "^(empty-history|corpus|exhaustive|random):1$"},
]
