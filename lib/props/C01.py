import re as _re
def _sig(c, v):
    prog = c["desc"].get("program", "")
    feats = [n for n, pat in (("resize", r"\br\d"), ("delete", r"\bd\d"), ("clear", r"\bx\b")) if _re.search(pat, prog)]
    return "%s:%s" % ({1: "monitor", 2: "mismatch"}.get(v, v), "+".join(feats) or "plain")

def _runner(prop):
    return {"kind": "coqcases", "module": "CorrCache", "shards": 8, "harness": "cache", "args": ["-prop", prop],
            "corr": "Run/CorrCache.v (Model/Cache.v vs /repo/storage/fifoMapCache.go; monitor of %s)" % prop,
            "sigfn": _sig,
            "rule": "case = one history on a fresh FifoMapCache with sweeps held by the verif hook (Sweep happens exactly where the history says); every output and periodic observation blocks (Get/Contains for the whole key universe, Keys, Values, Len, Capacity) are compared with the model and checked by the property's black-box monitor; distinct = by (option, capacity, program); non-trivial = an eviction happened, or a Resize, or an update plus a delete of a present key."}

SPEC = {
    "runners": [_runner("C01")],
    "trusted": ["GenericStack as the FIFO queue of Props/C11.v; SafeMap as a plain map (C07); float64 partition arithmetic modelled on nat (validated by the C02 rounding sweep)",
                "verif hook storage/export_verif.go (holds sweepingMux; layout snapshot for Resize replay order)"],
    "assumptions": ["keys have a reflexive ==; values used by the harness are unique and non-zero",
                    "configured calculator yields P >= 1, C >= 1 (minimumPartitions <= capacity)"],
}
META = {
  "text": "Coq theorems (Props/C01.v) over ALL histories of the sequential cache model from any P,C>=1: every Get is the latest Set value or absent (refinement to an ideal map that executes Set/Delete/Clear only), Get right after Set returns it (also across the sweep at quiescent points), Keys/Contains/Values/Len describe one duplicate-free set, absent keys stay absent. An inductive invariant (Proofs/CacheInv.v) carries them; Sweep labels may stand anywhere. Tied to /repo by executing generated histories on the real cache with sweeps held (un-swept states reached deterministically) and comparing every output in Coq.",
  "design_ref": "DESIGN.md section 7, C01",
  "note": "Trusted: Coq kernel/vm_compute; model validated by this run's histories; GenericStack/SafeMap by their own properties (C11, C07); hook file; sequential use only (C08 covers concurrency).",
  "technique": "Coq inductive invariant + refinement to an ideal map over all label sequences; differential correspondence with held sweeps",
}
KNOWN = [
 {"property": "C01", "id": "F1/F2", "status": "fixed", "commit": "da62576 56b7f21",
  "what": "on the pinned tree the implementation left the model after Delete+re-Set (F1) and on Resize (F2); the C01 monitor itself was not violated (reported as no-failing-input-found); see C02/C03/C13",
  "line": "fixed: property=C01 da62576,56b7f21 implementation diverged from the proved model after Delete+re-Set and on Resize (concrete violations are those of C02/C03/C13)",
  "signature": "^mismatch:"},
]
