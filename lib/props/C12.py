SPEC = {
    "runners": [{
        "kind": "coqcases", "module": "CorrC12", "harness": "c12", "corr": "Run/CorrC12.v (model of sliceOps vs /repo/sliceOps)",
        "rule": "each case = one call of a sliceOps function on generated input, run on the real code at element types int, string and *T (which must agree) and compared in Coq with the model proved equal to the specification; distinct = by (function, arguments); non-trivial = list ops that actually move elements (i<j, non-empty v, something filtered, non-empty pop) and set ops with a duplicate inside an argument or >= 2 arguments.",
    }],
    "trusted": ["builtin copy/append/make and map-as-set are modelled by contract (go_copy, mem)",
                "aliasing of results with inputs is observed by the harness only (value-semantics model)"],
    "assumptions": ["element == is reflexive (no NaN-bearing elements)",
                    "valid index ranges only (i <= j <= len): outside them Go panics or over-extends, excluded by the property"],
}
META = {
  "text": "Coq theorems (Props/C12.v, 14, closed under the global context) state for ALL slices, index ranges, predicates and argument lists that the model of each sliceOps function equals its list/set specification (whole backing array for Remove/Cut/FilterInPlace/Pop; NoDup + exact membership for the set functions, Disjoin = 'exactly one argument contains x'); C12_filter_stateful covers predicates that are closures with state: one ordered pass, each element offered exactly once). The model is tied to /repo on every run by executing the real functions (int, string and pointer element types) on every equality pattern up to a length bound plus random inputs (FilterInPlace also with five stateful predicates, the elements offered to the predicate recorded) and comparing in Coq.",
  "design_ref": "DESIGN.md section 7, C12",
  "note": "Trusted: Coq kernel + vm_compute; the hand-written model (validated by this run's cases only); builtin copy/append/map semantics modelled by contract; result/input aliasing is outside the value-semantics model (inputs are snapshotted by the harness).",
  "technique": "Coq proof of list/set specifications over an executable model + differential correspondence (vm_compute) against the Go code",
}
KNOWN = [
 {"property": "C12", "id": "F10", "status": "fixed", "commit": "7b19ca2",
  "what": "Intersection([1,1],[2,3])=[1], Intersection([1,1,1],[1])=[], Difference([1,1],[])=[1,1], Disjoin([1,1])=[1,1]: duplicates inside an argument were counted/kept",
  "line": "fixed: property=C12 7b19ca2 Intersection/Difference/Disjoin mishandled duplicate elements inside an argument",
  "signature": "^(inter|diff|disjoin):1$"},
]
