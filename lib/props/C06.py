import os, sys
sys.path.insert(0, os.path.dirname(os.path.dirname(os.path.abspath(__file__))))
import pubrunner

RUNNERS = pubrunner.RUNNERS
HARNESS_BUILD_FLAGS = pubrunner.HARNESS_BUILD_FLAGS

SPEC = {
    "runners": [
        {"kind": "pubscript", "name": "scripted", "module": "CorrC06", "corr": "Run/CorrPub.v (Model/Pub.v vs /repo/publisher, scripted schedules, monitor mon06)",
         "rule": "scripted: each case = one script (Subscribe / Publish / non-blocking receive stimuli, then a drain) applied to the real publisher package one stimulus at a time with a wait for quiescence after each; the observed trace (receive outcomes, channel lengths, live delivery goroutines, filter invocations) is replayed through the model by Coq, which also evaluates the C06 monitor (every received value was published, visited this subscriber, is accepted by its filter and is new; after the drain every accepted pair has been received). distinct = by (family, stimuli); non-trivial = something was received and either a delivery had to wait for buffer room / a receiver, or there are >= 2 subscribers. Generation: exhaustive stimulus sequences for one and two subscribers (the filtered ones also carry OnFiltered / OnTimeout), a 12-subscriber matrix filter x OnFiltered x OnTimeout, churn (every sequence over {Subscribe a new one, close the oldest open subscriber, close the newest, Publish} after two subscribers: whoever is subscribed and not closed at a Publish must be visited and receive the message exactly once), + seeded random scripts with random callbacks. The monitor also requires every Publish to visit every existing, not yet closed subscriber, no closed one, none twice."},
        {"kind": "pubstress", "name": "stress", "mode": "c06", "corr": "Go-side monitor (harness/cmd/pubstress -mode c06, -race)",
         "rule": "free-running (-race): each round = P concurrent publishers x N tagged messages, S subscribers (buffers 0-4, filters by tag, OnFiltered / OnTimeout present or nil at random, some subscribing while publishing is under way, some of the initial ones closed while publishing is under way and before the late ones join), receivers drain; OnFiltered count = rejected messages, OnTimeout never; per subscriber the received multiset must equal {published and accepted} exactly (subset + no duplicates for late subscribers); evaluations = (message, subscriber) pairs checked. Then a size sweep of the same round with fixed dimensions: quick 3 (64 subscribers; buffer 2048 with 4500 messages; unbuffered with 5000 messages), thorough every combination of subscribers {1,4,16,64,256} x buffer {0,1,8,64,512,4096} x messages {1,16,256,2048,16384} (up to 300000 pairs each)."},
    ],
    "trusted": ["sync.Map (Range/Store/LoadAndDelete), channels/select, time.After, sync.RWMutex are modelled by contract (atomic steps of Model/Pub.v; Range contract = guards of Visit/PubEnd)",
                "the harness's placement of internal steps (Enter/Deliver/Timeout/Drop) in observed traces; Coq checks that the placed trace is a behaviour of the model and that nothing required is missing at quiescence",
                "quiescence detection by parsing runtime.Stack output (goroutine states)"],
    "assumptions": ["messages used by the harness are distinct per script (so a duplicate delivery is visible)",
                    "logical time of the model is floor(real time / 20 ms); subscriber timeouts in C06 scripts are 60 s and never fire"],
}
META = {
  "text": "Coq theorems (Props/C06.v, 7, closed under the global context) about a labelled transition system of publication.go in which every atomic action of Publish (per-subscriber visits), of each delivery goroutine (lock, send / rendezvous / timeout / done), of receivers, of time and of Close is a label: for EVERY reachable state (= every schedule, every number of publishers/subscribers, every buffer size, filter, timeout) each (publish call, subscriber) pair has exactly one fate, which is final; everything a subscriber has received was published, visited it, passes its own filter and occurs once; in any state where the subscriber can make no further progress every accepted pair that did not time out / was not closed has been received exactly once; every internal step decreases a measure and time eventually enables the timeout of a pending delivery. The model is tied to the code on every run by scripted schedules replayed in Coq and by -race stress with exact multiset monitors.",
  "design_ref": "DESIGN.md section 7, 'Publication model shared by C06, C10, C15' and 'C06'",
  "note": "Trusted: Coq kernel + vm_compute; the hand-written LTS (atomicity of sync.Map, channel, RWMutex and timer operations by contract; Range contract as guards); the harness's trace annotation; liveness is stated as termination + stuck-freedom, fairness of the Go scheduler is assumed.",
  "technique": "Coq invariant proof over an interleaving model (LTS) + scripted-schedule correspondence replayed by vm_compute + free-running -race stress with Go-side monitors",
}
KNOWN = []
