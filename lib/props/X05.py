# Extra component X05 (not in properties.jsonl): rankCalculation/
import os, json, re

HARNESS_BUILD_FLAGS = {"x05race": ["-race"]}


def _race_reports(stderr):
    reps = []
    for blk in stderr.split("WARNING: DATA RACE")[1:]:
        blk = blk.split("==================")[0]
        funcs = []
        for part in re.split(r"\n(?=(?:Previous )?(?:[Rr]ead|[Ww]rite) at |Goroutine )", blk):
            if not re.match(r"\s*(?:Previous )?(?:[Rr]ead|[Ww]rite) at ", part):
                continue
            ms = re.findall(r"github\.com/rbell/toolchest/rankCalculation\.\(\*?(\w+)(?:\[[^\]]*\])?\)\.(\w+)", part)
            funcs.append("%s.%s" % ms[0] if ms else "?")
        reps.append({"signature": "race:" + "|".join(sorted(funcs)), "report": blk.strip()[:2500]})
    return reps


def run_x05race(chk, pid, runner, tier, seed, workdir, log, only_key):
    """Free-running -race stress of RankCalculator (no unique model prediction): the Go race detector and one
    Go-side lost-update check decide; python only collects."""
    corr = runner["corr"]
    res = {"failures": [], "hook_mode": None}
    exe, hook_mode = chk.go_build("x05race", log)
    res["hook_mode"] = hook_mode
    if exe is None:
        res["failures"].append({"kind": "correspondence", "theorem_or_correspondence": corr,
                                "detail": "race harness does not build: " + log[-1][2][-1500:],
                                "signature": "harness-build", "found_failing_input": False})
        return res
    old = os.environ.get("GORACE")
    os.environ["GORACE"] = "halt_on_error=0"
    try:
        r = chk.run([exe, "-seed", str(seed), "-tier", tier], cwd=workdir, timeout=900)
    finally:
        if old is None:
            os.environ.pop("GORACE", None)
        else:
            os.environ["GORACE"] = old
    log.append(("harness x05race", r.returncode, (r.stdout[-600:] + r.stderr[-2500:])))
    try:
        jr = json.loads(r.stdout.strip().splitlines()[-1])
    except Exception:
        res["failures"].append({"kind": "correspondence", "theorem_or_correspondence": corr,
                                "detail": "race harness crashed: " + r.stderr[-3000:],
                                "signature": "harness-crash:" + r.stderr[-200:], "found_failing_input": True})
        return res
    seen = set()
    for f in jr["failures"]:
        if f["signature"] not in seen:
            seen.add(f["signature"])
            res["failures"].append({"kind": "monitor", "theorem_or_correspondence": corr + " / Go-side monitor",
                                    "case": f, "key": None, "signature": f["signature"], "found_failing_input": True})
    races = _race_reports(r.stderr)
    for rr in races:
        if rr["signature"] not in seen:
            seen.add(rr["signature"])
            res["failures"].append({"kind": "monitor", "theorem_or_correspondence": corr + " / go race detector",
                                    "case": {"race_report": rr["report"]}, "key": None, "signature": rr["signature"],
                                    "found_failing_input": True})
    n = sum(jr["stats"].values())
    res.update({"evaluations": n, "distinct_nontrivial": len(jr["stats"]),
                "histogram": jr["stats"],
                "rule": runner.get("rule", "") + " This run: %d rounds, %d concurrent pairings, %d race reports." % (jr["rounds"], n, len(races)),
                "samples": [], "extra": {"x05_race_reports": len(races)}})
    return res


RUNNERS = {"x05race": run_x05race}

SPEC = {
    "coq_targets": ["Props/X05Lock.vo"],
    "runners": [{
        "kind": "coqcases", "module": "CorrX05", "harness": "x05",
        "corr": "Run/CorrX05.v (exact-rational model + monitor vs $VERIF_REPO/rankCalculation)",
        "rule": "each case = either one generated count map and the result maps of PercentileRanker.Rank for it (value-based or positional; repeated calls, int and string keys), or one history of NewRankCalculator(options...) / Accumulate / Reset / Calculate with the result map of every Calculate; every float64 is handed to Coq exactly (mantissa * 2^exponent) and compared on integers with the model's exact rational: equal at 0 and 100, relative error <= 2^-50 otherwise, NaN / -Inf matched as such; positional results are checked by the monitor (keys ordered by observed percentile must form an admissible ascending order, i-th percentile = position i), never against the model's own tie order; distinct = by (function, input); non-trivial = maps with >= 2 entries / histories with >= 1 Accumulate.",
    }, {
        "kind": "x05race", "name": "race",
        "corr": "RankCalculator is thread-safe: -race stress of Accumulate / Reset / Calculate pairs (harness/cmd/x05race)",
        "rule": "free-running stress under the Go race detector: each round runs the pairings Accumulate||Reset, Accumulate||Calculate, Calculate||Reset, Accumulate||Accumulate on one calculator (thousands of calls each, sizes from the seed); a failure is a race report naming rankCalculation code, or a lost update in the pairing without Reset; distinct = pairing kind.",
    }],
    "trusted": ["float64 arithmetic is modelled by exact rationals, not verified: the comparison allows a relative error of 2^-50 (>= 4 roundings of 2^-53 each); IEEE rounding itself is trusted",
                "sort.Sort by contract (X02); SafeMap / atomic.Int64 as a sequential map of counters (their concurrent behaviour is C07's subject)"],
    "assumptions": ["single-threaded histories (finding X05-F3 concerns the unsynchronised read of r.entries)",
                    "counts fit int64 and |count| conversions to float64 round to nearest"],
}
META = {
  "text": "Extra component. Coq theorems (Props/X05.v, 13, closed under the global context) about an exact-rational model of rankCalculation: for ALL count maps, iteration orders and sorters keeping sort.Sort's contract the value-based result is exactly k -> count/max*100 (in [0,100], maximum = 100, strictly monotone, ties equal; NaN / -Inf exactly when no count is positive); for EVERY admissible ascending order the positional result gives the i-th key pct_pos n i (0 first, 100 last, (i+1)/(n+1)*100 between, a single entry 0; strictly increasing; keys with strictly smaller count get strictly smaller percentile; the sequence of percentiles is determined, the assignment among equal counts is not); options applied in order; after ANY Accumulate/Reset history the counts are the occurrence numbers since the last Reset; the monitors used by the correspondence are sound and the model passes them. Each run executes the real code and compares every float64 (given exactly as mantissa*2^e) with the model on integers in Coq (relative 2^-50, exact at 0 and 100), plus a -race stress of the calculator.",
  "design_ref": "none (extra component; statement in notes/X05.md)",
  "note": "Trusted: Coq kernel + vm_compute; the model; float64 rounding (tolerance comparison); sort.Sort by contract.",
  "technique": "Coq proofs over an executable exact-rational model + monitor-based correspondence (vm_compute) against the Go code",
}
KNOWN = [
 {"property": "X05", "id": "X05-F1", "status": "fixed", "commit": "cfaf3cb",
  "what": "NewRankCalculator ignored its options: WithRanker / WithRankPositionally were never applied (NewRankCalculator(WithRankPositionally()); Accumulate(1); Calculate() = {1:100} instead of {1:0})",
  "line": "fixed: property=X05 cfaf3cb NewRankCalculator ignored its options (WithRanker / WithRankPositionally never applied)",
  "signature": "^calc:1$"},
 {"property": "X05", "id": "X05-F3", "status": "fixed", "commit": "272bc04",
  "what": "RankCalculator.Accumulate read the field r.entries without r.mux while Reset replaces it under the write lock: data race (Go race detector)",
  "line": "fixed: property=X05 272bc04 data race between Accumulate (unlocked read of r.entries) and Reset",
  "signature": "^race:RankCalculator\\.Accumulate\\|RankCalculator\\.Reset$"},
]
