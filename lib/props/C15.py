import os, sys
sys.path.insert(0, os.path.dirname(os.path.dirname(os.path.abspath(__file__))))
import pubrunner

RUNNERS = pubrunner.RUNNERS
HARNESS_BUILD_FLAGS = pubrunner.HARNESS_BUILD_FLAGS

SPEC = {
    "runners": [
        {"kind": "pubscript", "name": "scripted", "module": "CorrC15", "corr": "Run/CorrPub.v (Model/Pub.v vs /repo/publisher, scripted schedules, monitor mon15)",
         "rule": "scripted: each case = one script (Subscribe with buffer/filter/timeout 60ms|160ms|60s|0|-1s/callbacks or nil, Publish, non-blocking receive, Advance = sleep past the short timeouts; OnTimeout / OnFiltered callbacks that call Subscriber.Close or Publication.Close from inside the callback (must return within 3s; a run where such a Close overlaps another Publish in real time is retried and otherwise discarded); then Advance + drain + settle) applied to the real package one stimulus at a time with a wait for quiescence; logical time = floor(real time / 20ms), a Publish stamped before the call and every callback when it runs, so that Coq's replay checks 'not before its own timeout' exactly and without wall-clock upper bounds; XEnter is placed when the subscriber's filter returned (a delivery cannot start earlier), so time spent on other subscribers does not count towards a subscriber's timeout; the options of every Subscribe are passed in a seeded random order, plus 25 fixed orders of {WithFilter, WithTimeout, OnFiltered, OnTimeout}; the C15 monitor checks OnFiltered exactly once per rejected pair (and never otherwise), OnTimeout at most once, only for accepted undelivered pairs and not before the pair's own deadline, every accepted pair accounted for at the end (received, or OnTimeout, or no callback set), no delivery goroutine left, no Publish call exceeding a 3s watchdog; the model replay checks buffers absorb exactly cap messages (channel lengths at every quiescence) and stay readable in order. distinct = by (family, stimuli); non-trivial = a timeout or an OnFiltered occurred, or a delivery had to wait."},
        {"kind": "pubstress", "name": "stress", "mode": "c15", "corr": "Go-side monitor (harness/cmd/pubstress -mode c15, -race)",
         "rule": "free-running (-race): first the subscribe-while-publishing trials and the slow-filter round described under C06 (every message published after Subscribe returned must be accounted for; no timeout before the own timeout counted from the start of the subscriber's own delivery), then 150 bursts of 8-16 Publish calls released at the same instant onto a never-read buffer of 1-3 plus an unbuffered subscriber (timeouts 60s): every call must return within 2s and the buffer must hold exactly its capacity; then one big burst (quick 3000-5000 messages, thorough 1000..32000) outstanding on three subscribers with 60s timeouts that only start receiving afterwards: OnTimeout must not run at all, every message must arrive, Publish stays under 2s; then each round = 1-6 subscribers (never / slow / prompt receivers, buffers 0-3, timeouts 30ms..60s and 0 and -1s, both callbacks counting per message) and 1-4 concurrent publishers; every Publish call is timed (slowest must be < 2s while buffers are full and nobody receives); afterwards each (message, subscriber) pair must be exactly one of delivered / OnTimeout once / OnFiltered once, no OnTimeout earlier than the subscriber's own timeout after the Publish began, none at all for 60s subscribers, a never-receiver's buffer holds min(cap, accepted) messages (positive timeouts only: with a timeout <= 0 the select may take the already expired timer although there is room), and no goroutine of the package is left; evaluations = pairs checked."},
    ],
    "trusted": ["sync.Map (Range/Store/LoadAndDelete), channels/select, time.After, sync.RWMutex are modelled by contract (atomic steps of Model/Pub.v)",
                "time.After(d) fires no earlier than d after the select was entered; real timer latency is not modelled (only 'not before' and 'eventually, within a generous bound' are claimed)",
                "the harness's placement of internal steps in observed traces (Coq validates the placed trace)",
                "quiescence detection and the goroutine-leak count by parsing runtime.Stack output"],
    "assumptions": ["filters and callbacks are harness-owned, return promptly and do not call back into the publication",
                    "messages used by the harness are distinct per script"],
}
META = {
  "text": "Coq theorems (Props/C15.v, 6, closed under the global context) over the publication LTS (Model/Pub.v, shared with C06/C10), for EVERY reachable state: an open Publish call can always run to its return by its own steps only (at most one visit per subscriber), whatever buffers/receivers/pending deliveries look like; a delivery in its select with room in the buffer is enabled without any receiver and when no delivery goroutine can move the buffer holds exactly cap messages or nothing is pending; 'received ++ buffered' only ever grows at its end; OnFiltered/OnTimeout have been invoked exactly for the filtered/timed-out pairs of subscribers that set them, once per pair; a pair times out only once its own subscriber's timeout has elapsed since the call began; once time has passed every deadline (after finitely many ticks) and no goroutine can move, no delivery is pending. Tied to the code by scripted schedules with real short timers replayed in Coq and by -race stress with exact accounting monitors.",
  "design_ref": "DESIGN.md section 7, 'Publication model shared by C06, C10, C15' and 'C15'",
  "note": "Trusted: Coq kernel + vm_compute; the hand-written LTS (atomicity and timer contract); the harness's trace annotation; real timer latency and scheduler fairness are outside the model.",
  "technique": "Coq invariant proof over an interleaving model (LTS) + scripted-schedule correspondence with logical time replayed by vm_compute + free-running -race stress with Go-side monitors",
}
KNOWN = [
 {"property": "C15", "id": "F11", "status": "fixed", "commit": "275ca02",
  "what": "OnFiltered / OnTimeout callbacks were stored by Subscribe and never invoked by Publish: Subscribe(0, WithFilter(even), OnFiltered(cb)); Publish(1) => cb never runs; Subscribe(0, WithTimeout(60ms), OnTimeout(cb)); Publish(1); nobody receives => cb never runs",
  "line": "fixed: property=C15 275ca02 OnFiltered/OnTimeout callbacks were never invoked (rejected and timed-out pairs not accounted for)",
  "signature": "^script:corpus-f11-(onfiltered|ontimeout)::1$|^c15-stress:callback-missing$"},
]
