SPEC = {
    "coq_targets": ["Findings/CacheConc.vo"],
    "runners": [
        {"kind": "c08stress", "harness": "c08conc", "name": "famS", "family": "S",
         "corr": "scripted sequential-then-concurrent cases on the real FifoMapCache (-race), family S: geometry-preserving Resizes / Clear, then Sets of new keys, Sweep, Get, a concurrent phase: must be clean",
         "rule": "each evaluation = one deterministic script on a fresh real FifoMapCache under the race detector: sequential Sets, then Resize to the same capacity again / to another capacity with the same geometry (10->11, 17->18, 26->27->26, 37->38->37->38 under the default calculator) / a geometry change and back / Clear / nothing, then on the same goroutine Set of a new key, Sweep, Get, then 2-4 writers on distinct new keys + a sweeper + a reader released together, join, Sweep, the views, the same Resize again, Set, Sweep, cancel. Monitors: every call returns (stall watchdog: a call outstanding for >= 20s and >= 300 watchdog samples, re-confirmed after 3s, is reported as deadlock with the script, the calls that never returned and all goroutine stacks), no panic, no race report (nothing runs concurrently with Resize/Clear and no key has two writers, so K1/K3 do not apply), single-writer keys hold the last value or are absent, with geometry-preserving Resizes every key within Capacity() is present, no duplicate, ticker gone after cancel. Distinct by (shape, sizes); all count as non-trivial (each has a concurrent phase)."},
        {"kind": "c08stress", "harness": "c08conc", "name": "famA", "family": "A",
         "corr": "free-running -race stress of FifoMapCache, family A (no Clear/Resize, one writer per key): must be clean",
         "rule": "each evaluation = one free-running round on a fresh real FifoMapCache under the race detector (GOMAXPROCS 16): writers on disjoint keys released by a start barrier, readers (Get/Contains/Keys/Values/Len/Capacity), explicit sweepers, the cache's own ticker at 50-1000us; checked by the Go-side monitors of Props/C08.v: no panic/hang/race report, every value read was Set for that key, distinct keys within Capacity() all present with the last value, single-writer keys hold the last value or are absent, no duplicate in Keys(), quiescent views agree, ticker goroutine gone after cancel. Rounds differ by seed-derived shape (distinct by round seed); non-trivial = two writers were demonstrably active at the same time (overlapping monotonic-clock intervals)."},
        {"kind": "c08stress", "harness": "c08conc", "name": "famB", "family": "B",
         "corr": "free-running -race stress of FifoMapCache, family B (same-key writers, concurrent Clear/Resize): K1/K3 expected and classified, anything else is a violation",
         "rule": "as family A plus hot keys written by several goroutines (B-samekey), concurrent Clear/Resize (B-clear) or both (B-all). A race report is K1 only if one of its two access stacks runs inside FifoMapCache.Clear or FifoMapCache.Resize (one of these two methods anywhere on the access stack, e.g. through a helper; function names, never line numbers); a duplicate key is K3 only if the recorded history has two Sets (or a Set and a Delete) of that key by different goroutines with overlapping intervals (or, with Clear/Resize around, a Set of the key overlapping a Clear/Resize call = consequence of K1); every other failure is reported."},
    ],
    "trusted": ["sync.Mutex/RWMutex, context cancellation, time.Ticker and the goroutine scheduler by contract",
                "GenericStack and SafeMap methods are single atomic steps of the cache model (their own locking is C11's / C07's subject; F9 fixed)",
                "sequentially consistent interleaving semantics: justified for schedules without Clear/Resize by the lockset theorem of Props/C08.v + DRF-SC of the Go memory model; NOT justified with Clear/Resize (known finding K1)",
                "uint64 partition ids do not overflow",
                "the translator translator/lockskel (field mode: go/ast walk producing coq/Gen/CacheSkeleton_gen.v on every run) is trusted to report every lock operation and every access to the cache's fields; it fails closed (Unknown) on constructs it does not recognise. On top of it: C08_partial_race_free_core_generated, C08_known_races_are_clear_resize_only (K1 derived from the source), C08_footprints_match_source (the hand-written footprints agree with the source)"],
    "assumptions": ["keys have a reflexive == (no NaN-bearing keys)",
                    "values used by the harness are non-zero and unique per Set, so 'zero value' means absent",
                    "C08 is claimed PARTIALLY: the full statement is refuted by K1 (race with Clear/Resize) and K3 (duplicate key after two concurrent Sets of the same new key); see Props/C08.v C08_full_statement"],
}
META = {
  "text": "PARTIAL. Coq theorems (Props/C08.v) over an interleaving model of FifoMapCache decomposed into the code's atomic sections, for EVERY schedule: no panic; every (k,v) in any partition was the argument of a Set k v (so every Get result was set for that key or is zero); after cancel the ticker goroutine can only exit (after at most one more sweep); after fix F15, Sets of pairwise distinct keys within P*C never cause an eviction and all keys are present at the end; lockset race freedom for schedules without Clear/Resize (over the hand-written footprints, which are proved to agree with the lock skeleton REGENERATED from storage/fifoMapCache.go on every run, and directly over that skeleton: C08_partial_race_free_core_generated; K1 is derived from the source: every offending pair has Clear/Resize as the unprotected writer and an unlocked reader on the other side); and running calls one at a time is exactly the sequential model Model/Cache.v (projection theorems). The full statement is refuted in the same file by explicit schedules (K3 duplicate key, K1 race with Clear/Resize), which the -race stress harness classifies as known findings while reporting every other failure; a stall watchdog turns a call that never returns into a concrete deadlock report (script/round, outstanding calls, goroutine stacks), and scripted sequential-then-concurrent cases (family S: geometry-preserving Resizes, Clear, then Sets/Sweep/Get and a concurrent phase) must be clean.",
  "design_ref": "DESIGN.md section 7, C08",
  "note": "Trusted: Coq kernel, the hand-written concurrent model (atomicity structure validated by the stress harness and by the sequential correspondence), mutex/context/ticker contracts, GenericStack/SafeMap operations as atomic steps, DRF-SC. Known findings K1, K3 are not fixed (need a re-design of the cache's locking).",
  "technique": "Coq inductive invariants over all interleavings of an atomic-section model + vm_compute refutation witnesses + scripted cases and two-family -race stress with history-based classification and a deadlock watchdog",
}
KNOWN = [
 {"property": "C08", "id": "F15", "status": "fixed", "commit": "1d668f0",
  "what": "getCurrentPartition did not re-check the current partition after taking the write lock: two writers that both found it full (or missing) each opened a new partition, so distinct keys within Capacity() were evicted (capacity 2, two goroutines setting one new key each: one key missing; 16 goroutines x 4 distinct keys on capacity 64: as few as 22 keys survive)",
  "line": "fixed: property=C08 1d668f0 distinct keys within Capacity() set by concurrent writers were missing after quiescence (two writers both opened a new partition)",
  "signature": "^A:A-(witness|16x4|within):lost:"},
 {"property": "C08", "id": "K1", "status": "known",
  "what": "data race: Clear and Resize replace f.partitions and f.valuePartitionIndex (Resize also f.maxPartitions, f.partitionCapacity) under currentPartitionMux, which Get/Contains/Set/Delete/Keys/Values/Len/Capacity never take; the race detector reports Clear|Resize against these readers (and against the readers' first use of the freshly allocated stack/index), and a Set that overlaps a Clear/Resize can write a key into a partition of the new stack using the old index, which later shows up as a duplicate key. Collateral seen once in about two hundred runs: in a Clear/Resize round the race detector reported a copy inside Keys() writing memory that the harness's own operation log also writes (no library frame on the other stack) and, in the same run, a value was read that the (overwritten) log no longer accounted for; both are listed under this finding, and only in family B. Needs a re-design of the cache's locking (readers would have to take the lock or the fields be swapped atomically as one unit).",
  "line": "known: property=C08 K1 data race between Clear/Resize and unlocked readers of f.partitions / f.valuePartitionIndex",
  "signature": "^B:(race:clear-or-resize-vs-|race:harness-memory-in-clear-resize-regime$|B-(clear|all):notset:after-harness-memory-race$|B-(clear|all):dup:set-overlaps-clear-or-resize$)"},
 {"property": "C08", "id": "K3", "status": "known",
  "what": "two goroutines Set the same new key concurrently: both miss the index, both write the key into (possibly different) current partitions, so the key ends up in two partitions and Keys()/Len()/Values() count it twice (same mechanism once Delete removes the index entry, fix F1: a Set that already chose the old partition overlaps a Delete of the key, the next Set inserts it a second time). Set's index lookup, partition write and index update are three separate critical sections; making them one needs the same re-design as K1.",
  "line": "known: property=C08 K3 duplicate key after two concurrent Sets of the same new key",
  "signature": "^B:B-(samekey|all):dup:(two-concurrent-sets-of-the-key|set-concurrent-with-delete-of-the-key)$"},
]

import os, json, re, glob, subprocess

CACHE_METHOD = re.compile(r"storage\.\(\*FifoMapCache\)\.(\w+)")


def parse_race_reports(text):
    """One entry per DATA RACE report: (acting_a, acting_b, top_a, top_b) where for each of the two ACCESS stacks
    (the 'Goroutine ... created at' stacks are ignored) top = innermost frame inside the library and acting = the
    innermost FifoMapCache method on that stack ('-' if none).  Function names only, no line numbers."""
    reps = []
    for block in text.split("WARNING: DATA RACE")[1:]:
        block = block.split("==================")[0]
        stacks = []
        for sect in re.split(r"\n\s*\n", block):
            sect = sect.strip("\n")
            if not re.match(r"\s*(Read|Write|Previous read|Previous write|Atomic read|Atomic write|Previous atomic read|Previous atomic write) at ", sect):
                continue
            fs = [re.sub(r"\[[^\]]*\]", "", f).split("/")[-1]
                  for f in re.findall(r"^\s+([^\s()][^\n]*?)\(\)\s*$", sect, flags=re.M) if "rbell/toolchest" in f]
            top = fs[0] if fs else "?"
            acting = "-"
            for f in fs:
                m = CACHE_METHOD.search(f)
                if m:
                    acting = m.group(1)
                    break
            # an access made by a helper called from Clear/Resize is still Clear's/Resize's access (K1):
            # look for these two public methods anywhere on the stack, not only as the innermost frame
            for f in fs:
                m = CACHE_METHOD.search(f)
                if m and m.group(1) in ("Clear", "Resize"):
                    acting = m.group(1)
                    break
            stacks.append((acting, top))
        while len(stacks) < 2:
            stacks.append(("-", "?"))
        stacks = sorted(stacks[:2])
        reps.append((stacks[0][0], stacks[1][0], stacks[0][1], stacks[1][1]))
    return reps


def run_c08stress(chk, pid, runner, tier, seed, workdir, log, only_key):
    name, fam = runner["harness"], runner["family"]
    exe, hook_mode = chk.go_build(name, log)
    res = {"failures": [], "hook_mode": hook_mode}
    corr = runner["corr"]
    if exe is None:
        res["failures"].append({"kind": "correspondence", "theorem_or_correspondence": corr,
                                "detail": "stress harness does not build: " + log[-1][2][-1500:],
                                "signature": "harness-build", "found_failing_input": False})
        return res
    out = os.path.join(workdir, "%s-%s" % (name, fam))
    os.makedirs(out, exist_ok=True)
    e = chk.env()
    e["GORACE"] = "halt_on_error=0 log_path=%s" % os.path.join(out, "race")
    r = chk.run([exe, "-seed", str(seed), "-tier", tier, "-out", out, "-family", fam] + runner.get("args", []),
                cwd=workdir, env=e, timeout=3600 if tier == "thorough" else 900)
    rc, err = r.returncode, r.stderr
    log.append(("stress %s family %s" % (name, fam), rc, err[-3000:]))
    races = []
    for f in glob.glob(os.path.join(out, "race.*")):
        races += parse_race_reports(open(f, errors="replace").read())
    rp = os.path.join(out, "result.json")
    if rc not in (0, 66) or not os.path.exists(rp):
        what = (re.findall(r"(?:panic|fatal error): [^\n]*", err) or ["?"])[0]
        frames = [re.sub(r"\[[^\]]*\]|\(0x[^)]*\)|\(\.\.\.\)", "", l).strip().split("/")[-1]
                  for l in err.split("\n") if "toolchest/storage." in l and not l.startswith("\t")][:4]
        res["failures"].append({"kind": "monitor", "theorem_or_correspondence": corr,
                                "detail": "stress harness crashed or hung (exit %s): %s" % (rc, err[-2500:]),
                                "signature": "%s:crash:%s @ %s" % (fam, what, " < ".join(frames)),
                                "found_failing_input": True, "stress_seed": seed})
        return res
    d = json.load(open(rp))
    res.update({"evaluations": d.get("rounds", 0), "distinct_nontrivial": d.get("contended_rounds", 0),
                "rule": runner.get("rule", "") + " Scope this run: " + d.get("scope", ""),
                "samples": (d.get("samples") or [])[:2],
                "histogram": dict(d.get("failure_kinds", {}), race_reports=len(races), **{"rounds " + k: v for k, v in d.get("per_scenario", {}).items()}),
                "extra": {"c08conc_%s_counts" % fam: {k: v for k, v in d.items() if isinstance(v, (int, float, str)) and k not in ("scope",)}}})
    seen = set()
    # the harness's own memory (its operation log) was touched by a library-local copy in this run (see the race
    # classification below): a "never set" verdict of a Clear/Resize round then rests on a log that may have been
    # overwritten, and is listed under K1 as collateral instead of being believed
    harness_memory_race = fam == "B" and any("?" in r[2:] and "Clear" not in r[:2] and "Resize" not in r[:2] for r in races)
    for fl in (d.get("failures") or []):
        sig = "%s:%s:%s:%s" % (fam, fl["scenario"], fl["kind"], fl.get("class", ""))
        if harness_memory_race and fl["kind"] == "notset" and fl["scenario"] in ("B-clear", "B-all") and not fl.get("class"):
            sig = "%s:%s:notset:after-harness-memory-race" % (fam, fl["scenario"])
        if fl["kind"] == "deadlock":
            # "completes without deadlock": a call that never returned; identified by the innermost library frames
            # of the goroutines blocked inside the library (function names, no line numbers)
            sig = "deadlock:%s [family %s, %s]" % (fl.get("class", ""), fam, fl["scenario"])
        if sig in seen:
            continue
        seen.add(sig)
        extra = {k: fl[k] for k in ("outstanding", "goroutine_stacks", "goroutine_stacks_file") if fl.get(k)}
        res["failures"].append({"kind": "monitor", "theorem_or_correspondence": corr, "detail": fl["msg"], **extra,
                                "failing_clause": fl["kind"], "diagnosis": fl.get("class", ""), "round": fl.get("round"),
                                "replay_hint": "harness/cmd/c08conc -family %s -only %s -seed %s (round_seed in 'round' reruns the same shape; the schedule itself is up to the Go scheduler)" % (fam, fl["scenario"], seed),
                                "signature": sig, "found_failing_input": True, "stress_seed": seed})
    # race reports: all reports of the K1 shape become ONE failure (shapes listed), every other pair of frames its own
    k1 = sorted(set(r for r in races if "Clear" in r[:2] or "Resize" in r[:2]))
    if k1:
        res["failures"].append({"kind": "monitor", "theorem_or_correspondence": corr + " (data race reported by the Go race detector)",
                                "detail": "DATA RACE reports in which one of the two access stacks runs inside FifoMapCache.Clear/Resize: %d reports, %d shapes"
                                          % (sum(races.count(r) for r in k1), len(k1)),
                                "shapes": ["%s (in %s) vs %s (in %s): %d" % (r[2], r[0], r[3], r[1], races.count(r)) for r in k1],
                                "signature": "%s:race:clear-or-resize-vs-%s" % (fam, ",".join(sorted(set(x for r in k1 for x in r[:2]) - {"Clear", "Resize"}) or ["Clear/Resize"])),
                                "found_failing_input": True, "stress_seed": seed})
    # Family B only (Clear/Resize run concurrently there, so the process is racy by known finding K1 and unsynchronised
    # publication of the freshly allocated stack/index can corrupt memory): a report in which one of the two access
    # stacks has NO library frame at all (memory shared between a library-local allocation and the harness's own
    # memory) cannot be a conflict between two library accesses; it is listed under K1 as collateral.  In families S
    # and A, where no known race exists, the same report is a violation.
    collateral = sorted(set(r for r in set(races) - set(k1) if fam == "B" and "?" in r[2:]))
    if collateral:
        res["failures"].append({"kind": "monitor", "theorem_or_correspondence": corr + " (data race reported by the Go race detector)",
                                "detail": "DATA RACE reports between a library-local allocation and harness-owned memory while Clear/Resize run concurrently (collateral of K1): %d reports" % sum(races.count(r) for r in collateral),
                                "shapes": ["%s vs %s: %d" % (r[2], r[3], races.count(r)) for r in collateral],
                                "signature": "%s:race:harness-memory-in-clear-resize-regime" % fam,
                                "found_failing_input": True, "stress_seed": seed})
    for rep in sorted(set(races) - set(k1) - set(collateral)):
        sig = "%s:race:other:%s" % (fam, " | ".join(sorted([rep[2], rep[3]])))
        if sig in seen:
            continue
        seen.add(sig)
        res["failures"].append({"kind": "monitor", "theorem_or_correspondence": corr + " (data race reported by the Go race detector)",
                                "detail": "DATA RACE: innermost library frames %s and %s; cache methods on the two stacks: %s and %s" % (rep[2], rep[3], rep[0], rep[1]),
                                "signature": sig, "found_failing_input": True, "stress_seed": seed,
                                "n_reports_this_shape": races.count(rep)})
    return res


RUNNERS = {"c08stress": run_c08stress}
HARNESS_BUILD_FLAGS = {"c08conc": ["-race"]}
