import wqrunner
RUNNERS = {"wqcases": wqrunner.run_wqcases}
SPEC = {
    "runners": [{
        "kind": "wqcases", "harness": "wqscript", "prop": "C05",
        "corr": "Run/CorrC05.v + Run/CorrWQ.v (model of the work queue vs /repo/workqueue, scripted schedules)",
        "rule": "each case = one script (stimuli Enqueue(priority, adjust?)/work completion/adjust-function value change/SetPriority, one at a time, quiescence detected from goroutine stacks) run on the real queue and replayed in Coq on Model/WQ.v with every interleaving of internal steps explored; observed = which work functions start after each stimulus, which Enqueue calls returned, WorkItems(), adjust-function consultations. Generated as: refutation witnesses of Findings/WQ.v first, every word over a small stimulus alphabet (small scope), adaptive random scripts that fill the queue. distinct = by (W, L, stimulus list); non-trivial = some work function started while another accepted item was still waiting (a contested dispatch happened).",
    }],
    "trusted": ["channels, select, sync.Map, atomics, context are modelled by contract (one step each)",
                "quiescence detector (all goroutines blocked in two consecutive runtime.Stack snapshots)",
                "container/heap is NOT trusted: Lib/GoHeap.v mirrors it and is verified"],
    "assumptions": ["L >= 1", "adjust functions are total and side-effect free (their values are environment input)",
                    "uuid.New() never collides"],
}
META = {
  "text": "C05 theorems over Model/WQ.v (all label sequences, all W, L, adjust values): see notes/C05.md.",
  "design_ref": "DESIGN.md section 7, C05",
  "note": "see notes/C05.md",
  "technique": "Coq invariant proof over an interleaving model + verified container/heap mirror + scripted correspondence",
}
KNOWN = []
