import wqrunner
RUNNERS = {"wqcases": wqrunner.run_wqcases}
SPEC = {
    "runners": [{
        "kind": "wqcases", "module": "CorrC05", "harness": "wqscript", "prop": "C05",
        "corr": "Run/CorrC05.v + Run/CorrWQ.v (model of the work queue vs /repo/workqueue, scripted schedules)",
        "rule": "each case = one script (stimuli Enqueue(priority, adjust?)/work completion/adjust-function value change/SetPriority, one at a time, quiescence detected from goroutine stacks) run on the real queue and replayed in Coq on Model/WQ.v with every interleaving of internal steps explored; observed = which work functions start after each stimulus, which Enqueue calls returned, WorkItems(), adjust-function consultations. Generated as: refutation witnesses of Findings/WQ.v first, every word over a small stimulus alphabet (small scope), adaptive random scripts that fill the queue. distinct = by (W, L, stimulus list); every third random script and three corpus scripts use priorities, adjust-function values and SetPriority arguments at the ends of the int range (math.MinInt, MinInt+1, -2..1, MaxInt-1, MaxInt; passed to Coq as Z literals, where nothing overflows); a stimulus whose API call has not returned at a quiescent moment ends the script and is a violation by itself. 24 runs (thorough 200) of the held-adjust-function scenario: the harness parks the dispatcher inside an adjust function, lets a completion and an arrival pile up (batch stimulus, one observation), releases it, so that an arrival and a completion token compete at the dispatcher's select - replayed in Coq with the batch's labels in order and ANY internal steps in between; black-box clause: right after Enqueue(p) WorkItems() lists the item with priority p. every third held-adjust run is the two-tokens variant (two workers; two completion tokens are pending when the parked dispatcher is released: three decisions follow and each must consult the waiting adjust function - consultations are counted in the observation of the batch). non-trivial = some work function started while another accepted item was still waiting (a contested dispatch happened).",
    }],
    "trusted": ["channels, select, sync.Map, atomics, context are modelled by contract (one step each)",
                "quiescence detector (all goroutines blocked in two consecutive runtime.Stack snapshots)",
                "container/heap is NOT trusted: Lib/GoHeap.v mirrors it and is verified"],
    "assumptions": ["L >= 1", "adjust functions are total and side-effect free (their values are environment input)",
                    "uuid.New() never collides"],
}
META = {
  "text": "Coq theorems (Props/C05.v, 5, closed under the global context) over the executable interleaving model Model/WQ.v of the work queue, for ALL worker counts, queue lengths, label sequences (workload + schedule) and adjust-function values: at every dispatch decision the popped item is a waiting item carrying its effective priority (adjust value if it has an adjust function) and no waiting item precedes it in (effective priority, arrival number) order (C05_min); arrival numbers are the order of arrival at the dispatcher, so among equals none arrived earlier (C05_arrival_order, C05_fifo_among_equals); every waiting adjust function is consulted exactly once per decision (C05_all_consulted); heap order and position=index hold in every reachable state (C05_heap_ok), resting on the verified mirror of container/heap (Lib/GoHeapProofs.v). The pinned defects F3, F4, F5 are refuted in Findings/WQ.v with concrete schedules (vm_compute). The model is tied to /repo on every run by scripted schedules (one stimulus at a time, quiescence detection) replayed in Coq with all internal interleavings explored.",
  "design_ref": "DESIGN.md section 7, C05 (and 'Work queue model', Appendix A, Appendix C)",
  "note": "Trusted: Coq kernel + vm_compute; the hand-written model (validated by this run's scripts only); Go channels/select/sync.Map/atomics modelled by contract; the quiescence detector. The monitor is model-relative (start order and consultation counts must be among the model's predictions). Decisions taken in non-quiescent races (an arrival overtaking a pending token) are covered by the theorems but not exercised deterministically by the harness.",
  "technique": "Coq invariant proof over an interleaving model + verified container/heap mirror + scripted differential correspondence (vm_compute) against the Go code",
}
KNOWN = [
 {"property": "C05", "id": "F3", "status": "fixed", "commit": "d88e093",
  "what": "full-queue branch appended the new item with the bare workHeap.Push (no sift-up): W=1, L=2, priorities 5,5,9,8,1,7,0 started 9 before 1",
  "line": "fixed: property=C05 d88e093 full-queue branch used bare Push, later pops handed out a lower-priority item first",
  "signature": "^corpus-F3:1$"},
 {"property": "C05", "id": "F4", "status": "fixed", "commit": "7140c9b",
  "what": "Less compared the priority only: eight priority-1 items on one worker started 0 1 2 7 6 5 4 3",
  "line": "fixed: property=C05 7140c9b equal priorities were not dispatched first come first served",
  "signature": "^corpus-F4:1$"},
 {"property": "C05", "id": "F5", "status": "fixed", "commit": "0d10ab8",
  "what": "AdjustPriorities called heap.Fix while ranging over the slice it re-orders: an item was consulted twice, another not at all and dispatched with its stale priority",
  "line": "fixed: property=C05 0d10ab8 AdjustPriorities skipped adjust functions (heap.Fix while ranging)",
  "signature": "^corpus-F5:1$"},
]
