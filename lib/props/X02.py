# Extra component X02 (not in properties.jsonl): mapOps/mapOps.go
SPEC = {
    "runners": [{
        "kind": "coqcases", "module": "CorrX02", "harness": "extras", "args": ["-comp", "x02"],
        "corr": "Run/CorrX02.v (monitor 'permutation of the keys, sorted by value' vs $VERIF_REPO/mapOps)",
        "rule": "each case = one generated map and the outputs of SortAscKeys or SortDescKeys for it, called repeatedly on fresh maps (fresh iteration order) at three key/value type instantiations; every observed output is checked in Coq by the monitor proved equivalent to admissibility (no comparison with the model's particular tie order); distinct = by (function, map); non-trivial = map with >= 2 entries.",
    }],
    "trusted": ["sort.Sort is modelled by contract: for a strict weak order it returns a permutation without inversions (not stable)",
                "map iteration delivers every entry exactly once, in any order"],
    "assumptions": ["value < is a strict weak order (no NaN values)"],
}
META = {
  "text": "Extra component. Coq theorems (Props/X02.v, 9, closed under the global context) state for ALL maps and ALL iteration orders that SortAscKeys/SortDescKeys return an admissible result (the keys of a permutation of the entries that is non-decreasing / non-increasing in the values) for ANY sorting function keeping sort.Sort's contract, that insertion sort keeps that contract for every strict weak order, what admissibility means index-wise, and that the executable monitor accepts exactly the admissible results. Each run executes the real functions on all small maps with ties and random larger ones and evaluates the monitor on every observed output in Coq.",
  "design_ref": "none (extra component; statement in notes/X02.md)",
  "note": "Trusted: Coq kernel + vm_compute; the hand-written model; sort.Sort by contract (pdqsort itself is not verified).",
  "technique": "Coq proof over an executable model parametric in the sorter + monitor-based correspondence (vm_compute) against the Go code",
}
KNOWN = []
