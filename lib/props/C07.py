SPEC = {
    "runners": [{
        "kind": "coqcases", "harness": "c07seq", "name": "seq",
        "corr": "Run/CorrC07.v (models of SafeMap / SyncMap and the reference map vs /repo/storage/safeMap.go, /repo/generic/syncmap.go)",
        "rule": "each case = one operation sequence run on a fresh real SafeMap or SyncMap at key/value types int, string, pointer and interface (nil values and nil keys included; instantiations must agree, else one case per instantiation), every call's result decoded to integers and compared in Coq with the reference map (monitor) and the model; snapshot non-aliasing of Keys/Values/CopyToMap/TranslateToMapOf checked on the Go side in both directions; distinct = by (object, instantiation, operation sequence); non-trivial = the sequence has an observing call after a mutating one.",
        "sigfn": None,
    }],
    "trusted": [],
    "assumptions": [],
}
META = {"text": "wip", "design_ref": "DESIGN.md section 7, C07", "note": "wip", "technique": "wip"}
KNOWN = []
