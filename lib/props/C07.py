import os, json, re

HARNESS_BUILD_FLAGS = {"c07conc": ["-race"]}


def _race_reports(stderr):
    """Split the race detector's output into reports; signature = first library function of each of the two stacks."""
    reps = []
    for blk in stderr.split("WARNING: DATA RACE")[1:]:
        blk = blk.split("==================")[0]
        funcs = []
        for part in re.split(r"\n(?=(?:Previous )?(?:[Rr]ead|[Ww]rite) at |Goroutine )", blk):
            if not re.match(r"\s*(?:Previous )?(?:[Rr]ead|[Ww]rite) at ", part):
                continue
            m = re.search(r"github\.com/rbell/toolchest/([\w/]+)\.\(\*?(\w+)(?:\[[^\]]*\])?\)\.(\w+)", part)
            funcs.append("%s.%s" % (m.group(2), m.group(3)) if m else "?")
        reps.append({"signature": "race:" + "|".join(sorted(funcs)), "report": blk.strip()[:2500]})
    return reps


def run_c07conc(chk, pid, runner, tier, seed, workdir, log, only_key):
    """Free-running -race stress (no unique model prediction): the Go-side monitors decide, python only collects.
    Monitors: Wing-Gong linearizability of every recorded history against a sequential map spec, one-winner,
    GetOrAdd||Delete never yields the zero value, no panic, no race report, no hang."""
    corr = runner["corr"]
    res = {"failures": [], "hook_mode": None}
    exe, hook_mode = chk.go_build("c07conc", log)
    res["hook_mode"] = hook_mode
    if exe is None:
        res["failures"].append({"kind": "correspondence", "theorem_or_correspondence": corr,
                                "detail": "harness does not build against the current tree: " + log[-1][2][-1500:],
                                "signature": "harness-build", "found_failing_input": False})
        return res
    out = os.path.join(workdir, "c07conc")
    old = os.environ.get("GORACE")
    os.environ["GORACE"] = "halt_on_error=0"
    try:
        r = chk.run([exe, "-seed", str(seed), "-tier", tier, "-out", out], cwd=workdir, timeout=runner.get("timeout", 2400))
    finally:
        if old is None:
            os.environ.pop("GORACE", None)
        else:
            os.environ["GORACE"] = old
    log.append(("harness c07conc", r.returncode, (r.stdout[-600:] + r.stderr[-2500:])))
    rp = os.path.join(out, "result.json")
    if r.returncode != 0 or not os.path.exists(rp):
        res["failures"].append({"kind": "correspondence", "theorem_or_correspondence": corr,
                                "detail": "harness crashed: " + r.stderr[-3000:], "signature": "harness-crash:" + r.stderr[-200:],
                                "found_failing_input": True})
        return res
    jr = json.load(open(rp))
    st = jr["stats"]
    seen = set()
    for f in jr["failures"]:
        if f["signature"] in seen:
            continue
        seen.add(f["signature"])
        res["failures"].append({
            "kind": "monitor", "theorem_or_correspondence": corr + " / monitor: " + f["kind"],
            "case": {"object": f.get("object"), "what": f.get("detail"), "history": f.get("core") or f.get("history"),
                     "full_history": f.get("history") if f.get("core") else None, "reproduced": f.get("reproduced"),
                     "panic": f.get("panic"), "phase": f.get("phase"), "round": f.get("round")},
            "key": None, "signature": f["signature"], "found_failing_input": True,
            "n_failing_cases": 1 + jr.get("suppressed", {}).get(f["signature"], 0),
        })
    races = _race_reports(r.stderr)
    for rr in races:
        if rr["signature"] in seen:
            continue
        seen.add(rr["signature"])
        res["failures"].append({"kind": "monitor", "theorem_or_correspondence": corr + " / go race detector (C07_safemap_race_free)",
                                "case": {"race_report": rr["report"]}, "key": None, "signature": rr["signature"],
                                "found_failing_input": True})
    hist = {k: v for k, v in st.get("histogram", {}).items()}
    res.update({
        "evaluations": st["histories_checked"] + st["goa_trials"],
        "distinct_nontrivial": st.get("distinct_nontrivial_histories", 0),
        "histogram": hist,
        "rule": runner.get("rule", "") + " This run: %d rounds, %d histories checked (%d with overlapping calls of different goroutines, %d non-trivial, %d distinct non-trivial shapes%s), %d operations, longest history %d; %d GetOrAdd||Delete trials (%d iterations); %d nil-interface rounds; %d race reports; checker timeouts %d." % (
            st["rounds"], st["histories_checked"], st["overlapping_histories"], st["nontrivial_histories"],
            st.get("distinct_nontrivial_histories", 0), " (lower bound: cap reached)" if st.get("distinct_histories_capped") else "",
            st["ops"], st["max_history_len"], st["goa_trials"], st["goa_iterations"], st["phaseC_rounds"], len(races), st["checker_timeouts"]),
        "samples": [],
        "extra": {"conc_" + k: v for k, v in st.items() if k != "histogram"},
    })
    res["extra"]["conc_race_reports"] = len(races)
    return res


RUNNERS = {"c07conc": run_c07conc}

SPEC = {
    "runners": [{
        "kind": "coqcases", "module": "CorrC07", "harness": "c07seq", "name": "seq",
        "corr": "Run/CorrC07.v (models of SafeMap / SyncMap and the reference map vs /repo/storage/safeMap.go, /repo/generic/syncmap.go)",
        "rule": "SEQUENTIAL: each case = one operation sequence run on a fresh real SafeMap or SyncMap at key/value types int, string, pointer and interface (nil values and nil keys included) AND at value types that are not comparable with == ([]int, map[string]int, a struct holding a slice, func, an interface holding slices/maps; interface keys holding ints and strings; CompareAndSwap/CompareAndDelete, which are documented to need comparable values, are left out of the sequence there); the instantiations must agree, else one case per instantiation, every call's result decoded to integers and compared in Coq with the reference map (monitor) and the model; snapshot non-aliasing of Keys/Values/CopyToMap/TranslateToMapOf checked on the Go side in both directions; a plain Go map is a second reference. Streams: corpus (Findings witnesses first), every word of a fixed length over a small alphabet (keys {zero-value/nil, 1}, values {zero/nil, 1}), structured random. distinct = by (object, instantiation, operation sequence); non-trivial = an observing call follows a mutating one.",
    }, {
        "kind": "c07conc", "name": "conc",
        "corr": "free-running -race stress of /repo/storage/safeMap.go and /repo/generic/syncmap.go (harness/cmd/c07conc)",
        "rule": "CONCURRENT (testing, not proof; validates the atomicity structure of the concurrent model): each case = one round of 2-4 goroutines x 1-6 random operations on 1-3 overlapping keys of a fresh real map, released together; every call/return is stamped by one atomic logical clock and the history is checked for linearizability by a Wing-Gong search against a sequential map spec written in Go (SafeMap at int/int and string/string, SyncMap at int/int, string/int, int/any; Range/Iterate excluded); plus targeted GetOrAdd||Delete(||Set) loops (result must never be the zero value; a failure must reproduce in re-runs), nil-interface rounds on SyncMap[int,any]/[any,any] incl. Range/Iterate (no panic, only stored pairs visited), go race detector reports from stderr, panic capture, 60 s hang watchdog. distinct = by per-goroutine operation shapes; non-trivial = >= 2 goroutines, a mutating op, and two calls of different goroutines on the same key overlapping in time.",
    }],
    "trusted": [
        "sync.RWMutex (writer excludes everyone, readers exclude writers), sync.Map (every method except Range is atomic) and Go's builtin map are modelled by contract",
        "DRF-SC of the Go memory model: race-free programs are sequentially consistent; treating a critical section as one atomic step of the model rests on it plus the lockset theorem over the regenerated skeleton",
        "the translator translator/lockskel (go/ast walk producing coq/Gen/LockSkeleton_gen.v) is trusted to report every lock operation and every access to SafeMap.m; it fails closed (Unknown) on constructs it does not recognise",
        "snapshot non-aliasing and the interface-typed nil KEY in Range/Iterate are observed by the harness only (value-semantics model)",
    ],
    "assumptions": [
        "keys are compared with a reflexive == (no NaN-bearing keys); values passed to CompareAndSwap/CompareAndDelete are comparable",
        "linearizability is proved for the model whose atomic steps are the critical sections (SafeMap) resp. single sync.Map calls (SyncMap); sync.Map.Range is not a snapshot by contract, so Range/Iterate are covered sequentially only",
    ],
}

META = {
  "text": "Coq theorems (Props/C07.v, closed under the global context): for ALL operation sequences the executable models of SafeMap and SyncMap return what the reference map K -> option V returns (a miss yields the zero value / (zero,false); no sequence panics, also with stored nil interface values); for ALL schedules of any number of goroutines the concurrent SafeMap object (atomic steps = critical sections; GetOrAdd = read section, then write section with re-check) is linearizable w.r.t. the sequential model (generic fixed-linearization-point theorem of Lib/Conc.v), GetOrAdd has one winner per key, SyncMap (one atomic sync.Map call + local assertion) is linearizable relative to the sync.Map contract; the lock skeleton regenerated from storage/safeMap.go on every run passes the lockset check, which is proved to imply absence of data races in a fine-grained RWMutex semantics, and equals the model's section structure. Tied to /repo on every run by a sequential differential harness (4-5 type instantiations incl. nil interface values, evaluated in Coq) and a -race stress harness with a Wing-Gong linearizability checker.",
  "design_ref": "DESIGN.md section 7, C07 — SafeMap and SyncMap (Appendix E, Appendix G)",
  "note": "HONESTY: linearizability is proved for the MODEL whose atomic steps are the critical sections; that each critical section is atomic in the real program is the lockset/race-freedom theorem over the GENERATED skeleton plus DRF-SC of the Go memory model (trusted), and C07_skeleton_matches_model ties the skeleton's section structure to the model's step structure. SyncMap is linearizable relative to the sync.Map contract (library code, not verified); Range/Iterate are sequential-only. Snapshot non-aliasing is checked by the harness only. The translator is trusted (fail-closed). The concurrent harness is testing, not proof.",
  "technique": "Coq refinement/simulation proof over an interleaving model (fixed linearization points) + lockset theorem over a skeleton regenerated from the Go source + differential (vm_compute) and -race/linearizability-checking correspondence harnesses",
}

KNOWN = [
 {"property": "C07", "id": "F7", "status": "fixed", "commit": "727ca53",
  "what": "SafeMap.GetOrAdd did Has then Get in two critical sections: with a racing Delete it returned the zero value, which was never stored (not linearizable); e.g. T1 Delete(1) || T0 GetOrAdd(1,486) -> 0",
  "line": "fixed: property=C07 727ca53 SafeMap.GetOrAdd returned the zero value when a Delete ran between its Has and its Get (non-linearizable history)",
  "signature": "^goa-zero:SafeMap\\.GetOrAdd$|^nonlinearizable:SafeMap\\.GetOrAdd$"},
 {"property": "C07", "id": "F8", "status": "fixed", "commit": "824e01c",
  "what": "SyncMap.Load/Swap/LoadOrStore/LoadAndDelete/Range/Iterate panicked on a stored nil interface value (v.(V)): Store(1,nil); Load(1) => panic: interface conversion: interface is nil, not interface {}",
  "line": "fixed: property=C07 824e01c SyncMap methods panicked on a stored nil interface value (single-result type assertion)",
  "signature": "^SyncMap:panic:(Load|Swap|LoadOrStore|LoadAndDelete|Range|Iterate):1$|^panic:generic\\."},
]
