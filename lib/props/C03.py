import re as _re
def _sig(c, v):
    prog = c["desc"].get("program", "")
    feats = [n for n, pat in (("resize", r"\br\d"), ("delete", r"\bd\d"), ("clear", r"\bx\b")) if _re.search(pat, prog)]
    return "%s:%s" % ({1: "monitor", 2: "mismatch"}.get(v, v), "+".join(feats) or "plain")

def _runner(prop):
    return {"kind": "coqcases", "module": "CorrCache", "shards": 8, "harness": "cache", "args": ["-prop", prop],
            "corr": "Run/CorrCache.v (Model/Cache.v vs /repo/storage/fifoMapCache.go; monitor of %s)" % prop,
            "sigfn": _sig,
            "rule": "case = one history on a fresh FifoMapCache with sweeps held by the verif hook (Sweep happens exactly where the history says); every output and periodic observation blocks (Get/Contains for the whole key universe, Keys, Values, Len, Capacity) are compared with the model and checked by the property's black-box monitor; distinct = by (option, capacity, program); non-trivial = an eviction happened, or a Resize, or an update plus a delete of a present key."}

SPEC = {
    "runners": [_runner("C03")],
    "trusted": ["GenericStack as the FIFO queue of Props/C11.v; SafeMap as a plain map (C07); float64 partition arithmetic modelled on nat (validated by the C02 rounding sweep)",
                "verif hook storage/export_verif.go (holds sweepingMux; layout snapshot for Resize replay order)"],
    "assumptions": ["keys have a reflexive ==; values used by the harness are unique and non-zero",
                    "configured calculator yields P >= 1, C >= 1 (minimumPartitions <= capacity)"],
}
META = {
  "text": 'Coq theorems (Props/C03.v) with ghost history variables born/n_ins: in every reachable state, a inserted before b (neither deleted since) and a present implies b present (updates do not renew, re-insertion does); while insertions since the last Clear do not exceed Capacity nothing is missing; a Sweep removes exactly the (partitions - P) oldest partitions of at most C entries, and with prompt sweeps an overflow costs at most C entries. Tied to /repo by histories with held sweeps; the black-box monitor recomputes born/n_ins from the observed presence flags and checks every pair after each Sweep.',
  "design_ref": 'DESIGN.md section 7, C03',
  "note": "Trusted: Coq kernel/vm_compute; model validated by this run's histories; GenericStack/SafeMap by their own properties (C11, C07); hook file; float64 partition arithmetic modelled on nat and validated numerically by the rounding sweep; sequential use only.",
  "technique": 'Coq ghost-variable invariant over all histories (insertion order = partition order; counting argument for not-early) + differential correspondence',
}
KNOWN = [
 {"property": "C03", "id": "F1", "status": "fixed", "commit": "da62576",
  "what": "Delete left the index entry: a deleted and re-inserted key was not renewed (Set a,b,c; Delete a; Set a; Set d,e; Sweep evicts a while c survives)",
  "line": "fixed: property=C03 da62576 a deleted and re-inserted key kept its old partition and was evicted before older keys",
  "signature": "^monitor:.*delete"},
]
