# Extra component X01 (not in properties.jsonl): propositions/slicePropositions.go + mapPropositions.go
SPEC = {
    "runners": [{
        "kind": "coqcases", "module": "CorrX01", "harness": "extras", "args": ["-comp", "x01"],
        "corr": "Run/CorrX01.v (model of propositions vs $VERIF_REPO/propositions)",
        "rule": "each case = one call of a propositions function on generated input, run on the real code at three element-type instantiations (int, string, float64 under order-preserving encodings; map calls repeated on fresh maps so that several iteration orders are seen) which must all agree, and compared in Coq with the model proved equal to the specification; distinct = by (function, arguments); non-trivial = non-empty slice / map (and, for the two-slice functions, non-empty second slice).",
    }],
    "trusted": ["the runtime's map lookup m[k] is modelled by contract (is there a binding for k)",
                "predicates passed by callers are modelled as total boolean functions without side effects"],
    "assumptions": ["element == and < are those of a total order with reflexive == (no NaN-bearing elements)",
                    "predicates are deterministic and do not modify the slice / map they are evaluated over"],
}
META = {
  "text": "Extra component. Coq theorems (Props/X01.v, 16, closed under the global context) state for ALL slices, maps, pivots and predicates that the model of each of the 15 slice functions and 8 map functions equals its list / map specification (existsb / forallb and the logical quantifier statements, empty inputs included, De Morgan dualities), the map results for EVERY permutation of the entry list (iteration order). The model is tied to the code on every run by executing the real functions on all small inputs plus random ones and comparing in Coq.",
  "design_ref": "none (extra component; statement in notes/X01.md)",
  "note": "Trusted: Coq kernel + vm_compute; the hand-written model (validated by this run's cases only); hash-map lookup and iteration modelled by contract.",
  "technique": "Coq proof of list/map specifications over an executable model + differential correspondence (vm_compute) against the Go code",
}
KNOWN = []
