"""Runner kind "wqcases" shared by the work-queue properties (C04, C05, C09, C14, C16, C19).

Like "coqcases" (build harness/cmd/wqscript, let it drive the real queue, let coqc evaluate the cases with the
property's Run/Corr<ID>.v), plus the reproduction rule of DESIGN.md 4.2 for scripted schedules: every failing
script is re-executed three times on the real code (`wqscript -rerun`) and re-evaluated; it is reported only if it
fails in all three re-executions (a defect of the logic is deterministic under a script, a scheduling hiccup is not).
"""
import os, json


def run_wqcases(chk, pid, runner, tier, seed, workdir, log, only_key):
    name = runner.get("harness", "wqscript")
    exe, hook_mode = chk.go_build(name, log)
    out = os.path.join(workdir, name)
    res = {"failures": [], "hook_mode": hook_mode}
    corr = runner["corr"]
    if exe is None:
        res["failures"].append({"kind": "correspondence", "theorem_or_correspondence": corr,
                                "detail": "harness does not build against the current tree: " + log[-1][2][-1500:],
                                "signature": "harness-build", "found_failing_input": False})
        return res
    base = [exe, "-seed", str(seed), "-tier", tier, "-prop", runner.get("prop", pid)] + runner.get("args", [])
    r = chk.run(base + ["-out", out], cwd=workdir, timeout=runner.get("timeout", 170 if tier == "quick" else 2400))
    log.append(("harness " + name, r.returncode, (r.stdout[-1000:] + r.stderr[-3000:])))
    if r.returncode != 0:
        # the queue under test panicked (or the harness timed out): the script that was being executed is the failing input
        import re
        prog = {}
        try:
            prog = json.load(open(os.path.join(out, "progress.json")))
        except Exception:
            pass
        m = re.search(r"(panic: .*|fatal error: .*|TIMEOUT.*)", r.stderr)
        frames = sorted(set(re.findall(r"workqueue\.\(\*Queue\)\.(\w+)", r.stderr)))
        sig = "harness-crash:%s:%s" % (m.group(1)[:100] if m else "exit %s" % r.returncode, ",".join(frames[:4]))
        res["failures"].append({"kind": "monitor", "theorem_or_correspondence": "the process running the scripts died (panic in the queue) or hung",
                                "case": prog, "stimuli": prog.get("stimuli"),
                                "detail": r.stderr[-2500:], "signature": sig, "found_failing_input": True})
        return res
    verdicts, stats = chk.eval_cases(out, log)
    cases = json.load(open(os.path.join(out, "cases.json")))
    res.update({"evaluations": stats["evaluations"], "distinct_nontrivial": stats["distinct_nontrivial"],
                "histogram": stats["histogram"],
                "rule": runner.get("rule", "") + " Scope this run: " + json.dumps(stats.get("scope", "")),
                "samples": [c["desc"]["script"] for c in cases[:: max(1, len(cases) // 4)][:4]],
                "extra": {k: v for k, v in stats.items()
                          if k not in ("histogram", "evaluations", "distinct", "distinct_nontrivial", "chunk", "chunks", "scope")}})
    # child processes that crashed or hung (C19): classified by panic message + frames; bin/check matches the
    # signature against the known findings (K5) and reports everything else
    cseen = set()
    for c in stats.get("crashes", []) or []:
        if c["signature"] in cseen:
            continue
        cseen.add(c["signature"])
        res["failures"].append({"kind": "monitor", "theorem_or_correspondence": "no crash, no hang (child process)",
                                "case": {k2: c[k2] for k2 in ("W", "L", "script", "steps_completed", "kind", "panic", "frames")},
                                "stimuli": c["stimuli"], "detail": c["stderr_tail"][:1200], "signature": c["signature"],
                                "found_failing_input": True,
                                "n_children_with_this_signature": sum(1 for d in stats["crashes"] if d["signature"] == c["signature"])})
    # burst trials (C19): Go-side monitor "work accepted before Stop is started exactly once", exact in its regime
    bseen = set()
    for bf in stats.get("burst_failures", []) or []:
        if bf["signature"] in bseen:
            continue
        bseen.add(bf["signature"])
        res["failures"].append({"kind": "monitor", "theorem_or_correspondence": "burst of Enqueue calls then Stop: accepted work still runs (Go-side monitor)",
                                "case": bf["trial"], "detail": bf["detail"], "signature": bf["signature"],
                                "found_failing_input": True,
                                "n_trials_failing_this_clause": sum(1 for d in stats["burst_failures"] if d["signature"] == bf["signature"])})
    res["extra"].pop("burst_failures", None)
    res["extra"]["crash_signatures"] = sorted(cseen)
    res["extra"].pop("crashes", None)
    if verdicts is None:
        res["failures"].append({"kind": "correspondence", "theorem_or_correspondence": corr,
                                "detail": "coqc could not evaluate the cases: " + log[-1][2][-1500:],
                                "signature": "cases-eval", "found_failing_input": False})
        return res
    if not verdicts:
        return res
    # smallest failing scripts first, monitor failures before pure mismatches, one per signature
    bad = sorted(verdicts, key=lambda iv: (iv[1] != 1, len(cases[iv[0]]["desc"]["stimuli"]), len(cases[iv[0]]["key"])))
    chosen, seen = [], set()
    for idx, v in bad:
        sig = "%s:%s" % (cases[idx]["tags"][0] if cases[idx]["tags"] else "", v)
        if sig in seen:
            continue
        seen.add(sig)
        chosen.append((idx, v, sig))
    chosen = chosen[:12]
    # three-fold reproduction on the real code
    rr = os.path.join(workdir, "rerun.json")
    json.dump([{"W": cases[i]["desc"]["W"], "L": cases[i]["desc"]["L"], "opts": cases[i]["desc"].get("opts") or [],
                "sibling": bool(cases[i]["desc"].get("sibling")),
                "stimuli": cases[i]["desc"]["stimuli"]}
               for i, _, _ in chosen], open(rr, "w"))
    out2 = os.path.join(workdir, name + "-rerun")
    # Scripts of the "held-adjust" family end in a state where Go's select chooses at random between an arrival and
    # a completion token; every choice is covered by the model, so any disagreement is a defect, but a defect shows only
    # for some of the choices.  They are re-executed 12 times and count as reproduced when at least 2 re-executions fail
    # (a one-off scheduling hiccup of the harness is still not reported); all other scripts: 3 of 3.
    racy = lambda sig: sig.startswith("held-adjust")
    ntimes = 12 if any(racy(sig) for _, _, sig in chosen) else 3
    r2 = chk.run(base + ["-rerun", rr, "-times", str(ntimes), "-out", out2], cwd=workdir, timeout=120 if tier == "quick" else 600)
    log.append(("harness rerun", r2.returncode, r2.stderr[-2000:]))
    repro = {}
    if r2.returncode == 0:
        v2, st2 = chk.eval_cases(out2, log)
        c2 = json.load(open(os.path.join(out2, "cases.json")))
        if v2 is not None:
            failing = {}
            for i, v in v2:
                k = int(c2[i]["key"].split("-")[1])
                failing[k] = failing.get(k, 0) + 1
            runs = {}
            for c in c2:
                k = int(c["key"].split("-")[1])
                runs[k] = runs.get(k, 0) + 1
            for k in range(len(chosen)):
                repro[k] = (failing.get(k, 0), runs.get(k, 0))
    else:
        # the re-execution itself crashed the harness (e.g. the queue panicked): that is a reproduction
        for k in range(len(chosen)):
            repro[k] = (3, 3)
    dropped = 0

    def reproduced(k, sig):
        f, n = repro.get(k, (3, 3))
        return n == 0 or (f >= 2 if racy(sig) else f == n)
    any_monitor = any(v == 1 and reproduced(k, sig) for k, (_, v, sig) in enumerate(chosen))
    for k, (idx, v, sig) in enumerate(chosen):
        f, n = repro.get(k, (3, 3))
        if not reproduced(k, sig):
            dropped += 1
            continue
        if v != 1 and any_monitor:
            continue
        c = cases[idx]
        res["failures"].append({
            "kind": "monitor" if v == 1 else "correspondence",
            "theorem_or_correspondence": corr,
            "case": {k2: c["desc"].get(k2) for k2 in ("new_queue", "num_cpu", "W", "L", "script", "generator", "steps")},
            "stimuli": c["desc"]["stimuli"], "key": c["key"], "verdict": v, "signature": sig,
            "reproduced": "%d/%d re-executions fail" % (f, n),
            "found_failing_input": v == 1,
            "n_failing_cases": len(bad),
        })
    res["extra"]["failing_cases_first_pass"] = len(bad)
    res["extra"]["not_reproduced_dropped"] = dropped
    return res


def run_wqstress(chk, pid, runner, tier, seed, workdir, log, only_key):
    """Free-running stress (harness/cmd/wqstress, built with -race): evaluates the Go-side monitors and reports
    race reports / panics / hangs.  No model prediction is involved (DESIGN.md 4.3)."""
    import re, subprocess
    name = "wqstress"
    exe, hook_mode = chk.go_build(name, log)
    res = {"failures": [], "hook_mode": hook_mode}
    if exe is None:
        res["failures"].append({"kind": "correspondence", "theorem_or_correspondence": "free-running stress",
                                "detail": "stress harness does not build: " + log[-1][2][-1500:],
                                "signature": "harness-build", "found_failing_input": False})
        return res
    out = os.path.join(workdir, "stress.json")
    cmd = [exe, "-seed", str(seed), "-tier", tier, "-prop", runner.get("prop", pid), "-out", out]
    try:
        r = chk.run(cmd, cwd=workdir, timeout=runner.get("timeout", 170 if tier == "quick" else 2400))
        rc, err = r.returncode, r.stderr
    except subprocess.TimeoutExpired as e:
        rc, err = -9, "watchdog: stress harness did not finish: " + str(e)
    log.append(("wqstress", rc, err[-3000:]))
    doc = {"runs": [], "failures": []}
    if os.path.exists(out):
        doc = json.load(open(out))
    runs = doc["runs"]
    nontrivial = [x for x in runs if x["items"] > x["cfg"]["W"] + x["cfg"]["L"] + 1]
    res.update({"evaluations": len(runs), "distinct_nontrivial": len(nontrivial),
                "rule": runner.get("rule", ""),
                "histogram": {"runs": len(runs), "items": sum(x["items"] for x in runs),
                              "runs_with_more_items_than_W+L+1": len(nontrivial),
                              "max_running_seen": max([x["max_running"] for x in runs] or [0]),
                              "work_errors": sum(x["errors"] for x in runs)},
                "samples": [json.dumps(x["cfg"]) for x in runs[:3]],
                "extra": {"stress_runs": len(runs)}})
    # monitor failures reported by the harness itself
    seen = set()
    for f in doc["failures"]:
        sig = "stress:" + f["clause"]
        if sig in seen:
            continue
        seen.add(sig)
        res["failures"].append({"kind": "monitor", "theorem_or_correspondence": "Go-side monitor of " + pid,
                                "case": f, "signature": sig, "found_failing_input": True})
    # data races
    races = re.findall(r"WARNING: DATA RACE\n(.*?)\n==================", err, flags=re.S)
    rseen = set()
    for blk in races:
        fns = re.findall(r"toolchest/(workqueue\.\S+?)\(\)", blk)
        fns = sorted(set(fns))
        sig = "race:" + ",".join(fns[:4])
        if sig in rseen:
            continue
        rseen.add(sig)
        res["failures"].append({"kind": "monitor", "theorem_or_correspondence": "race freedom (go test -race runtime)",
                                "detail": blk[:1800], "signature": sig, "found_failing_input": True})
    # a crash of the process (panic in the queue's goroutines), or a hang
    if rc != 0 and not races:
        m = re.search(r"(panic: .*|fatal error: .*)", err)
        frames = re.findall(r"workqueue\.\(\*Queue\)\.(\w+)", err)
        sig = "crash:%s:%s" % (m.group(1)[:80] if m else "exit %d" % rc, ",".join(sorted(set(frames))[:4]))
        res["failures"].append({"kind": "monitor", "theorem_or_correspondence": "no crash, no hang",
                                "detail": err[-2500:], "signature": sig, "found_failing_input": True})
    return res
