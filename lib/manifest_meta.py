HOOK_COMMITS = ["977e736"]
NOTES = ("All checks: bin/check <ID>. Fix commits made to /repo for genuine defects are listed in known_findings.json "
         "(status fixed); known findings (status known) print KNOWN-FINDING lines. See DESIGN.md.")
NOT_YET = {}
META = {}
