HOOK_COMMITS = []
NOTES = ("All checks: bin/check <ID>. Fix commits made to /repo for genuine defects are listed in known_findings.json "
         "(status fixed); known findings (status known) print KNOWN-FINDING lines. See DESIGN.md.")
NOT_YET = {}
META = {
 "C12": {
  "text": "Coq theorems (Props/C12.v, 13, closed under the global context) state for ALL slices, index ranges, predicates and argument lists that the model of each sliceOps function equals its list/set specification (whole backing array for Remove/Cut/FilterInPlace/Pop; NoDup + exact membership for the set functions, Disjoin = 'exactly one argument contains x'). The model is tied to /repo on every run by executing the real functions (int, string and pointer element types) on every equality pattern up to a length bound plus random inputs and comparing in Coq.",
  "design_ref": "DESIGN.md section 7, C12",
  "note": "Trusted: Coq kernel + vm_compute; the hand-written model (validated by this run's cases only); builtin copy/append/map semantics modelled by contract; result/input aliasing is outside the value-semantics model (inputs are snapshotted by the harness).",
  "technique": "Coq proof of list/set specifications over an executable model + differential correspondence (vm_compute) against the Go code",
 },
}
