// Harness for C12: drives /repo/sliceOps on generated inputs and records what it observed.
package main

import (
	"flag"
	"fmt"
	"math/rand"
	"os"
	"reflect"

	"github.com/rbell/toolchest/sliceOps"
	"verifharness/internal/cw"
)

// element codecs: the model works on Z; the real functions are instantiated at int, string and *cell
type cell struct{ v int }

var cells = func() []*cell {
	r := make([]*cell, 1000)
	for i := range r {
		r[i] = &cell{i}
	}
	return r
}()

type codec[T any] struct {
	name string
	enc  func(int) T
	dec  func(T) int
}

var intC = codec[int]{"int", func(i int) int { return i }, func(i int) int { return i }}
var strC = codec[string]{"string",
	func(i int) string {
		if i == 0 {
			return ""
		}
		return fmt.Sprintf("s%d", i)
	},
	func(s string) int {
		if s == "" {
			return 0
		}
		var i int
		fmt.Sscanf(s, "s%d", &i)
		return i
	}}
var ptrC = codec[*cell]{"ptr",
	func(i int) *cell {
		if i == 0 {
			return nil
		}
		return cells[i]
	},
	func(p *cell) int {
		if p == nil {
			return 0
		}
		return p.v
	}}

func encL[T any](c codec[T], l []int) []T {
	if l == nil {
		return nil
	}
	r := make([]T, len(l))
	for i, x := range l {
		r[i] = c.enc(x)
	}
	return r
}
func decL[T any](c codec[T], l []T) []int {
	r := make([]int, len(l))
	for i, x := range l {
		r[i] = c.dec(x)
	}
	return r
}

// obs is what one call showed us, decoded to ints.
type obs struct {
	Ret      []int
	RetV     int
	Vis      []int
	Backing  []int
	Len      int
	ArgsSame bool
	Panic    string
}

var panicObs = []int{-1000}

func guard(o *obs) {
	if r := recover(); r != nil {
		o.Panic = fmt.Sprint(r)
		o.Ret, o.Vis, o.Backing, o.Len, o.RetV = panicObs, panicObs, panicObs, -1000, -1000
	}
}

// mkslice builds a slice of len(l) over a fresh backing array of len(l)+len(spare) elements
func mkslice[T any](c codec[T], l, spare []int) (arr []T, s []T) {
	arr = make([]T, len(l)+len(spare))
	for i, x := range l {
		arr[i] = c.enc(x)
	}
	for i, x := range spare {
		arr[len(l)+i] = c.enc(x)
	}
	return arr, arr[:len(l):len(arr)]
}

func doRemove[T any](c codec[T], l, spare []int, i, j int) (o obs) {
	defer guard(&o)
	arr, s := mkslice(c, l, spare)
	sliceOps.Remove(&s, i, j)
	return obs{Vis: decL(c, s), Backing: decL(c, arr), Len: len(s)}
}
func doCut[T any](c codec[T], l, spare []int, i, j int) (o obs) {
	defer guard(&o)
	arr, s := mkslice(c, l, spare)
	r := sliceOps.Cut(&s, i, j)
	return obs{Ret: decL(c, r), Vis: decL(c, s), Backing: decL(c, arr), Len: len(s)}
}
func doInsert[T any](c codec[T], l, spare []int, i int, v []int) (o obs) {
	defer guard(&o)
	_, s := mkslice(c, l, spare)
	r := sliceOps.Insert(s, i, encL(c, v)...)
	return obs{Ret: decL(c, r)}
}
func doFilter[T any](c codec[T], l, spare []int, keep map[int]bool) (o obs) {
	defer guard(&o)
	arr, s := mkslice(c, l, spare)
	sliceOps.FilterInPlace(&s, func(x T) bool { return keep[c.dec(x)] })
	return obs{Vis: decL(c, s), Backing: decL(c, arr), Len: len(s)}
}

// stateful predicates (closures with their own variables); mirrored by [spred] in Run/CorrC12.v.
// The elements offered to the predicate are recorded in Ret, in call order.
func doFilterSt[T any](c codec[T], l, spare []int, kind, nn int, set map[int]bool) (o obs) {
	defer guard(&o)
	arr, s := mkslice(c, l, spare)
	st := 0
	offered := []int{}
	sliceOps.FilterInPlace(&s, func(x T) bool {
		e := c.dec(x)
		offered = append(offered, e)
		switch kind {
		case 0: // keep every other element
			st++
			return st%2 == 1
		case 1: // remove only the first element that is in the set
			if st == 0 && set[e] {
				st = 1
				return false
			}
			return true
		case 2: // remove at most nn elements that are in the set
			if st < nn && set[e] {
				st++
				return false
			}
			return true
		case 3: // keep the first nn elements
			st++
			return st <= nn
		default: // membership, inverted on every other call
			st++
			return set[e] != (st%2 == 0)
		}
	})
	return obs{Ret: offered, Vis: decL(c, s), Backing: decL(c, arr), Len: len(s)}
}
func doPush[T any](c codec[T], l, spare []int, v []int) (o obs) {
	defer guard(&o)
	arr, s := mkslice(c, l, spare)
	before := decL(c, arr)
	sliceOps.Push(&s, encL(c, v)...)
	return obs{Ret: decL(c, s), ArgsSame: reflect.DeepEqual(before, decL(c, arr))}
}
func doPop[T any](c codec[T], l, spare []int) (o obs) {
	defer guard(&o)
	arr, s := mkslice(c, l, spare)
	r := sliceOps.Pop(&s)
	return obs{RetV: c.dec(r), Vis: decL(c, s), Backing: decL(c, arr), Len: len(s)}
}

// set functions: arguments get spare capacity too, so an append into an argument would be seen
func mkargs[T any](c codec[T], ss [][]int) (arrs [][]T, args [][]T) {
	for _, l := range ss {
		if l == nil {
			arrs = append(arrs, nil)
			args = append(args, nil)
			continue
		}
		arr := make([]T, len(l)+2)
		for i, x := range l {
			arr[i] = c.enc(x)
		}
		arr[len(l)] = c.enc(97)
		arr[len(l)+1] = c.enc(98)
		arrs = append(arrs, arr)
		args = append(args, arr[:len(l)])
	}
	return
}
func snapshot[T any](c codec[T], arrs [][]T) [][]int {
	r := make([][]int, len(arrs))
	for i, a := range arrs {
		r[i] = decL(c, a)
	}
	return r
}
func doSet[T comparable](c codec[T], fn string, ss [][]int) (o obs) {
	defer guard(&o)
	arrs, args := mkargs(c, ss)
	before := snapshot(c, arrs)
	// the outer slice handed over with `args...` is an input as well: same headers, same order afterwards
	outer := append([][]T(nil), args...)
	var r []T
	switch fn {
	case "distinct":
		r = sliceOps.Distinct(args[0])
	case "union":
		r = sliceOps.Union(args...)
	case "inter":
		r = sliceOps.Intersection(args...)
	case "diff":
		r = sliceOps.Difference(args[0], args[1])
	case "disjoin":
		r = sliceOps.Disjoin(args...)
	}
	return obs{Ret: decL(c, r), ArgsSame: reflect.DeepEqual(before, snapshot(c, arrs)) && sameHeaders(outer, args)}
}

// sameHeaders: b holds, position by position, the very slices a held (same nil-ness, length, capacity and first element)
func sameHeaders[T any](a, b [][]T) bool {
	if len(a) != len(b) {
		return false
	}
	for i := range a {
		if (a[i] == nil) != (b[i] == nil) || len(a[i]) != len(b[i]) || cap(a[i]) != cap(b[i]) {
			return false
		}
		if cap(a[i]) > 0 && &a[i][:1][0] != &b[i][:1][0] {
			return false
		}
	}
	return true
}

type gen struct {
	w   *cw.Writer
	rng *rand.Rand
	typeDisagree int
}

func nz(l []int) []int {
	if l == nil {
		return []int{}
	}
	return l
}

// three instantiations must agree; returns the int observation
func agree(g *gen, a, b, c obs, what string) obs {
	a.Ret, b.Ret, c.Ret = nz(a.Ret), nz(b.Ret), nz(c.Ret)
	a.Vis, b.Vis, c.Vis = nz(a.Vis), nz(b.Vis), nz(c.Vis)
	a.Backing, b.Backing, c.Backing = nz(a.Backing), nz(b.Backing), nz(c.Backing)
	if what == "inter" { // map-iteration order differs between runs: compare as sets in Coq only
		return a
	}
	if !reflect.DeepEqual(a, b) || !reflect.DeepEqual(a, c) {
		g.typeDisagree++
		// make the disagreement visible to the Coq verdict: poison the observation
		a.Ret, a.Vis, a.Backing = panicObs, panicObs, panicObs
		a.Panic = fmt.Sprintf("element types disagree: int=%v string=%v ptr=%v", a, b, c)
	}
	return a
}

func (g *gen) listCase(kind string, l, spare []int, i, j int, v []int, keep []int) {
	var o obs
	key := fmt.Sprint(kind, l, spare, i, j, v, keep)
	desc := map[string]any{"fn": kind, "slice": l, "spare_capacity": spare}
	b := append(append([]int{}, l...), spare...)
	var coq string
	trivial := false
	switch kind {
	case "remove":
		o = agree(g, doRemove(intC, l, spare, i, j), doRemove(strC, l, spare, i, j), doRemove(ptrC, l, spare, i, j), kind)
		coq = fmt.Sprintf("CRemove %s %d %d %d %s %s %s", cw.ZL(b), len(l), i, j, cw.ZL(o.Vis), cw.ZL(o.Backing), cw.Z(o.Len))
		desc["i"], desc["j"] = i, j
		trivial = i == j
	case "cut":
		o = agree(g, doCut(intC, l, spare, i, j), doCut(strC, l, spare, i, j), doCut(ptrC, l, spare, i, j), kind)
		coq = fmt.Sprintf("CCut %s %d %d %d %s %s %s %s", cw.ZL(b), len(l), i, j, cw.ZL(o.Ret), cw.ZL(o.Vis), cw.ZL(o.Backing), cw.Z(o.Len))
		desc["i"], desc["j"] = i, j
		trivial = i == j
	case "insert":
		o = agree(g, doInsert(intC, l, spare, i, v), doInsert(strC, l, spare, i, v), doInsert(ptrC, l, spare, i, v), kind)
		coq = fmt.Sprintf("CInsert %s %d %s %s", cw.ZL(l), i, cw.ZL(v), cw.ZL(o.Ret))
		desc["i"], desc["v"] = i, v
		trivial = len(v) == 0
	case "filter":
		km := map[int]bool{}
		for _, k := range keep {
			km[k] = true
		}
		o = agree(g, doFilter(intC, l, spare, km), doFilter(strC, l, spare, km), doFilter(ptrC, l, spare, km), kind)
		coq = fmt.Sprintf("CFilter %s %s %d %s %s %s", cw.ZL(keep), cw.ZL(b), len(l), cw.ZL(o.Vis), cw.ZL(o.Backing), cw.Z(o.Len))
		desc["keep"] = keep
		trivial = o.Len == len(l)
	case "filterst":
		km := map[int]bool{}
		for _, k := range keep {
			km[k] = true
		}
		o = agree(g, doFilterSt(intC, l, spare, i, j, km), doFilterSt(strC, l, spare, i, j, km), doFilterSt(ptrC, l, spare, i, j, km), kind)
		coq = fmt.Sprintf("CFilterSt %d %d %s %s %d %s %s %s %s", i, j, cw.ZL(keep), cw.ZL(b), len(l), cw.ZL(o.Ret), cw.ZL(o.Vis), cw.ZL(o.Backing), cw.Z(o.Len))
		desc["stateful_predicate"] = []string{"keep every other element", "remove only the first element in the set", "remove at most n elements in the set", "keep the first n elements", "membership inverted on every other call"}[i]
		desc["n"], desc["set"] = j, keep
		trivial = o.Len == len(l)
	case "push":
		o = agree(g, doPush(intC, l, spare, v), doPush(strC, l, spare, v), doPush(ptrC, l, spare, v), kind)
		coq = fmt.Sprintf("CPush %s %s %s %s", cw.ZL(l), cw.ZL(v), cw.ZL(o.Ret), cw.B(o.ArgsSame))
		desc["v"] = v
		trivial = len(v) == 0
	case "pop":
		o = agree(g, doPop(intC, l, spare), doPop(strC, l, spare), doPop(ptrC, l, spare), kind)
		coq = fmt.Sprintf("CPop %s %d %s %s %s %s", cw.ZL(b), len(l), cw.Z(o.RetV), cw.ZL(o.Vis), cw.ZL(o.Backing), cw.Z(o.Len))
		trivial = len(l) == 0
	}
	desc["observed"] = o
	g.w.Add(cw.Case{Coq: coq, Desc: desc, Tags: []string{kind}, Key: key, Trivial: trivial})
}

func (g *gen) setCase(fn string, ss [][]int) {
	o := agree(g, doSet(intC, fn, ss), doSet(strC, fn, ss), doSet(ptrC, fn, ss), fn)
	zs := make([][]int, len(ss))
	hasDup, hasNil := false, false
	for i, s := range ss {
		zs[i] = nz(s)
		if s == nil {
			hasNil = true
		}
		seen := map[int]bool{}
		for _, x := range s {
			if seen[x] {
				hasDup = true
			}
			seen[x] = true
		}
	}
	var coq string
	switch fn {
	case "distinct":
		coq = fmt.Sprintf("CDistinct %s %s %s", cw.ZL(zs[0]), cw.ZL(o.Ret), cw.B(o.ArgsSame))
	case "union":
		coq = fmt.Sprintf("CUnion %s %s %s", cw.ZLL(zs), cw.ZL(o.Ret), cw.B(o.ArgsSame))
	case "inter":
		coq = fmt.Sprintf("CInter %s %s %s", cw.ZLL(zs), cw.ZL(o.Ret), cw.B(o.ArgsSame))
	case "diff":
		coq = fmt.Sprintf("CDiff %s %s %s %s", cw.ZL(zs[0]), cw.ZL(zs[1]), cw.ZL(o.Ret), cw.B(o.ArgsSame))
	case "disjoin":
		coq = fmt.Sprintf("CDisjoin %s %s %s", cw.ZLL(zs), cw.ZL(o.Ret), cw.B(o.ArgsSame))
	}
	tags := []string{fn, fmt.Sprintf("%s/args=%d", fn, len(ss))}
	if hasDup {
		tags = append(tags, "dup-in-arg")
	}
	if hasNil {
		tags = append(tags, "nil-arg")
	}
	g.w.Add(cw.Case{Coq: coq, Desc: map[string]any{"fn": fn, "args": ss, "observed": o},
		Tags: tags, Key: fmt.Sprint(fn, ss), Trivial: !hasDup && len(ss) < 2})
}

// restricted growth strings of length n (every equality pattern exactly once), values 1..
func rgs(n int, f func([]int)) {
	a := make([]int, n)
	var rec func(i, mx int)
	rec = func(i, mx int) {
		if i == n {
			f(append([]int{}, a...))
			return
		}
		for v := 1; v <= mx+1; v++ {
			a[i] = v
			m := mx
			if v > mx {
				m = v
			}
			rec(i+1, m)
		}
	}
	rec(0, 0)
}

// all ways to cut l into k consecutive (possibly empty) parts
func splits(l []int, k int, f func([][]int)) {
	parts := make([][]int, k)
	var rec func(idx, from int)
	rec = func(idx, from int) {
		if idx == k-1 {
			parts[idx] = append([]int{}, l[from:]...)
			f(append([][]int{}, parts...))
			return
		}
		for to := from; to <= len(l); to++ {
			parts[idx] = append([]int{}, l[from:to]...)
			rec(idx+1, to)
		}
	}
	rec(0, 0)
}

func seq(n int) []int {
	r := make([]int, n)
	for i := range r {
		r[i] = i + 1
	}
	return r
}

func main() {
	seed := flag.Int64("seed", 1, "")
	tier := flag.String("tier", "quick", "")
	out := flag.String("out", "", "")
	flag.Parse()
	g := &gen{w: cw.New(*out, "CorrC12"), rng: rand.New(rand.NewSource(*seed))}
	L, N, R := 5, 5, 600
	if *tier == "thorough" {
		L, N, R = 7, 6, 6000
	}
	spares := [][]int{{}, {91}, {91, 92, 93}}
	// exhaustive list operations
	for n := 0; n <= L; n++ {
		l := seq(n)
		for _, sp := range spares {
			for i := 0; i <= n; i++ {
				for j := i; j <= n; j++ {
					g.listCase("remove", l, sp, i, j, nil, nil)
					g.listCase("cut", l, sp, i, j, nil, nil)
				}
				for vn := 0; vn <= 4; vn++ {
					v := make([]int, vn)
					for k := range v {
						v[k] = 50 + k
					}
					g.listCase("insert", l, sp, i, 0, v, nil)
				}
			}
			g.listCase("pop", l, sp, 0, 0, nil, nil)
			for vn := 0; vn <= 2; vn++ {
				g.listCase("push", l, sp, 0, 0, seq(vn+50)[50:], nil)
			}
			for mask := 0; mask < 1<<n; mask++ {
				keep := []int{}
				for k := 0; k < n; k++ {
					if mask&(1<<k) != 0 {
						keep = append(keep, k+1)
					}
				}
				g.listCase("filter", l, sp, 0, 0, nil, keep)
				if mask < 4 || mask == 1<<n-1 {
					for pk := 0; pk < 5; pk++ {
						g.listCase("filterst", l, sp, pk, 1+mask%2, nil, keep)
					}
				}
			}
		}
	}
	// exhaustive set operations over all equality patterns of total length <= N
	for n := 0; n <= N; n++ {
		rgs(n, func(p []int) {
			g.setCase("distinct", [][]int{p})
			for k := 1; k <= 3; k++ {
				splits(p, k, func(ss [][]int) {
					g.setCase("union", ss)
					g.setCase("inter", ss)
					g.setCase("disjoin", ss)
					if k == 2 {
						g.setCase("diff", ss)
					}
				})
			}
		})
	}
	// zero arguments, nil arguments
	g.setCase("union", nil)
	g.setCase("inter", nil)
	g.setCase("disjoin", nil)
	for _, fn := range []string{"union", "inter", "disjoin"} {
		g.setCase(fn, [][]int{nil})
		g.setCase(fn, [][]int{nil, {1, 1}})
		g.setCase(fn, [][]int{{1, 2, 1}, nil, {2}})
	}
	g.setCase("distinct", [][]int{nil})
	g.setCase("diff", [][]int{nil, nil})
	g.setCase("diff", [][]int{{1, 1}, nil})
	// random: longer inputs, small alphabets so that duplicates and overlaps are the norm
	rl := func(maxLen, alpha int) []int {
		n := g.rng.Intn(maxLen + 1)
		if n == 0 && g.rng.Intn(2) == 0 {
			return nil
		}
		r := make([]int, n)
		for i := range r {
			r[i] = 1 + g.rng.Intn(alpha)
		}
		return r
	}
	for it := 0; it < R; it++ {
		alpha := 2 + g.rng.Intn(6)
		switch g.rng.Intn(10) {
		case 0:
			l := nz(rl(12, alpha))
			i := g.rng.Intn(len(l) + 1)
			j := i + g.rng.Intn(len(l)-i+1)
			sp := spares[g.rng.Intn(3)]
			g.listCase("remove", l, sp, i, j, nil, nil)
			g.listCase("cut", l, sp, i, j, nil, nil)
		case 1:
			l := nz(rl(12, alpha))
			keep := []int{}
			for k := 1; k <= alpha; k++ {
				if g.rng.Intn(2) == 0 {
					keep = append(keep, k)
				}
			}
			g.listCase("filter", l, spares[g.rng.Intn(3)], 0, 0, nil, keep)
			g.listCase("filterst", l, spares[g.rng.Intn(3)], g.rng.Intn(5), g.rng.Intn(4), nil, keep)
		case 2:
			l := nz(rl(10, alpha))
			g.listCase("insert", l, spares[g.rng.Intn(3)], g.rng.Intn(len(l)+1), 0, nz(rl(5, alpha)), nil)
			g.listCase("push", l, spares[g.rng.Intn(3)], 0, 0, nz(rl(5, alpha)), nil)
			g.listCase("pop", l, spares[g.rng.Intn(3)], 0, 0, nil, nil)
		default:
			k := 1 + g.rng.Intn(5)
			ss := make([][]int, k)
			for i := range ss {
				ss[i] = rl(8, alpha)
			}
			fn := []string{"union", "inter", "disjoin", "inter", "disjoin"}[g.rng.Intn(5)]
			g.setCase(fn, ss)
			if k >= 2 {
				g.setCase("diff", ss[:2])
			}
			g.setCase("distinct", ss[:1])
		}
	}
	// large inputs: lengths beyond any small-size special case (9..140 elements; thresholds such as 8, 16, 32, 64,
	// 128 are the usual places for a strategy switch), alphabets from "almost all duplicates" to "almost all distinct"
	rlen := func(n, alpha int) []int {
		r := make([]int, n)
		for i := range r {
			r[i] = 1 + g.rng.Intn(alpha)
		}
		return r
	}
	bigSizes := []int{9, 10, 12, 15, 16, 17, 20, 31, 32, 33, 40, 63, 64, 65, 70, 127, 128, 129, 140}
	for it := 0; it < R/4+10; it++ {
		n1, n2 := bigSizes[g.rng.Intn(len(bigSizes))], bigSizes[g.rng.Intn(len(bigSizes))]
		if it%3 == 0 {
			n1 = 1 + g.rng.Intn(8) // one small, one large argument
		}
		alpha := []int{3, n2 / 2, n2, 2 * n2}[g.rng.Intn(4)] + 1
		a, b := rlen(n1, alpha), rlen(n2, alpha)
		if it%2 == 0 {
			a, b = b, a
		}
		g.setCase("diff", [][]int{a, b})
		g.setCase("diff", [][]int{b, a})
		third := rlen(bigSizes[g.rng.Intn(len(bigSizes))], alpha)
		for _, fn := range []string{"union", "inter", "disjoin"} {
			g.setCase(fn, [][]int{a, b})
			g.setCase(fn, [][]int{a, b, third})
		}
		g.setCase("distinct", [][]int{b})
		if it%4 == 0 {
			l := nz(rlen(n2, alpha))
			i := g.rng.Intn(len(l) + 1)
			j := i + g.rng.Intn(len(l)-i+1)
			sp := spares[g.rng.Intn(3)]
			g.listCase("remove", l, sp, i, j, nil, nil)
			g.listCase("cut", l, sp, i, j, nil, nil)
			g.listCase("insert", l, sp, i, 0, nz(rlen(n1, alpha)), nil)
			g.listCase("push", l, sp, 0, 0, nz(rlen(n1, alpha)), nil)
			g.listCase("pop", l, sp, 0, 0, nil, nil)
			keep := []int{}
			for k := 1; k <= alpha; k++ {
				if g.rng.Intn(2) == 0 {
					keep = append(keep, k)
				}
			}
			g.listCase("filter", l, sp, 0, 0, nil, keep)
			g.listCase("filterst", l, sp, g.rng.Intn(5), g.rng.Intn(4), nil, keep)
		}
	}
	g.w.Extra["element_type_disagreements"] = g.typeDisagree
	g.w.Extra["scope"] = fmt.Sprintf("list ops: all lengths<=%d x spare capacity {0,1,3} x all i<=j / all keep-subsets; set ops: all equality patterns of total length<=%d cut into 1..3 arguments; %d random rounds; %d rounds with large arguments (9..140 elements)", L, N, R, R/4+10)
	if err := g.w.Flush(); err != nil {
		fmt.Fprintln(os.Stderr, err)
		os.Exit(2)
	}
}
