package main

// -selftest: unit tests of the specification, the checker and the shrinker.

import (
	"fmt"
	"math/rand"
)

// h builds an operation with explicit result and interval.
func h(t int, code opCode, args []int, ret []int, call, ret2 int64) Op {
	o := mkOp(t, code, args...)
	if ret != nil {
		o.Ret = ret
	}
	o.Call, o.Return = call, ret2
	return o
}

func runSelfTest() bool {
	ok := true
	chk := newChecker(2000000)
	expect := func(name string, ops []Op, want linResult) {
		got := chk.check(ops)
		bf := linFail
		if bruteForce(ops) {
			bf = linOK
		}
		status := "PASS"
		if got != want || bf != want {
			status = "FAIL"
			ok = false
		}
		fmt.Printf("%s  %-58s want=%v checker=%v bruteforce=%v\n", status, name, want == linOK, got == linOK, bf == linOK)
	}
	I := func(x ...int) []int { return x }

	// --- SafeMap
	expect("Set(1,5) || Get(1)->5 overlapping", []Op{
		h(0, opSet, I(1, 5), nil, 1, 4), h(1, opGet, I(1), I(5), 2, 3)}, linOK)
	expect("Set(1,5) || Get(1)->0 overlapping", []Op{
		h(0, opSet, I(1, 5), nil, 1, 4), h(1, opGet, I(1), I(0), 2, 3)}, linOK)
	expect("Set(1,5) returns; then Get(1)->0", []Op{
		h(0, opSet, I(1, 5), nil, 1, 2), h(1, opGet, I(1), I(0), 3, 4)}, linFail)
	expect("Set(1,5) returns; then Get(1)->5; Has->1; Contains(2)->0", []Op{
		h(0, opSet, I(1, 5), nil, 1, 2), h(1, opGet, I(1), I(5), 3, 4), h(1, opHas, I(1), I(1), 5, 6),
		h(0, opContains, I(2), I(0), 5, 6)}, linOK)
	expect("F7 shape: pre Set(1,901); GetOrAdd(1,101)->0 || Delete(1)", []Op{
		h(-1, opSet, I(1, 901), nil, 1, 2), h(0, opGetOrAdd, I(1, 101), I(0), 3, 8), h(1, opDelete, I(1), nil, 4, 6)}, linFail)
	expect("pre Set(1,901); GetOrAdd(1,101)->101 || Delete(1)", []Op{
		h(-1, opSet, I(1, 901), nil, 1, 2), h(0, opGetOrAdd, I(1, 101), I(101), 3, 8), h(1, opDelete, I(1), nil, 4, 6)}, linOK)
	expect("pre Set(1,901); GetOrAdd(1,101)->901 || Delete(1)", []Op{
		h(-1, opSet, I(1, 901), nil, 1, 2), h(0, opGetOrAdd, I(1, 101), I(901), 3, 8), h(1, opDelete, I(1), nil, 4, 6)}, linOK)
	expect("pre Set(1,901); Delete(1) returns; GetOrAdd(1,101)->901", []Op{
		h(-1, opSet, I(1, 901), nil, 1, 2), h(1, opDelete, I(1), nil, 3, 4), h(0, opGetOrAdd, I(1, 101), I(901), 5, 6)}, linFail)
	expect("GetOrAdd(1,101)->101 || GetOrAdd(1,201)->201 (two winners)", []Op{
		h(0, opGetOrAdd, I(1, 101), I(101), 1, 4), h(1, opGetOrAdd, I(1, 201), I(201), 2, 3)}, linFail)
	expect("GetOrAdd(1,101)->201 || GetOrAdd(1,201)->201", []Op{
		h(0, opGetOrAdd, I(1, 101), I(201), 1, 4), h(1, opGetOrAdd, I(1, 201), I(201), 2, 3)}, linOK)
	expect("Set(1,5); Set(2,6); Len->1", []Op{
		h(0, opSet, I(1, 5), nil, 1, 2), h(0, opSet, I(2, 6), nil, 3, 4), h(1, opLen, I(), I(1), 5, 6)}, linFail)
	expect("Set(1,5); Set(2,6) || Len->1; Keys->[1 2]; Values->[5 6]; CopyToMap", []Op{
		h(0, opSet, I(1, 5), nil, 1, 2), h(0, opSet, I(2, 6), nil, 3, 6), h(1, opLen, I(), I(1), 4, 5),
		h(1, opKeys, I(), I(1, 2), 7, 8), h(1, opValues, I(), I(5, 6), 9, 10), h(0, opCopyToMap, I(), I(1, 5, 2, 6), 9, 10)}, linOK)
	expect("Set(1,5); Clear() returns; Keys->[1]", []Op{
		h(0, opSet, I(1, 5), nil, 1, 2), h(1, opClear, I(), nil, 3, 4), h(0, opKeys, I(), I(1), 5, 6)}, linFail)
	expect("Set(1,5); ClearAndResize(4) || Get(1)->5; then TranslateToMapOf->{}", []Op{
		h(0, opSet, I(1, 5), nil, 1, 2), h(1, opClearAndResize, I(4), nil, 3, 6), h(0, opGet, I(1), I(5), 4, 5),
		h(0, opTranslate, I(), I(), 7, 8)}, linOK)
	expect("stale read: Set(1,5); Set(1,6) returns; Get(1)->5", []Op{
		h(0, opSet, I(1, 5), nil, 1, 2), h(0, opSet, I(1, 6), nil, 3, 4), h(1, opGet, I(1), I(5), 5, 6)}, linFail)

	// --- SyncMap
	expect("LoadOrStore(1,101)->(101,false) || LoadOrStore(1,201)->(201,false)", []Op{
		h(0, opLoadOrStore, I(1, 101), I(101, 0), 1, 4), h(1, opLoadOrStore, I(1, 201), I(201, 0), 2, 3)}, linFail)
	expect("LoadOrStore(1,101)->(101,false) || LoadOrStore(1,201)->(101,true)", []Op{
		h(0, opLoadOrStore, I(1, 101), I(101, 0), 1, 4), h(1, opLoadOrStore, I(1, 201), I(101, 1), 2, 3)}, linOK)
	expect("Store(1,7); CAS(1,7,8)->true || CAS(1,7,9)->true", []Op{
		h(-1, opStore, I(1, 7), nil, 1, 2), h(0, opCAS, I(1, 7, 8), I(1), 3, 6), h(1, opCAS, I(1, 7, 9), I(1), 4, 5)}, linFail)
	expect("Store(1,7); CAS(1,7,8)->true || CAS(1,8,9)->true; Load->(9,true)", []Op{
		h(-1, opStore, I(1, 7), nil, 1, 2), h(0, opCAS, I(1, 7, 8), I(1), 3, 6), h(1, opCAS, I(1, 8, 9), I(1), 4, 5),
		h(1, opLoad, I(1), I(9, 1), 7, 8)}, linOK)
	expect("Store(1,7); CAD(1,7)->true || LoadAndDelete(1)->(7,true)", []Op{
		h(-1, opStore, I(1, 7), nil, 1, 2), h(0, opCAD, I(1, 7), I(1), 3, 6), h(1, opLoadAndDelete, I(1), I(7, 1), 4, 5)}, linFail)
	expect("Store(1,7); CAD(1,7)->true || LoadAndDelete(1)->(0,false)", []Op{
		h(-1, opStore, I(1, 7), nil, 1, 2), h(0, opCAD, I(1, 7), I(1), 3, 6), h(1, opLoadAndDelete, I(1), I(0, 0), 4, 5)}, linOK)
	expect("Swap(1,5)->(0,false); Swap(1,6)->(5,true); Delete(1); Load->(0,false)", []Op{
		h(0, opSwap, I(1, 5), I(0, 0), 1, 2), h(1, opSwap, I(1, 6), I(5, 1), 3, 4), h(0, opSDelete, I(1), nil, 5, 6),
		h(1, opLoad, I(1), I(0, 0), 7, 8)}, linOK)
	expect("stored nil (0): Store(1,0) returns; Load(1)->(0,true)", []Op{
		h(0, opStore, I(1, 0), nil, 1, 2), h(1, opLoad, I(1), I(0, 1), 3, 4)}, linOK)
	expect("stored nil (0): Store(1,0) returns; Load(1)->(0,false)", []Op{
		h(0, opStore, I(1, 0), nil, 1, 2), h(1, opLoad, I(1), I(0, 0), 3, 4)}, linFail)
	expect("stored nil (0): Store(0,0); CAS(0,0,3)->true; Load(0)->(3,true)", []Op{
		h(0, opStore, I(0, 0), nil, 1, 2), h(1, opCAS, I(0, 0, 3), I(1), 3, 4), h(1, opLoad, I(0), I(3, 1), 5, 6)}, linOK)
	expect("absent key: CAS(1,0,3)->true", []Op{h(1, opCAS, I(1, 0, 3), I(1), 3, 4)}, linFail)
	pan := h(1, opLoad, I(1), nil, 3, 4)
	pan.Panic = &PanicInfo{Msg: "x"}
	expect("panicked op = wildcard result: Store(1,0); Load(1)->PANIC", []Op{h(0, opStore, I(1, 0), nil, 1, 2), pan}, linOK)

	// --- shrinker and blame
	f7 := []Op{
		h(-1, opSet, I(1, 901), nil, 1, 2), h(-1, opSet, I(2, 902), nil, 3, 4),
		h(0, opGet, I(2), I(902), 5, 6), h(0, opGetOrAdd, I(1, 101), I(0), 7, 14), h(1, opDelete, I(1), nil, 8, 10),
		h(2, opSet, I(2, 301), nil, 8, 9), h(2, opHas, I(1), I(0), 11, 12), h(1, opGet, I(2), I(301), 15, 16),
	}
	expect("F7 shape with noise on another key", f7, linFail)
	core := shrink(chk, f7)
	bl := culprit(chk, core)
	good := chk.check(core) == linFail && len(core) <= 3 && bl != nil && bl.code == opGetOrAdd
	for _, o := range core {
		good = good && o.key == 1
	}
	if !good {
		ok = false
		fmt.Printf("FAIL  shrink(F7+noise) = %s\n", fmtHistory(core))
	} else {
		fmt.Printf("PASS  shrink(F7+noise) = %s ; blamed %s\n", fmtHistory(core), bl.Name)
	}

	// --- randomised cross-check of the checker against the brute-force reference
	rng := rand.New(rand.NewSource(12345))
	agree, linCnt, nonlinCnt := 0, 0, 0
	const cross = 30000
	for it := 0; it < cross; it++ {
		ops := randomHistory(rng, it%2 == 0)
		a := chk.check(ops) == linOK
		b := bruteForce(ops)
		if a == b {
			agree++
		} else if ok {
			ok = false
			fmt.Printf("FAIL  checker=%v bruteforce=%v on %s\n", a, b, fmtHistory(ops))
		}
		if b {
			linCnt++
		} else {
			nonlinCnt++
			// the shrinker must return a non-linearizable sub-history, also for the reference
			c := shrink(chk, ops)
			if bruteForce(c) {
				ok = false
				fmt.Printf("FAIL  shrink produced a linearizable core: %s\n", fmtHistory(c))
			}
		}
	}
	st := "PASS"
	if agree != cross || linCnt == 0 || nonlinCnt == 0 {
		st, ok = "FAIL", false
	}
	fmt.Printf("%s  random cross-check: %d/%d verdicts agree with brute force (%d linearizable, %d not)\n", st, agree, cross, linCnt, nonlinCnt)

	// --- histories produced by a sequential execution of the specification are
	// linearizable, however the intervals are widened
	bad := 0
	for it := 0; it < 5000; it++ {
		if chk.check(widenedSequential(rng, it%2 == 0)) != linOK {
			bad++
		}
	}
	st = "PASS"
	if bad != 0 {
		st, ok = "FAIL", false
	}
	fmt.Printf("%s  widened sequential histories (up to 24 ops): %d/5000 rejected\n", st, bad)

	if ok {
		fmt.Println("selftest: OK")
	} else {
		fmt.Println("selftest: FAILED")
	}
	return ok
}

var (
	safeCodes = []opCode{opContains, opHas, opGet, opGetOrAdd, opSet, opDelete, opClear, opClearAndResize, opLen, opKeys, opValues, opCopyToMap, opTranslate}
	syncCodes = []opCode{opLoad, opStore, opSwap, opSDelete, opLoadOrStore, opLoadAndDelete, opCAS, opCAD}
)

func randomOp(rng *rand.Rand, safe bool, t int) Op {
	codes := syncCodes
	if safe {
		codes = safeCodes
	}
	code := codes[rng.Intn(len(codes))]
	k, v := rng.Intn(2), rng.Intn(3)
	if safe {
		v++
	}
	switch code {
	case opGetOrAdd, opSet, opStore, opSwap, opLoadOrStore:
		return mkOp(t, code, k, v)
	case opCAS:
		return mkOp(t, code, k, rng.Intn(3), v)
	case opCAD:
		return mkOp(t, code, k, rng.Intn(3))
	case opClear, opLen, opKeys, opValues, opCopyToMap, opTranslate:
		return mkOp(t, code)
	case opClearAndResize:
		return mkOp(t, code, 3)
	}
	return mkOp(t, code, k)
}

// specResult returns the result the sequential specification prescribes for
// op in state st; written independently of applySpec's result comparison.
func specResult(st State, op *Op) []int {
	k := op.key
	one := func(a int) []int { return []int{a} }
	two := func(a int, b bool) []int { return []int{a, b2i(b)} }
	cur := func() int {
		if st.p[k] {
			return int(st.v[k])
		}
		return 0
	}
	switch op.code {
	case opContains, opHas:
		return one(b2i(st.p[k]))
	case opGet:
		return one(cur())
	case opGetOrAdd:
		if st.p[k] {
			return one(cur())
		}
		return one(op.Args[1])
	case opLen:
		n := 0
		for i := range st.p {
			n += b2i(st.p[i])
		}
		return one(n)
	case opKeys, opValues, opCopyToMap, opTranslate:
		out := []int{}
		for i := range st.p {
			if st.p[i] {
				switch op.code {
				case opKeys:
					out = append(out, i)
				case opValues:
					out = append(out, int(st.v[i]))
				default:
					out = append(out, i, int(st.v[i]))
				}
			}
		}
		if op.code == opValues {
			for i := range out { // tiny insertion sort, independent of package sort
				for j := i; j > 0 && out[j] < out[j-1]; j-- {
					out[j], out[j-1] = out[j-1], out[j]
				}
			}
		}
		return out
	case opLoad, opSwap, opLoadAndDelete:
		return two(cur(), st.p[k])
	case opLoadOrStore:
		if st.p[k] {
			return two(cur(), true)
		}
		return two(op.Args[1], false)
	case opCAS, opCAD:
		return one(b2i(st.p[k] && cur() == op.Args[1]))
	}
	return []int{}
}

// randomHistory: 2-3 threads, <= 6 operations, random intervals, results taken
// from a sequential execution in a RANDOM order (which may or may not be
// compatible with the real-time order), sometimes corrupted.
func randomHistory(rng *rand.Rand, safe bool) []Op {
	T := 2 + rng.Intn(2)
	n := 2 + rng.Intn(5)
	ops := make([]Op, n)
	clock := make([]int64, T)
	tick := int64(0)
	for i := range ops {
		t := rng.Intn(T)
		ops[i] = randomOp(rng, safe, t)
		tick += int64(1 + rng.Intn(3))
		call := tick
		if call <= clock[t] {
			call = clock[t] + 1
		}
		ops[i].Call = call
		ops[i].Return = call + int64(1+rng.Intn(8))
		clock[t] = ops[i].Return
		if ops[i].Return > tick && rng.Intn(2) == 0 {
			tick = ops[i].Return
		}
	}
	// make timestamps distinct, as the logical clock does
	for i := range ops {
		ops[i].Call = ops[i].Call*16 + int64(i)
		ops[i].Return = ops[i].Return*16 + int64(i)
	}
	st := State{}
	for _, i := range rng.Perm(n) {
		ops[i].Ret = specResult(st, &ops[i])
		st, _ = applySpec(st, &ops[i])
	}
	if rng.Intn(4) == 0 {
		i := rng.Intn(n)
		if len(ops[i].Ret) > 0 {
			ops[i].Ret[0] = rng.Intn(3)
		}
	}
	return ops
}

// widenedSequential: a sequential run of the specification (so a
// linearization exists by construction) whose intervals are stretched
// backwards/forwards as far as per-thread program order allows.
func widenedSequential(rng *rand.Rand, safe bool) []Op {
	T := 2 + rng.Intn(3)
	n := 4 + rng.Intn(21)
	ops := make([]Op, n)
	st := State{}
	lastRet := make([]int64, T)
	for i := range ops {
		t := rng.Intn(T)
		ops[i] = randomOp(rng, safe, t)
		ops[i].Ret = specResult(st, &ops[i])
		st, _ = applySpec(st, &ops[i])
		lin := int64(i+1) * 100 // linearization point
		call := lin - int64(rng.Intn(400))
		if call <= lastRet[t] {
			call = lastRet[t] + 1
		}
		ops[i].Call = call
		ops[i].Return = lin + int64(1+rng.Intn(90))
		lastRet[t] = ops[i].Return
	}
	return ops
}
