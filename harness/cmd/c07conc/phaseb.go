package main

// Phase B: targeted GetOrAdd ‖ Delete (‖ Set) loops.  Nobody ever stores the
// zero value, so GetOrAdd must never return it (F7).  SyncMap analogue:
// LoadOrStore ‖ Delete (‖ Store) as a sanity check of the primitive.

import (
	"fmt"
	"sort"
	"sync"
	"sync/atomic"
	"time"

	"github.com/rbell/toolchest/generic"
	"github.com/rbell/toolchest/storage"
)

// goaMap is the integer-coded view of a map used by the targeted loop.
type goaMap interface {
	goa(k, v int) int // GetOrAdd / LoadOrStore, decoded result value
	del(k int)
	set(k, v int)
}

type safeGoa[K comparable, V any] struct {
	m *storage.SafeMap[K, V]
	c codec[K, V]
}

func (s *safeGoa[K, V]) goa(k, v int) int { return s.c.decV(s.m.GetOrAdd(s.c.encK(k), s.c.encV(v))) }
func (s *safeGoa[K, V]) del(k int)        { s.m.Delete(s.c.encK(k)) }
func (s *safeGoa[K, V]) set(k, v int)     { s.m.Set(s.c.encK(k), s.c.encV(v)) }

type syncGoa[K comparable, V any] struct {
	m *generic.SyncMap[K, V]
	c codec[K, V]
}

func (s *syncGoa[K, V]) goa(k, v int) int {
	a, _ := s.m.LoadOrStore(s.c.encK(k), s.c.encV(v))
	return s.c.decV(a)
}
func (s *syncGoa[K, V]) del(k int)    { s.m.Delete(s.c.encK(k)) }
func (s *syncGoa[K, V]) set(k, v int) { s.m.Store(s.c.encK(k), s.c.encV(v)) }

type goaVariant struct {
	object, family   string
	goaName, setName string
	setter           bool
	mk               func() goaMap
	done             bool // a reproduced failure was reported: no more trials
}

func goaVariants() []*goaVariant {
	ii := codec[int, int]{idInt, idInt, idInt, idInt}
	ss := codec[string, string]{strEnc, strDec, strEnc, strDec}
	mkSafeII := func() goaMap { return &safeGoa[int, int]{storage.NewSafeMap[int, int](0), ii} }
	mkSafeSS := func() goaMap { return &safeGoa[string, string]{storage.NewSafeMap[string, string](0), ss} }
	mkSyncII := func() goaMap { return &syncGoa[int, int]{generic.NewSyncMap[int, int](), ii} }
	return []*goaVariant{
		{object: "SafeMap[int,int]", family: "SafeMap", goaName: "GetOrAdd", setName: "Set", mk: mkSafeII},
		{object: "SafeMap[int,int]", family: "SafeMap", goaName: "GetOrAdd", setName: "Set", setter: true, mk: mkSafeII},
		{object: "SafeMap[string,string]", family: "SafeMap", goaName: "GetOrAdd", setName: "Set", mk: mkSafeSS},
		{object: "SafeMap[string,string]", family: "SafeMap", goaName: "GetOrAdd", setName: "Set", setter: true, mk: mkSafeSS},
		{object: "SyncMap[int,int]", family: "SyncMap", goaName: "LoadOrStore", setName: "Store", mk: mkSyncII},
		{object: "SyncMap[int,int]", family: "SyncMap", goaName: "LoadOrStore", setName: "Store", setter: true, mk: mkSyncII},
	}
}

type ring struct {
	buf [32]Op
	n   int
}

func (r *ring) put(o Op) { r.buf[r.n%len(r.buf)] = o; r.n++ }
func (r *ring) all() []Op {
	var out []Op
	for i := 0; i < len(r.buf) && i < r.n; i++ {
		out = append(out, r.buf[i])
	}
	return out
}

// guarded runs one call of the code under test and converts a panic into data.
func guarded(f func()) (p *PanicInfo) {
	defer func() {
		if x := recover(); x != nil {
			p = capturePanic(x)
		}
	}()
	f()
	return nil
}

type trialResult struct {
	iters, hits, misses, deletes, sets int64
	zero                               *Op // the GetOrAdd that returned the zero value
	panicked                           *Op
	history                            []Op
}

const goaKey = 1

func runGoaTrial(v *goaVariant, iters int) *trialResult {
	m := v.mk()
	res := &trialResult{}
	var clk int64
	var stop int32
	var rG, rD, rS ring
	var wg sync.WaitGroup
	start := make(chan struct{})
	side := func(r *ring, cnt *int64, name string, call func(i int) []int) {
		defer wg.Done()
		<-start
		for i := 0; atomic.LoadInt32(&stop) == 0; i++ {
			o := Op{T: 1, Name: name, Args: []int{goaKey}, Ret: []int{}}
			if name != "Delete" {
				o.T = 2
			}
			p := guarded(func() {
				o.Call = atomic.AddInt64(&clk, 1)
				o.Args = call(i)
				o.Return = atomic.AddInt64(&clk, 1)
			})
			*cnt++
			if p != nil {
				o.Panic, o.Return = p, atomic.AddInt64(&clk, 1)
				r.put(o)
				atomic.StoreInt32(&stop, 1)
				return
			}
			r.put(o)
		}
	}
	wg.Add(2)
	go func() {
		defer wg.Done()
		<-start
		for i := 0; i < iters && atomic.LoadInt32(&stop) == 0; i++ {
			off := i + 1 // fresh, non-zero
			o := Op{T: 0, Name: v.goaName, Args: []int{goaKey, off}, Ret: []int{}}
			var r int
			p := guarded(func() {
				o.Call = atomic.AddInt64(&clk, 1)
				r = m.goa(goaKey, off)
				o.Return = atomic.AddInt64(&clk, 1)
			})
			res.iters++
			if p != nil {
				o.Panic, o.Return = p, atomic.AddInt64(&clk, 1)
				rG.put(o)
				res.panicked = &o
				break
			}
			o.Ret = []int{r}
			rG.put(o)
			switch {
			case r == 0:
				res.zero = &o
			case r == off:
				res.misses++
			default:
				res.hits++
			}
			if res.zero != nil {
				break
			}
		}
		atomic.StoreInt32(&stop, 1)
	}()
	go side(&rD, &res.deletes, "Delete", func(int) []int { m.del(goaKey); return []int{goaKey} })
	if v.setter {
		wg.Add(1)
		go side(&rS, &res.sets, v.setName, func(i int) []int { w := 1000000 + i; m.set(goaKey, w); return []int{goaKey, w} })
	}
	close(start)
	wg.Wait()
	bad := res.zero
	if bad == nil {
		bad = res.panicked
	}
	for _, r := range []*ring{&rD, &rS} {
		for _, o := range r.all() {
			if o.Panic != nil && bad == nil {
				oc := o
				res.panicked, bad = &oc, &oc
			}
		}
	}
	if bad != nil {
		// the failing call, everything that overlapped it, and the last call
		// of every thread that completed before it
		h := []Op{}
		for _, r := range []*ring{&rG, &rD, &rS} {
			var last *Op
			for _, o := range r.all() {
				o := o
				if o.Call == bad.Call {
					continue
				}
				if o.Return > bad.Call && o.Call < bad.Return {
					h = append(h, o)
				} else if o.Return < bad.Call && (last == nil || o.Return > last.Return) {
					last = &o
				}
			}
			if last != nil {
				h = append(h, *last)
			}
		}
		h = append(h, *bad)
		sort.SliceStable(h, func(i, j int) bool { return h[i].Call < h[j].Call })
		res.history = h
	}
	return res
}

type phaseBStats struct {
	trials, iterations, unreproduced int64
	histogram                        map[string]int64
}

func (s *phaseBStats) account(v *goaVariant, r *trialResult) {
	s.trials++
	s.iterations += r.iters
	p := "PhaseB." + v.family + "."
	s.histogram[p+v.goaName+"/hit"] += r.hits
	s.histogram[p+v.goaName+"/miss"] += r.misses
	if r.zero != nil {
		s.histogram[p+v.goaName+"/zero"]++
	}
	s.histogram[p+"Delete"] += r.deletes
	if r.sets > 0 {
		s.histogram[p+v.setName] += r.sets
	}
}

// runPhaseB runs trials round-robin over the variants, on `workers` parallel
// workers, until the budget is used (or every variant has a reported failure).
// Reproduction rule: a failing trial is re-run up to 3 more times and is
// reported only if at least one re-run fails as well.
func runPhaseB(budget time.Duration, iters int, workers int, col *collector, beat *int64) *phaseBStats {
	st := &phaseBStats{histogram: map[string]int64{}}
	deadline := time.Now().Add(budget)
	vars := goaVariants()
	var mu sync.Mutex // guards st and the done flags
	var next int64 = -1
	run := func(v *goaVariant) (*trialResult, int64) {
		r := runGoaTrial(v, iters)
		atomic.StoreInt64(beat, time.Now().UnixNano())
		mu.Lock()
		defer mu.Unlock()
		st.account(v, r)
		return r, st.trials
	}
	var wg sync.WaitGroup
	for w := 0; w < workers; w++ {
		wg.Add(1)
		go func() {
			defer wg.Done()
			for time.Now().Before(deadline) {
				n := atomic.AddInt64(&next, 1)
				v := vars[int(n)%len(vars)]
				mu.Lock()
				live, skip := false, v.done
				for _, x := range vars {
					live = live || !x.done
				}
				mu.Unlock()
				if !live {
					return
				}
				if skip {
					continue
				}
				r, trial := run(v)
				if r.panicked != nil {
					sig := r.panicked.Panic.signature()
					col.add(&Failure{Kind: "panic", Object: v.object, Signature: sig, Phase: "B", Round: trial,
						Detail: fmt.Sprintf("%s%v panicked: %s", r.panicked.Name, r.panicked.Args, r.panicked.Panic.Msg),
						Panic:  r.panicked.Panic, History: r.history})
					mu.Lock()
					v.done = true
					mu.Unlock()
					continue
				}
				if r.zero == nil {
					continue
				}
				rep := 0
				for i := 0; i < 3; i++ {
					if rr, _ := run(v); rr.zero != nil {
						rep++
					}
				}
				mu.Lock()
				already := v.done
				if rep == 0 {
					st.unreproduced++
				} else {
					v.done = true
				}
				mu.Unlock()
				if rep == 0 || already {
					continue
				}
				others := "only Delete(1) ran concurrently"
				if v.setter {
					others = fmt.Sprintf("only Delete(1) and %s(1,w) with w != 0 ran concurrently", v.setName)
				}
				col.add(&Failure{Kind: "goa-zero", Object: v.object, Signature: "goa-zero:" + v.family + "." + v.goaName,
					Phase: "B", Round: trial, Reproduced: &rep,
					Detail: fmt.Sprintf("trial %d, iteration %d: %s(%d,%d) returned 0 (zero value) while %s; 0 was never stored",
						trial, r.iters, v.goaName, goaKey, r.zero.Args[1], others),
					History: r.history})
			}
		}()
	}
	wg.Wait()
	return st
}
