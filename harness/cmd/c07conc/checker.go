package main

// Wing–Gong style linearizability checker with memoisation on
// (set of linearized operations, abstract state), plus a SOUND shrinker.

import (
	"fmt"
	"math"
	"sort"
	"strings"
)

type linResult int

const (
	linOK linResult = iota
	linFail
	linTimeout
)

type memoKey struct {
	mask uint64
	st   State
}

type checker struct {
	ops         []Op
	memo        map[memoKey]struct{}
	states      int64
	budget      int64
	full        uint64
	totalStates int64
}

func newChecker(budget int64) *checker {
	return &checker{memo: make(map[memoKey]struct{}), budget: budget}
}

// check decides whether the (complete) history ops has a linearization.
func (c *checker) check(ops []Op) linResult {
	n := len(ops)
	if n == 0 {
		return linOK
	}
	if n > 64 {
		return linTimeout
	}
	c.ops = ops
	c.states = 0
	clear(c.memo)
	if n == 64 {
		c.full = math.MaxUint64
	} else {
		c.full = (uint64(1) << uint(n)) - 1
	}
	r := c.dfs(0, State{})
	c.totalStates += c.states
	return r
}

func (c *checker) dfs(mask uint64, st State) linResult {
	if mask == c.full {
		return linOK
	}
	key := memoKey{mask, st}
	if _, seen := c.memo[key]; seen {
		return linFail
	}
	c.states++
	if c.states > c.budget {
		return linTimeout
	}
	// An operation is minimal iff no other not yet linearized operation
	// returned strictly before it was called (timestamps of the logical
	// clock are unique anyway).
	minRet := int64(math.MaxInt64)
	for i := range c.ops {
		if mask&(1<<uint(i)) == 0 && c.ops[i].Return < minRet {
			minRet = c.ops[i].Return
		}
	}
	for i := range c.ops {
		if mask&(1<<uint(i)) != 0 || c.ops[i].Call > minRet {
			continue
		}
		ns, ok := applySpec(st, &c.ops[i])
		if !ok {
			continue
		}
		if r := c.dfs(mask|1<<uint(i), ns); r != linFail {
			return r
		}
	}
	c.memo[key] = struct{}{}
	return linFail
}

func without(ops []Op, i int) []Op {
	out := make([]Op, 0, len(ops)-1)
	out = append(out, ops[:i]...)
	return append(out, ops[i+1:]...)
}

// shrink returns a sub-history that is still non-linearizable, using only
// reductions that are SOUND (sub-history non-linearizable => full history
// non-linearizable), so that the core is a genuine witness and not an artefact
// of having deleted the cause of an observation:
//   - dropping operations that are read-only in the specification (removing a
//     read from a linearization leaves a linearization of the rest);
//   - when only per-key operations remain, projecting on one key (locality of
//     linearizability, Herlihy & Wing: a map restricted to per-key operations
//     is a product of independent per-key objects).
func shrink(c *checker, ops []Op) []Op {
	cur := append([]Op{}, ops...)
	dropReads := func() {
		for i := len(cur) - 1; i >= 0; i-- {
			if !opTable[cur[i].code].readOnly {
				continue
			}
			cand := without(cur, i)
			if c.check(cand) == linFail {
				cur = cand
			}
		}
	}
	dropReads()
	hasGlobal := false
	for i := range cur {
		if opTable[cur[i].code].global {
			hasGlobal = true
		}
	}
	if !hasGlobal {
		for k := 0; k < maxKeys; k++ {
			var proj []Op
			for i := range cur {
				if cur[i].key == k {
					proj = append(proj, cur[i])
				}
			}
			if len(proj) > 0 && len(proj) < len(cur) && c.check(proj) == linFail {
				cur = proj
				break
			}
		}
		dropReads()
	}
	return cur
}

// culprit picks the operation to blame in a (shrunk) non-linearizable history:
// an operation whose removal alone makes the history linearizable, preferring
// one that returned a result, and among those the one called last.
func culprit(c *checker, core []Op) *Op {
	best := -1
	for i := range core {
		if core[i].T < 0 {
			continue
		}
		if c.check(without(core, i)) != linOK {
			continue
		}
		if best < 0 {
			best = i
			continue
		}
		bi, ci := len(core[best].Ret) > 0, len(core[i].Ret) > 0
		if (ci && !bi) || (ci == bi && core[i].Call > core[best].Call) {
			best = i
		}
	}
	if best >= 0 {
		return &core[best]
	}
	// No single operation explains it (e.g. two GetOrAdd both returned 0):
	// remove result-bearing operations, latest call first, until the rest is
	// linearizable, and blame the one whose removal tipped the balance.
	rest := append([]Op{}, core...)
	for {
		j := -1
		for i := range rest {
			if rest[i].T >= 0 && len(rest[i].Ret) > 0 && (j < 0 || rest[i].Call > rest[j].Call) {
				j = i
			}
		}
		if j < 0 {
			return nil
		}
		removed := rest[j]
		rest = without(rest, j)
		if c.check(rest) == linOK {
			for i := range core {
				if core[i].Call == removed.Call {
					return &core[i]
				}
			}
			return nil
		}
	}
}

func sortByCall(ops []Op) {
	sort.SliceStable(ops, func(i, j int) bool { return ops[i].Call < ops[j].Call })
}

func fmtOp(o *Op) string {
	s := fmt.Sprintf("T%d %s%v", o.T, o.Name, o.Args)
	if o.Panic != nil {
		s += "->PANIC"
	} else if len(o.Ret) > 0 {
		s += fmt.Sprintf("->%v", o.Ret)
	}
	return s + fmt.Sprintf("@[%d,%d]", o.Call, o.Return)
}

func fmtHistory(ops []Op) string {
	parts := make([]string, len(ops))
	for i := range ops {
		parts[i] = fmtOp(&ops[i])
	}
	return strings.Join(parts, "; ")
}

// bruteForce is an independent reference checker used only by -selftest:
// enumerate ALL permutations, keep those that respect the real-time order,
// run the specification sequentially.
func bruteForce(ops []Op) bool {
	n := len(ops)
	perm := make([]int, n)
	for i := range perm {
		perm[i] = i
	}
	var rec func(i int) bool
	valid := func() bool {
		for a := 0; a < n; a++ {
			for b := a + 1; b < n; b++ {
				// perm[a] is ordered before perm[b]: forbidden if perm[b] returned before perm[a] was called
				if ops[perm[b]].Return < ops[perm[a]].Call {
					return false
				}
			}
		}
		st := State{}
		for _, i := range perm {
			var ok bool
			st, ok = applySpec(st, &ops[i])
			if !ok {
				return false
			}
		}
		return true
	}
	rec = func(i int) bool {
		if i == n {
			return valid()
		}
		for j := i; j < n; j++ {
			perm[i], perm[j] = perm[j], perm[i]
			if rec(i + 1) {
				perm[i], perm[j] = perm[j], perm[i]
				return true
			}
			perm[i], perm[j] = perm[j], perm[i]
		}
		return false
	}
	return rec(0)
}
