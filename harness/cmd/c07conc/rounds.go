package main

// Phase A and Phase C: many short rounds of small random concurrent histories.

import (
	"fmt"
	"hash/fnv"
	"math/rand"
	"runtime"
	"sync"
	"sync/atomic"
	"time"
)

type weighted struct {
	code opCode
	w    int
}

var safeProfiles = [][]weighted{
	{{opContains, 1}, {opHas, 1}, {opGet, 3}, {opGetOrAdd, 4}, {opSet, 3}, {opDelete, 3}, {opClear, 1},
		{opClearAndResize, 1}, {opLen, 1}, {opKeys, 1}, {opValues, 1}, {opCopyToMap, 1}, {opTranslate, 1}},
	{{opGetOrAdd, 5}, {opDelete, 4}, {opSet, 1}, {opGet, 1}},
	{{opGetOrAdd, 5}, {opGet, 2}, {opHas, 1}, {opContains, 1}, {opLen, 1}, {opKeys, 1}, {opValues, 1}, {opCopyToMap, 1}},
}

var syncProfiles = [][]weighted{
	{{opLoad, 3}, {opStore, 3}, {opSwap, 2}, {opSDelete, 2}, {opLoadOrStore, 3}, {opLoadAndDelete, 2}, {opCAS, 3}, {opCAD, 2}},
	{{opLoadOrStore, 4}, {opSDelete, 3}, {opLoadAndDelete, 2}, {opLoad, 1}},
	{{opCAS, 4}, {opCAD, 3}, {opStore, 2}, {opSwap, 2}, {opLoad, 1}},
}

var syncProfilesC = [][]weighted{
	{{opLoad, 3}, {opStore, 3}, {opSwap, 2}, {opSDelete, 2}, {opLoadOrStore, 3}, {opLoadAndDelete, 2}, {opCAS, 2},
		{opCAD, 2}, {opRange, 2}, {opIterate, 2}},
	{{opStore, 3}, {opLoad, 3}, {opRange, 2}, {opIterate, 2}, {opSwap, 1}, {opLoadOrStore, 2}, {opLoadAndDelete, 1}},
}

func pickWeighted(rng *rand.Rand, p []weighted) opCode {
	tot := 0
	for _, x := range p {
		tot += x.w
	}
	r := rng.Intn(tot)
	for _, x := range p {
		if r < x.w {
			return x.code
		}
		r -= x.w
	}
	return p[0].code
}

type plan struct {
	in          *inst
	phaseC      bool
	keys        []int
	prefill     []Op
	progs       [][]Op
	spinBarrier bool
	capacity    int
}

const (
	prefillBase = 900 // pre-filled value of key k is 900+k (Phase A)
	freshBase   = 800 // CompareAnd* "old" values that nobody ever stores
)

// genPlan builds the programs of one round.  The round-level choices come from
// the generator of (seed, phase, round, thread=-1), each thread's program from
// the generator of (seed, phase, round, thread).
func genPlan(seed int64, phaseTag int64, round int64, insts []*inst, maxN int, phaseC bool) *plan {
	rng := newRand(seed, phaseTag, round, -1)
	tot := 0
	for _, in := range insts {
		tot += in.weight
	}
	r := rng.Intn(tot)
	var in *inst
	for _, x := range insts {
		if r < x.weight {
			in = x
			break
		}
		r -= x.weight
	}
	pl := &plan{in: in, phaseC: phaseC}
	nk := 2
	switch x := rng.Intn(100); {
	case x < 15:
		nk = 1
	case x < 60:
		nk = 2
	default:
		nk = 3
	}
	for i := 0; i < nk; i++ {
		pl.keys = append(pl.keys, in.keyBase+i)
	}
	pl.spinBarrier = rng.Intn(4) != 0
	pl.capacity = rng.Intn(3) * 4
	storeOp := opSet
	if in.family == "SyncMap" {
		storeOp = opStore
	}
	if rng.Intn(2) == 0 { // sometimes pre-filled with a few keys
		for _, k := range pl.keys {
			if rng.Intn(3) != 0 {
				v := prefillBase + k
				if in.nilVals {
					v = rng.Intn(4)
				}
				pl.prefill = append(pl.prefill, mkOp(-1, storeOp, k, v))
			}
		}
	}
	var profiles [][]weighted
	switch {
	case phaseC:
		profiles = syncProfilesC
	case in.family == "SafeMap":
		profiles = safeProfiles
	default:
		profiles = syncProfiles
	}
	profile := profiles[0]
	if rng.Intn(2) == 0 {
		profile = profiles[rng.Intn(len(profiles))]
	}
	T := 2 + rng.Intn(3)
	pl.progs = make([][]Op, T)
	for t := 0; t < T; t++ {
		trng := newRand(seed, phaseTag, round, int64(t))
		n := 1 + trng.Intn(maxN)
		prog := make([]Op, 0, n)
		for i := 0; i < n; i++ {
			prog = append(prog, genOp(trng, pl, profile, t, i))
		}
		pl.progs[t] = prog
	}
	return pl
}

func genOp(rng *rand.Rand, pl *plan, profile []weighted, t, i int) Op {
	code := pickWeighted(rng, profile)
	k := pl.keys[rng.Intn(len(pl.keys))]
	val := (t+1)*100 + i + 1 // non-zero and unique per call within the round
	if pl.in.nilVals {
		val = rng.Intn(4) // 0 is nil
	}
	var op Op
	switch code {
	case opGetOrAdd, opSet, opStore, opSwap, opLoadOrStore:
		op = mkOp(t, code, k, val)
	case opClear, opLen, opKeys, opValues, opCopyToMap, opTranslate:
		op = mkOp(t, code)
	case opClearAndResize:
		op = mkOp(t, code, rng.Intn(9))
	case opRange, opIterate:
		op = mkOp(t, code, rng.Intn(3)) // stop after n visited pairs, 0 = visit everything
	case opCAS, opCAD:
		old := freshBase + t*10 + i
		mode := uint8(0)
		if pl.in.nilVals {
			old = rng.Intn(4)
		} else {
			switch x := rng.Intn(4); {
			case x < 2:
				mode = 1
			case x < 3:
				mode = 2
			}
		}
		if code == opCAS {
			op = mkOp(t, code, k, old, val)
		} else {
			op = mkOp(t, code, k, old)
		}
		op.oldMode = mode
		op.pick = rng.Uint32()
	default: // Contains, Has, Get, Delete, Load, SyncMap.Delete, LoadAndDelete
		op = mkOp(t, code, k)
	}
	switch x := rng.Intn(100); {
	case x < 60:
		op.delay = 0
	case x < 75:
		op.delay = 1
	default:
		op.delay = uint8(2 + rng.Intn(60))
	}
	return op
}

// sharedVals: values stored so far in the round, per key, so that
// CompareAnd* can be given an "old" that has a chance to match.  Accessed
// under its own mutex strictly BEFORE the timed call.
type sharedVals struct {
	mu   sync.Mutex
	vals [maxKeys][]int
}

func (s *sharedVals) add(k, v int) {
	s.mu.Lock()
	s.vals[k] = append(s.vals[k], v)
	s.mu.Unlock()
}

func (s *sharedVals) pick(k int, r uint32) (int, bool) {
	s.mu.Lock()
	defer s.mu.Unlock()
	if len(s.vals[k]) == 0 {
		return 0, false
	}
	return s.vals[k][int(r)%len(s.vals[k])], true
}

func offeredValue(op *Op) (int, bool) {
	switch op.code {
	case opGetOrAdd, opSet, opStore, opSwap, opLoadOrStore:
		return op.Args[1], true
	case opCAS:
		return op.Args[2], true
	}
	return 0, false
}

// runRound executes the plan on a fresh map and returns the full history.
func runRound(pl *plan) []Op {
	tg := pl.in.mk(pl.capacity)
	var clk int64
	shared := &sharedVals{}
	for i := range pl.prefill {
		op := &pl.prefill[i]
		tg.exec(op, &clk)
		if v, ok := offeredValue(op); ok {
			shared.add(op.key, v)
		}
	}
	T := len(pl.progs)
	start := make(chan struct{})
	var arrived int32
	var wg sync.WaitGroup
	wg.Add(T)
	for t := 0; t < T; t++ {
		go func(prog []Op) {
			defer wg.Done()
			var lastSeen [maxKeys]int
			<-start
			if pl.spinBarrier {
				atomic.AddInt32(&arrived, 1)
				for spins := 0; atomic.LoadInt32(&arrived) < int32(T); spins++ {
					if spins > 5000 {
						runtime.Gosched()
					}
				}
			}
			for i := range prog {
				op := &prog[i]
				switch {
				case op.delay == 1:
					runtime.Gosched()
				case op.delay >= 2:
					for j := 0; j < int(op.delay); j++ {
						_ = atomic.LoadInt64(&clk)
					}
				}
				if !pl.phaseC {
					if op.oldMode == 1 {
						if v, ok := shared.pick(op.key, op.pick); ok {
							op.Args[1] = v
						}
					} else if op.oldMode == 2 && lastSeen[op.key] != 0 {
						op.Args[1] = lastSeen[op.key]
					}
					if v, ok := offeredValue(op); ok {
						shared.add(op.key, v)
					}
				}
				tg.exec(op, &clk)
				if op.key >= 0 && len(op.Ret) == 2 && op.Ret[1] != 0 { // Load/Swap/LoadOrStore/LoadAndDelete hit
					lastSeen[op.key] = op.Ret[0]
				}
			}
		}(pl.progs[t])
	}
	close(start)
	wg.Wait()
	hist := append([]Op{}, pl.prefill...)
	for _, p := range pl.progs {
		hist = append(hist, p...)
	}
	sortByCall(hist)
	return hist
}

// ---- per-lane statistics ---------------------------------------------------------

type laneStats struct {
	rounds, histories, ops            int64
	maxLen                            int
	overlapping, nontrivial           int64
	histogram                         map[string]int64
	byObject                          map[string]int64
	distinct                          map[uint64]struct{}
	distinctNT                        map[uint64]struct{} // shapes of the non-trivial histories only
	states, timeouts                  int64
	oneWinnerChecks, rangePairs       int64
	nonlin, panics                    int64
	rangeCalls, rangeCallsWithContent int64
	distinctCapped                    bool
}

func newLaneStats() *laneStats {
	return &laneStats{histogram: map[string]int64{}, byObject: map[string]int64{}, distinct: map[uint64]struct{}{}, distinctNT: map[uint64]struct{}{}}
}

const distinctCapPerLane = 400000

func overlap(a, b *Op) bool { return a.Call < b.Return && b.Call < a.Return }

func analyseShape(ls *laneStats, pl *plan, hist []Op) {
	ls.rounds++
	ls.byObject[pl.in.object]++
	ls.ops += int64(len(hist))
	if len(hist) > ls.maxLen {
		ls.maxLen = len(hist)
	}
	mut := false
	for i := range hist {
		op := &hist[i]
		ls.histogram[pl.in.family+"."+op.Name+outcome(op)]++
		if op.T >= 0 && !opTable[op.code].readOnly {
			mut = true
		}
	}
	ov, sameKey := false, false
	for i := range hist {
		for j := i + 1; j < len(hist); j++ {
			a, b := &hist[i], &hist[j]
			if a.T == b.T || a.T < 0 || b.T < 0 || !overlap(a, b) {
				continue
			}
			ov = true
			if a.key == b.key || a.key < 0 || b.key < 0 {
				sameKey = true
			}
		}
	}
	if ov {
		ls.overlapping++
	}
	nt := ov && sameKey && mut && len(pl.progs) >= 2
	if nt {
		ls.nontrivial++
	}
	if len(ls.distinct) < distinctCapPerLane {
		h := fnv.New64a()
		var b [3]byte
		emit := func(ops []Op) {
			for i := range ops {
				b[0], b[1], b[2] = byte(ops[i].code), byte(ops[i].key+1), 0
				h.Write(b[:])
			}
			h.Write([]byte{0xff})
		}
		h.Write([]byte(pl.in.object))
		emit(pl.prefill)
		for _, p := range pl.progs {
			emit(p)
		}
		ls.distinct[h.Sum64()] = struct{}{}
		if nt {
			ls.distinctNT[h.Sum64()] = struct{}{}
		}
	} else {
		ls.distinctCapped = true
	}
}

// ---- analysis of one round -------------------------------------------------------

func analyseRound(ls *laneStats, chk *checker, col *collector, phase string, round int64, pl *plan, hist []Op) {
	analyseShape(ls, pl, hist)
	in := pl.in

	// 1. panics of the code under test
	for i := range hist {
		if p := hist[i].Panic; p != nil {
			ls.panics++
			sig := p.signature()
			if col.wants(sig) {
				col.add(&Failure{Kind: "panic", Object: in.object, Signature: sig, Phase: phase, Round: round,
					Detail: fmt.Sprintf("%s%v panicked: %s (nil key/value shown as 0)", hist[i].Name, hist[i].Args, p.Msg),
					Panic:  p, History: hist})
			} else {
				col.suppress(sig)
			}
		}
	}

	// 2. linearizability
	lin := make([]Op, 0, len(hist))
	for i := range hist {
		if !opTable[hist[i].code].noLin {
			lin = append(lin, hist[i])
		}
	}
	res := chk.check(lin)
	ls.histories++
	switch res {
	case linTimeout:
		ls.timeouts++
	case linFail:
		ls.nonlin++
		core := shrink(chk, lin)
		opName := "multi"
		var blame *Op
		if blame = culprit(chk, core); blame != nil {
			opName = blame.Name
		}
		sig := "nonlinearizable:" + in.family + "." + opName
		if col.wants(sig) {
			d := fmt.Sprintf("no linearization exists for this history of %d operations; sound core of %d operations: %s",
				len(lin), len(core), fmtHistory(core))
			if blame != nil {
				d += "; operation whose result cannot be explained: " + fmtOp(blame)
			}
			col.add(&Failure{Kind: "nonlinearizable", Object: in.object, Signature: sig, Phase: phase, Round: round,
				Detail: d, Core: core, History: hist})
		} else {
			col.suppress(sig)
		}
	}

	// 3. one-winner monitor (SafeMap): on a key that nobody sets or removes,
	// all GetOrAdd results agree and are an offered or the pre-filled value.
	if in.family == "SafeMap" {
		oneWinner(ls, col, phase, round, pl, hist)
	}

	// 4. Range/Iterate only visit pairs that somebody stored in this round.
	if pl.phaseC {
		rangeInvented(ls, col, phase, round, pl, hist)
	}
}

func oneWinner(ls *laneStats, col *collector, phase string, round int64, pl *plan, hist []Op) {
	for _, k := range pl.keys {
		disturbed, pre := false, 0
		var goas []*Op
		for i := range hist {
			op := &hist[i]
			if op.T < 0 {
				if op.key == k {
					pre = op.Args[1]
				}
				continue
			}
			switch op.code {
			case opClear, opClearAndResize:
				disturbed = true
			case opSet, opDelete:
				if op.key == k {
					disturbed = true
				}
			case opGetOrAdd:
				if op.key == k {
					if op.Panic != nil {
						disturbed = true
					}
					goas = append(goas, op)
				}
			}
		}
		if disturbed || len(goas) == 0 {
			continue
		}
		ls.oneWinnerChecks++
		bad := ""
		w := goas[0].Ret[0]
		legal := pre != 0 && w == pre
		for _, g := range goas {
			if g.Ret[0] != w {
				bad = fmt.Sprintf("GetOrAdd(%d,.) returned both %d and %d although nobody sets or removes key %d", k, w, g.Ret[0], k)
			}
			if pre == 0 && g.Args[1] == w {
				legal = true
			}
		}
		if bad == "" && !legal {
			bad = fmt.Sprintf("GetOrAdd(%d,.) returned %d which is neither an offered value nor the pre-filled value (%d; 0 = none)", k, w, pre)
		}
		if bad != "" {
			sig := "one-winner:SafeMap.GetOrAdd"
			if col.wants(sig) {
				col.add(&Failure{Kind: "one-winner", Object: pl.in.object, Signature: sig, Phase: phase, Round: round, Detail: bad, History: hist})
			} else {
				col.suppress(sig)
			}
		}
	}
}

func rangeInvented(ls *laneStats, col *collector, phase string, round int64, pl *plan, hist []Op) {
	stored := map[[2]int]bool{}
	for i := range hist {
		if v, ok := offeredValue(&hist[i]); ok {
			stored[[2]int{hist[i].key, v}] = true
		}
	}
	for i := range hist {
		op := &hist[i]
		if op.code != opRange && op.code != opIterate {
			continue
		}
		ls.rangeCalls++
		if len(op.Ret) > 0 {
			ls.rangeCallsWithContent++
		}
		for j := 0; j+1 < len(op.Ret); j += 2 {
			ls.rangePairs++
			if !stored[[2]int{op.Ret[j], op.Ret[j+1]}] {
				sig := "range-invented:SyncMap." + op.Name
				if col.wants(sig) {
					col.add(&Failure{Kind: "range-invented", Object: pl.in.object, Signature: sig, Phase: phase, Round: round,
						Detail:  fmt.Sprintf("%s visited (%d,%d) which nobody stored in this round", op.Name, op.Ret[j], op.Ret[j+1]),
						History: hist})
				} else {
					col.suppress(sig)
				}
			}
		}
	}
}

// ---- lanes -------------------------------------------------------------------------

type phaseCfg struct {
	name     string
	tag      int64
	budget   time.Duration
	insts    []*inst
	maxN     int
	phaseC   bool
	lanes    int
	chkLimit int64
}

// runLanes runs rounds on cfg.lanes independent lanes until the wall-clock
// budget is used.  Returns the merged statistics and whether the watchdog had
// to abandon the phase (no round completed for more than 60 s).
func runLanes(seed int64, cfg phaseCfg, col *collector) (*laneStats, bool) {
	deadline := time.Now().Add(cfg.budget)
	var beat int64 = time.Now().UnixNano()
	done := make(chan *laneStats, cfg.lanes)
	for l := 0; l < cfg.lanes; l++ {
		go func(l int) {
			ls := newLaneStats()
			chk := newChecker(cfg.chkLimit)
			for i := int64(0); time.Now().Before(deadline); i++ {
				round := int64(l) + int64(cfg.lanes)*i
				pl := genPlan(seed, cfg.tag, round, cfg.insts, cfg.maxN, cfg.phaseC)
				hist := runRound(pl)
				analyseRound(ls, chk, col, cfg.name, round, pl, hist)
				atomic.StoreInt64(&beat, time.Now().UnixNano())
			}
			ls.states = chk.totalStates
			done <- ls
		}(l)
	}
	total := newLaneStats()
	tick := time.NewTicker(500 * time.Millisecond)
	defer tick.Stop()
	for got := 0; got < cfg.lanes; {
		select {
		case ls := <-done:
			got++
			mergeStats(total, ls)
		case <-tick.C:
			if time.Since(time.Unix(0, atomic.LoadInt64(&beat))) > 60*time.Second {
				return total, true
			}
		}
	}
	return total, false
}

func mergeStats(dst, src *laneStats) {
	dst.rounds += src.rounds
	dst.histories += src.histories
	dst.ops += src.ops
	if src.maxLen > dst.maxLen {
		dst.maxLen = src.maxLen
	}
	dst.overlapping += src.overlapping
	dst.nontrivial += src.nontrivial
	for k, v := range src.histogram {
		dst.histogram[k] += v
	}
	for k, v := range src.byObject {
		dst.byObject[k] += v
	}
	for k := range src.distinct {
		dst.distinct[k] = struct{}{}
	}
	for k := range src.distinctNT {
		dst.distinctNT[k] = struct{}{}
	}
	dst.states += src.states
	dst.timeouts += src.timeouts
	dst.oneWinnerChecks += src.oneWinnerChecks
	dst.rangePairs += src.rangePairs
	dst.nonlin += src.nonlin
	dst.panics += src.panics
	dst.rangeCalls += src.rangeCalls
	dst.rangeCallsWithContent += src.rangeCallsWithContent
	dst.distinctCapped = dst.distinctCapped || src.distinctCapped
}
