package main

// Adapters from integer-coded operations to the code under test.  EVERY call of
// the code under test happens inside exec(), which recovers panics.

import (
	"fmt"
	"math/rand"
	"path/filepath"
	"regexp"
	"runtime"
	"runtime/debug"
	"sort"
	"strconv"
	"strings"
	"sync/atomic"

	"github.com/rbell/toolchest/generic"
	"github.com/rbell/toolchest/storage"
)

const libPath = "github.com/rbell/toolchest"

// ---- deterministic randomness ------------------------------------------------

// smSource is a splitmix64 rand.Source64: rand.NewSource costs several
// microseconds of seeding, too much for one source per goroutine per round.
type smSource struct{ s uint64 }

func (s *smSource) Uint64() uint64 {
	s.s += 0x9e3779b97f4a7c15
	z := s.s
	z = (z ^ (z >> 30)) * 0xbf58476d1ce4e5b9
	z = (z ^ (z >> 27)) * 0x94d049bb133111eb
	return z ^ (z >> 31)
}
func (s *smSource) Int63() int64    { return int64(s.Uint64() >> 1) }
func (s *smSource) Seed(seed int64) { s.s = uint64(seed) }

// newRand derives a generator from the global seed and a path (phase, round, thread, ...).
func newRand(seed int64, path ...int64) *rand.Rand {
	src := &smSource{s: uint64(seed)}
	h := src.Uint64()
	for _, p := range path {
		src.s = h ^ (uint64(p)+0x632be59bd9b4e019)*0x9e3779b97f4a7c15
		h = src.Uint64()
	}
	src.s = h
	return rand.New(src)
}

// ---- panic capture -------------------------------------------------------------

var (
	reDigits   = regexp.MustCompile(`0x[0-9a-fA-F]+|[0-9]+`)
	reTypeArgs = regexp.MustCompile(`\[[^\]]*\]`)
	reClosure  = regexp.MustCompile(`(\.func[0-9]+|\.[0-9]+|-range[0-9]+)+$`)
	libRoots   []string // directories of the library checkout (from the build info: replace directive)
)

func init() {
	if bi, ok := debug.ReadBuildInfo(); ok {
		for _, d := range bi.Deps {
			if d.Path == libPath && d.Replace != nil && filepath.IsAbs(d.Replace.Path) {
				libRoots = append(libRoots, filepath.Clean(d.Replace.Path)+"/")
			}
		}
	}
}

// isLibFrame: the frame executes library code.  Library closures inlined into
// the harness carry a harness function name (e.g.
// main.(*syncTarget[...]).exec.(*SyncMap[...]).Iterate.2-range1), so the source
// file decides as well.
func isLibFrame(f *runtime.Frame) bool {
	if strings.Contains(f.Function, libPath) || strings.Contains(f.File, libPath+"@") {
		return true
	}
	for _, r := range libRoots {
		if strings.HasPrefix(f.File, r) {
			return true
		}
	}
	return strings.HasSuffix(f.File, "/generic/syncmap.go") || strings.HasSuffix(f.File, "/storage/safeMap.go")
}

// libFuncName normalises a library frame's function name for signatures so
// that it does not depend on inlining decisions: "<package dir>.<function or
// method name>" without receiver, type arguments and closure suffixes, e.g.
// generic.Load, generic.Range, storage.GetOrAdd.
func libFuncName(f *runtime.Frame) string {
	fn := reClosure.ReplaceAllString(reTypeArgs.ReplaceAllString(f.Function, ""), "")
	if i := strings.LastIndex(fn, "."); i >= 0 {
		fn = fn[i+1:]
	}
	return filepath.Base(filepath.Dir(f.File)) + "." + fn
}

func shortFile(f string) string {
	parts := strings.Split(f, "/")
	if len(parts) > 2 {
		parts = parts[len(parts)-2:]
	}
	return strings.Join(parts, "/")
}

func capturePanic(x any) *PanicInfo {
	var msg string
	if e, ok := x.(error); ok {
		msg = e.Error()
	} else {
		msg = fmt.Sprint(x)
	}
	pi := &PanicInfo{Msg: msg, Frames: []string{}}
	pcs := make([]uintptr, 64)
	n := runtime.Callers(1, pcs)
	frames := runtime.CallersFrames(pcs[:n])
	for {
		f, more := frames.Next()
		if isLibFrame(&f) {
			if pi.fn == "" {
				pi.fn = libFuncName(&f)
			}
			if len(pi.Frames) < 5 {
				pi.Frames = append(pi.Frames, fmt.Sprintf("%s %s:%d", f.Function, shortFile(f.File), f.Line))
			}
		}
		if !more {
			break
		}
	}
	if pi.fn == "" {
		pi.fn = "<no-library-frame>"
	}
	return pi
}

func (p *PanicInfo) signature() string {
	m := reDigits.ReplaceAllString(p.Msg, "N")
	if len(m) > 100 {
		m = m[:100]
	}
	return "panic:" + p.fn + ":" + m
}

// recoverInto is deferred directly by exec.
func recoverInto(op *Op, clk *int64) {
	if x := recover(); x != nil {
		op.Return = atomic.AddInt64(clk, 1)
		op.Panic = capturePanic(x)
	}
}

// ---- codecs -------------------------------------------------------------------

type codec[K comparable, V any] struct {
	encK func(int) K
	decK func(K) int
	encV func(int) V
	decV func(V) int
}

func idInt(i int) int { return i }

func strEnc(i int) string {
	if i == 0 {
		return ""
	}
	return "s" + strconv.Itoa(i)
}

func strDec(s string) int {
	if s == "" {
		return 0
	}
	if len(s) > 1 && s[0] == 's' {
		if n, err := strconv.Atoi(s[1:]); err == nil {
			return n
		}
	}
	return -1
}

func anyBox(i int) any { return i } // no nil at all (Phase A)

func anyNilEnc(i int) any { // 0 <-> nil (Phase C)
	if i == 0 {
		return nil
	}
	return i
}

func anyDec(a any) int {
	if a == nil {
		return 0
	}
	if n, ok := a.(int); ok {
		return n
	}
	return -1
}

// ---- targets ------------------------------------------------------------------

type target interface {
	// exec performs op on the map: stamps Call immediately before and Return
	// immediately after the call from the logical clock, fills Ret, and
	// records a panic instead of propagating it.
	exec(op *Op, clk *int64)
}

type safeTarget[K comparable, V any] struct {
	m *storage.SafeMap[K, V]
	c codec[K, V]
}

func newSafeTarget[K comparable, V any](c codec[K, V]) func(capacity int) target {
	return func(capacity int) target {
		return &safeTarget[K, V]{m: storage.NewSafeMap[K, V](capacity), c: c}
	}
}

func flattenPairs(p [][2]int) []int {
	sort.Slice(p, func(i, j int) bool {
		if p[i][0] != p[j][0] {
			return p[i][0] < p[j][0]
		}
		return p[i][1] < p[j][1]
	})
	out := make([]int, 0, 2*len(p))
	for _, kv := range p {
		out = append(out, kv[0], kv[1])
	}
	return out
}

func (s *safeTarget[K, V]) exec(op *Op, clk *int64) {
	defer recoverInto(op, clk)
	m, c := s.m, &s.c
	switch op.code {
	case opContains:
		k := c.encK(op.Args[0])
		op.Call = atomic.AddInt64(clk, 1)
		r := m.Contains(k)
		op.Return = atomic.AddInt64(clk, 1)
		op.Ret = []int{b2i(r)}
	case opHas:
		k := c.encK(op.Args[0])
		op.Call = atomic.AddInt64(clk, 1)
		r := m.Has(k)
		op.Return = atomic.AddInt64(clk, 1)
		op.Ret = []int{b2i(r)}
	case opGet:
		k := c.encK(op.Args[0])
		op.Call = atomic.AddInt64(clk, 1)
		r := m.Get(k)
		op.Return = atomic.AddInt64(clk, 1)
		op.Ret = []int{c.decV(r)}
	case opGetOrAdd:
		k, v := c.encK(op.Args[0]), c.encV(op.Args[1])
		op.Call = atomic.AddInt64(clk, 1)
		r := m.GetOrAdd(k, v)
		op.Return = atomic.AddInt64(clk, 1)
		op.Ret = []int{c.decV(r)}
	case opSet:
		k, v := c.encK(op.Args[0]), c.encV(op.Args[1])
		op.Call = atomic.AddInt64(clk, 1)
		m.Set(k, v)
		op.Return = atomic.AddInt64(clk, 1)
	case opDelete:
		k := c.encK(op.Args[0])
		op.Call = atomic.AddInt64(clk, 1)
		m.Delete(k)
		op.Return = atomic.AddInt64(clk, 1)
	case opClear:
		op.Call = atomic.AddInt64(clk, 1)
		m.Clear()
		op.Return = atomic.AddInt64(clk, 1)
	case opClearAndResize:
		n := op.Args[0]
		op.Call = atomic.AddInt64(clk, 1)
		m.ClearAndResize(n)
		op.Return = atomic.AddInt64(clk, 1)
	case opLen:
		op.Call = atomic.AddInt64(clk, 1)
		r := m.Len()
		op.Return = atomic.AddInt64(clk, 1)
		op.Ret = []int{r}
	case opKeys:
		op.Call = atomic.AddInt64(clk, 1)
		r := m.Keys()
		op.Return = atomic.AddInt64(clk, 1)
		out := make([]int, len(r))
		for i, k := range r {
			out[i] = c.decK(k)
		}
		sort.Ints(out) // order of Keys() is never asserted
		op.Ret = out
	case opValues:
		op.Call = atomic.AddInt64(clk, 1)
		r := m.Values()
		op.Return = atomic.AddInt64(clk, 1)
		out := make([]int, len(r))
		for i, v := range r {
			out[i] = c.decV(v)
		}
		sort.Ints(out)
		op.Ret = out
	case opCopyToMap:
		op.Call = atomic.AddInt64(clk, 1)
		r := m.CopyToMap()
		op.Return = atomic.AddInt64(clk, 1)
		p := make([][2]int, 0, len(r))
		for k, v := range r {
			p = append(p, [2]int{c.decK(k), c.decV(v)})
		}
		op.Ret = flattenPairs(p)
	case opTranslate:
		op.Call = atomic.AddInt64(clk, 1)
		r := storage.TranslateToMapOf(m, c.decV)
		op.Return = atomic.AddInt64(clk, 1)
		p := make([][2]int, 0, len(r))
		for k, v := range r {
			p = append(p, [2]int{c.decK(k), v})
		}
		op.Ret = flattenPairs(p)
	default:
		panic("harness: bad SafeMap op " + op.Name)
	}
}

type syncTarget[K comparable, V any] struct {
	m *generic.SyncMap[K, V]
	c codec[K, V]
}

func newSyncTarget[K comparable, V any](c codec[K, V]) func(capacity int) target {
	return func(int) target {
		return &syncTarget[K, V]{m: generic.NewSyncMap[K, V](), c: c}
	}
}

func (s *syncTarget[K, V]) exec(op *Op, clk *int64) {
	defer recoverInto(op, clk)
	m, c := s.m, &s.c
	switch op.code {
	case opLoad:
		k := c.encK(op.Args[0])
		op.Call = atomic.AddInt64(clk, 1)
		v, ok := m.Load(k)
		op.Return = atomic.AddInt64(clk, 1)
		op.Ret = []int{c.decV(v), b2i(ok)}
	case opStore:
		k, v := c.encK(op.Args[0]), c.encV(op.Args[1])
		op.Call = atomic.AddInt64(clk, 1)
		m.Store(k, v)
		op.Return = atomic.AddInt64(clk, 1)
	case opSwap:
		k, v := c.encK(op.Args[0]), c.encV(op.Args[1])
		op.Call = atomic.AddInt64(clk, 1)
		p, ok := m.Swap(k, v)
		op.Return = atomic.AddInt64(clk, 1)
		op.Ret = []int{c.decV(p), b2i(ok)}
	case opSDelete:
		k := c.encK(op.Args[0])
		op.Call = atomic.AddInt64(clk, 1)
		m.Delete(k)
		op.Return = atomic.AddInt64(clk, 1)
	case opLoadOrStore:
		k, v := c.encK(op.Args[0]), c.encV(op.Args[1])
		op.Call = atomic.AddInt64(clk, 1)
		a, ok := m.LoadOrStore(k, v)
		op.Return = atomic.AddInt64(clk, 1)
		op.Ret = []int{c.decV(a), b2i(ok)}
	case opLoadAndDelete:
		k := c.encK(op.Args[0])
		op.Call = atomic.AddInt64(clk, 1)
		v, ok := m.LoadAndDelete(k)
		op.Return = atomic.AddInt64(clk, 1)
		op.Ret = []int{c.decV(v), b2i(ok)}
	case opCAS:
		k, o, n := c.encK(op.Args[0]), c.encV(op.Args[1]), c.encV(op.Args[2])
		op.Call = atomic.AddInt64(clk, 1)
		ok := m.CompareAndSwap(k, o, n)
		op.Return = atomic.AddInt64(clk, 1)
		op.Ret = []int{b2i(ok)}
	case opCAD:
		k, o := c.encK(op.Args[0]), c.encV(op.Args[1])
		op.Call = atomic.AddInt64(clk, 1)
		ok := m.CompareAndDelete(k, o)
		op.Return = atomic.AddInt64(clk, 1)
		op.Ret = []int{b2i(ok)}
	case opRange:
		stopAfter, n := op.Args[0], 0
		op.Call = atomic.AddInt64(clk, 1)
		m.Range(func(k K, v V) bool {
			op.Ret = append(op.Ret, c.decK(k), c.decV(v))
			n++
			return !(stopAfter > 0 && n >= stopAfter)
		})
		op.Return = atomic.AddInt64(clk, 1)
	case opIterate:
		stopAfter, n := op.Args[0], 0
		op.Call = atomic.AddInt64(clk, 1)
		for k, v := range m.Iterate() {
			op.Ret = append(op.Ret, c.decK(k), c.decV(v))
			n++
			if stopAfter > 0 && n >= stopAfter {
				break
			}
		}
		op.Return = atomic.AddInt64(clk, 1)
	default:
		panic("harness: bad SyncMap op " + op.Name)
	}
}

// ---- instantiations --------------------------------------------------------------

type inst struct {
	object  string // e.g. "SafeMap[int,int]"
	family  string // "SafeMap" | "SyncMap"
	mk      func(capacity int) target
	weight  int
	keyBase int  // keys are keyBase..keyBase+nk-1 (0 = nil key for any-keyed maps)
	nilVals bool // Phase C: values from {0(nil),1,2,3}
}

func phaseAInsts() []*inst {
	return []*inst{
		{object: "SafeMap[int,int]", family: "SafeMap", weight: 35, keyBase: 1,
			mk: newSafeTarget(codec[int, int]{idInt, idInt, idInt, idInt})},
		{object: "SafeMap[string,string]", family: "SafeMap", weight: 15, keyBase: 1,
			mk: newSafeTarget(codec[string, string]{strEnc, strDec, strEnc, strDec})},
		{object: "SyncMap[int,int]", family: "SyncMap", weight: 25, keyBase: 1,
			mk: newSyncTarget(codec[int, int]{idInt, idInt, idInt, idInt})},
		{object: "SyncMap[string,int]", family: "SyncMap", weight: 10, keyBase: 1,
			mk: newSyncTarget(codec[string, int]{strEnc, strDec, idInt, idInt})},
		{object: "SyncMap[int,any]", family: "SyncMap", weight: 15, keyBase: 1,
			mk: newSyncTarget(codec[int, any]{idInt, idInt, anyBox, anyDec})},
	}
}

func phaseCInsts() []*inst {
	return []*inst{
		{object: "SyncMap[int,any]", family: "SyncMap", weight: 50, keyBase: 1, nilVals: true,
			mk: newSyncTarget(codec[int, any]{idInt, idInt, anyNilEnc, anyDec})},
		{object: "SyncMap[any,any]", family: "SyncMap", weight: 50, keyBase: 0, nilVals: true,
			mk: newSyncTarget(codec[any, any]{anyNilEnc, anyDec, anyNilEnc, anyDec})},
	}
}
