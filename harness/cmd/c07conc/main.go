// c07conc: free-running concurrent stress harness for property C07
// "SafeMap and SyncMap are linearizable maps" (rbell/toolchest).
//
//	c07conc -seed N -tier quick|thorough -out DIR
//
// Phase A: linearizability of small random histories (Wing–Gong search against
// a sequential specification), Phase B: targeted GetOrAdd ‖ Delete loop,
// Phase C: nil interface keys/values under concurrency and panic capture.
// Failures are DATA in DIR/result.json; the exit status is 0 whenever the
// program ran to completion.
package main

import (
	"flag"
	"fmt"
	"os"
	"runtime"
	"sync/atomic"
	"time"
)

func main() {
	seed := flag.Int64("seed", 1, "seed of all randomness")
	tier := flag.String("tier", "quick", "quick | thorough")
	out := flag.String("out", "", "output directory (result.json)")
	selftest := flag.Bool("selftest", false, "run the unit tests of the checker and exit")
	scale := flag.Float64("scale", 1.0, "scale factor for all wall-clock budgets (debugging)")
	lanesFlag := flag.Int("lanes", 0, "number of independent round lanes (0 = GOMAXPROCS/4)")
	flag.Parse()

	if *selftest {
		if !runSelfTest() {
			os.Exit(1)
		}
		return
	}
	if *out == "" {
		fmt.Fprintln(os.Stderr, "c07conc: -out DIR is required")
		os.Exit(2)
	}
	var budA, budB, budC time.Duration
	var maxN, goaIters int
	switch *tier {
	case "quick":
		budA, budB, budC, maxN, goaIters = 9*time.Second, 3*time.Second, 4*time.Second, 4, 20000
	case "thorough":
		budA, budB, budC, maxN, goaIters = 170*time.Second, 40*time.Second, 60*time.Second, 6, 100000
	default:
		fmt.Fprintln(os.Stderr, "c07conc: -tier must be quick or thorough")
		os.Exit(2)
	}
	sc := func(d time.Duration) time.Duration { return time.Duration(float64(d) * *scale) }
	lanes := *lanesFlag
	if lanes <= 0 {
		lanes = runtime.GOMAXPROCS(0) / 4
	}
	if lanes < 1 {
		lanes = 1
	}

	t0 := time.Now()
	col := newCollector()
	st := &Stats{Histogram: map[string]int64{}, RoundsByObject: map[string]int64{}, PhaseWall: map[string]float64{}, Lanes: lanes}
	hang := func(phase string) {
		col.add(&Failure{Kind: "hang", Object: "phase " + phase, Signature: "hang:phase." + phase, Phase: phase,
			Detail: "no progress for more than 60 s; phase abandoned by the watchdog"})
	}
	absorb := func(ls *laneStats) {
		st.HistoriesChecked += ls.histories
		st.Ops += ls.ops
		if ls.maxLen > st.MaxHistoryLen {
			st.MaxHistoryLen = ls.maxLen
		}
		st.Overlapping += ls.overlapping
		st.Nontrivial += ls.nontrivial
		for k, v := range ls.histogram {
			st.Histogram[k] += v
		}
		for k, v := range ls.byObject {
			st.RoundsByObject[k] += v
		}
		st.CheckerStates += ls.states
		st.CheckerTimeouts += ls.timeouts
		st.OneWinnerChecks += ls.oneWinnerChecks
		st.RangeCalls += ls.rangeCalls
		st.RangePairs += ls.rangePairs
		st.NonlinHistories += ls.nonlin
		st.PanickedOps += ls.panics
	}

	// ---- Phase A
	tA := time.Now()
	lsA, hungA := runLanes(*seed, phaseCfg{name: "A", tag: 1, budget: sc(budA), insts: phaseAInsts(), maxN: maxN,
		lanes: lanes, chkLimit: 2000000}, col)
	if hungA {
		hang("A")
	}
	st.Rounds = lsA.rounds
	absorb(lsA)
	st.PhaseWall["A"] = time.Since(tA).Seconds()

	// ---- Phase B
	tB := time.Now()
	beat := time.Now().UnixNano()
	doneB := make(chan *phaseBStats, 1)
	go func() { doneB <- runPhaseB(sc(budB), goaIters, lanes, col, &beat) }()
	tick := time.NewTicker(500 * time.Millisecond)
waitB:
	for {
		select {
		case b := <-doneB:
			st.GoaTrials, st.GoaIterations, st.GoaUnreproduced = b.trials, b.iterations, b.unreproduced
			for k, v := range b.histogram {
				st.Histogram[k] += v
			}
			break waitB
		case <-tick.C:
			if time.Since(time.Unix(0, atomic.LoadInt64(&beat))) > 60*time.Second {
				hang("B")
				break waitB
			}
		}
	}
	tick.Stop()
	st.PhaseWall["B"] = time.Since(tB).Seconds()

	// ---- Phase C
	tC := time.Now()
	lsC, hungC := runLanes(*seed, phaseCfg{name: "C", tag: 3, budget: sc(budC), insts: phaseCInsts(), maxN: maxN,
		phaseC: true, lanes: lanes, chkLimit: 2000000}, col)
	if hungC {
		hang("C")
	}
	st.PhaseCRounds = lsC.rounds
	renamed := map[string]int64{} // same object names as in Phase A: keep them apart
	for k, v := range lsC.byObject {
		renamed["PhaseC."+k] = v
	}
	lsC.byObject = renamed
	absorb(lsC)
	st.PhaseWall["C"] = time.Since(tC).Seconds()

	for k := range lsC.distinct {
		lsA.distinct[k^0x5bd1e9955bd1e995] = struct{}{}
	}
	for k := range lsC.distinctNT {
		lsA.distinctNT[k^0x5bd1e9955bd1e995] = struct{}{}
	}
	st.Distinct = int64(len(lsA.distinct))
	st.DistinctNontrivial = int64(len(lsA.distinctNT))
	st.DistinctCapped = lsA.distinctCapped || lsC.distinctCapped // a lane stopped recording new shapes: lower bound

	res := &Result{Seed: *seed, Tier: *tier, WallS: time.Since(t0).Seconds(), Stats: st,
		Failures: col.failures, Suppressed: col.suppressed}
	col.mu.Lock()
	err := writeResult(*out, res)
	col.mu.Unlock()
	if err != nil {
		fmt.Fprintln(os.Stderr, "c07conc: cannot write result:", err)
		os.Exit(3)
	}
	fmt.Printf("c07conc: seed=%d tier=%s wall=%.1fs roundsA=%d roundsC=%d histories=%d ops=%d goa_trials=%d failures=%d suppressed=%d timeouts=%d\n",
		*seed, *tier, res.WallS, st.Rounds, st.PhaseCRounds, st.HistoriesChecked, st.Ops, st.GoaTrials,
		len(res.Failures), len(res.Suppressed), st.CheckerTimeouts)
	os.Exit(0)
}
