package main

// Operation vocabulary and the SEQUENTIAL SPECIFICATION of the two maps.
//
// Everything the checker sees is integer-coded: keys are small ints in
// 0..maxKeys-1, values are ints, bools are 0/1.  Other instantiations
// (string, any) go through a codec (targets.go) and are decoded to ints before
// a history is checked.

import "sort"

type opCode uint8

const (
	// SafeMap
	opContains opCode = iota
	opHas
	opGet
	opGetOrAdd
	opSet
	opDelete
	opClear
	opClearAndResize
	opLen
	opKeys
	opValues
	opCopyToMap
	opTranslate
	// SyncMap
	opLoad
	opStore
	opSwap
	opSDelete
	opLoadOrStore
	opLoadAndDelete
	opCAS
	opCAD
	opRange
	opIterate
	numOps
)

type opInfo struct {
	name     string
	family   string // "SafeMap" | "SyncMap"
	readOnly bool   // never changes the abstract state, whatever the state is
	global   bool   // does not address one single key
	noLin    bool   // not part of linearizability histories (Range/Iterate)
}

var opTable = [numOps]opInfo{
	opContains:       {"Contains", "SafeMap", true, false, false},
	opHas:            {"Has", "SafeMap", true, false, false},
	opGet:            {"Get", "SafeMap", true, false, false},
	opGetOrAdd:       {"GetOrAdd", "SafeMap", false, false, false},
	opSet:            {"Set", "SafeMap", false, false, false},
	opDelete:         {"Delete", "SafeMap", false, false, false},
	opClear:          {"Clear", "SafeMap", false, true, false},
	opClearAndResize: {"ClearAndResize", "SafeMap", false, true, false},
	opLen:            {"Len", "SafeMap", true, true, false},
	opKeys:           {"Keys", "SafeMap", true, true, false},
	opValues:         {"Values", "SafeMap", true, true, false},
	opCopyToMap:      {"CopyToMap", "SafeMap", true, true, false},
	opTranslate:      {"TranslateToMapOf", "SafeMap", true, true, false},
	opLoad:           {"Load", "SyncMap", true, false, false},
	opStore:          {"Store", "SyncMap", false, false, false},
	opSwap:           {"Swap", "SyncMap", false, false, false},
	opSDelete:        {"Delete", "SyncMap", false, false, false},
	opLoadOrStore:    {"LoadOrStore", "SyncMap", false, false, false},
	opLoadAndDelete:  {"LoadAndDelete", "SyncMap", false, false, false},
	opCAS:            {"CompareAndSwap", "SyncMap", false, false, false},
	opCAD:            {"CompareAndDelete", "SyncMap", false, false, false},
	opRange:          {"Range", "SyncMap", true, true, true},
	opIterate:        {"Iterate", "SyncMap", true, true, true},
}

// PanicInfo describes a recovered panic of the code under test.
type PanicInfo struct {
	Msg    string   `json:"msg"`
	Frames []string `json:"frames"` // frames inside github.com/rbell/toolchest: "func file:line"
	fn     string   // first library frame function name (normalised)
}

// Op is one recorded operation of a history.
//
// Result coding (Ret): bool -> 0/1; Get/GetOrAdd -> [v]; Len -> [n];
// Keys -> sorted keys; Values -> sorted values; CopyToMap/TranslateToMapOf ->
// [k1,v1,k2,v2,...] sorted by key; Load/Swap/LoadOrStore/LoadAndDelete ->
// [v, ok]; CompareAnd* -> [ok]; Range/Iterate -> visited [k,v,...] in visit
// order.  A nil key / nil value (any-instantiations) is shown as 0.
type Op struct {
	T      int        `json:"t"` // thread; -1 = sequential pre-fill before the start barrier
	Name   string     `json:"op"`
	Args   []int      `json:"args"`
	Ret    []int      `json:"ret"`
	Call   int64      `json:"call"`
	Return int64      `json:"return"`
	Panic  *PanicInfo `json:"panic,omitempty"`

	code    opCode
	key     int   // -1 for global operations
	delay   uint8 // 0 none, 1 Gosched, >=2 spin iterations
	oldMode uint8 // CompareAnd*: 0 fixed, 1 from the shared per-key list, 2 last value seen by this thread
	pick    uint32
}

func mkOp(t int, code opCode, args ...int) Op {
	o := Op{T: t, Name: opTable[code].name, Args: append([]int{}, args...), Ret: []int{}, code: code, key: -1}
	if !opTable[code].global {
		o.key = args[0]
	}
	return o
}

const maxKeys = 4

// State is the abstract map state: presence is kept apart from the value so
// that 0 (decoded nil) can be a legitimately stored value (Phase C).
type State struct {
	p [maxKeys]bool
	v [maxKeys]int32
}

func b2i(b bool) int {
	if b {
		return 1
	}
	return 0
}

func retIs1(op *Op, a int) bool {
	return op.Panic != nil || (len(op.Ret) == 1 && op.Ret[0] == a)
}

func retIs2(op *Op, a, b int) bool {
	return op.Panic != nil || (len(op.Ret) == 2 && op.Ret[0] == a && op.Ret[1] == b)
}

func retIsList(op *Op, l []int) bool {
	if op.Panic != nil {
		return true
	}
	if len(op.Ret) != len(l) {
		return false
	}
	for i := range l {
		if op.Ret[i] != l[i] {
			return false
		}
	}
	return true
}

// applySpec applies op to st according to the sequential specification and
// reports whether the RECORDED result of op is the one the specification
// yields in st.  An operation that panicked has an unknown result (wildcard);
// its effect is taken to be the specified one (in SyncMap the type assertion
// that panics comes after the underlying sync.Map call).
func applySpec(st State, op *Op) (State, bool) {
	k := op.key
	switch op.code {
	case opContains, opHas:
		return st, retIs1(op, b2i(st.p[k]))
	case opGet:
		v := 0
		if st.p[k] {
			v = int(st.v[k])
		}
		return st, retIs1(op, v)
	case opGetOrAdd:
		if st.p[k] {
			return st, retIs1(op, int(st.v[k]))
		}
		st.p[k], st.v[k] = true, int32(op.Args[1])
		return st, retIs1(op, op.Args[1])
	case opSet, opStore:
		st.p[k], st.v[k] = true, int32(op.Args[1])
		return st, true
	case opDelete, opSDelete:
		st.p[k], st.v[k] = false, 0
		return st, true
	case opClear, opClearAndResize:
		return State{}, true
	case opLen:
		n := 0
		for i := 0; i < maxKeys; i++ {
			n += b2i(st.p[i])
		}
		return st, retIs1(op, n)
	case opKeys:
		var buf [maxKeys]int
		l := buf[:0]
		for i := 0; i < maxKeys; i++ {
			if st.p[i] {
				l = append(l, i)
			}
		}
		return st, retIsList(op, l)
	case opValues:
		var buf [maxKeys]int
		l := buf[:0]
		for i := 0; i < maxKeys; i++ {
			if st.p[i] {
				l = append(l, int(st.v[i]))
			}
		}
		sort.Ints(l)
		return st, retIsList(op, l)
	case opCopyToMap, opTranslate:
		var buf [2 * maxKeys]int
		l := buf[:0]
		for i := 0; i < maxKeys; i++ {
			if st.p[i] {
				l = append(l, i, int(st.v[i]))
			}
		}
		return st, retIsList(op, l)
	case opLoad:
		if st.p[k] {
			return st, retIs2(op, int(st.v[k]), 1)
		}
		return st, retIs2(op, 0, 0)
	case opSwap:
		prev, had := int(st.v[k]), st.p[k]
		st.p[k], st.v[k] = true, int32(op.Args[1])
		if had {
			return st, retIs2(op, prev, 1)
		}
		return st, retIs2(op, 0, 0)
	case opLoadOrStore:
		if st.p[k] {
			return st, retIs2(op, int(st.v[k]), 1)
		}
		st.p[k], st.v[k] = true, int32(op.Args[1])
		return st, retIs2(op, op.Args[1], 0)
	case opLoadAndDelete:
		if st.p[k] {
			v := int(st.v[k])
			st.p[k], st.v[k] = false, 0
			return st, retIs2(op, v, 1)
		}
		return st, retIs2(op, 0, 0)
	case opCAS:
		if st.p[k] && int(st.v[k]) == op.Args[1] {
			st.v[k] = int32(op.Args[2])
			return st, retIs1(op, 1)
		}
		return st, retIs1(op, 0)
	case opCAD:
		if st.p[k] && int(st.v[k]) == op.Args[1] {
			st.p[k], st.v[k] = false, 0
			return st, retIs1(op, 1)
		}
		return st, retIs1(op, 0)
	}
	// Range / Iterate are never part of a checked history.
	return st, true
}

// outcome classifies the result of an operation for the histogram.
func outcome(op *Op) string {
	if op.Panic != nil {
		return "/panic"
	}
	tf := func(i int) string {
		if len(op.Ret) > i && op.Ret[i] != 0 {
			return "/true"
		}
		return "/false"
	}
	hm := func(hit bool) string {
		if hit {
			return "/hit"
		}
		return "/miss"
	}
	switch op.code {
	case opContains, opHas, opCAS, opCAD:
		return tf(0)
	case opGet:
		return hm(len(op.Ret) == 1 && op.Ret[0] != 0)
	case opGetOrAdd:
		return hm(len(op.Ret) == 1 && op.Ret[0] != op.Args[1])
	case opLoad, opSwap, opLoadOrStore, opLoadAndDelete:
		return hm(len(op.Ret) == 2 && op.Ret[1] != 0)
	}
	return ""
}
