package main

import (
	"encoding/json"
	"os"
	"path/filepath"
	"sync"
)

type Failure struct {
	Kind       string     `json:"kind"`
	Object     string     `json:"object"`
	Signature  string     `json:"signature"`
	Phase      string     `json:"phase"`
	Round      int64      `json:"round"` // round (A, C) or trial (B) number
	Reproduced *int       `json:"reproduced,omitempty"`
	Detail     string     `json:"detail"`
	Panic      *PanicInfo `json:"panic,omitempty"`
	Core       []Op       `json:"core,omitempty"` // soundly shrunk, still non-linearizable sub-history
	History    []Op       `json:"history"`
}

const maxPerSignature = 5

type collector struct {
	mu         sync.Mutex
	failures   []*Failure
	count      map[string]int
	suppressed map[string]int64
}

func newCollector() *collector {
	return &collector{count: map[string]int{}, suppressed: map[string]int64{}}
}

// wants reports whether a failure with this signature would still be kept.
func (c *collector) wants(sig string) bool {
	c.mu.Lock()
	defer c.mu.Unlock()
	return c.count[sig] < maxPerSignature
}

func (c *collector) suppress(sig string) {
	c.mu.Lock()
	c.suppressed[sig]++
	c.mu.Unlock()
}

func (c *collector) add(f *Failure) {
	c.mu.Lock()
	defer c.mu.Unlock()
	if c.count[f.Signature] >= maxPerSignature {
		c.suppressed[f.Signature]++
		return
	}
	c.count[f.Signature]++
	if f.History == nil {
		f.History = []Op{}
	}
	c.failures = append(c.failures, f)
}

type Stats struct {
	Rounds             int64              `json:"rounds"`            // Phase A rounds
	HistoriesChecked   int64              `json:"histories_checked"` // linearizability checks, Phase A + Phase C
	Ops                int64              `json:"ops"`               // operations in Phase A + C histories
	MaxHistoryLen      int                `json:"max_history_len"`
	Overlapping        int64              `json:"overlapping_histories"`
	Nontrivial         int64              `json:"nontrivial_histories"`
	Distinct           int64              `json:"distinct_histories"`
	DistinctNontrivial int64              `json:"distinct_nontrivial_histories"` // distinct shapes among the non-trivial histories
	DistinctCapped     bool               `json:"distinct_histories_capped"`
	GoaTrials          int64              `json:"goa_trials"`
	GoaIterations      int64              `json:"goa_iterations"`
	GoaUnreproduced    int64              `json:"goa_unreproduced"`
	PhaseCRounds       int64              `json:"phaseC_rounds"`
	Histogram          map[string]int64   `json:"histogram"`
	CheckerStates      int64              `json:"checker_states"`
	CheckerTimeouts    int64              `json:"checker_timeouts"`
	RoundsByObject     map[string]int64   `json:"rounds_by_object"`
	OneWinnerChecks    int64              `json:"one_winner_checks"`
	RangeCalls         int64              `json:"range_calls"`
	RangePairs         int64              `json:"range_pairs_checked"`
	NonlinHistories    int64              `json:"nonlinearizable_histories"`
	PanickedOps        int64              `json:"panicked_ops"`
	Lanes              int                `json:"lanes"`
	PhaseWall          map[string]float64 `json:"phase_wall_s"`
}

type Result struct {
	Seed       int64            `json:"seed"`
	Tier       string           `json:"tier"`
	WallS      float64          `json:"wall_s"`
	Stats      *Stats           `json:"stats"`
	Failures   []*Failure       `json:"failures"`
	Suppressed map[string]int64 `json:"suppressed"`
}

func writeResult(dir string, r *Result) error {
	if err := os.MkdirAll(dir, 0o755); err != nil {
		return err
	}
	if r.Failures == nil {
		r.Failures = []*Failure{}
	}
	b, err := json.MarshalIndent(r, "", " ")
	if err != nil {
		return err
	}
	tmp := filepath.Join(dir, "result.json.tmp")
	if err := os.WriteFile(tmp, append(b, '\n'), 0o644); err != nil {
		return err
	}
	return os.Rename(tmp, filepath.Join(dir, "result.json"))
}
