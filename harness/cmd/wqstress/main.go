// Free-running stress of the real work queue (C04, C09, C14): uncontrolled schedules, built with -race.
// There is no unique model prediction here; what is evaluated is the Go-side monitor of the properties:
//   - every accepted work function ran exactly once (per-item atomic counters), none lost (watchdog), ids distinct
//   - never more than W work functions executing at once (atomic current/max counter)
//   - WorkItems() is empty once everything has finished, and while work is in flight it lists only submitted,
//     unfinished names with a valid state
//   - every non-nil work error reached every subscriber registered before the run exactly once, as the same value;
//     a subscriber added during the run receives only errors of items finishing later (C14)
//   - no data race report, no panic (the process would die: the runner sees the exit status and stderr)
//
// Output: one JSON document {"runs": [...], "failures": [...]} on the file given by -out.
package main

import (
	"encoding/json"
	"flag"
	"fmt"
	"math/rand"
	"os"
	"strconv"
	"sync"
	"sync/atomic"
	"time"

	"github.com/google/uuid"
	"github.com/rbell/toolchest/workqueue"
	"verifharness/internal/werr"
)

type tokErr struct{ k int }

func (e *tokErr) Error() string { return "err" + strconv.Itoa(e.k) }

type runCfg struct {
	Producers, W, L, PerProducer int
	Subs                         int
	ErrEvery                     int // every n-th item returns an error (0 = never)
	LateSub                      bool
	ConcSubs                     bool // the early subscribers call Errors() concurrently
	Seed                         int64
}

type runRes struct {
	Cfg        runCfg `json:"cfg"`
	Items      int    `json:"items"`
	MaxRunning int64  `json:"max_running"`
	Errors     int    `json:"errors"`
	WallMs     int64  `json:"wall_ms"`
}

type failure struct {
	Clause string `json:"clause"`
	Detail string `json:"detail"`
	Cfg    runCfg `json:"cfg"`
}

var failMu sync.Mutex

func addFail(fails *[]failure, f failure) {
	failMu.Lock()
	*fails = append(*fails, f)
	failMu.Unlock()
}

// errorsWithin calls q.Errors() and reports whether it returned within the (generous) bound.
func errorsWithin(q *workqueue.Queue, d time.Duration) (chan error, bool) {
	chc := make(chan chan error, 1)
	go func() { chc <- q.Errors() }()
	select {
	case ch := <-chc:
		return ch, true
	case <-time.After(d):
		return nil, false
	}
}

// lazySubscriberRun: a subscriber exists but has not started reading; a work function fails, so the monitor is in a
// fan-out that waits for that subscriber; NOW a second component calls Errors() (C14: obtaining a new channel while work
// is running is safe - the call must return), then both are read.  Other work must keep completing meanwhile
// (error reporting does not stop other work), and the first subscriber must receive the error exactly once.
func lazySubscriberRun(W, L int, fails *[]failure) runRes {
	c := runCfg{Producers: 1, W: W, L: L, PerProducer: 2*W + L + 2, Subs: 1, ErrEvery: -1}
	fail := func(clause, detail string) { addFail(fails, failure{"lazy-subscriber:" + clause, detail, c}) }
	t0 := time.Now()
	q := workqueue.NewQueue(workqueue.WithWorkers(W), workqueue.WithQueueLength(L))
	first := q.Errors() // not read yet
	theErr := &tokErr{0}
	var failed, okDone atomic.Int64
	q.Enqueue(func() error { failed.Add(1); return theErr }, workqueue.WithName("0"))
	for d := time.Now().Add(20 * time.Second); failed.Load() == 0 && time.Now().Before(d); {
		time.Sleep(100 * time.Microsecond)
	}
	time.Sleep(3 * time.Millisecond) // the monitor is now (almost certainly) blocked sending to `first`; not required for soundness
	second, ok := errorsWithin(q, 20*time.Second)
	if !ok {
		fail("errors-call-hang", "Errors() called while an earlier error waits for a subscriber that has not started reading did not return within 20 s")
	}
	// ordinary work submitted now must complete although the fan-out is still waiting
	n := c.PerProducer - 1
	prodDone := make(chan struct{})
	go func() {
		for i := 0; i < n; i++ {
			q.Enqueue(func() error { okDone.Add(1); return nil }, workqueue.WithName(strconv.Itoa(i+1)))
		}
		close(prodDone)
	}()
	for d := time.Now().Add(20 * time.Second); okDone.Load() < int64(n) && time.Now().Before(d); {
		time.Sleep(200 * time.Microsecond)
	}
	if got := okDone.Load(); got < int64(n) {
		fail("other-work-stopped", fmt.Sprintf("only %d of %d ordinary items completed within 20 s while one error waited for its subscriber", got, n))
	}
	// now the subscribers read
	select {
	case e := <-first:
		if e != error(theErr) {
			fail("error-identity", "the first subscriber received a different value")
		}
	case <-time.After(20 * time.Second):
		fail("error-not-delivered", "the subscriber registered before the work did not receive its error within 20 s")
	}
	select {
	case e := <-first:
		fail("error-duplicate", fmt.Sprintf("the first subscriber received a second value %v", e))
	case <-time.After(20 * time.Millisecond):
	}
	if ok {
		select {
		case e := <-second:
			if e != error(theErr) {
				fail("error-identity", "the second subscriber received a foreign value")
			}
		case <-time.After(20 * time.Millisecond): // registered after the fan-out began: need not receive it
		}
	}
	return runRes{Cfg: c, Items: c.PerProducer, Errors: 1, WallMs: time.Since(t0).Milliseconds()}
}

// enqOpts: two Enqueue options in alternating order (their order must not matter)
func enqOpts[T any](i int, a, b T) []T {
	if i%2 == 0 {
		return []T{a, b}
	}
	return []T{b, a}
}

func oneRun(c runCfg, fails *[]failure) runRes {
	fail := func(clause, detail string) { addFail(fails, failure{clause, detail, c}) }
	t0 := time.Now()
	rng := rand.New(rand.NewSource(c.Seed))
	qopts := []workqueue.WorkQueueOption{workqueue.WithWorkers(c.W), workqueue.WithQueueLength(c.L)}
	if c.Seed%2 == 0 { // the configuration does not depend on the order of the options
		qopts[0], qopts[1] = qopts[1], qopts[0]
	}
	q := workqueue.NewQueue(qopts...)
	total := c.Producers * c.PerProducer
	counts := make([]atomic.Int64, total)
	var running, maxRunning, finished atomic.Int64
	store := werr.NewStore() // error values of every dynamic kind (pointer, struct, int, string, typed nil, wrapped, uncomparable)
	errs := make([]error, total)
	nerr := 0
	for i := range errs {
		if c.ErrEvery > 0 && i%c.ErrEvery == 0 {
			errs[i] = store.Make(i)
			nerr++
		}
	}
	// subscribers registered before any work is enqueued must see every error exactly once
	type sub struct {
		ch   chan error
		got  []error
		n    atomic.Int64
		done chan struct{}
	}
	subs := []*sub{}
	stopSubs := make(chan struct{})
	listen := func(ch chan error) *sub {
		s := &sub{ch: ch, done: make(chan struct{})}
		go func() {
			defer close(s.done)
			for {
				select {
				case e := <-s.ch:
					s.got = append(s.got, e)
					s.n.Add(1)
				case <-stopSubs:
					return
				}
			}
		}()
		return s
	}
	startSub := func() *sub { return listen(q.Errors()) }
	if c.ConcSubs && c.Subs > 1 {
		// several components register their error listener at the same moment (goroutines released together), all
		// before any work is enqueued: every channel obtained must receive every later error exactly once
		chans := make([]chan error, c.Subs)
		var ready, reg sync.WaitGroup
		var goFlag atomic.Bool
		for i := 0; i < c.Subs; i++ {
			ready.Add(1)
			reg.Add(1)
			go func(i int) {
				defer reg.Done()
				ready.Done()
				for !goFlag.Load() {
				}
				chans[i] = q.Errors()
			}(i)
		}
		ready.Wait()
		goFlag.Store(true)
		reg.Wait()
		for _, ch := range chans {
			subs = append(subs, listen(ch))
		}
	} else {
		for i := 0; i < c.Subs; i++ {
			subs = append(subs, startSub())
		}
	}
	durs := make([]time.Duration, total)
	prios := make([]int, total)
	for i := range durs {
		durs[i] = time.Duration(rng.Intn(300)) * time.Microsecond
		prios[i] = rng.Intn(5)
	}
	ids := make([]uuid.UUID, total)
	var wg sync.WaitGroup
	for p := 0; p < c.Producers; p++ {
		wg.Add(1)
		go func(p int) {
			defer wg.Done()
			for k := 0; k < c.PerProducer; k++ {
				i := p*c.PerProducer + k
				ids[i] = q.Enqueue(func() error {
					counts[i].Add(1)
					cur := running.Add(1)
					for {
						m := maxRunning.Load()
						if cur <= m || maxRunning.CompareAndSwap(m, cur) {
							break
						}
					}
					if durs[i] > 0 {
						time.Sleep(durs[i])
					}
					running.Add(-1)
					finished.Add(1)
					if errs[i] != nil {
						return errs[i]
					}
					return nil
				}, enqOpts(i, workqueue.WithPriority(prios[i]), workqueue.WithName(strconv.Itoa(i)))...)
			}
		}(p)
	}
	var late *sub
	if c.LateSub {
		time.Sleep(200 * time.Microsecond)
		// Errors() while work is running must be safe (F14: -race) and must return
		if ch, ok := errorsWithin(q, 20*time.Second); ok {
			late = listen(ch)
		} else {
			fail("errors-call-hang", "Errors() called while work is running did not return within 20 s")
		}
	}
	// mid-run sample of WorkItems(): only what must hold at ANY moment
	for k := 0; k < 3; k++ {
		for _, w := range q.WorkItems() {
			n, err := strconv.Atoi(w.Name())
			if err != nil || n < 0 || n >= total {
				fail("workitems-foreign", "WorkItems() lists a name that was never submitted: "+w.Name())
			}
			if st := w.State(); st != "Queued" && st != "In Progress" {
				fail("workitems-state", "invalid state "+st)
			}
		}
		time.Sleep(100 * time.Microsecond)
	}
	// watchdog: generous (factor >= 20 over the expected run time)
	expected := time.Duration(total) * 300 * time.Microsecond / time.Duration(c.W)
	deadline := time.Now().Add(20*expected + 10*time.Second)
	prodDone := make(chan struct{})
	go func() { wg.Wait(); close(prodDone) }()
	for finished.Load() < int64(total) && time.Now().Before(deadline) {
		time.Sleep(200 * time.Microsecond)
	}
	hung := false
	select {
	case <-prodDone:
	case <-time.After(time.Until(deadline) + time.Second):
		hung = true
		fail("enqueue-hang", "an Enqueue call did not return")
	}
	if f := finished.Load(); f < int64(total) {
		fail("lost-item", fmt.Sprintf("only %d of %d work functions finished within the watchdog", f, total))
	}
	// let the workers delete their items and the monitor deliver the last errors
	settle := time.Now().Add(5 * time.Second)
	for time.Now().Before(settle) {
		if len(q.WorkItems()) == 0 {
			break
		}
		time.Sleep(200 * time.Microsecond)
	}
	time.Sleep(2 * time.Millisecond)
	for i := range counts {
		if n := counts[i].Load(); n != 1 {
			fail("exactly-once", fmt.Sprintf("item %d ran %d times", i, n))
		}
	}
	if m := maxRunning.Load(); m > int64(c.W) {
		fail("max-concurrency", fmt.Sprintf("%d work functions executing at once with %d workers", m, c.W))
	}
	if wi := q.WorkItems(); len(wi) != 0 {
		fail("workitems-leftover", fmt.Sprintf("WorkItems() lists %d items after everything finished", len(wi)))
	}
	seen := map[uuid.UUID]bool{}
	for _, id := range ids {
		if hung {
			break // ids of calls that never returned are unset
		}
		if seen[id] {
			fail("distinct-ids", "Enqueue returned the same id twice")
		}
		seen[id] = true
	}
	// error fan-out: wait until every early subscriber has all errors (bounded), then compare
	waitErr := time.Now().Add(10 * time.Second)
	for time.Now().Before(waitErr) {
		ok := true
		for _, s := range subs {
			if s.n.Load() < int64(nerr) {
				ok = false
			}
		}
		if ok {
			break
		}
		time.Sleep(200 * time.Microsecond)
	}
	time.Sleep(5 * time.Millisecond)
	close(stopSubs)
	for _, s := range subs {
		<-s.done
		cnt := map[int]int{} // by token: the values need not be comparable
		for _, e := range s.got {
			if k, ok := store.Token(e); ok && k >= 0 {
				cnt[k]++
			} else {
				fail("error-identity", fmt.Sprintf("subscriber received a value no work function returned: %T %v", e, e))
				break
			}
		}
		for i, e := range errs {
			if e != nil && cnt[i] != 1 {
				fail("error-exactly-once", fmt.Sprintf("subscriber received the error of item %d (%s) %d times", i, werr.Kind(i), cnt[i]))
				break
			}
		}
		if len(s.got) != nerr {
			fail("error-count", fmt.Sprintf("subscriber received %d values for %d errors", len(s.got), nerr))
		}
	}
	if late != nil {
		<-late.done
		cnt := map[int]int{}
		for _, e := range late.got {
			if e == nil {
				fail("error-nil", "a subscriber received a nil error")
			}
			if k, ok := store.Token(e); ok {
				cnt[k]++
			}
		}
		for _, n := range cnt {
			if n > 1 {
				fail("error-duplicate", "late subscriber received an error twice")
			}
		}
	}
	return runRes{Cfg: c, Items: total, MaxRunning: maxRunning.Load(), Errors: nerr, WallMs: time.Since(t0).Milliseconds()}
}

func main() {
	seed := flag.Int64("seed", 1, "")
	tier := flag.String("tier", "quick", "")
	out := flag.String("out", "stress.json", "")
	prop := flag.String("prop", "C04", "")
	flag.Parse()
	if f, err := os.OpenFile(os.DevNull, os.O_WRONLY, 0); err == nil {
		os.Stdout = f // the queue prints on stdout
	}
	rng := rand.New(rand.NewSource(*seed))
	fails := []failure{}
	runs := []runRes{}
	Ws := []int{1, 2, 3, 8}
	Ls := []int{1, 2, 5}
	Ps := []int{1, 2, 4, 8, 16, 32}
	reps := 1
	per := 12
	if *tier == "thorough" {
		reps = 6
		per = 40
	}
	if *prop == "C14" {
		for _, W := range []int{1, 2, 3} {
			if len(fails) == 0 {
				runs = append(runs, lazySubscriberRun(W, 2, &fails))
			}
		}
	}
	if *prop == "C14" {
		// subscriber counts across the usual small-buffer thresholds; every subscriber must hold every error exactly once
		for i, n := range []int{0, 1, 2, 7, 8, 9, 16, 17, 33, 64, 65, 100} {
			if len(fails) == 0 {
				c := runCfg{Producers: 2, W: 1 + i%3, L: 1 + i%2, PerProducer: 4, Subs: n, ErrEvery: 2, ConcSubs: i%2 == 1, Seed: rng.Int63()}
				runs = append(runs, oneRun(c, &fails))
			}
		}
	}
	for r := 0; r < reps; r++ {
		for _, W := range Ws {
			for _, L := range Ls {
				for _, P := range Ps {
					c := runCfg{Producers: P, W: W, L: L, PerProducer: 1 + per/P + rng.Intn(3), Seed: rng.Int63()}
					if *prop == "C09" {
						// work functions that return errors, with and without (receiving) error subscribers: a failing item
						// must free its worker and its token like any other
						c.ErrEvery = rng.Intn(4) // 0 = no errors
						c.Subs = rng.Intn(3)
					}
					if *prop == "C14" {
						c.Subs = rng.Intn(4)
						c.ErrEvery = 1 + rng.Intn(4)
						c.LateSub = rng.Intn(2) == 0
						if rng.Intn(2) == 0 {
							c.Subs = 2 + rng.Intn(7)
							c.ConcSubs = true
						}
					}
					if len(fails) >= 1 {
						continue // enough evidence: do not spend the watchdog margins on every remaining configuration
					}
					// watchdog for the whole run: every wait inside is bounded, this bounds their sum
					resc := make(chan runRes, 1)
					go func() { resc <- oneRun(c, &fails) }()
					select {
					case rr := <-resc:
						runs = append(runs, rr)
					case <-time.After(150 * time.Second):
						addFail(&fails, failure{"run-hang", "one stress run did not end within 150 s", c})
					}
				}
			}
		}
	}
	failMu.Lock()
	defer failMu.Unlock()
	doc := map[string]any{"runs": runs, "failures": fails, "prop": *prop}
	b, _ := json.Marshal(doc)
	if err := os.WriteFile(*out, b, 0o644); err != nil {
		fmt.Fprintln(os.Stderr, err)
		os.Exit(2)
	}
	fmt.Fprintf(os.Stderr, "wqstress: %d runs, %d failures\n", len(runs), len(fails))
}
