// Harness for C11 (sequential part): GenericStack vs the queue model, and container/heap vs Lib/GoHeap.
package main

import (
	"container/heap"
	"flag"
	"fmt"
	"math/rand"
	"os"
	"strings"

	"github.com/rbell/toolchest/storage"
	"verifharness/internal/cw"
)

// ---- sequential GenericStack ----
type sop struct {
	Kind string `json:"op"`
	Arg  int    `json:"arg,omitempty"`
}

func (o sop) coq() string {
	switch o.Kind {
	case "push":
		return fmt.Sprintf("Push %s", cw.Z(o.Arg))
	case "pop":
		return "Pop"
	case "peek":
		return fmt.Sprintf("Peek %s", cw.Z(o.Arg))
	case "len":
		return "Len"
	}
	return "Values"
}

type cell struct{ v int }

// runSeq executes ops on a fresh stack of element type int and of element type *cell; both must agree.
func runSeq(initial int, ops []sop) (outs []string, desc []string, panicked string) {
	defer func() {
		if r := recover(); r != nil {
			panicked = fmt.Sprint(r)
			outs = append(outs, "OPanic")
			desc = append(desc, "PANIC "+panicked)
		}
	}()
	si := storage.NewGenericStack[int](initial)
	sp := storage.NewGenericStack[*cell](initial)
	dec := func(p *cell) int {
		if p == nil {
			return 0
		}
		return p.v
	}
	for _, o := range ops {
		switch o.Kind {
		case "push":
			a, b := si.Push(o.Arg), sp.Push(&cell{o.Arg})
			if a != b {
				desc = append(desc, fmt.Sprintf("types disagree on Push: %d %d", a, b))
				outs = append(outs, "OPanic")
				continue
			}
			outs = append(outs, fmt.Sprintf("OId %d", a))
			desc = append(desc, fmt.Sprintf("id %d", a))
		case "pop":
			a, b := si.Pop(), dec(sp.Pop())
			if a != b {
				outs = append(outs, "OPanic")
				desc = append(desc, fmt.Sprintf("types disagree on Pop: %d %d", a, b))
				continue
			}
			outs = append(outs, "OVal "+cw.Z(a))
			desc = append(desc, fmt.Sprintf("val %d", a))
		case "peek":
			a, ea := si.Peek(uint64(o.Arg))
			b, eb := sp.Peek(uint64(o.Arg))
			if (ea == nil) != (eb == nil) || (ea == nil && a != dec(b)) {
				outs = append(outs, "OPanic")
				desc = append(desc, "types disagree on Peek")
				continue
			}
			if ea != nil {
				if ea.Error() != "Not Found" {
					outs = append(outs, "OPanic")
					desc = append(desc, "Peek error is not NotFound: "+ea.Error())
					continue
				}
				outs = append(outs, "OPeek None")
				desc = append(desc, "notfound")
			} else {
				outs = append(outs, fmt.Sprintf("OPeek (Some %s)", cw.Z(a)))
				desc = append(desc, fmt.Sprintf("found %d", a))
			}
		case "len":
			a, b := si.Len(), sp.Len()
			if a != b {
				outs = append(outs, "OPanic")
				continue
			}
			outs = append(outs, fmt.Sprintf("OLen %d%%nat", a))
			desc = append(desc, fmt.Sprintf("len %d", a))
		case "values":
			a := si.Values()
			b := sp.Values()
			bb := make([]int, len(b))
			for i := range b {
				bb[i] = dec(b[i])
			}
			same := fmt.Sprint(a) == fmt.Sprint(bb)
			// the returned slices belong to the caller: wipe them, so that an implementation that hands out a
			// buffer it reuses is exposed by the next call
			for i := range a {
				a[i] = 0
			}
			for i := range b {
				b[i] = nil
			}
			if !same {
				outs = append(outs, "OPanic")
				continue
			}
			a = bb
			outs = append(outs, "OValues "+cw.ZL(a))
			desc = append(desc, fmt.Sprint("values ", a))
			// mutate the returned slice: must not affect the stack
			for i := range a {
				a[i] = -1
			}
		}
	}
	return
}

// ---- container/heap with a recording element type ----
type hitem struct{ key, pos int }
type rheap struct{ items []*hitem }

func (h *rheap) Len() int           { return len(h.items) }
func (h *rheap) Less(i, j int) bool { return h.items[i].key < h.items[j].key }
func (h *rheap) Swap(i, j int) {
	h.items[i], h.items[j] = h.items[j], h.items[i]
	h.items[i].pos = i
	h.items[j].pos = j
}
func (h *rheap) Push(x any) {
	it := x.(*hitem)
	it.pos = len(h.items)
	h.items = append(h.items, it)
}
func (h *rheap) Pop() any {
	n := len(h.items)
	it := h.items[n-1]
	h.items = h.items[:n-1]
	it.pos = -1
	return it
}
func (h *rheap) snap() string {
	p := make([]string, len(h.items))
	for i, it := range h.items {
		p[i] = fmt.Sprintf("(%s, %s)", cw.Z(it.key), cw.Z(it.pos))
	}
	return "[" + strings.Join(p, "; ") + "]"
}

func main() {
	seed := flag.Int64("seed", 1, "")
	tier := flag.String("tier", "quick", "")
	out := flag.String("out", "", "")
	flag.Parse()
	rng := rand.New(rand.NewSource(*seed))
	w := cw.New(*out, "CorrC11")
	w.Chunk = 200
	maxLen, nRand, nHeap := 4, 300, 250
	if *tier == "thorough" {
		maxLen, nRand, nHeap = 6, 3000, 3000
	}
	addSeq := func(initial int, ops []sop, tag string) {
		outs, desc, pan := runSeq(initial, ops)
		oc := make([]string, len(ops))
		pushes, pops, nonemptyPop, peekHit := 0, 0, 0, 0
		for i, o := range ops {
			oc[i] = o.coq()
			if o.Kind == "push" {
				pushes++
			}
			if o.Kind == "pop" {
				pops++
			}
		}
		for _, d := range desc {
			if strings.HasPrefix(d, "val ") && d != "val 0" {
				nonemptyPop++
			}
			if strings.HasPrefix(d, "found") {
				peekHit++
			}
		}
		tags := []string{"seq", tag}
		if nonemptyPop > 0 {
			tags = append(tags, "seq:pop-nonempty")
		}
		if peekHit > 0 {
			tags = append(tags, "seq:peek-hit")
		}
		w.Add(cw.Case{
			Coq:     fmt.Sprintf("CSeq %s %s", cw.L(oc), cw.L(outs)),
			Desc:    map[string]any{"kind": "GenericStack sequence", "initial_size": initial, "ops": ops, "observed": desc, "panic": pan},
			Tags:    tags,
			Key:     fmt.Sprint("seq", initial, ops),
			Trivial: nonemptyPop == 0 && peekHit == 0,
		})
	}
	// corpus: the history of Props/C11.v's example
	addSeq(0, []sop{{"push", 10}, {"push", 20}, {"push", 30}, {"peek", 2}, {"pop", 0}, {"peek", 1}, {"values", 0}, {"pop", 0}, {"pop", 0}, {"pop", 0}, {"len", 0}, {"push", 5}}, "corpus")
	// exhaustive: all sequences up to maxLen over the alphabet below (pushed values are distinct, non-zero)
	alphabet := []sop{{"push", 0}, {"pop", 0}, {"peek", 1}, {"peek", 2}, {"peek", 3}, {"len", 0}, {"values", 0}}
	var rec func(prefix []sop)
	rec = func(prefix []sop) {
		if len(prefix) > 0 {
			ops := make([]sop, len(prefix))
			v := 10
			for i, o := range prefix {
				ops[i] = o
				if o.Kind == "push" {
					ops[i].Arg = v
					v += 10
				}
			}
			addSeq((len(prefix)%2)*3, ops, "exhaustive")
		}
		if len(prefix) == maxLen {
			return
		}
		for _, a := range alphabet {
			rec(append(append([]sop{}, prefix...), a))
		}
	}
	rec(nil)
	// random long sequences, biased to keep the stack populated; out-of-order pops exercise sift-down
	for it := 0; it < nRand; it++ {
		n := 5 + rng.Intn(60)
		ops := make([]sop, n)
		v := 1
		for i := range ops {
			switch r := rng.Intn(10); {
			case r < 4:
				ops[i] = sop{"push", v}
				v++
			case r < 7:
				ops[i] = sop{"pop", 0}
			case r < 8:
				ops[i] = sop{"peek", 1 + rng.Intn(v+1)}
			case r < 9:
				ops[i] = sop{"len", 0}
			default:
				ops[i] = sop{"values", 0}
			}
		}
		addSeq(rng.Intn(5), ops, "random")
	}
	// deep stacks: 17..90 entries pushed first (more than any small-array special case), then peeks of every id
	// region, pops and further pushes
	for it := 0; it < nRand/4+5; it++ {
		depth := 17 + rng.Intn(74)
		var ops []sop
		v := 1
		for ; v <= depth; v++ {
			ops = append(ops, sop{"push", v})
		}
		for j := 0; j < 30+rng.Intn(40); j++ {
			switch r := rng.Intn(10); {
			case r < 5:
				ops = append(ops, sop{"peek", 1 + rng.Intn(v+1)})
			case r < 7:
				ops = append(ops, sop{"pop", 0})
			case r < 9:
				ops = append(ops, sop{"push", v})
				v++
			default:
				ops = append(ops, sop{"values", 0})
			}
		}
		addSeq([]int{0, 1, 3, 65, 100, 200}[rng.Intn(6)], ops, "deep")
	}
	// grow-then-drain: large stacks (or a large initial capacity hint) emptied almost completely, with Len/Peek/Values
	// after every few pops (capacity-driven housekeeping such as shrinking happens here if anywhere)
	for it := 0; it < nRand/8+4; it++ {
		depth := []int{5, 20, 70, 130, 300}[rng.Intn(5)]
		var ops []sop
		for v := 1; v <= depth; v++ {
			ops = append(ops, sop{"push", v})
		}
		for j := 0; j < depth; j++ {
			ops = append(ops, sop{"pop", 0})
			if j%7 == 0 || j > depth-6 {
				ops = append(ops, sop{"len", 0}, sop{"peek", 1 + rng.Intn(depth)}, sop{"values", 0})
			}
		}
		ops = append(ops, sop{"pop", 0}, sop{"len", 0}, sop{"push", depth + 1}, sop{"values", 0})
		addSeq([]int{0, 2, 70, 128, 500}[rng.Intn(5)], ops, "drain")
	}
	// container/heap differential
	for it := 0; it < nHeap; it++ {
		h := &rheap{}
		n0 := rng.Intn(9)
		var start []string
		for i := 0; i < n0; i++ {
			k := rng.Intn(12)
			h.items = append(h.items, &hitem{k, i})
			start = append(start, fmt.Sprintf("(%s, %s)", cw.Z(k), cw.Z(i)))
		}
		var ops, obs []string
		var dops []string
		step := func(op string, ret int) {
			ops = append(ops, op)
			dops = append(dops, op)
			obs = append(obs, fmt.Sprintf("(%s, %s)", h.snap(), cw.Z(ret)))
		}
		heap.Init(h)
		step("HInit", 0)
		m := 3 + rng.Intn(25)
		for j := 0; j < m; j++ {
			switch r := rng.Intn(10); {
			case r < 4 || len(h.items) == 0:
				k := rng.Intn(12)
				heap.Push(h, &hitem{key: k, pos: -5})
				step(fmt.Sprintf("HPush %s", cw.Z(k)), 0)
			case r < 6:
				x := heap.Pop(h).(*hitem)
				step("HPop", x.key)
			case r < 8:
				i := rng.Intn(len(h.items))
				x := heap.Remove(h, i).(*hitem)
				step(fmt.Sprintf("HRemove %d", i), x.key)
			case r < 9:
				i := rng.Intn(len(h.items))
				k := rng.Intn(12)
				h.items[i].key = k
				heap.Fix(h, i)
				step(fmt.Sprintf("HFix %d %s", i, cw.Z(k)), 0)
			default:
				heap.Init(h)
				step("HInit", 0)
			}
		}
		w.Add(cw.Case{
			Coq:  fmt.Sprintf("CHeap %s %s %s", cw.L(start), cw.L(ops), cw.L(obs)),
			Desc: map[string]any{"kind": "container/heap vs Lib/GoHeap", "start": start, "ops": dops},
			Tags: []string{"heap"}, Key: fmt.Sprint("heap", start, dops), Trivial: false,
		})
	}
	w.Extra["scope"] = fmt.Sprintf("GenericStack: every sequence of length<=%d over {push,pop,peek 1..3,len,values} (element types int and *T must agree) + %d random sequences of 5..64 ops; container/heap: %d random Init/Push/Pop/Remove/Fix runs compared array-for-array (keys and recorded positions) with Lib/GoHeap", maxLen, nRand, nHeap)
	if err := w.Flush(); err != nil {
		fmt.Fprintln(os.Stderr, err)
		os.Exit(2)
	}
}
