// Harness for C20: builds trees of errors.ValidationError through the three public constructors, reads them
// through the public API only (Error, GetFlatErrorMap, GetFlatWarningMap, GetErrorMap, GetWarningMap,
// GetChildErrors), calls AddErrorToValidation on every kind of argument pair, and records what it saw.
// All judgement is done in Coq (Run/CorrC20.v); this program only observes.  Map iteration order is never
// observed: maps are reported sorted by key, flat messages sorted per key, Error() as a sorted bag of lines.
package main

import (
	"crypto/sha1"
	"encoding/hex"
	"errors"
	"flag"
	"fmt"
	"math/rand"
	"os"
	"sort"
	"strings"

	verr "github.com/rbell/toolchest/errors"
	"verifharness/internal/cw"
)

// ---------- descriptions of what to build ----------

type entry struct {
	K  string
	Ms []string
}
type mapSpec []entry // contents of a caller-made map[string][]string, keys unique and sorted

const (
	ctorNew  = 0 // NewValidationError(ctx, msg, isWarning)
	ctorErrs = 1 // NewValidationErrors(errs, children)
	ctorWW   = 2 // NewValidationErrorsWithWarnings(errs, warnings, children)
)

type node struct {
	Ctor     int
	Ctx, Msg string
	IsW      bool
	Errs     int // index into the case's maps, -1 = nil map
	Warns    int
	KidsNil  bool
	Kids     []kid // sorted by name, names unique
}
type kid struct {
	Name string
	N    *node
}

func sortSpec(m mapSpec) mapSpec {
	sort.Slice(m, func(i, j int) bool { return m[i].K < m[j].K })
	return m
}
func sortKids(k []kid) []kid {
	sort.Slice(k, func(i, j int) bool { return k[i].Name < k[j].Name })
	return k
}

// world = the caller-made map objects of one case
type world struct{ maps []map[string][]string }

// mkWorld makes the map objects.  In arena mode all message slices of all maps are carved out of ONE
// backing array without a capacity limit, so that an append into a caller-supplied slice (instead of into a
// copy) overwrites the messages of the following entries and becomes visible in the snapshot.
func mkWorld(specs []mapSpec, arena bool) *world {
	w := &world{}
	var ar []string
	if arena {
		n := 0
		for _, s := range specs {
			for _, e := range s {
				n += len(e.Ms)
			}
		}
		ar = make([]string, 0, n+8)
		for _, s := range specs {
			for _, e := range s {
				ar = append(ar, e.Ms...)
			}
		}
		used := len(ar)
		ar = ar[:cap(ar)]
		for i := used; i < len(ar); i++ {
			ar[i] = "<spare>"
		}
	}
	pos := 0
	for _, s := range specs {
		m := make(map[string][]string)
		for _, e := range s {
			if arena {
				m[e.K] = ar[pos : pos+len(e.Ms)]
				pos += len(e.Ms)
			} else {
				m[e.K] = append([]string{}, e.Ms...)
			}
		}
		w.maps = append(w.maps, m)
	}
	return w
}

func (w *world) ref(i int) map[string][]string {
	if i < 0 {
		return nil
	}
	return w.maps[i]
}

func realize(w *world, n *node) *verr.ValidationError {
	if n.Ctor == ctorNew {
		return verr.NewValidationError(n.Ctx, n.Msg, n.IsW)
	}
	var kids map[string]*verr.ValidationError
	if !n.KidsNil {
		kids = make(map[string]*verr.ValidationError)
		for _, k := range n.Kids {
			kids[k.Name] = realize(w, k.N)
		}
	}
	if n.Ctor == ctorErrs {
		return verr.NewValidationErrors(w.ref(n.Errs), kids)
	}
	return verr.NewValidationErrorsWithWarnings(w.ref(n.Errs), w.ref(n.Warns), kids)
}

// ---------- snapshots through the public getters ----------

type snap struct {
	ENil, WNil, KidsNil bool
	E, W                []entry
	Kids                []snapKid
}
type snapKid struct {
	Name string
	S    *snap
}

// canonMap copies a map: keys sorted, messages in slice order (sortMsgs: sorted, for flat results)
func canonMap(m map[string][]string, sortMsgs bool) []entry {
	r := make([]entry, 0, len(m))
	for k, v := range m {
		ms := append([]string{}, v...)
		if sortMsgs {
			sort.Strings(ms)
		}
		r = append(r, entry{k, ms})
	}
	sort.Slice(r, func(i, j int) bool { return r[i].K < r[j].K })
	return r
}

func snapshot(v *verr.ValidationError) *snap {
	if v == nil {
		return nil
	}
	s := &snap{}
	em, wm, ch := v.GetErrorMap(), v.GetWarningMap(), v.GetChildErrors()
	s.ENil, s.WNil, s.KidsNil = em == nil, wm == nil, ch == nil
	s.E, s.W = canonMap(em, false), canonMap(wm, false)
	for k, c := range ch {
		s.Kids = append(s.Kids, snapKid{k, snapshot(c)})
	}
	sort.Slice(s.Kids, func(i, j int) bool { return s.Kids[i].Name < s.Kids[j].Name })
	return s
}

// ---------- reads ----------

const (
	rError = iota
	rFlatE
	rFlatW
	rTopE
	rTopW
)

var opNames = []string{"RError", "RFlatE", "RFlatW", "RTopE", "RTopW"}
var opShort = []string{"Error", "GetFlatErrorMap", "GetFlatWarningMap", "GetErrorMap", "GetWarningMap"}

type readVal struct {
	IsLines bool
	Lines   []string
	MapNil  bool
	Map     []entry
}

func doRead(v *verr.ValidationError, op int) (val readVal, pmsg string) {
	defer func() {
		if r := recover(); r != nil {
			pmsg = fmt.Sprint(r)
			if pmsg == "" {
				pmsg = "panic"
			}
		}
	}()
	switch op {
	case rError:
		// the whole string, transported losslessly as its pieces between newline bytes (Coq re-joins them with
		// newlines before judging: messages may themselves contain newlines, so these pieces are NOT "the lines");
		// the pieces are shared between cases through the string table
		return readVal{IsLines: true, Lines: strings.Split(v.Error(), "\n")}, ""
	case rFlatE:
		m := v.GetFlatErrorMap()
		return readVal{MapNil: m == nil, Map: canonMap(m, true)}, ""
	case rFlatW:
		m := v.GetFlatWarningMap()
		return readVal{MapNil: m == nil, Map: canonMap(m, true)}, ""
	case rTopE:
		m := v.GetErrorMap()
		return readVal{MapNil: m == nil, Map: canonMap(m, false)}, ""
	default:
		m := v.GetWarningMap()
		return readVal{MapNil: m == nil, Map: canonMap(m, false)}, ""
	}
}

// ---------- Coq rendering ----------

// Every distinct string is written once, as `Definition str_N := "..."%string.`, and referred to by name:
// coqc interprets each string literal by running a Gallina conversion (about 0.5 ms per literal), which would
// otherwise dominate the run.  The table rides in front of the cases through the writer's Module line.
var strTab = map[string]int{}
var strList []string

func S(s string) string {
	i, ok := strTab[s]
	if !ok {
		i = len(strList)
		strTab[s] = i
		strList = append(strList, s)
	}
	return fmt.Sprintf("str_%d", i)
}
// Snapshots are hoisted the same way (`Definition snap_N : vt := ...`): histories mention the same snapshot many
// times, and nested `let ... in` inside a case turned out to be very slow to elaborate.
var snapTab = map[string]int{}
var snapList []string

func snapRef(term string) string {
	i, ok := snapTab[term]
	if !ok {
		i = len(snapList)
		snapTab[term] = i
		snapList = append(snapList, term)
	}
	return fmt.Sprintf("snap_%d", i)
}

// strLit renders a Go string (an arbitrary byte sequence) as a Coq term of type string: a literal when every byte
// is printable ASCII, newline or tab, otherwise the list of its byte codes (CorrC20.sc), which
// round-trips control characters, NUL, quotes, multi-byte UTF-8 and invalid UTF-8 alike.
func strLit(s string) string {
	plain := true
	for i := 0; i < len(s); i++ {
		if (s[i] < 0x20 && s[i] != '\n' && s[i] != '\t') || s[i] > 0x7e {
			plain = false
			break
		}
	}
	if plain {
		// newline and tab may stand in a Coq string literal as they are; a double quote is written twice
		return `"` + strings.ReplaceAll(s, `"`, `""`) + `"%string`
	}
	p := make([]string, len(s))
	for i := 0; i < len(s); i++ {
		p[i] = fmt.Sprintf("%d", s[i])
	}
	return "(sc [" + strings.Join(p, "; ") + "]%Z)"
}

func strPrelude() string {
	var sb strings.Builder
	for i, s := range strList {
		fmt.Fprintf(&sb, ".\nDefinition str_%d : string := %s", i, strLit(s))
	}
	for i, t := range snapList {
		fmt.Fprintf(&sb, ".\nDefinition snap_%d : vt := %s", i, t)
	}
	for i, t := range valList {
		fmt.Fprintf(&sb, ".\nDefinition val_%d : read_val := %s", i, t)
	}
	return sb.String()
}
func SL(l []string) string {
	p := make([]string, len(l))
	for i, x := range l {
		p[i] = S(x)
	}
	return cw.L(p)
}
func amapCoq(m []entry) string {
	p := make([]string, len(m))
	for i, e := range m {
		p[i] = "(" + S(e.K) + ", " + SL(e.Ms) + ")"
	}
	return cw.L(p)
}
func oamapCoq(isNil bool, m []entry) string {
	if isNil {
		return "None"
	}
	return "(Some " + amapCoq(m) + ")"
}
func snapCoq(s *snap) string {
	k := "None"
	if !s.KidsNil {
		p := make([]string, len(s.Kids))
		for i, c := range s.Kids {
			p[i] = "(" + S(c.Name) + ", " + snapCoq(c.S) + ")"
		}
		k = "(Some " + cw.L(p) + ")"
	}
	return "(Node " + oamapCoq(s.ENil, s.E) + " " + oamapCoq(s.WNil, s.W) + " " + k + ")"
}
func osnapCoq(s *snap) string {
	if s == nil {
		return "None"
	}
	return "(Some " + snapCoq(s) + ")"
}
func refCoq(i int) string {
	if i < 0 {
		return "None"
	}
	return fmt.Sprintf("(Some %d%%nat)", i)
}
func nodeCoq(n *node) string {
	if n.Ctor == ctorNew {
		return "(BNew " + S(n.Ctx) + " " + S(n.Msg) + " " + cw.B(n.IsW) + ")"
	}
	k := "None"
	if !n.KidsNil {
		p := make([]string, len(n.Kids))
		for i, c := range n.Kids {
			p[i] = "(" + S(c.Name) + ", " + nodeCoq(c.N) + ")"
		}
		k = "(Some " + cw.L(p) + ")"
	}
	if n.Ctor == ctorErrs {
		return "(BErrs " + refCoq(n.Errs) + " " + k + ")"
	}
	return "(BWW " + refCoq(n.Errs) + " " + refCoq(n.Warns) + " " + k + ")"
}
func heapCoq(ms []mapSpec) string {
	p := make([]string, len(ms))
	for i, m := range ms {
		p[i] = amapCoq(m)
	}
	return cw.L(p)
}
func opsCoq(ops []int) string {
	p := make([]string, len(ops))
	for i, o := range ops {
		p[i] = opNames[o]
	}
	return cw.L(p)
}
var valTab = map[string]int{}
var valList []string

// read values are hoisted too (`Definition val_N : read_val := ...`): repeated reads return the same value
func valCoq(v readVal) string {
	var t string
	if v.IsLines {
		t = "(VLines " + SL(v.Lines) + ")"
	} else {
		t = "(VMap " + oamapCoq(v.MapNil, v.Map) + ")"
	}
	i, ok := valTab[t]
	if !ok {
		i = len(valList)
		valTab[t] = i
		valList = append(valList, t)
	}
	return fmt.Sprintf("val_%d", i)
}
func valsCoq(vs []readVal) string {
	p := make([]string, len(vs))
	for i, v := range vs {
		p[i] = valCoq(v)
	}
	return cw.L(p)
}

// ---------- human-readable rendering (replay files) ----------

func mapTxt(ms []mapSpec, i int) string {
	if i < 0 {
		return "nil"
	}
	p := []string{}
	for _, e := range ms[i] {
		p = append(p, fmt.Sprintf("%q:%q", e.K, e.Ms))
	}
	return fmt.Sprintf("map#%d{%s}", i, strings.Join(p, ", "))
}
func nodeTxt(ms []mapSpec, n *node) string {
	if n.Ctor == ctorNew {
		return fmt.Sprintf("NewValidationError(%q, %q, %v)", n.Ctx, n.Msg, n.IsW)
	}
	k := "nil"
	if !n.KidsNil {
		p := []string{}
		for _, c := range n.Kids {
			p = append(p, fmt.Sprintf("%q: %s", c.Name, nodeTxt(ms, c.N)))
		}
		k = "{" + strings.Join(p, ", ") + "}"
	}
	if n.Ctor == ctorErrs {
		return fmt.Sprintf("NewValidationErrors(%s, %s)", mapTxt(ms, n.Errs), k)
	}
	return fmt.Sprintf("NewValidationErrorsWithWarnings(%s, %s, %s)", mapTxt(ms, n.Errs), mapTxt(ms, n.Warns), k)
}
func snapTxt(s *snap) string {
	if s == nil {
		return "nil"
	}
	f := func(isNil bool, m []entry) string {
		if isNil {
			return "nil"
		}
		p := []string{}
		for _, e := range m {
			p = append(p, fmt.Sprintf("%q:%q", e.K, e.Ms))
		}
		return "{" + strings.Join(p, ", ") + "}"
	}
	k := "nil"
	if !s.KidsNil {
		p := []string{}
		for _, c := range s.Kids {
			p = append(p, fmt.Sprintf("%q: %s", c.Name, snapTxt(c.S)))
		}
		k = "{" + strings.Join(p, ", ") + "}"
	}
	return fmt.Sprintf("VE(errors=%s warnings=%s children=%s)", f(s.ENil, s.E), f(s.WNil, s.W), k)
}
func valTxt(v readVal) string {
	if v.IsLines {
		return fmt.Sprintf("%q", v.Lines)
	}
	if v.MapNil {
		return "nil"
	}
	p := []string{}
	for _, e := range v.Map {
		p = append(p, fmt.Sprintf("%q:%q", e.K, e.Ms))
	}
	return "{" + strings.Join(p, ", ") + "}"
}

// ---------- tree statistics (for the non-triviality rule and the histogram) ----------

type tstats struct {
	depth, nodes           int
	ctors                  [3]bool
	nilMap, warn, childMsg bool
	sources                map[string]int // flat key (errors "E:"/warnings "W:") -> number of (node, field) sources with >= 1 message
}

func walk(ms []mapSpec, n *node, path string, d int, st *tstats) {
	st.nodes++
	if d > st.depth {
		st.depth = d
	}
	st.ctors[n.Ctor] = true
	add := func(kind, k string, cnt int) {
		if cnt == 0 {
			return
		}
		st.sources[kind+path+k]++
		if kind == "W:" {
			st.warn = true
		}
		if d > 0 {
			st.childMsg = true
		}
	}
	switch n.Ctor {
	case ctorNew:
		if n.IsW {
			add("W:", n.Ctx, 1)
		} else {
			add("E:", n.Ctx, 1)
		}
	default:
		if n.Errs < 0 || (n.Ctor == ctorErrs) || n.Warns < 0 {
			st.nilMap = true
		}
		if n.Errs >= 0 {
			for _, e := range ms[n.Errs] {
				add("E:", e.K, len(e.Ms))
			}
		}
		if n.Ctor == ctorWW && n.Warns >= 0 {
			for _, e := range ms[n.Warns] {
				add("W:", e.K, len(e.Ms))
			}
		}
	}
	for _, c := range n.Kids {
		walk(ms, c.N, path+c.Name+".", d+1, st)
	}
}
func stats(ms []mapSpec, n *node) *tstats {
	st := &tstats{sources: map[string]int{}}
	walk(ms, n, "", 0, st)
	return st
}
func (st *tstats) collision() bool {
	for _, c := range st.sources {
		if c > 1 {
			return true
		}
	}
	return false
}
func sharedMaps(n *node, seen map[int]int) {
	if n.Ctor != ctorNew {
		if n.Errs >= 0 {
			seen[n.Errs]++
		}
		if n.Ctor == ctorWW && n.Warns >= 0 {
			seen[n.Warns]++
		}
	}
	for _, c := range n.Kids {
		sharedMaps(c.N, seen)
	}
}

func hashKey(s string) string {
	h := sha1.Sum([]byte(s))
	return hex.EncodeToString(h[:8])
}

// ---------- read cases ----------

var W *cw.Writer
var panics = map[string]int{}

func treeTags(ms []mapSpec, root *node, arena bool) (tags []string, st *tstats) {
	st = stats(ms, root)
	tags = append(tags, fmt.Sprintf("depth%d", st.depth))
	for i, nm := range []string{"ctor.New", "ctor.Errs", "ctor.WithWarnings"} {
		if st.ctors[i] {
			tags = append(tags, nm)
		}
	}
	if st.nilMap {
		tags = append(tags, "nil-map")
	}
	if st.warn {
		tags = append(tags, "warnings")
	}
	if st.childMsg {
		tags = append(tags, "child-messages")
	}
	if st.collision() {
		tags = append(tags, "key-collision")
	}
	sh := map[int]int{}
	sharedMaps(root, sh)
	for _, c := range sh {
		if c > 1 {
			tags = append(tags, "shared-map")
			break
		}
	}
	if arena {
		tags = append(tags, "arena-slices")
	}
	return
}

func runRead(stream string, ms []mapSpec, root *node, ops []int, arena bool) {
	w := mkWorld(ms, arena)
	v := realize(w, root)
	s0 := snapshot(v)
	var obs []readVal
	pmsg := ""
	for _, op := range ops {
		val, pm := doRead(v, op)
		if pm != "" {
			pmsg = pm
			break
		}
		obs = append(obs, val)
	}
	s1 := snapshot(v)
	tag0 := "read"
	if pmsg != "" {
		tag0 = "read.panic"
		panics[pmsg]++
	}
	ttags, st := treeTags(ms, root, arena)
	tags := append([]string{tag0, "stream." + stream}, ttags...)
	flatRead := false
	opn := make([]string, len(ops))
	for i, o := range ops {
		opn[i] = opShort[o]
		if o <= rFlatW {
			flatRead = true
		}
	}
	obsT := make([]string, len(obs))
	for i, o := range obs {
		obsT[i] = opShort[ops[i]] + "() = " + valTxt(o)
	}
	txt := nodeTxt(ms, root)
	desc := map[string]any{
		"kind": "reads", "tree": txt, "reads": opn, "arena_slices": arena,
		"snapshot_before": snapTxt(s0), "snapshot_after": snapTxt(s1), "observed": obsT, "panic": pmsg,
	}
	coq := fmt.Sprintf("CRead %s %s %s %s %s %s %s", heapCoq(ms), nodeCoq(root), opsCoq(ops), snapRef(snapCoq(s0)), snapRef(snapCoq(s1)),
		valsCoq(obs), cw.B(pmsg != ""))
	W.Add(cw.Case{Coq: coq, Desc: desc, Tags: tags,
		Key:     hashKey(fmt.Sprintf("R|%s|%v|%v", txt, ops, arena)),
		Trivial: !(st.childMsg && flatRead)})
}

// all read sequences of length 1..3 over the five reads, each applied twice
func allSeqs() [][]int {
	var r [][]int
	var rec func(cur []int, n int)
	rec = func(cur []int, n int) {
		if len(cur) == n {
			r = append(r, append(append([]int{}, cur...), cur...))
			return
		}
		for o := 0; o < 5; o++ {
			rec(append(cur, o), n)
		}
	}
	for n := 1; n <= 3; n++ {
		rec(nil, n)
	}
	return r
}

// ---------- generators ----------

type gen struct {
	ms  []mapSpec
	ctr int
}

func (g *gen) msg() string { g.ctr++; return fmt.Sprintf("m%d", g.ctr) }
func (g *gen) newMap(keys []string, counts []int) int {
	var m mapSpec
	for i, k := range keys {
		var l []string
		for j := 0; j < counts[i]; j++ {
			l = append(l, g.msg())
		}
		m = append(m, entry{k, l})
	}
	g.ms = append(g.ms, sortSpec(m))
	return len(g.ms) - 1
}

// leaf shapes of the exhaustive stream: 12 kinds
const nLeaf = 12

func (g *gen) leaf(i int) *node {
	switch i {
	case 0:
		return &node{Ctor: ctorNew, Ctx: "c", Msg: g.msg()}
	case 1:
		return &node{Ctor: ctorNew, Ctx: "c", Msg: g.msg(), IsW: true}
	case 2:
		return &node{Ctor: ctorNew, Ctx: "b.c", Msg: g.msg()}
	case 3:
		return &node{Ctor: ctorNew, Ctx: "b.c", Msg: g.msg(), IsW: true}
	case 4:
		return &node{Ctor: ctorErrs, Errs: -1, Warns: -1, KidsNil: true}
	case 5:
		return &node{Ctor: ctorErrs, Errs: g.newMap([]string{"c"}, []int{1}), Warns: -1, KidsNil: true}
	case 6:
		return &node{Ctor: ctorErrs, Errs: g.newMap([]string{"c", "b.c"}, []int{2, 1}), Warns: -1, KidsNil: true}
	case 7:
		return &node{Ctor: ctorErrs, Errs: g.newMap(nil, nil), Warns: -1, KidsNil: true}
	case 8:
		return &node{Ctor: ctorWW, Errs: -1, Warns: -1, KidsNil: true}
	case 9:
		return &node{Ctor: ctorWW, Errs: -1, Warns: g.newMap([]string{"c", ""}, []int{1, 1}), KidsNil: true}
	case 10:
		return &node{Ctor: ctorWW, Errs: g.newMap([]string{"c"}, []int{1}), Warns: -1, KidsNil: true}
	default:
		return &node{Ctor: ctorWW, Errs: g.newMap([]string{"c"}, []int{1}), Warns: g.newMap([]string{"c", "b.c"}, []int{1, 0}), KidsNil: true}
	}
}

// top shapes of the exhaustive stream: 7 kinds (keys "a.c"/"a.b.c" collide with child "a" field "c" / "b.c")
const nTop = 7

func (g *gen) top(i int) *node {
	switch i {
	case 0:
		return &node{Ctor: ctorErrs, Errs: -1, Warns: -1}
	case 1:
		return &node{Ctor: ctorErrs, Errs: g.newMap([]string{"a.c", "c", "a.b.c"}, []int{1, 1, 1}), Warns: -1}
	case 2:
		return &node{Ctor: ctorWW, Errs: -1, Warns: -1}
	case 3:
		return &node{Ctor: ctorWW, Errs: -1, Warns: g.newMap([]string{"a.c", "a.b.c"}, []int{1, 1})}
	case 4:
		return &node{Ctor: ctorWW, Errs: g.newMap([]string{"a.c", "a.b.c"}, []int{1, 1}), Warns: -1}
	case 5:
		return &node{Ctor: ctorWW, Errs: g.newMap([]string{"a.c"}, []int{1}), Warns: g.newMap([]string{"a.c", "a.b.c"}, []int{1, 2})}
	default:
		m := g.newMap([]string{"a.c", "a.b.c"}, []int{1, 1})
		return &node{Ctor: ctorWW, Errs: m, Warns: m} // the same map object as errors and as warnings
	}
}

// kid configurations: -2 = nil children map, -1 = empty map, otherwise leaf indices for "a" and "a.b" (-3 = absent)
type kidCfg struct{ a, ab int }

func kidCfgs() []kidCfg {
	r := []kidCfg{{-2, -2}, {-1, -1}}
	for i := 0; i < nLeaf; i++ {
		r = append(r, kidCfg{i, -3})
	}
	for i := 0; i < nLeaf; i++ {
		r = append(r, kidCfg{-3, i})
	}
	for i := 0; i < nLeaf; i++ {
		for j := 0; j < nLeaf; j++ {
			r = append(r, kidCfg{i, j})
		}
	}
	return r
}

func (g *gen) withKids(n *node, c kidCfg) *node {
	if c.a == -2 {
		n.KidsNil = true
		return n
	}
	if c.a == -1 {
		return n
	}
	if c.a >= 0 {
		n.Kids = append(n.Kids, kid{"a", g.leaf(c.a)})
	}
	if c.ab >= 0 {
		n.Kids = append(n.Kids, kid{"a.b", g.leaf(c.ab)})
	}
	return n
}

// specials: strings with format verbs and other metacharacters.  They are used as messages, field names, child
// names, plain-error texts and wrapper texts: wherever a caller's string flows to an output it must arrive unchanged.
var specials = []string{
	"%", "%s", "%d", "%v", "%!", "%%", "100% of the base", "%20", "%!o(MISSING)", "%[1]s", "%*d", "%!(EXTRA string=x)",
	"\\", "\\n", "a\\", "\n", "a\nb", "x\nERROR: fake\nWARNING: fake", "\r\n", "\t", "tab\there",
	"\"", "say \"hi\"", "'", "`", "\x00", "a\x00b", "\x7f", "\x1b[31mred",
	"é", "日本語", "😀 ok", "\xff\xfe", "\xc3", "a\xc3(", "\xef\xbf\xbd",
	"{{.}}", "$1", "${x}", "<b>&amp;</b>", "(* *)", "(*", ". .", "..", " ", "  two  spaces  ",
	longString("%", 450), longString("%s", 150),
}

// longString: a very long string (about 1.7 kB / 0.7 kB) that is not self-similar - the numbers 0..n joined by sep -
// so that the substring searches of the evaluator stay linear
func longString(sep string, n int) string {
	p := make([]string, n)
	for i := range p {
		p[i] = fmt.Sprint(i)
	}
	return strings.Join(p, sep)
}


var childNames = []string{"a", "b", "a.b", "", "x"}
var fieldNames = []string{"c", "b.c", "a.c", "", "f", "a.b.c", "b"}
var msgTexts = []string{"required", "too long", "x: y", "ERROR: fake", "m", ""}

var specialNames []string // the specials short enough to be used as field and child names

func init() {
	for _, x := range specials {
		if len(x) < 100 { // the very long ones are exercised by the specials stream only
			msgTexts = append(msgTexts, x)
			specialNames = append(specialNames, x)
		}
	}
}

// pickNames returns n distinct names: each from the plain alphabet (which is built to collide under dotted
// prefixes) or, one time in three, from the specials
func pickNames(r *rand.Rand, n int, plain []string) []string {
	seen := map[string]bool{}
	var out []string
	for len(out) < n {
		var x string
		if r.Intn(3) == 0 {
			x = specialNames[r.Intn(len(specialNames))]
		} else {
			x = plain[r.Intn(len(plain))]
		}
		if !seen[x] {
			seen[x] = true
			out = append(out, x)
		}
	}
	return out
}

func (g *gen) randMap(r *rand.Rand) int {
	if len(g.ms) > 0 && r.Intn(6) == 0 {
		return r.Intn(len(g.ms)) // share an existing map object
	}
	n := r.Intn(4)
	names := pickNames(r, n, fieldNames)
	var m mapSpec
	for i := 0; i < n; i++ {
		cnt := r.Intn(4)
		var l []string
		for j := 0; j < cnt; j++ {
			if r.Intn(4) == 0 {
				l = append(l, msgTexts[r.Intn(len(msgTexts))])
			} else {
				l = append(l, g.msg())
			}
		}
		m = append(m, entry{names[i], l})
	}
	g.ms = append(g.ms, sortSpec(m))
	return len(g.ms) - 1
}

func (g *gen) randRef(r *rand.Rand) int {
	if r.Intn(4) == 0 {
		return -1
	}
	return g.randMap(r)
}

func (g *gen) randNode(r *rand.Rand, depth int) *node {
	if depth == 0 || r.Intn(5) == 0 {
		switch r.Intn(3) {
		case 0:
			msg := g.msg()
			if r.Intn(4) == 0 {
				msg = msgTexts[r.Intn(len(msgTexts))]
			}
			return &node{Ctor: ctorNew, Ctx: pickNames(r, 1, fieldNames)[0], Msg: msg, IsW: r.Intn(2) == 0}
		case 1:
			return &node{Ctor: ctorErrs, Errs: g.randRef(r), Warns: -1, KidsNil: r.Intn(2) == 0}
		default:
			return &node{Ctor: ctorWW, Errs: g.randRef(r), Warns: g.randRef(r), KidsNil: r.Intn(2) == 0}
		}
	}
	n := &node{Ctor: ctorErrs + r.Intn(2), Errs: g.randRef(r), Warns: -1}
	if n.Ctor == ctorWW {
		n.Warns = g.randRef(r)
	}
	fan := 1 + r.Intn(3)
	names := pickNames(r, fan, childNames)
	for i := 0; i < fan; i++ {
		n.Kids = append(n.Kids, kid{names[i], g.randNode(r, depth-1)})
	}
	n.Kids = sortKids(n.Kids)
	return n
}

// ---------- AddErrorToValidation ----------

type ptrErr struct{ s string }

func (e *ptrErr) Error() string { return e.s }

type valErr string // an error whose dynamic type is not a pointer

func (e valErr) Error() string { return string(e) }

type wrapErr struct {
	s     string
	inner error
}

func (e *wrapErr) Error() string { return e.s }
func (e *wrapErr) Unwrap() error { return e.inner }

const (
	aNil = iota
	aNilPtr
	aPlainPtr
	aPlainVal
	aVE
	aWrap
	aFmtWrap // fmt.Errorf("...: %w", inner)
)

type arg struct {
	Kind  int
	S     string
	N     *node
	Inner *arg
}

// realizeArg returns the error value, the ValidationError inside it (if any), and the text for the model
func realizeArg(w *world, a *arg) (e error, inner *verr.ValidationError) {
	switch a.Kind {
	case aNil:
		return nil, nil
	case aNilPtr:
		var p *verr.ValidationError
		return p, nil
	case aPlainPtr:
		return &ptrErr{a.S}, nil
	case aPlainVal:
		return valErr(a.S), nil
	case aVE:
		v := realize(w, a.N)
		return v, v
	case aWrap:
		ie, iv := realizeArg(w, a.Inner)
		return &wrapErr{a.S, ie}, iv
	default:
		ie, iv := realizeArg(w, a.Inner)
		return fmt.Errorf("%s%w", a.S, ie), iv
	}
}

func argCoq(a *arg, e error) string {
	switch a.Kind {
	case aNil:
		return "ANil"
	case aNilPtr:
		return "ANilPtr"
	case aPlainPtr, aPlainVal:
		return "(APlain " + S(a.S) + ")"
	case aVE:
		return "(AVE " + nodeCoq(a.N) + ")"
	default:
		// the wrapper's own text is whatever its Error() says (for fmt.Errorf it includes the inner text)
		var ie error
		if u, ok := e.(interface{ Unwrap() error }); ok {
			ie = u.Unwrap()
		}
		return "(AWrap " + S(e.Error()) + " " + argCoq(a.Inner, ie) + ")"
	}
}
func argTxt(ms []mapSpec, a *arg) string {
	switch a.Kind {
	case aNil:
		return "nil"
	case aNilPtr:
		return "(*ValidationError)(nil)"
	case aPlainPtr:
		return fmt.Sprintf("&ptrErr{%q}", a.S)
	case aPlainVal:
		return fmt.Sprintf("valErr(%q)", a.S)
	case aVE:
		return nodeTxt(ms, a.N)
	case aWrap:
		return fmt.Sprintf("&wrapErr{%q, %s}", a.S, argTxt(ms, a.Inner))
	default:
		return fmt.Sprintf("fmt.Errorf(%q, %s)", a.S+"%w", argTxt(ms, a.Inner))
	}
}
func argKind(a *arg) string {
	switch a.Kind {
	case aNil:
		return "nil"
	case aNilPtr:
		return "nilptr"
	case aPlainPtr, aPlainVal:
		return "plain"
	case aVE:
		return "ve"
	default:
		in := a
		for in.Kind == aWrap || in.Kind == aFmtWrap {
			in = in.Inner
		}
		if in.Kind == aVE {
			return "wrapped-ve"
		}
		return "wrapped-other"
	}
}

var addOps = []int{rFlatE, rFlatW, rError, rTopE, rTopW, rFlatE, rFlatW, rError}

func runAdd(stream string, ms []mapSpec, a1, a2 *arg, same, arena bool) {
	w := mkWorld(ms, arena)
	e1, v1 := realizeArg(w, a1)
	e2, v2 := e1, v1
	if !same {
		e2, v2 = realizeArg(w, a2)
	}
	c1, c2 := argCoq(a1, e1), "ANil"
	if !same {
		c2 = argCoq(a2, e2)
	}
	s1, s2 := snapshot(v1), snapshot(v2)
	var res *verr.ValidationError
	pmsg := ""
	func() {
		defer func() {
			if r := recover(); r != nil {
				pmsg = "AddErrorToValidation: " + fmt.Sprint(r)
			}
		}()
		res = verr.AddErrorToValidation(e1, e2)
	}()
	var obs []readVal
	var r0, r1 *snap
	if pmsg == "" && res != nil {
		r0 = snapshot(res)
		for _, op := range addOps {
			val, pm := doRead(res, op)
			if pm != "" {
				pmsg = "read of result: " + pm
				break
			}
			obs = append(obs, val)
		}
		r1 = snapshot(res)
	}
	tag0 := "add"
	if pmsg != "" {
		tag0 = "add.panic"
		panics[pmsg]++
	}
	k2 := "same-object"
	if !same {
		k2 = argKind(a2)
	}
	tags := []string{tag0, "stream." + stream, "add." + argKind(a1) + "+" + k2}
	if arena {
		tags = append(tags, "arena-slices")
	}
	obsT := make([]string, len(obs))
	for i, o := range obs {
		obsT[i] = opShort[addOps[i]] + "() = " + valTxt(o)
	}
	t1, t2 := argTxt(ms, a1), "<the same object as e1>"
	if !same {
		t2 = argTxt(ms, a2)
	}
	desc := map[string]any{
		"kind": "AddErrorToValidation", "e1": t1, "e2": t2, "arena_slices": arena,
		"e1_before": snapTxt(s1), "e2_before": snapTxt(s2), "panic": pmsg, "result_nil": res == nil && pmsg == "",
		"result_before_reads": snapTxt(r0), "result_after_reads": snapTxt(r1), "reads_of_result": obsT,
	}
	osr := func(sn *snap) string {
		if sn == nil {
			return "None"
		}
		return "(Some " + snapRef(snapCoq(sn)) + ")"
	}
	coq := fmt.Sprintf("CAdd %s %s %s %s %s %s %s %s %s %s %s %s", heapCoq(ms), c1, c2, cw.B(same), osr(s1), osr(s2),
		cw.B(pmsg != ""), cw.B(res == nil && pmsg == ""), osr(r0), osr(r1), opsCoq(addOps), valsCoq(obs))
	triv := a1.Kind <= aNilPtr || (!same && a2.Kind <= aNilPtr)
	W.Add(cw.Case{Coq: coq, Desc: desc, Tags: tags,
		Key: hashKey(fmt.Sprintf("A|%s|%s|%v|%v", t1, t2, same, arena)), Trivial: triv})
}

// the argument menu for the exhaustive pairing; every call builds fresh descriptions into g
func argMenu(g *gen, full bool) []func() *arg {
	ve := func(f func() *node) func() *arg { return func() *arg { return &arg{Kind: aVE, N: f()} } }
	wrap := func(s string, f func() *arg) func() *arg {
		return func() *arg { return &arg{Kind: aWrap, S: s, Inner: f()} }
	}
	fwrap := func(s string, f func() *arg) func() *arg {
		return func() *arg { return &arg{Kind: aFmtWrap, S: s, Inner: f()} }
	}
	vNewE := ve(func() *node { return &node{Ctor: ctorNew, Ctx: "c", Msg: g.msg()} })
	vNewW := ve(func() *node { return &node{Ctor: ctorNew, Ctx: "", Msg: g.msg(), IsW: true} })
	vErrsNil := ve(func() *node { return &node{Ctor: ctorErrs, Errs: -1, Warns: -1, KidsNil: true} })
	vErrsKid := ve(func() *node {
		return &node{Ctor: ctorErrs, Errs: g.newMap([]string{"c", "a.c"}, []int{1, 1}), Warns: -1,
			Kids: []kid{{"a", &node{Ctor: ctorNew, Ctx: "c", Msg: g.msg()}}}}
	})
	vErrsKidW := ve(func() *node {
		return &node{Ctor: ctorErrs, Errs: -1, Warns: -1,
			Kids: []kid{{"a", &node{Ctor: ctorNew, Ctx: "c", Msg: g.msg(), IsW: true}}}}
	})
	vWWnilE := ve(func() *node {
		return &node{Ctor: ctorWW, Errs: -1, Warns: g.newMap([]string{"c"}, []int{2}), KidsNil: true}
	})
	vWWfull := ve(func() *node {
		return &node{Ctor: ctorWW, Errs: g.newMap([]string{"c"}, []int{1}), Warns: g.newMap([]string{"c", "a.c"}, []int{1, 1}),
			Kids: []kid{{"a", &node{Ctor: ctorNew, Ctx: "c", Msg: g.msg(), IsW: true}},
				{"a.b", &node{Ctor: ctorErrs, Errs: g.newMap([]string{"c"}, []int{1}), Warns: -1, KidsNil: true}}}}
	})
	vDeep := ve(func() *node {
		return &node{Ctor: ctorErrs, Errs: -1, Warns: -1,
			Kids: []kid{{"a", &node{Ctor: ctorWW, Errs: g.newMap([]string{"b.c"}, []int{1}), Warns: g.newMap([]string{"c"}, []int{1}),
				Kids: []kid{{"b", &node{Ctor: ctorNew, Ctx: "c", Msg: g.msg()}}}}}}}
	})
	plainP := func() *arg { return &arg{Kind: aPlainPtr, S: "boom"} }
	plainV := func() *arg { return &arg{Kind: aPlainVal, S: "bang"} }
	nilA := func() *arg { return &arg{Kind: aNil} }
	nilP := func() *arg { return &arg{Kind: aNilPtr} }
	m := []func() *arg{nilA, nilP, plainP, plainV, vNewE, vNewW, vErrsNil, vErrsKid, vErrsKidW, vWWnilE, vWWfull,
		wrap("ctx: wrapped", vNewE), wrap("ctx: wrapped", vErrsKidW), wrap("ctx: plain", plainP)}
	if full {
		m = append(m, vDeep, wrap("outer", wrap("inner", vWWfull)), fwrap("ctx: ", vNewE), fwrap("ctx: ", plainV),
			wrap("ctx: nilptr inside", nilP), wrap("ctx: nil inside", nilA), wrap("ctx: deep", vDeep))
	}
	return m
}

func (g *gen) randArg(r *rand.Rand, depth int) *arg {
	switch r.Intn(10) {
	case 0:
		return &arg{Kind: aNil}
	case 1:
		return &arg{Kind: aNilPtr}
	case 2:
		return &arg{Kind: aPlainPtr, S: msgTexts[r.Intn(len(msgTexts))]}
	case 3:
		return &arg{Kind: aPlainVal, S: g.msg()}
	case 4:
		if depth > 0 {
			return &arg{Kind: aWrap, S: "w" + g.msg(), Inner: g.randArg(r, depth-1)}
		}
	}
	return &arg{Kind: aVE, N: g.randNode(r, 1+r.Intn(3))}
}


// ---------- histories: reads and AddErrorToValidation calls interleaved on one running object ----------

const (
	hRead = iota
	hReadChild
	hAdd      // cur = AddErrorToValidation(cur, a)
	hAddTo    // cur = AddErrorToValidation(a, cur)
	hAddChild // AddErrorToValidation(cur.GetChildErrors()[..]..., a), result dropped
)

type hop struct {
	Kind int
	Op   int
	Path []string
	A    *arg
}

func pathCoq(p []string) string { return SL(p) }

// descend follows child names through GetChildErrors
func descend(v *verr.ValidationError, path []string) *verr.ValidationError {
	for _, k := range path {
		if v == nil {
			return nil
		}
		v = v.GetChildErrors()[k]
	}
	return v
}

func argHasVE(a *arg) bool {
	for a.Kind == aWrap || a.Kind == aFmtWrap {
		a = a.Inner
	}
	return a.Kind == aVE
}

// runHist executes the history on the real code.  A step that is not applicable (running object nil, no such
// child, or - a limit of the model, see notes - extending a child that lacks the map to be written) is DROPPED
// from the history.  The history stops at the first panic.
func runHist(stream string, ms []mapSpec, start *node, ops []hop, arena bool) {
	w := mkWorld(ms, arena)
	var cur *verr.ValidationError
	startCoq, startTxt := "None", "nil"
	if start != nil {
		cur = realize(w, start)
		startCoq, startTxt = "(Some "+nodeCoq(start)+")", nodeTxt(ms, start)
	}
	nm := func(sn *snap) string { return snapRef(snapCoq(sn)) }
	onm := func(sn *snap) string {
		if sn == nil {
			return "None"
		}
		return "(Some " + nm(sn) + ")"
	}
	s0 := onm(snapshot(cur))
	var opsC, obsC, steps []string
	pmsg := ""
	readBefore, readAddRead := false, false
	added := false
	for _, o := range ops {
		if pmsg != "" {
			break
		}
		switch o.Kind {
		case hRead, hReadChild:
			tgt := cur
			if o.Kind == hReadChild {
				tgt = descend(cur, o.Path)
			}
			if tgt == nil {
				continue
			}
			b := snapshot(tgt)
			val, pm := doRead(tgt, o.Op)
			if o.Kind == hRead {
				opsC = append(opsC, "(HRead "+opNames[o.Op]+")")
			} else {
				opsC = append(opsC, "(HReadChild "+pathCoq(o.Path)+" "+opNames[o.Op]+")")
			}
			if pm != "" {
				pmsg = pm
				obsC = append(obsC, "OPanic")
				steps = append(steps, fmt.Sprintf("%s%v() PANIC %s", strings.Join(o.Path, "/"), opShort[o.Op], pm))
				continue
			}
			a := snapshot(tgt)
			obsC = append(obsC, fmt.Sprintf("(ORead %s %s %s)", nm(b), nm(a), valCoq(val)))
			pre := "cur"
			if o.Kind == hReadChild {
				pre = "cur/" + strings.Join(o.Path, "/")
			}
			steps = append(steps, fmt.Sprintf("%s.%s() = %s", pre, opShort[o.Op], valTxt(val)))
			if o.Op <= rFlatW {
				if added && readBefore {
					readAddRead = true
				}
				readBefore = true
			}
		case hAdd, hAddTo:
			e2, inner := realizeArg(w, o.A)
			ac := argCoq(o.A, e2)
			sArg := snapshot(inner)
			b := snapshot(cur)
			var res *verr.ValidationError
			func() {
				defer func() {
					if r := recover(); r != nil {
						pmsg = "AddErrorToValidation: " + fmt.Sprint(r)
					}
				}()
				if o.Kind == hAdd {
					res = verr.AddErrorToValidation(cur, e2)
				} else {
					res = verr.AddErrorToValidation(e2, cur)
				}
			}()
			if o.Kind == hAdd {
				opsC = append(opsC, "(HAdd "+ac+")")
			} else {
				opsC = append(opsC, "(HAddTo "+ac+")")
			}
			if pmsg != "" {
				obsC = append(obsC, "OPanic")
				steps = append(steps, "AddErrorToValidation PANIC "+pmsg)
				continue
			}
			cur = res
			r := snapshot(cur)
			obsC = append(obsC, fmt.Sprintf("(OAdd %s %s %s %s)", onm(b), onm(sArg), cw.B(cur == nil), onm(r)))
			if o.Kind == hAdd {
				steps = append(steps, fmt.Sprintf("cur = AddErrorToValidation(cur, %s)  => %s", argTxt(ms, o.A), snapTxt(r)))
			} else {
				steps = append(steps, fmt.Sprintf("cur = AddErrorToValidation(%s, cur)  => %s", argTxt(ms, o.A), snapTxt(r)))
			}
			added = true
		case hAddChild:
			c := descend(cur, o.Path)
			if c == nil {
				continue
			}
			cs := snapshot(c)
			if cs.ENil || (argHasVE(o.A) && cs.WNil) {
				continue // the call would assign a field of the child node: nodes are values in the model
			}
			e2, inner := realizeArg(w, o.A)
			ac := argCoq(o.A, e2)
			sArg := snapshot(inner)
			b := snapshot(cur)
			func() {
				defer func() {
					if r := recover(); r != nil {
						pmsg = "AddErrorToValidation: " + fmt.Sprint(r)
					}
				}()
				_ = verr.AddErrorToValidation(c, e2)
			}()
			opsC = append(opsC, "(HAddChild "+pathCoq(o.Path)+" "+ac+")")
			if pmsg != "" {
				obsC = append(obsC, "OPanic")
				steps = append(steps, "AddErrorToValidation(child) PANIC "+pmsg)
				continue
			}
			r := snapshot(cur)
			obsC = append(obsC, fmt.Sprintf("(OAddChild %s %s %s)", nm(b), onm(sArg), nm(r)))
			steps = append(steps, fmt.Sprintf("AddErrorToValidation(cur/%s, %s)  => cur = %s", strings.Join(o.Path, "/"), argTxt(ms, o.A), snapTxt(r)))
			added = true
		}
	}
	tag0 := "hist"
	if pmsg != "" {
		tag0 = "hist.panic"
		panics[pmsg]++
	}
	tags := []string{tag0, "stream." + stream, fmt.Sprintf("hist.len%d", len(opsC))}
	if readAddRead {
		tags = append(tags, "hist.read-add-read")
	}
	if arena {
		tags = append(tags, "arena-slices")
	}
	desc := map[string]any{"kind": "history", "start": startTxt, "steps": steps, "arena_slices": arena, "panic": pmsg}
	coq := fmt.Sprintf("CHist %s %s %s %s %s", heapCoq(ms), startCoq, s0, cw.L(opsC), cw.L(obsC))
	W.Add(cw.Case{Coq: coq, Desc: desc, Tags: tags,
		Key: hashKey(fmt.Sprintf("H|%s|%v|%v", startTxt, steps, arena)), Trivial: !readAddRead})
}

// argument shapes for histories (fresh descriptions into g)
func histArgs(g *gen) []func() *arg {
	return []func() *arg{
		func() *arg { return &arg{Kind: aPlainPtr, S: "plain " + g.msg()} },
		func() *arg { return &arg{Kind: aVE, N: &node{Ctor: ctorNew, Ctx: "c", Msg: g.msg()}} },
		func() *arg { return &arg{Kind: aVE, N: &node{Ctor: ctorNew, Ctx: "a.c", Msg: g.msg(), IsW: true}} },
		func() *arg {
			return &arg{Kind: aWrap, S: "ctx " + g.msg(), Inner: &arg{Kind: aVE, N: &node{Ctor: ctorErrs, Errs: g.newMap([]string{"c"}, []int{1}), Warns: -1,
				Kids: []kid{{"a", &node{Ctor: ctorNew, Ctx: "c", Msg: g.msg(), IsW: true}}}}}}
		},
		func() *arg { return &arg{Kind: aNil} },
		func() *arg { return &arg{Kind: aPlainVal, S: "val " + g.msg()} },
	}
}

// start objects for histories: nil, a leaf, a tree whose children have both maps, a tree with nil maps
func histStarts(g *gen) []func() *node {
	return []func() *node{
		func() *node { return nil },
		func() *node { return &node{Ctor: ctorNew, Ctx: "c", Msg: g.msg()} },
		func() *node {
			return &node{Ctor: ctorWW, Errs: g.newMap([]string{"c", "a.c"}, []int{1, 1}), Warns: g.newMap([]string{"c"}, []int{1}),
				Kids: []kid{{"a", &node{Ctor: ctorNew, Ctx: "c", Msg: g.msg()}},
					{"b", &node{Ctor: ctorWW, Errs: g.newMap([]string{"c"}, []int{1}), Warns: g.newMap(nil, nil),
						Kids: []kid{{"a", &node{Ctor: ctorNew, Ctx: "c", Msg: g.msg(), IsW: true}}}}}}}
		},
		func() *node {
			return &node{Ctor: ctorErrs, Errs: -1, Warns: -1,
				Kids: []kid{{"a", &node{Ctor: ctorWW, Errs: -1, Warns: g.newMap([]string{"c"}, []int{1}), KidsNil: true}}}}
		},
	}
}

func histCorpus() {
	// the three sequences of seeded change C20-r2m2 (memoised flat maps not invalidated when a plain error is joined)
	build := func(g *gen) *node {
		g.ms = append(g.ms, mapSpec{{"Name", []string{"is required"}}}, mapSpec{{"Email", []string{"looks odd"}}})
		return &node{Ctor: ctorWW, Errs: len(g.ms) - 2, Warns: len(g.ms) - 1,
			Kids: []kid{{"Address", &node{Ctor: ctorNew, Ctx: "Zip", Msg: "is invalid"}}}}
	}
	plain := func() *arg { return &arg{Kind: aPlainPtr, S: "lookup failed"} }
	{
		g := &gen{}
		runHist("corpus", g.ms, build(g), []hop{{Kind: hAdd, A: plain()}, {Kind: hRead, Op: rFlatE}, {Kind: hRead, Op: rError}}, false)
	}
	{
		g := &gen{}
		st := build(g)
		runHist("corpus", g.ms, st, []hop{{Kind: hRead, Op: rError}, {Kind: hAdd, A: plain()}, {Kind: hRead, Op: rFlatE}, {Kind: hRead, Op: rError}}, false)
	}
	{
		g := &gen{}
		st := build(g)
		runHist("corpus", g.ms, st, []hop{{Kind: hRead, Op: rFlatE}, {Kind: hRead, Op: rFlatW},
			{Kind: hAdd, A: &arg{Kind: aVE, N: &node{Ctor: ctorNew, Ctx: "Phone", Msg: "too short"}}}, {Kind: hRead, Op: rError},
			{Kind: hAdd, A: plain()}, {Kind: hRead, Op: rFlatE}, {Kind: hRead, Op: rFlatW}, {Kind: hRead, Op: rError}}, false)
	}
	{ // a child obtained through GetChildErrors is extended after the parent was read
		g := &gen{}
		st := build(g)
		runHist("corpus", g.ms, st, []hop{{Kind: hRead, Op: rFlatE}, {Kind: hReadChild, Path: []string{"Address"}, Op: rError},
			{Kind: hAddChild, Path: []string{"Address"}, A: &arg{Kind: aPlainPtr, S: "no such street"}},
			{Kind: hRead, Op: rFlatE}, {Kind: hRead, Op: rError}, {Kind: hReadChild, Path: []string{"Address"}, Op: rFlatE}}, false)
	}
	{ // var ve *ValidationError; ve = AddErrorToValidation(ve, ...) accumulation from nil, logged in between
		g := &gen{}
		runHist("corpus", g.ms, nil, []hop{{Kind: hAdd, A: &arg{Kind: aNil}}, {Kind: hAdd, A: plain()}, {Kind: hRead, Op: rError},
			{Kind: hAdd, A: &arg{Kind: aPlainVal, S: "second"}}, {Kind: hRead, Op: rError}, {Kind: hRead, Op: rFlatE}}, false)
	}
}

func histExhaustive(thorough bool) int {
	n := 0
	reads := []int{rError, rFlatE, rFlatW}
	nArgs := len(histArgs(&gen{}))
	nStarts := len(histStarts(&gen{}))
	// read; add; read   for every start, first read, argument shape, second read, and both argument positions
	for st := 0; st < nStarts; st++ {
		for _, r1 := range reads {
			for a := 0; a < nArgs; a++ {
				for _, r2 := range reads {
					for _, kind := range []int{hAdd, hAddTo} {
						if kind == hAddTo && !thorough && (st+a+r1+r2)%3 != 0 {
							continue
						}
						g := &gen{}
						start := histStarts(g)[st]()
						runHist("exhaustive", g.ms, start, []hop{{Kind: hRead, Op: r1}, {Kind: kind, A: histArgs(g)[a]()}, {Kind: hRead, Op: r2},
							{Kind: hRead, Op: rTopE}}, (n%2) == 1)
						n++
					}
				}
			}
		}
	}
	// read; add; read; add; read-all   on the two tree starts (quick: a stripe)
	for st := 1; st < nStarts; st++ {
		for _, r1 := range reads {
			for a1 := 0; a1 < nArgs; a1++ {
				for _, r2 := range reads {
					for a2 := 0; a2 < nArgs; a2++ {
						if !thorough && (st+r1+a1+r2+a2)%5 != 0 {
							continue
						}
						g := &gen{}
						start := histStarts(g)[st]()
						runHist("exhaustive", g.ms, start, []hop{{Kind: hRead, Op: r1}, {Kind: hAdd, A: histArgs(g)[a1]()}, {Kind: hRead, Op: r2},
							{Kind: hAdd, A: histArgs(g)[a2]()}, {Kind: hRead, Op: rFlatE}, {Kind: hRead, Op: rFlatW}, {Kind: hRead, Op: rError}}, (n%2) == 1)
						n++
					}
				}
			}
		}
	}
	// children: parent read; child read; child extended; parent and child read again
	paths := [][]string{{"a"}, {"b"}, {"b", "a"}}
	for _, p := range paths {
		for _, r1 := range reads {
			for a := 0; a < 3; a++ {
				for _, r2 := range reads {
					g := &gen{}
					start := histStarts(g)[2]()
					runHist("exhaustive", g.ms, start, []hop{{Kind: hRead, Op: r1}, {Kind: hReadChild, Path: p, Op: r1},
						{Kind: hAddChild, Path: p, A: histArgs(g)[a]()}, {Kind: hRead, Op: r2}, {Kind: hReadChild, Path: p, Op: r2},
						{Kind: hRead, Op: rError}}, (n%2) == 1)
					n++
				}
			}
		}
	}
	return n
}

func histRandom(r *rand.Rand, count int) {
	for i := 0; i < count; i++ {
		g := &gen{}
		var start *node
		if r.Intn(6) != 0 {
			start = g.randNode(r, 1+r.Intn(3))
		}
		var ops []hop
		for k, n := 0, 4+r.Intn(8); k < n; k++ {
			switch x := r.Intn(10); {
			case x < 4:
				ops = append(ops, hop{Kind: hRead, Op: r.Intn(5)})
			case x < 5:
				ops = append(ops, hop{Kind: hReadChild, Path: randPath(r, start), Op: r.Intn(3)})
			case x < 8:
				ops = append(ops, hop{Kind: hAdd, A: g.randArg(r, 1)})
			case x < 9:
				ops = append(ops, hop{Kind: hAddTo, A: g.randArg(r, 1)})
			default:
				a := g.randArg(r, 0)
				if a.Kind == aNilPtr {
					a = &arg{Kind: aPlainPtr, S: g.msg()}
				}
				ops = append(ops, hop{Kind: hAddChild, Path: randPath(r, start), A: a})
			}
		}
		runHist("random", g.ms, start, ops, r.Intn(2) == 0)
	}
}

// randPath walks one or two levels down the children of the start tree (a random name when there are none)
func randPath(r *rand.Rand, start *node) []string {
	n := 1 + r.Intn(2)
	var p []string
	cur := start
	for i := 0; i < n; i++ {
		if cur == nil || len(cur.Kids) == 0 {
			if i == 0 {
				p = append(p, childNames[r.Intn(len(childNames))])
			}
			break
		}
		k := cur.Kids[r.Intn(len(cur.Kids))]
		p = append(p, k.Name)
		cur = k.N
	}
	return p
}

// specialsStream: every special string as message, field name, child name, plain-error text and wrapper text, read
// through every read and joined through AddErrorToValidation in both positions
func specialsStream(thorough bool) int {
	n := 0
	for i, x := range specials {
		name := "a"
		if len(x) < 100 {
			name = x
		}
		isw := i%2 == 0
		{
			g := &gen{}
			g.ms = append(g.ms, sortSpec(mapSpec{{name, []string{x, "plain", x}}, {"c", []string{"before", x}}}))
			root := &node{Ctor: ctorErrs, Errs: 0, Warns: -1, Kids: []kid{{name, &node{Ctor: ctorNew, Ctx: name, Msg: x, IsW: isw}}}}
			runRead("specials", g.ms, root, []int{rError, rFlatE, rFlatW, rTopE, rError, rFlatE}, i%3 == 0)
			n++
		}
		runAdd("specials", nil, &arg{Kind: aPlainPtr, S: x}, &arg{Kind: aVE, N: &node{Ctor: ctorNew, Ctx: name, Msg: x, IsW: !isw}}, false, false)
		n++
		if thorough {
			g := &gen{}
			g.ms = append(g.ms, mapSpec{{name, []string{x}}})
			root := &node{Ctor: ctorWW, Errs: -1, Warns: 0, KidsNil: true}
			runRead("specials", g.ms, root, []int{rError, rFlatW, rTopW, rError}, false)
			runAdd("specials", nil, &arg{Kind: aWrap, S: x, Inner: &arg{Kind: aVE, N: &node{Ctor: ctorNew, Ctx: "c", Msg: x}}}, &arg{Kind: aPlainVal, S: x}, false, false)
			runAdd("specials", nil, &arg{Kind: aFmtWrap, S: x, Inner: &arg{Kind: aPlainPtr, S: x}}, &arg{Kind: aNil}, false, false)
			n += 3
		}
		runHist("specials", nil, &node{Ctor: ctorNew, Ctx: "c", Msg: x, IsW: isw}, []hop{{Kind: hRead, Op: rError},
			{Kind: hAdd, A: &arg{Kind: aPlainPtr, S: x}}, {Kind: hRead, Op: rError}, {Kind: hRead, Op: rFlatE},
			{Kind: hAdd, A: &arg{Kind: aVE, N: &node{Ctor: ctorNew, Ctx: name, Msg: x, IsW: true}}}, {Kind: hRead, Op: rError}, {Kind: hRead, Op: rFlatW}}, false)
		n++
	}
	return n
}

// ---------- corpus: the Findings/VErr.v witnesses, run first ----------

func corpus() {
	// W1 second read returns more
	{
		ms := []mapSpec{{{"TestField", []string{"Err1"}}}, {{"ChildField", []string{"ChildErr"}}}}
		root := &node{Ctor: ctorErrs, Errs: 0, Warns: -1, Kids: []kid{{"TestRef", &node{Ctor: ctorErrs, Errs: 1, Warns: -1, KidsNil: true}}}}
		runRead("corpus", ms, root, []int{rFlatE, rFlatE}, false)
		runRead("corpus", ms, root, []int{rError, rError}, false)
	}
	// W2 nil warning map
	{
		ms := []mapSpec{{{"Name", []string{"required"}}}}
		root := &node{Ctor: ctorErrs, Errs: 0, Warns: -1, Kids: []kid{{"Address", &node{Ctor: ctorNew, Ctx: "Zip", Msg: "looks odd", IsW: true}}}}
		runRead("corpus", ms, root, []int{rFlatW}, false)
		runRead("corpus", ms, root, []int{rError}, false)
	}
	// W3 AddErrorToValidation panics
	ve := func() *arg { return &arg{Kind: aVE, N: &node{Ctor: ctorNew, Ctx: "Name", Msg: "required"}} }
	runAdd("corpus", nil, &arg{Kind: aNil}, &arg{Kind: aNil}, false, false)
	runAdd("corpus", nil, &arg{Kind: aPlainPtr, S: "boom"}, &arg{Kind: aNil}, false, false)
	runAdd("corpus", nil, ve(), &arg{Kind: aNil}, false, false)
	runAdd("corpus", nil, &arg{Kind: aNil}, &arg{Kind: aWrap, S: "ctx: ...", Inner: ve()}, false, false)
	runAdd("corpus", nil, &arg{Kind: aWrap, S: "ctx: ...", Inner: ve()}, &arg{Kind: aPlainPtr, S: "boom"}, false, false)
	runAdd("corpus", nil, &arg{Kind: aPlainVal, S: "bang"}, &arg{Kind: aPlainPtr, S: "boom"}, false, false)
	// W4 missing maps
	{
		t1 := &arg{Kind: aVE, N: &node{Ctor: ctorErrs, Errs: -1, Warns: -1, KidsNil: true}}
		t2 := func() *arg { return &arg{Kind: aVE, N: &node{Ctor: ctorNew, Ctx: "Zip", Msg: "looks odd", IsW: true}} }
		t3 := &arg{Kind: aVE, N: &node{Ctor: ctorErrs, Errs: -1, Warns: -1, Kids: []kid{{"Address", &node{Ctor: ctorNew, Ctx: "Street", Msg: "required"}}}}}
		runAdd("corpus", nil, t1, t2(), false, false)
		runAdd("corpus", nil, t2(), t3, false, false)
	}
	// W5 a message is lost
	{
		ms := []mapSpec{{}, {}, {}, {}}
		t1 := &arg{Kind: aVE, N: &node{Ctor: ctorWW, Errs: 0, Warns: 1, Kids: []kid{{"Address", &node{Ctor: ctorNew, Ctx: "Street", Msg: "required"}}}}}
		t2 := &arg{Kind: aVE, N: &node{Ctor: ctorWW, Errs: 2, Warns: 3, Kids: []kid{{"Address", &node{Ctor: ctorNew, Ctx: "Zip", Msg: "invalid"}}}}}
		runAdd("corpus", ms, t1, t2, false, false)
	}
	// W6 (harness-level only: slices are values in the model) flattening must not append into the spare
	// capacity of a caller-supplied slice: top-level "a.c" collides with child "a" field "c"; in arena mode the
	// slice after "a.c" holds the messages of key "z"
	{
		ms := []mapSpec{{{"a.c", []string{"top"}}, {"z", []string{"other"}}}}
		root := &node{Ctor: ctorErrs, Errs: 0, Warns: -1, Kids: []kid{{"a", &node{Ctor: ctorNew, Ctx: "c", Msg: "child"}}}}
		runRead("corpus", ms, root, []int{rFlatE, rFlatE}, true)
	}
	// W7 (harness-level only) AddErrorToValidation must not append into the spare capacity of a slice stored in
	// its first argument: in arena mode the slice after errors "c" holds the warning "careful", which was lost
	{
		ms := []mapSpec{{{"c", []string{"top"}}}, {{"w", []string{"careful"}}}}
		t1 := &arg{Kind: aVE, N: &node{Ctor: ctorWW, Errs: 0, Warns: 1, KidsNil: true}}
		t2 := &arg{Kind: aVE, N: &node{Ctor: ctorNew, Ctx: "c", Msg: "more"}}
		runAdd("corpus", ms, t1, t2, false, true)
	}
}

func main() {
	seed := flag.Int64("seed", 1, "seed")
	tier := flag.String("tier", "quick", "quick|thorough")
	out := flag.String("out", "", "output directory")
	flag.Parse()
	if *out == "" {
		fmt.Fprintln(os.Stderr, "need -out")
		os.Exit(2)
	}
	thorough := *tier == "thorough"
	W = cw.New(*out, "CorrC20")
	W.Chunk = 200
	r := rand.New(rand.NewSource(*seed))

	corpus()
	histCorpus()
	nCorpus := len(W.Cases)

	// exhaustive small scope: every top shape x every children configuration (depth <= 1), each with read
	// sequences taken round-robin from ALL sequences of <= 3 reads applied twice; alternately arena slices.
	seqs := allSeqs()
	r.Shuffle(len(seqs), func(i, j int) { seqs[i], seqs[j] = seqs[j], seqs[i] })
	si := 0
	nExh := 0
	perTree := 1
	if thorough {
		perTree = 3
	}
	for l := 0; l < nLeaf; l++ {
		for k := 0; k < perTree; k++ {
			g := &gen{}
			root := g.leaf(l)
			runRead("exhaustive", g.ms, root, seqs[si%len(seqs)], (si%2) == 1)
			si++
		}
		nExh++
	}
	cfgs := kidCfgs()
	for t := 0; t < nTop; t++ {
		for ci, c := range cfgs {
			// quick tier: all single-child configurations, and the two-children configurations on a diagonal stripe
			if !thorough && c.a >= 0 && c.ab >= 0 && (c.a+c.ab+t)%4 != 0 {
				continue
			}
			_ = ci
			for k := 0; k < perTree; k++ {
				g := &gen{}
				root := g.withKids(g.top(t), c)
				runRead("exhaustive", g.ms, root, seqs[si%len(seqs)], (si%2) == 1)
				si++
			}
			nExh++
		}
	}

	// structured random: deeper trees (depth <= 4, fan-out <= 3), shared map objects, arena slices
	nRand := 250
	if thorough {
		nRand = 6000
	}
	for i := 0; i < nRand; i++ {
		g := &gen{}
		root := g.randNode(r, 1+r.Intn(4))
		ops := seqs[r.Intn(len(seqs))]
		runRead("random", g.ms, root, ops, r.Intn(2) == 0)
	}

	// AddErrorToValidation: every ordered pair of the argument menu, plus e1 == e2 (the same object)
	nAddExh := 0
	{
		probe := argMenu(&gen{}, thorough)
		for i := range probe {
			for j := range probe {
				g := &gen{}
				menu := argMenu(g, thorough)
				a1 := menu[i]()
				a2 := menu[j]()
				runAdd("exhaustive", g.ms, a1, a2, false, (i+j)%2 == 1)
				nAddExh++
			}
			g := &gen{}
			a1 := argMenu(g, thorough)[i]()
			if a1.Kind != aNil {
				runAdd("exhaustive", g.ms, a1, nil, true, false)
				nAddExh++
			}
		}
	}
	nAddRand := 150
	if thorough {
		nAddRand = 3000
	}
	for i := 0; i < nAddRand; i++ {
		g := &gen{}
		a1 := g.randArg(r, 2)
		a2 := g.randArg(r, 2)
		same := r.Intn(8) == 0 && a1.Kind != aNil
		runAdd("random", g.ms, a1, a2, same, r.Intn(2) == 0)
	}

	// metacharacters: format verbs, control characters, quotes, NUL, multi-byte and invalid UTF-8, very long strings
	nSpecials := specialsStream(thorough)
	W.Extra["special_strings"] = len(specials)
	W.Extra["special_string_cases"] = nSpecials

	// histories: reads and AddErrorToValidation calls interleaved on one running object and its children
	nHistExh := histExhaustive(thorough)
	nHistRand := 150
	if thorough {
		nHistRand = 3000
	}
	histRandom(r, nHistRand)
	W.Extra["history_cases"] = map[string]int{"exhaustive": nHistExh, "random": nHistRand}

	W.Extra["scope"] = fmt.Sprintf("corpus of %d witness histories; exhaustive: %d trees of depth <= 1 (7 top shapes x {nil, empty, a, a.b, a+a.b children} x 12 leaf shapes%s) each read with sequences drawn round-robin from all %d sequences of <= 3 reads applied twice; %d random trees of depth <= 4, fan-out <= 3; AddErrorToValidation on %d exhaustive argument pairs (menu of %d argument shapes squared + same-object) and %d random pairs; histories (reads and AddErrorToValidation calls interleaved on one running object and its children): %d exhaustive (read;add;read over 4 starts x 3 reads x 6 argument shapes x 3 reads x 2 argument positions, read;add;read;add;read-all, parent/child read;extend-child;read) and %d random of 4..11 steps",
		nCorpus, nExh, map[bool]string{true: "", false: ", two-children configurations on a stripe of 1/4"}[thorough], len(seqs), nRand, nAddExh, len(argMenu(&gen{}, thorough)), nAddRand, nHistExh, nHistRand)
	W.Extra["read_sequences_available"] = len(seqs)
	if len(panics) > 0 {
		W.Extra["panics_observed"] = panics
	}
	W.Extra["distinct_strings"] = len(strList)
	W.Module = "CorrC20" + strPrelude()
	if err := W.Flush(); err != nil {
		fmt.Fprintln(os.Stderr, err)
		os.Exit(1)
	}
	_ = errors.New
}
