// Free-running stress for C11 (build with -race): conservation / id / Peek monitors, panic capture.
// This is testing: it validates the atomicity structure of the concurrent model and finds concrete
// failing schedules; the theorem is Props/C11.v.
package main

import (
	"encoding/json"
	"flag"
	"fmt"
	"math/rand"
	"os"
	"path/filepath"
	"sort"
	"sync"
	"sync/atomic"
	"time"

	"github.com/rbell/toolchest/storage"
)

type result struct {
	Rounds          int            `json:"rounds"`
	Pushes          int64          `json:"pushes"`
	Pops            int64          `json:"pops"`
	OneElementRaces int            `json:"one_element_races"`
	OrderedDrains   int            `json:"extra_evaluations"`
	Failures        []string       `json:"failures"`
	FailureKinds    map[string]int `json:"failure_kinds"`
	Samples         []any          `json:"samples"`
	Scope           string         `json:"scope"`
}

var res = result{FailureKinds: map[string]int{}}
var mu sync.Mutex

func fail(kind, msg string) {
	mu.Lock()
	defer mu.Unlock()
	res.FailureKinds[kind]++
	if len(res.Failures) < 20 {
		res.Failures = append(res.Failures, kind+": "+msg)
	}
}

func guard(where string) {
	if r := recover(); r != nil {
		fail("panic", fmt.Sprintf("%s: %v", where, r))
	}
}

// round A: P pushers x n values, Q poppers, readers; conservation + ids + Peek monitors
func roundA(rng *rand.Rand, sample bool) {
	P, Q, n := 1+rng.Intn(6), 1+rng.Intn(6), 20+rng.Intn(200)
	s := storage.NewGenericStack[int](rng.Intn(4))
	type pv struct {
		id uint64
		v  int
	}
	pushed := make([][]pv, P)
	popped := make([][]int, Q)
	var wg sync.WaitGroup
	var done atomic.Bool
	var pushersLeft atomic.Int32
	pushersLeft.Store(int32(P))
	idval := sync.Map{}
	for p := 0; p < P; p++ {
		wg.Add(1)
		go func(p int) {
			defer wg.Done()
			defer pushersLeft.Add(-1)
			defer guard("Push")
			for i := 0; i < n; i++ {
				v := (p+1)*1000000 + i + 1
				id := s.Push(v)
				pushed[p] = append(pushed[p], pv{id, v})
				idval.Store(id, v)
			}
		}(p)
	}
	for q := 0; q < Q; q++ {
		wg.Add(1)
		go func(q int) {
			defer wg.Done()
			for {
				finished := pushersLeft.Load() == 0
				var v int
				func() {
					defer guard("Pop")
					v = s.Pop()
				}()
				if v != 0 {
					popped[q] = append(popped[q], v)
				} else if finished {
					return
				}
			}
		}(q)
	}
	// readers: several at once, so that anything Values/Peek/Len write under the read lock is seen by the race detector
	for rd := 0; rd < 3; rd++ {
		readerSeed := rng.Int63()
		wg.Add(1)
		go func() {
			defer wg.Done()
			r := rand.New(rand.NewSource(readerSeed))
			for !done.Load() {
				func() {
					defer guard("Peek/Len/Values")
					id := uint64(1 + r.Intn(P*n))
					v, err := s.Peek(id)
					if err == nil {
						if want, ok := idval.Load(id); ok && want.(int) != v {
							fail("monitor", fmt.Sprintf("Peek(%d) returned %d, pushed under that id: %d", id, v, want))
						}
					} else if err.Error() != "Not Found" {
						fail("monitor", "Peek error is not NotFound: "+err.Error())
					}
					if l := s.Len(); l < 0 || l > P*n {
						fail("monitor", fmt.Sprintf("Len()=%d out of range", l))
					}
					vs := s.Values()
					seen := map[int]bool{}
					for _, x := range vs {
						if x == 0 || seen[x] {
							fail("monitor", fmt.Sprintf("Values() contains zero/duplicate %d", x))
						}
						seen[x] = true
					}
				}()
				time.Sleep(50 * time.Microsecond)
			}
		}()
	}
	// wait for pushers+poppers (poppers stop once pushers are finished and a Pop returned zero)
	go func() {
		for pushersLeft.Load() != 0 {
			time.Sleep(time.Millisecond)
		}
	}()
	waitCh := make(chan struct{})
	go func() { wg.Wait(); close(waitCh) }()
	go func() {
		for pushersLeft.Load() != 0 {
			time.Sleep(200 * time.Microsecond)
		}
		time.Sleep(2 * time.Millisecond)
		done.Store(true)
	}()
	select {
	case <-waitCh:
	case <-time.After(60 * time.Second):
		fail("hang", "round A did not finish within 60s")
		return
	}
	// monitors
	ids := map[uint64]bool{}
	all := map[int]int{}
	total := 0
	for p := range pushed {
		last := uint64(0)
		for _, e := range pushed[p] {
			if ids[e.id] {
				fail("monitor", fmt.Sprintf("id %d returned twice", e.id))
			}
			ids[e.id] = true
			if e.id <= last {
				fail("monitor", fmt.Sprintf("ids not increasing for one pusher: %d after %d", e.id, last))
			}
			last = e.id
			all[e.v]++
			total++
		}
	}
	for id := range ids {
		if id < 1 || id > uint64(total) {
			fail("monitor", fmt.Sprintf("id %d outside 1..%d", id, total))
		}
	}
	npop := 0
	for q := range popped {
		for _, v := range popped[q] {
			all[v]--
			npop++
		}
	}
	for _, v := range s.Values() {
		all[v]--
	}
	for v, c := range all {
		if c != 0 {
			fail("monitor", fmt.Sprintf("conservation: value %d pushed-minus-(popped+remaining) = %d", v, c))
		}
	}
	atomic.AddInt64(&res.Pushes, int64(total))
	atomic.AddInt64(&res.Pops, int64(npop))
	if sample {
		mu.Lock()
		res.Samples = append(res.Samples, map[string]any{"round": "A", "pushers": P, "poppers": Q, "values_per_pusher": n, "popped": npop, "remaining": total - npop})
		mu.Unlock()
	}
}

// round C: pushers only (several, so that ids reach the heap out of order), then a quiescent stack: Values() is in
// id order, a sequential drain returns the values in id order (Pop = smallest remaining id), and with several
// poppers draining a stack nobody pushes to, each popper's own sequence has increasing ids
func roundC(rng *rand.Rand) {
	P, n := 2+rng.Intn(6), 5+rng.Intn(80)
	s := storage.NewGenericStack[int](rng.Intn(4))
	peekOwn := rng.Intn(3) != 0 // two rounds in three: every pusher peeks the id it was just given
	idOf := make(map[int]uint64)
	var mu2 sync.Mutex
	var wg sync.WaitGroup
	start := make(chan struct{})
	for p := 0; p < P; p++ {
		wg.Add(1)
		go func(p int) {
			defer wg.Done()
			defer guard("Push")
			<-start
			for i := 0; i < n; i++ {
				v := (p+1)*1000000 + i + 1
				id := s.Push(v)
				// nobody pops in this round: once Push has returned, the value is on the stack under that id,
				// whatever other pushers are doing (ids may reach the heap out of order, leaving gaps for a moment)
				if peekOwn {
					func() {
						defer guard("Peek")
						if got, err := s.Peek(id); err != nil || got != v {
							fail("monitor", fmt.Sprintf("push-only round: Peek(%d) right after Push returned that id gave (%d, %v), want (%d, nil)", id, got, err, v))
						}
					}()
				}
				mu2.Lock()
				idOf[v] = id
				mu2.Unlock()
			}
		}(p)
	}
	close(start)
	wg.Wait()
	vals := s.Values()
	if len(vals) != P*n || s.Len() != P*n {
		fail("monitor", fmt.Sprintf("after %d pushes Len()=%d len(Values())=%d", P*n, s.Len(), len(vals)))
	}
	for i := 1; i < len(vals); i++ {
		if idOf[vals[i-1]] >= idOf[vals[i]] {
			fail("monitor", fmt.Sprintf("Values() not in id order: id %d before id %d", idOf[vals[i-1]], idOf[vals[i]]))
			break
		}
	}
	if rng.Intn(2) == 0 {
		last := uint64(0)
		for i := 0; i < P*n; i++ {
			var v int
			func() { defer guard("Pop"); v = s.Pop() }()
			id := idOf[v]
			if v == 0 || id <= last {
				fail("monitor", fmt.Sprintf("sequential drain after concurrent pushes: Pop returned id %d after id %d (not the smallest remaining id)", id, last))
				break
			}
			last = id
		}
	} else {
		Q := 2 + rng.Intn(4)
		var wg2 sync.WaitGroup
		var total atomic.Int64
		for q := 0; q < Q; q++ {
			wg2.Add(1)
			go func() {
				defer wg2.Done()
				last := uint64(0)
				for {
					var v int
					func() { defer guard("Pop"); v = s.Pop() }()
					if v == 0 {
						return
					}
					total.Add(1)
					mu2.Lock()
					id := idOf[v]
					mu2.Unlock()
					if id <= last {
						fail("monitor", fmt.Sprintf("concurrent drain of a stack nobody pushes to: one popper got id %d after id %d", id, last))
						return
					}
					last = id
				}
			}()
		}
		wg2.Wait()
		if int(total.Load()) != P*n {
			fail("monitor", fmt.Sprintf("drain returned %d values, %d were pushed", total.Load(), P*n))
		}
	}
	atomic.AddInt64(&res.Pushes, int64(P*n))
	atomic.AddInt64(&res.Pops, int64(P*n))
	res.OrderedDrains++
}

// round B: one element, k poppers released together (the schedule of Findings/GStack.v)
func roundB(trials, k int) {
	for t := 0; t < trials; t++ {
		s := storage.NewGenericStack[int](0)
		s.Push(7)
		var wg sync.WaitGroup
		start := make(chan struct{})
		got := make([]int, k)
		for i := 0; i < k; i++ {
			wg.Add(1)
			go func(i int) {
				defer wg.Done()
				defer guard("Pop (one element, racing poppers)")
				<-start
				got[i] = s.Pop()
			}(i)
		}
		close(start)
		wg.Wait()
		sort.Ints(got)
		n7 := 0
		for _, g := range got {
			if g == 7 {
				n7++
			} else if g != 0 {
				fail("monitor", fmt.Sprintf("Pop invented %d", g))
			}
		}
		if n7 != 1 && res.FailureKinds["panic"] == 0 {
			fail("monitor", fmt.Sprintf("the single element was popped %d times", n7))
		}
		res.OneElementRaces++
	}
}

func main() {
	seed := flag.Int64("seed", 1, "")
	tier := flag.String("tier", "quick", "")
	out := flag.String("out", "", "")
	flag.Parse()
	rng := rand.New(rand.NewSource(*seed))
	rounds, trials := 40, 4000
	if *tier == "thorough" {
		rounds, trials = 600, 100000
	}
	for i := 0; i < rounds; i++ {
		roundA(rng, i < 3)
		res.Rounds++
	}
	for i := 0; i < 5*rounds; i++ {
		roundC(rng)
	}
	roundB(trials, 2)
	roundB(trials/4, 4)
	res.Scope = fmt.Sprintf("%d mixed rounds (1-6 pushers x 20-220 values, 1-6 poppers, three Peek/Len/Values readers) + %d push-only rounds (2-7 concurrent pushers; in two of three every pusher peeks the id Push just returned and must get its value) followed by an id-order check of Values() and of a sequential or multi-popper drain + %d two-popper and %d four-popper races on a one-element stack, under the race detector", rounds, 5*rounds, trials, trials/4)
	os.MkdirAll(*out, 0o755)
	js, _ := json.MarshalIndent(res, "", " ")
	os.WriteFile(filepath.Join(*out, "result.json"), js, 0o644)
}
