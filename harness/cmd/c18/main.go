// Harness for C18: lives of a real server.Server on loopback.  For every scenario (which providers,
// how many requests are blocked inside handlers when Stop is called, which kind of context Stop gets,
// whether Stop follows Start immediately) it observes: Start returned, listeners answer real requests,
// Stop returned (and whether it returned while requests were still blocked), requests completed,
// the caller's WaitGroup was released, ports refuse connections and can be bound again.
// Handlers block on a channel the harness closes, so "in flight at Stop" is scripted, not timed.
package main

import (
	"context"
	"crypto/ecdsa"
	"crypto/elliptic"
	crand "crypto/rand"
	"crypto/tls"
	"crypto/x509"
	"crypto/x509/pkix"
	"encoding/pem"
	"flag"
	"fmt"
	"io"
	"log"
	"math/big"
	"math/rand"
	"net"
	"net/http"
	"os"
	"path/filepath"
	"strconv"
	"strings"
	"sync"
	"sync/atomic"
	"time"

	"github.com/rbell/toolchest/server"
	"github.com/rbell/toolchest/server/example/proto"
	"github.com/rbell/toolchest/server/serverConfig"
	"google.golang.org/grpc"
	"google.golang.org/grpc/credentials/insecure"
	"verifharness/internal/cw"
)

const (
	kHTTP  = 0
	kHTTPS = 1
	kGRPC  = 2
)

var kindName = []string{"http", "https", "grpc"}

// ---------- certificate ----------
type certMat struct {
	certFile, keyFile string
	cert              tls.Certificate
	pool              *x509.CertPool
}

func makeCert(dir string) (*certMat, error) {
	key, err := ecdsa.GenerateKey(elliptic.P256(), crand.Reader)
	if err != nil {
		return nil, err
	}
	tmpl := &x509.Certificate{
		SerialNumber: big.NewInt(time.Now().UnixNano()), Subject: pkix.Name{CommonName: "verif-c18"},
		NotBefore: time.Now().Add(-time.Hour), NotAfter: time.Now().Add(24 * time.Hour),
		KeyUsage: x509.KeyUsageDigitalSignature | x509.KeyUsageCertSign, ExtKeyUsage: []x509.ExtKeyUsage{x509.ExtKeyUsageServerAuth},
		BasicConstraintsValid: true, IsCA: true,
		IPAddresses: []net.IP{net.ParseIP("127.0.0.1")}, DNSNames: []string{"localhost"},
	}
	der, err := x509.CreateCertificate(crand.Reader, tmpl, tmpl, &key.PublicKey, key)
	if err != nil {
		return nil, err
	}
	kb, err := x509.MarshalECPrivateKey(key)
	if err != nil {
		return nil, err
	}
	cp := pem.EncodeToMemory(&pem.Block{Type: "CERTIFICATE", Bytes: der})
	kp := pem.EncodeToMemory(&pem.Block{Type: "EC PRIVATE KEY", Bytes: kb})
	m := &certMat{certFile: filepath.Join(dir, "cert.pem"), keyFile: filepath.Join(dir, "key.pem")}
	if err := os.WriteFile(m.certFile, cp, 0o600); err != nil {
		return nil, err
	}
	if err := os.WriteFile(m.keyFile, kp, 0o600); err != nil {
		return nil, err
	}
	if m.cert, err = tls.X509KeyPair(cp, kp); err != nil {
		return nil, err
	}
	m.pool = x509.NewCertPool()
	m.pool.AppendCertsFromPEM(cp)
	return m, nil
}

// ---------- ports (below the kernel's ephemeral range) ----------
var portRng = rand.New(rand.NewSource(int64(os.Getpid())*104729 + time.Now().UnixNano()))

var portMu sync.Mutex

func freePort(used map[int]bool) int {
	portMu.Lock()
	defer portMu.Unlock()
	for i := 0; i < 2000; i++ {
		p := 20000 + portRng.Intn(12000)
		if used[p] {
			continue
		}
		l, err := net.Listen("tcp", fmt.Sprintf(":%d", p))
		if err != nil {
			continue
		}
		l.Close()
		used[p] = true
		return p
	}
	panic("no free port")
}

// ---------- logger: order of the providers' "Stopped ..." lines ----------
type capLogger struct {
	mu      sync.Mutex
	stopped []int
	// scripted schedule: the HTTP / HTTPS provider goroutine logs "Starting HTTP(S) server on ..." after
	// startWg.Done() and before ListenAndServe[TLS]; blocking that log call holds the goroutine exactly there
	hold    map[int]chan struct{}
	holding atomic.Int32
}

func (c *capLogger) InfoContext(ctx context.Context, msg string, args ...any) {
	hk := -1
	if strings.HasPrefix(msg, "Starting HTTP server") {
		hk = kHTTP
	} else if strings.HasPrefix(msg, "Starting HTTPS server") {
		hk = kHTTPS
	} else if strings.HasPrefix(msg, "Starting gRPC server") {
		// the gRPC provider logs this line BEFORE it listens and before startWg.Done(): holding it here keeps
		// Server.Start itself in progress (every provider launched, Start waiting at startWg.Wait())
		hk = kGRPC
	}
	if hk >= 0 && c.hold != nil && c.hold[hk] != nil {
		c.holding.Add(1)
		select {
		case <-c.hold[hk]:
		case <-time.After(60 * time.Second): // safety net only
		}
	}
	k := -1
	switch msg {
	case "Stopped HTTP server":
		k = kHTTP
	case "Stopped HTTPS server":
		k = kHTTPS
	case "Stopped gRPC server":
		k = kGRPC
	}
	if k >= 0 {
		c.mu.Lock()
		c.stopped = append(c.stopped, k)
		c.mu.Unlock()
	}
}
func (c *capLogger) Info(msg string, args ...any)                              {}
func (c *capLogger) WarnContext(ctx context.Context, msg string, args ...any)  {}
func (c *capLogger) Warn(msg string, args ...any)                              {}
func (c *capLogger) ErrorContext(ctx context.Context, msg string, args ...any) {}
func (c *capLogger) Error(msg string, args ...any)                             {}

// ---------- blocking handlers ----------
type gate struct {
	entered atomic.Int32
	release chan struct{}
}

func (g *gate) wait() {
	g.entered.Add(1)
	select {
	case <-g.release:
	case <-time.After(60 * time.Second): // safety net only
	}
}

// waitCtx is what a well-behaved gRPC handler does: it also gives up when its call is cancelled
func (g *gate) waitCtx(ctx context.Context) error {
	g.entered.Add(1)
	select {
	case <-g.release:
		return nil
	case <-ctx.Done():
		return ctx.Err()
	case <-time.After(60 * time.Second):
		return nil
	}
}

type helloImpl struct {
	proto.UnimplementedHelloServiceServer
	g *gate
}

func (h *helloImpl) SayHello(ctx context.Context, in *proto.HelloRequest) (*proto.HelloReply, error) {
	switch in.Name {
	case "block":
		if err := h.g.waitCtx(ctx); err != nil {
			return nil, err
		}
	case "blockhard": // a handler that ignores the cancellation of its call
		h.g.wait()
	}
	return &proto.HelloReply{Message: "Hello, " + in.Name}, nil
}

type scenario struct {
	Kinds     []int `json:"kinds"`
	Inflight  []int `json:"inflight"`
	Ctx       int   `json:"ctx"` // 0 ample, 1 expired, 2 expires while waiting
	// DeadlineMs: deadline of the Stop context (0: 60 s for ctx 0, 50 ms for ctx 2).  HoldMs: how long the blocked
	// handlers stay blocked after Stop has been called (0: 200 ms), i.e. how long the in-flight requests still need.
	// ctx 0 with both set = "a deadline that is sufficient": longer than the requests need, by the given factor
	DeadlineMs int `json:"stop_deadline_ms,omitempty"`
	HoldMs     int `json:"requests_need_ms_after_stop,omitempty"`
	Immediate bool  `json:"immediate"`
	DelayUs   int   `json:"delay_us"`  // pause between Start returning and Stop (immediate scenarios)
	Idle      bool  `json:"idle_conns"` // keep idle keep-alive connections open across Stop
	TLSInCfg  bool  `json:"tls_in_config"`
	Restart   bool  `json:"restart"` // start a second server on the same ports afterwards
	IgnoreCancel bool `json:"grpc_handlers_ignore_cancellation"`
	Held      []int `json:"held_before_serve_loop"` // kinds (0/1) whose goroutine is held between startWg.Done and ListenAndServe
	Group     string `json:"group"`
}

type observation struct {
	StartOK    bool   `json:"start_returned"`
	StartWhileHeld bool `json:"start_returned_while_goroutines_held"`
	Reach      []bool `json:"reachable"`
	StopOK     bool   `json:"stop_returned"`
	StopEarly  bool   `json:"stop_returned_while_requests_blocked"`
	StopErr    bool   `json:"stop_error"`
	StopErrMsg string `json:"stop_error_text"`
	ReqOK      []int  `json:"requests_completed"`
	WgOK       bool   `json:"waitgroup_released"`
	Down       []bool `json:"port_refuses"`
	Rebind     []bool `json:"port_rebindable"`
	Stopped    []int  `json:"stopped_order"`
	RestartOK  bool   `json:"restart_ok"`
	StartMs    float64 `json:"start_ms"`
	StopMs     float64 `json:"stop_ms"`
	envProblem string
}

type gen struct {
	mu sync.Mutex
	w      *cw.Writer
	rng    *rand.Rand
	cert   *certMat
	lives  int
	flaky  int
	envRetries int
	hangs      int // scenarios in which Start or Stop did not return, reproduced 3 times
	reproduced int // scenarios whose observations contradicted the property 3 times in a row (K6 scenarios excluded)
}

// every reproduced failure costs its waiting time three times over; once the failure is established
// (two hangs, or four failing scenarios) further scenarios only add minutes: stop generating
func (g *gen) giveUp() bool { return g.hangs >= 2 || g.reproduced >= 4 }

func (g *gen) build(sc *scenario, ports []int, lg *capLogger, gt *gate) (*server.Server, *sync.WaitGroup, error) {
	b := serverConfig.BuildServerConfig().WithLogger(lg)
	block := func(w http.ResponseWriter, r *http.Request) {
		gt.wait()
		w.Write([]byte("done"))
	}
	ping := func(w http.ResponseWriter, r *http.Request) { w.Write([]byte("pong")) }
	for i, k := range sc.Kinds {
		switch k {
		case kHTTP:
			b = b.WithHttpServiceConfig(serverConfig.BuildHttpServiceConfig().WithPort(strconv.Itoa(ports[i])).
				AddRoute("GET", "/ping", ping).AddRoute("GET", "/block", block))
		case kHTTPS:
			sb := serverConfig.BuildHttpsServiceConfig().WithPort(strconv.Itoa(ports[i])).
				AddRoute("GET", "/ping", ping).AddRoute("GET", "/block", block)
			if sc.TLSInCfg {
				sb = sb.WithTlsConfig(&tls.Config{Certificates: []tls.Certificate{g.cert.cert}, MinVersion: tls.VersionTLS12})
			} else {
				sb = sb.WithCertFile(g.cert.certFile).WithKeyFile(g.cert.keyFile)
			}
			b = b.WithHttpsServiceConfig(sb)
		case kGRPC:
			b = b.WithGrpcServiceConfig(serverConfig.BuildGrpcServerConfig().WithPort(strconv.Itoa(ports[i])).
				RegisterImplementation(&proto.HelloService_ServiceDesc, &helloImpl{g: gt}))
		}
	}
	wg := &sync.WaitGroup{}
	srv, err := server.NewServer(b.Build(), context.Background(), wg)
	return srv, wg, err
}

type clients struct {
	tr    *http.Transport
	hc    *http.Client
	conns map[int]*grpc.ClientConn
}

func (g *gen) newClients() *clients {
	tr := &http.Transport{DisableCompression: true, MaxIdleConnsPerHost: 64,
		TLSClientConfig: &tls.Config{RootCAs: g.cert.pool, MinVersion: tls.VersionTLS12}}
	return &clients{tr: tr, hc: &http.Client{Transport: tr, Timeout: 90 * time.Second}, conns: map[int]*grpc.ClientConn{}}
}
func (c *clients) close() {
	c.tr.CloseIdleConnections()
	for _, cc := range c.conns {
		cc.Close()
	}
}
func (c *clients) grpcConn(port int) (*grpc.ClientConn, error) {
	if cc, ok := c.conns[port]; ok {
		return cc, nil
	}
	cc, err := grpc.NewClient(fmt.Sprintf("127.0.0.1:%d", port), grpc.WithTransportCredentials(insecure.NewCredentials()))
	if err == nil {
		c.conns[port] = cc
	}
	return cc, err
}

// one real request; path "ping" or "block"
func (c *clients) request(kind, port int, what string, timeout time.Duration) error {
	switch kind {
	case kHTTP, kHTTPS:
		scheme := "http"
		if kind == kHTTPS {
			scheme = "https"
		}
		ctx, cancel := context.WithTimeout(context.Background(), timeout)
		defer cancel()
		req, _ := http.NewRequestWithContext(ctx, "GET", fmt.Sprintf("%s://127.0.0.1:%d/%s", scheme, port, what), nil)
		resp, err := c.hc.Do(req)
		if err != nil {
			return err
		}
		b, err := io.ReadAll(resp.Body)
		resp.Body.Close()
		if err != nil {
			return err
		}
		want := "pong"
		if what == "block" {
			want = "done"
		}
		if resp.StatusCode != 200 || string(b) != want {
			return fmt.Errorf("status %d body %q", resp.StatusCode, b)
		}
		return nil
	default:
		cc, err := c.grpcConn(port)
		if err != nil {
			return err
		}
		ctx, cancel := context.WithTimeout(context.Background(), timeout)
		defer cancel()
		out, err := proto.NewHelloServiceClient(cc).SayHello(ctx, &proto.HelloRequest{Name: what})
		if err != nil {
			return err
		}
		if out.Message != "Hello, "+what {
			return fmt.Errorf("reply %q", out.Message)
		}
		return nil
	}
}

func (c *clients) waitReachable(kind, port int, d time.Duration) bool {
	dl := time.Now().Add(d)
	for time.Now().Before(dl) {
		if c.request(kind, port, "ping", 2*time.Second) == nil {
			return true
		}
		time.Sleep(5 * time.Millisecond)
	}
	return false
}

func refuses(port int) bool {
	c, err := net.DialTimeout("tcp", fmt.Sprintf("127.0.0.1:%d", port), 2*time.Second)
	if err == nil {
		c.Close()
		return false
	}
	return true
}
func rebindable(port int) bool {
	l, err := net.Listen("tcp", fmt.Sprintf(":%d", port))
	if err != nil {
		return false
	}
	l.Close()
	return true
}

func waitDone(ch <-chan struct{}, d time.Duration) bool {
	select {
	case <-ch:
		return true
	case <-time.After(d):
		return false
	}
}

func (g *gen) live(sc *scenario) *observation {
	o := &observation{Reach: []bool{}, ReqOK: make([]int, len(sc.Kinds)), Down: []bool{}, Rebind: []bool{}, Stopped: []int{}}
	used := map[int]bool{}
	ports := make([]int, len(sc.Kinds))
	for i := range ports {
		ports[i] = freePort(used)
	}
	lg := &capLogger{}
	gt := &gate{release: make(chan struct{})}
	srv, wg, err := g.build(sc, ports, lg, gt)
	if err != nil {
		o.envProblem = "NewServer: " + err.Error()
		return o
	}
	g.count(func() { g.lives++ })
	cl := g.newClients()
	defer cl.close()

	startDone := make(chan struct{})
	t0 := time.Now()
	go func() { srv.Start(context.Background()); close(startDone) }()
	o.StartOK = waitDone(startDone, 15*time.Second)
	o.StartMs = float64(time.Since(t0).Microseconds()) / 1000
	if !o.StartOK {
		return o
	}
	total := 0
	if sc.Immediate {
		if sc.DelayUs > 0 {
			time.Sleep(time.Duration(sc.DelayUs) * time.Microsecond)
		}
	} else {
		for i, k := range sc.Kinds {
			o.Reach = append(o.Reach, cl.waitReachable(k, ports[i], 15*time.Second))
		}
		for _, r := range o.Reach {
			if !r {
				// nothing answers on a port we were given: either the property is violated or another process
				// took the port between the probe and the bind; the caller re-runs the scenario on fresh ports
				o.envProblem = "listener not reachable"
			}
		}
		if !sc.Idle {
			cl.tr.CloseIdleConnections()
		}
	}
	// requests that will be blocked inside their handlers when Stop is called
	type res struct{ prov int; err error }
	results := make(chan res, 64)
	if !sc.Immediate && o.envProblem == "" {
		for i, k := range sc.Kinds {
			for j := 0; j < sc.Inflight[i]; j++ {
				total++
				i, k := i, k
				c := cl
				if k != kGRPC {
					c = g.newClients() // its own connection
					defer c.close()
				}
				what := "block"
				if k == kGRPC && sc.IgnoreCancel {
					what = "blockhard"
				}
				go func() { results <- res{i, c.request(k, ports[i], what, 80*time.Second)} }()
			}
		}
		dl := time.Now().Add(15 * time.Second)
		for int(gt.entered.Load()) < total && time.Now().Before(dl) {
			time.Sleep(time.Millisecond)
		}
		if int(gt.entered.Load()) < total {
			o.envProblem = "blocked requests did not reach their handlers"
		}
	}
	// Stop
	var ctx context.Context
	var cancel context.CancelFunc
	switch sc.Ctx {
	case 0:
		d := 60 * time.Second
		if sc.DeadlineMs > 0 {
			d = time.Duration(sc.DeadlineMs) * time.Millisecond
		}
		ctx, cancel = context.WithTimeout(context.Background(), d)
	case 1:
		ctx, cancel = context.WithCancel(context.Background())
		cancel()
	default:
		d := 50 * time.Millisecond
		if sc.DeadlineMs > 0 {
			d = time.Duration(sc.DeadlineMs) * time.Millisecond
		}
		ctx, cancel = context.WithTimeout(context.Background(), d)
	}
	defer cancel()
	stopDone := make(chan struct{})
	var stopErr error
	t1 := time.Now()
	go func() { stopErr = srv.Stop(ctx); close(stopDone) }()
	if total > 0 {
		if sc.Ctx == 0 {
			// Stop must still be waiting; give a wrong Stop time to return (HoldMs: the requests really need that long)
			hold := 200 * time.Millisecond
			if sc.HoldMs > 0 {
				hold = time.Duration(sc.HoldMs) * time.Millisecond
			}
			o.StopEarly = waitDone(stopDone, hold)
		} else {
			// the context is over (or will be in 50ms): Stop must return although nobody releases the handlers
			w := 10 * time.Second
			if sc.IgnoreCancel {
				w = 3 * time.Second
			}
			o.StopEarly = waitDone(stopDone, w)
		}
	}
	close(gt.release)
	for n := 0; n < total; n++ {
		select {
		case r := <-results:
			if r.err == nil {
				o.ReqOK[r.prov]++
			}
		case <-time.After(30 * time.Second):
			n = total
		}
	}
	o.StopOK = waitDone(stopDone, 30*time.Second)
	o.StopMs = float64(time.Since(t1).Microseconds()) / 1000
	if o.StopOK {
		o.StopErr = stopErr != nil
		if stopErr != nil {
			o.StopErrMsg = strings.ReplaceAll(stopErr.Error(), "\n", " | ")
			if len(o.StopErrMsg) > 200 {
				o.StopErrMsg = o.StopErrMsg[:200]
			}
		}
		wgDone := make(chan struct{})
		go func() { wg.Wait(); close(wgDone) }()
		o.WgOK = waitDone(wgDone, 5*time.Second)
	}
	for i := range sc.Kinds {
		o.Down = append(o.Down, refuses(ports[i]))
		o.Rebind = append(o.Rebind, rebindable(ports[i]))
	}
	lg.mu.Lock()
	o.Stopped = append([]int{}, lg.stopped...)
	lg.mu.Unlock()
	o.RestartOK = true
	if sc.Restart && o.StopOK {
		// the strongest form of "the ports can be bound again": a second server on the same ports
		lg2 := &capLogger{}
		gt2 := &gate{release: make(chan struct{})}
		close(gt2.release)
		srv2, wg2, err := g.build(sc, ports, lg2, gt2)
		if err == nil {
			g.count(func() { g.lives++ })
			sd := make(chan struct{})
			go func() { srv2.Start(context.Background()); close(sd) }()
			ok := waitDone(sd, 15*time.Second)
			cl2 := g.newClients()
			for i, k := range sc.Kinds {
				ok = ok && cl2.waitReachable(k, ports[i], 15*time.Second)
			}
			cl2.close()
			c2, cancel2 := context.WithTimeout(context.Background(), 30*time.Second)
			st := make(chan struct{})
			go func() { srv2.Stop(c2); close(st) }()
			ok = ok && waitDone(st, 30*time.Second)
			cancel2()
			w2 := make(chan struct{})
			go func() { wg2.Wait(); close(w2) }()
			ok = ok && waitDone(w2, 5*time.Second)
			o.RestartOK = ok
			if !ok {
				for i := range o.Rebind {
					o.Rebind[i] = false
				}
			}
		}
	}
	return o
}

// liveHeld: the goroutines of the providers in sc.Held are held right before their serve loop (see capLogger).
// Start must return all the same; Stop (ample context) must NOT return while they are held; after the
// release everything must finish and the held providers' ports were never bound.
func (g *gen) liveHeld(sc *scenario) *observation {
	o := &observation{Reach: []bool{}, ReqOK: make([]int, len(sc.Kinds)), Down: []bool{}, Rebind: []bool{}, Stopped: []int{}}
	used := map[int]bool{}
	ports := make([]int, len(sc.Kinds))
	for i := range ports {
		ports[i] = freePort(used)
	}
	lg := &capLogger{hold: map[int]chan struct{}{}}
	rel := make(chan struct{})
	for _, k := range sc.Held {
		lg.hold[k] = rel
	}
	gt := &gate{release: make(chan struct{})}
	close(gt.release)
	srv, wg, err := g.build(sc, ports, lg, gt)
	if err != nil {
		o.envProblem = "NewServer: " + err.Error()
		close(rel)
		return o
	}
	g.count(func() { g.lives++ })
	startDone := make(chan struct{})
	go func() { srv.Start(context.Background()); close(startDone) }()
	grpcHeld := false
	for _, k := range sc.Held {
		if k == kGRPC {
			grpcHeld = true
		}
	}
	dl := time.Now().Add(15 * time.Second)
	for int(lg.holding.Load()) < len(sc.Held) && time.Now().Before(dl) {
		time.Sleep(time.Millisecond)
	}
	if int(lg.holding.Load()) < len(sc.Held) {
		o.envProblem = "provider goroutines did not reach the hold point"
	}
	if grpcHeld {
		// Start is expected to be still in progress (it waits for the held provider's signal): not a clause of
		// the property, only compared with the model's prediction
		o.StartWhileHeld = waitDone(startDone, 100*time.Millisecond)
	} else {
		o.StartWhileHeld = waitDone(startDone, 15*time.Second)
		if !o.StartWhileHeld {
			close(rel)
			return o
		}
	}
	ctx, cancel := context.WithTimeout(context.Background(), 60*time.Second)
	defer cancel()
	stopDone := make(chan struct{})
	var stopErr error
	t1 := time.Now()
	go func() { stopErr = srv.Stop(ctx); close(stopDone) }()
	o.StopEarly = waitDone(stopDone, 200*time.Millisecond) // must still be waiting for the held goroutines
	close(rel)
	o.StartOK = waitDone(startDone, 15*time.Second)
	o.StopOK = waitDone(stopDone, 30*time.Second)
	o.StopMs = float64(time.Since(t1).Microseconds()) / 1000
	if o.StopOK {
		o.StopErr = stopErr != nil
		wgDone := make(chan struct{})
		go func() { wg.Wait(); close(wgDone) }()
		o.WgOK = waitDone(wgDone, 5*time.Second)
	}
	allDown := true
	for i := range sc.Kinds {
		o.Down = append(o.Down, refuses(ports[i]))
		o.Rebind = append(o.Rebind, rebindable(ports[i]))
		allDown = allDown && o.Down[i]
	}
	lg.mu.Lock()
	o.Stopped = append([]int{}, lg.stopped...)
	lg.mu.Unlock()
	o.RestartOK = true
	if !allDown && o.StartOK && o.StopOK {
		// something is still listening although Stop returned: do not leave it behind (best effort, not observed)
		c2, cancel2 := context.WithTimeout(context.Background(), 2*time.Second)
		d2 := make(chan struct{})
		go func() { srv.Stop(c2); close(d2) }()
		waitDone(d2, 3*time.Second)
		cancel2()
	}
	return o
}

func heldTags(sc *scenario) []string {
	t := []string{sc.Group, "held-before-serve-loop"}
	for _, k := range sc.Held {
		if k == kGRPC {
			t = append(t, "stop-while-start-in-progress")
		}
	}
	return t
}

// the property's clauses, evaluated here ONLY to decide whether to re-run (the verdict is Coq's)
func suspicious(sc *scenario, o *observation) bool {
	all := func(l []bool, n int) bool {
		if len(l) != n {
			return false
		}
		for _, b := range l {
			if !b {
				return false
			}
		}
		return true
	}
	n := len(sc.Kinds)
	if !o.StartOK || !o.StopOK || !o.WgOK || !all(o.Down, n) || !all(o.Rebind, n) {
		return true
	}
	if len(sc.Held) > 0 {
		return o.StopEarly || o.StopErr
	}
	if !sc.Immediate && !all(o.Reach, n) {
		return true
	}
	tot := 0
	for _, k := range sc.Inflight {
		tot += k
	}
	if sc.Ctx == 0 {
		if o.StopEarly || o.StopErr {
			return true
		}
		for i := range sc.Inflight {
			if o.ReqOK[i] != sc.Inflight[i] {
				return true
			}
		}
	} else if tot > 0 && !o.StopEarly {
		return true
	}
	return false
}

func (g *gen) count(f func()) {
	g.mu.Lock()
	f()
	g.mu.Unlock()
}

func (g *gen) run(sc *scenario) {
	if g.giveUp() {
		return
	}
	g.emit(sc, g.observe(sc))
}

// startBatch runs independent lives at the same time, and in the background of the sequential scenarios (each has
// its own server and ports); used for scenarios whose length is dominated by waiting.  join() waits for them and
// emits their cases in the order of scs.
func (g *gen) startBatch(scs []*scenario) (join func()) {
	res := make([]*observation, len(scs))
	var wg sync.WaitGroup
	for i, sc := range scs {
		wg.Add(1)
		go func(i int, sc *scenario) {
			defer wg.Done()
			res[i] = g.observe(sc)
		}(i, sc)
	}
	return func() {
		wg.Wait()
		for i, sc := range scs {
			g.emit(sc, res[i])
		}
	}
}

func (g *gen) observe(sc *scenario) *observation {
	var first *observation
	var chosen *observation
	bad := 0
	for attempt := 0; attempt < 3; attempt++ {
		var o *observation
		if len(sc.Held) > 0 {
			o = g.liveHeld(sc)
		} else {
			o = g.live(sc)
		}
		if o.envProblem != "" && attempt < 2 {
			g.count(func() { g.envRetries++ })
			continue
		}
		if first == nil {
			first = o
		}
		if !suspicious(sc, o) {
			chosen = o
			break
		}
		bad++
	}
	if chosen == nil {
		chosen = first // reproduced every time: report it
		g.count(func() {
			if !first.StartOK || !first.StopOK {
				g.hangs++
			}
			if !sc.IgnoreCancel {
				g.reproduced++
			}
		})
	} else if bad > 0 {
		g.count(func() { g.flaky++ }) // seen once or twice, not reproduced: counted, not reported
	}
	return chosen
}

func (g *gen) emit(sc *scenario, o *observation) {
	bl := func(l []bool) string {
		p := make([]string, len(l))
		for i, b := range l {
			p[i] = cw.B(b)
		}
		return cw.L(p)
	}
	if len(sc.Held) > 0 {
		g.w.Add(cw.Case{
			Coq: fmt.Sprintf("CHeld %s %s %s %s %s %s %s %s %s %s %s", cw.ZL(sc.Kinds), cw.ZL(sc.Held), cw.B(o.StartWhileHeld), cw.B(o.StartOK), cw.B(o.StopEarly),
				cw.B(o.StopOK), cw.B(o.StopErr), cw.B(o.WgOK), bl(o.Down), bl(o.Rebind), cw.ZL(o.Stopped)),
			Desc: map[string]any{"scenario": sc, "observed": o},
			Tags: heldTags(sc),
			Key:  fmt.Sprintf("held|%v|%v", sc.Kinds, sc.Held)})
		return
	}
	coq := fmt.Sprintf("CLife %s %s %d %s %s %s %s %s %s %s %s %s %s %s %s",
		cw.ZL(sc.Kinds), cw.ZL(sc.Inflight), sc.Ctx, cw.B(sc.Immediate), cw.B(sc.IgnoreCancel),
		cw.B(o.StartOK), bl(o.Reach), cw.B(o.StopOK), cw.B(o.StopEarly), cw.B(o.StopErr), cw.ZL(o.ReqOK),
		cw.B(o.WgOK), bl(o.Down), bl(o.Rebind), cw.ZL(o.Stopped))
	names := []string{}
	for _, k := range sc.Kinds {
		names = append(names, kindName[k])
	}
	tot := 0
	for _, k := range sc.Inflight {
		tot += k
	}
	tags := []string{sc.Group, "providers-" + strings.Join(names, "+"), "ctx-" + []string{"ample", "expired", "expiring"}[sc.Ctx]}
	if sc.Immediate {
		tags = append(tags, "immediate-stop")
	}
	if sc.DeadlineMs > 0 && sc.HoldMs > 0 {
		tags = append(tags, fmt.Sprintf("stop-deadline-%.2fx-of-what-requests-need", float64(sc.DeadlineMs)/float64(sc.HoldMs)))
	} else if sc.DeadlineMs > 0 {
		tags = append(tags, "stop-deadline-shorter-than-requests-need")
	}
	if tot > 0 {
		tags = append(tags, "requests-in-flight")
	}
	if sc.Idle {
		tags = append(tags, "idle-connections")
	}
	if sc.Restart {
		tags = append(tags, "restart-on-same-ports")
	}
	if sc.IgnoreCancel {
		tags = append(tags, "grpc-handlers-ignore-cancellation")
	}
	if o.StopErr {
		tags = append(tags, "stop-returned-error")
	}
	g.w.Add(cw.Case{Coq: coq, Desc: map[string]any{"scenario": sc, "observed": o}, Tags: tags,
		Key:     fmt.Sprintf("%v|%v|%d|%v|%d|%v|%v|%v|%v", sc.Kinds, sc.Inflight, sc.Ctx, sc.Immediate, sc.DelayUs, sc.Idle, sc.TLSInCfg, sc.Restart, sc.IgnoreCancel) + fmt.Sprintf("|%d|%d", sc.DeadlineMs, sc.HoldMs),
		Trivial: false})
}

func subsets() [][]int {
	r := [][]int{}
	for mask := 1; mask < 8; mask++ {
		s := []int{}
		for k := 0; k < 3; k++ {
			if mask&(1<<k) != 0 {
				s = append(s, k)
			}
		}
		r = append(r, s)
	}
	return r
}

func main() {
	seed := flag.Int64("seed", 1, "")
	tier := flag.String("tier", "quick", "")
	out := flag.String("out", "", "")
	flag.Parse()
	log.SetOutput(io.Discard)
	g := &gen{w: cw.New(*out, "CorrC18"), rng: rand.New(rand.NewSource(*seed))}
	if err := os.MkdirAll(*out, 0o755); err != nil {
		fmt.Fprintln(os.Stderr, err)
		os.Exit(2)
	}
	var err error
	if g.cert, err = makeCert(*out); err != nil {
		fmt.Fprintln(os.Stderr, "certificate:", err)
		os.Exit(2)
	}
	thorough := *tier == "thorough"
	// watchdog for the harness as a whole (every wait inside a life has its own bound)
	limit := 10 * time.Minute
	if thorough {
		limit = 40 * time.Minute
	}
	go func() {
		time.Sleep(limit)
		fmt.Fprintln(os.Stderr, "watchdog: harness exceeded", limit)
		os.Exit(4)
	}()

	// --- A: every non-empty subset x in-flight pattern x context kind ---
	for si, sub := range subsets() {
		pats := [][]int{make([]int, len(sub))}
		one := make([]int, len(sub))
		for i := range one {
			one[i] = 1
		}
		pats = append(pats, one)
		first3 := make([]int, len(sub))
		first3[0] = 3
		pats = append(pats, first3)
		if len(sub) > 1 {
			last2 := make([]int, len(sub))
			last2[len(sub)-1] = 2
			pats = append(pats, last2)
		}
		for pi, pat := range pats {
			for ctx := 0; ctx < 3; ctx++ {
				if !thorough && ctx == 2 && pi == 0 {
					continue
				}
				g.run(&scenario{Group: "grid", Kinds: sub, Inflight: pat, Ctx: ctx, Idle: (si+pi)%2 == 0, TLSInCfg: (si+pi+ctx)%2 == 0,
					Restart: ctx == 0 && pi <= 1})
			}
		}
	}
	// --- A2: gRPC handlers that ignore the cancellation of their call, context over: see notes/C18.md (K6) ---
	hard := []*scenario{{Group: "grid-hard", Kinds: []int{kGRPC}, Inflight: []int{1}, Ctx: 1, IgnoreCancel: true}}
	if thorough {
		for _, sub := range subsets() {
			if sub[len(sub)-1] != kGRPC {
				continue
			}
			for ctx := 1; ctx < 3; ctx++ {
				pat := make([]int, len(sub))
				pat[len(sub)-1] = 2
				hard = append(hard, &scenario{Group: "grid-hard", Kinds: sub, Inflight: pat, Ctx: ctx, IgnoreCancel: true})
			}
		}
	}
	for _, sc := range hard {
		g.run(sc)
	}
	// --- A3: scripted "Stop before a provider goroutine has entered its serve loop": HTTP / HTTPS goroutines held ---
	for _, sub := range subsets() {
		cand := append([]int{}, sub...) // HTTP/HTTPS: held after their start signal; gRPC: held before it (Start in progress)
		for mask := 1; mask < 1<<len(cand); mask++ {
			held := []int{}
			for i, k := range cand {
				if mask&(1<<i) != 0 {
					held = append(held, k)
				}
			}
			g.run(&scenario{Group: "held", Kinds: sub, Inflight: make([]int, len(sub)), Held: held, TLSInCfg: mask%2 == 0})
		}
	}
	var joinDeadline func()
	// --- A4: Stop contexts WITH a deadline, sized relative to what the requests in flight still need (need = 2 s:
	//     the harness releases the blocked handlers 2 s after Stop was called): much shorter and slightly shorter
	//     (Stop must return by itself, around its deadline), slightly longer (1.7 x) and much longer (Stop must wait
	//     for the requests, return nil, the clients get their responses) x 2 and 3 listeners x which listener has the
	//     request.  These lives mostly wait, so they run at the same time. ---
	{
		const need = 2000
		var batch []*scenario
		sets := [][]int{{kHTTP, kHTTPS}, {kHTTP, kGRPC}, {kHTTPS, kGRPC}, {kHTTP, kHTTPS, kGRPC}}
		for si, kinds := range sets {
			for _, dl := range []struct{ ctx, ms int }{{2, 100}, {2, 1400}, {0, 3400}, {0, 40000}} {
				infl := make([]int, len(kinds))
				infl[0] = 1
				batch = append(batch, &scenario{Group: "deadline", Kinds: kinds, Inflight: infl, Ctx: dl.ctx, DeadlineMs: dl.ms,
					HoldMs: map[int]int{0: need, 2: 0}[dl.ctx], TLSInCfg: si%2 == 0, Idle: si%2 == 1})
			}
			// the request on a later listener, and on several
			infl := make([]int, len(kinds))
			infl[1] = 1
			batch = append(batch, &scenario{Group: "deadline", Kinds: kinds, Inflight: infl, Ctx: 0, DeadlineMs: 3400, HoldMs: need})
			if thorough {
				for _, ms := range []int{2800, 3400, 5000, 9000} {
					all := make([]int, len(kinds))
					for i := range all {
						all[i] = 1 + (i+si)%2
					}
					batch = append(batch, &scenario{Group: "deadline", Kinds: kinds, Inflight: all, Ctx: 0, DeadlineMs: ms, HoldMs: need, Idle: true})
					one := make([]int, len(kinds))
					one[0] = 2
					batch = append(batch, &scenario{Group: "deadline", Kinds: kinds, Inflight: one, Ctx: 0, DeadlineMs: ms, HoldMs: need, TLSInCfg: true})
				}
			}
		}
		joinDeadline = g.startBatch(batch)
	}
	// --- B: Start immediately followed by Stop, with tiny pauses to move Stop relative to the provider goroutines ---
	delays := []int{0, 0, 20, 100, 500, 2000}
	reps := 2
	if thorough {
		delays = []int{0, 0, 0, 5, 20, 50, 100, 200, 500, 1000, 2000, 5000}
		reps = 10
	}
	for _, sub := range subsets() {
		for r := 0; r < reps; r++ {
			for di, d := range delays {
				g.run(&scenario{Group: "immediate", Kinds: sub, Inflight: make([]int, len(sub)), Ctx: (r + di) % 2, Immediate: true, DelayUs: d,
					TLSInCfg: r%2 == 0, Restart: di == 0 && r == 0})
			}
		}
	}
	// --- C: seeded random scenarios ---
	nRand := 25
	if thorough {
		nRand = 1200
	}
	subs := subsets()
	for k := 0; k < nRand; k++ {
		sub := subs[g.rng.Intn(len(subs))]
		sc := &scenario{Group: "rand", Kinds: sub, Inflight: make([]int, len(sub)), Ctx: g.rng.Intn(3), Idle: g.rng.Intn(2) == 0,
			TLSInCfg: g.rng.Intn(2) == 0, Restart: g.rng.Intn(4) == 0}
		if g.rng.Intn(5) == 0 {
			sc.Immediate = true
			sc.DelayUs = g.rng.Intn(3000)
			if sc.Ctx == 2 {
				sc.Ctx = 1
			}
		} else {
			for i := range sc.Inflight {
				if g.rng.Intn(2) == 0 {
					sc.Inflight[i] = g.rng.Intn(6)
				}
			}
		}
		g.run(sc)
	}
	joinDeadline()
	g.w.Extra["scope"] = fmt.Sprintf("grid: 7 provider subsets x up to 4 in-flight patterns x 3 context kinds (with restart on the same ports for the ample ones); immediate Stop: 7 subsets x %d repetitions x %d pauses (0-%dus); %d seeded random scenarios (0-5 blocked requests per provider)", reps, len(delays), delays[len(delays)-1], nRand)
	g.w.Extra["server_lives"] = g.lives
	g.w.Extra["observations_not_reproduced"] = g.flaky
	g.w.Extra["environment_retries"] = g.envRetries
	g.w.Extra["reproduced_hangs"] = g.hangs
	g.w.Extra["reproduced_failing_scenarios"] = g.reproduced
	g.w.Extra["generation_cut_short_after_hangs"] = g.giveUp()
	if err := g.w.Flush(); err != nil {
		fmt.Fprintln(os.Stderr, err)
		os.Exit(2)
	}
}
