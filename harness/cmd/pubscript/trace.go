package main

import (
	"fmt"
	"sort"
	"strings"
	"time"

	"verifharness/internal/cw"
)

// The annotator turns what a script run showed into a trace over the model's labels.
// Environment items are what the harness did; internal items are placed as follows:
//   XEnter    right after the Publish that visited the pair (earliest possible)
//   XDeliver  in the quiescence window in which the channel length (plus receives) grew; the identity of
//             the k-th message that ever entered a subscriber's buffer is the k-th message received from it
//   XTimeout  subscriber has OnTimeout: at the callback's time stamp; otherwise by elimination (pair never
//             delivered): at the first tick at which its deadline has passed
//   XDrop / XFinishClose  right after the Close call that took the subscriber
// Logical time = floor(real time since the script began / tickDur); a Publish is stamped before the call,
// everything else after it, so a real timer can only fire at a logical time >= its model deadline.

type pairSt struct {
	p, s     int
	dl       int
	state    int // 0 pending, 1 delivered, 2 timed out, 3 dropped
	everRecv bool
}

const unknownPid = 999999

type traceOut struct {
	coq       []string
	desc      []string
	cbF       [][2]int
	ambiguous bool // a callback's Close overlapped a Publish call in real time: the visited set is not observable
}

func (o *traceOut) add(coq, desc string) {
	o.coq = append(o.coq, coq)
	o.desc = append(o.desc, desc)
}

func fcodeCoq(st Stim) string {
	switch st.FK {
	case 0:
		return "FNil"
	case 1:
		return fmt.Sprintf("(FMod %d %d)", st.FMod, st.FRem)
	default:
		return "FNever"
	}
}

func annotate(ex execResult) traceOut {
	var out traceOut
	// publish ids by message
	msgPid := map[int]int{}
	np := 0
	for _, st := range ex.stims {
		if st.Op == opPub {
			msgPid[st.M] = np
			np++
		}
	}
	pidOf := func(m int) int {
		if p, ok := msgPid[m]; ok {
			return p
		}
		return unknownPid
	}
	// receive order per subscriber
	recvOrder := map[int][]int{}
	for i, st := range ex.stims {
		if st.Op == opRecv && ex.res[i].recv.kind == 0 {
			recvOrder[st.S] = append(recvOrder[st.S], pidOf(ex.res[i].recv.m))
		}
	}
	everRecv := func(s, p int) bool {
		for _, q := range recvOrder[s] {
			if q == p {
				return true
			}
		}
		return false
	}
	// callback events
	type tev struct {
		s, p int
		t    time.Duration
		kind int           // 0 OnTimeout ran; 1 a callback's Subscriber.Close returned; 2 a callback's Publication.Close returned
		t0   time.Duration // when that Close call began
	}
	var touts []tev
	starts := map[[3]int]time.Duration{}
	for _, e := range ex.events {
		switch e.kind {
		case evOnTimeout:
			touts = append(touts, tev{s: e.sid, p: pidOf(e.m), t: e.t})
		case evOnFiltered:
			out.cbF = append(out.cbF, [2]int{e.sid, pidOf(e.m)})
		case evCloseStart:
			starts[[3]int{e.sid, e.m, e.aux}] = e.t
		case evCloseEnd:
			touts = append(touts, tev{s: e.sid, p: pidOf(e.m), t: e.t, kind: e.aux, t0: starts[[3]int{e.sid, e.m, e.aux}]})
		}
	}
	// a Close issued by a callback while another Publish call is inside its Range: which subscribers that
	// call still visits cannot be observed; such a run is discarded (timing, not a verdict)
	{
		np := 0
		for i, st := range ex.stims {
			if st.Op != opPub {
				continue
			}
			for _, e := range touts {
				if e.kind != 0 && (e.p != np || e.kind == 2) && e.t0 <= ex.res[i].tEnd && ex.res[i].tStart <= e.t {
					out.ambiguous = true
				}
			}
			np++
		}
	}
	sort.SliceStable(touts, func(i, j int) bool { return touts[i].t < touts[j].t })
	ti := 0

	var subs []Stim
	closed := []bool{}
	var pairs []*pairSt
	cur := 0
	recvCount := map[int]int{}
	delivCount := map[int]int{}
	pubsSeen := 0

	var closeTail func(s int)
	findPair := func(p, s int) *pairSt {
		for _, q := range pairs {
			if q.p == p && q.s == s {
				return q
			}
		}
		return nil
	}
	emitTick := func(t time.Duration) {
		k := int(t / tickDur)
		if k > cur {
			out.add(fmt.Sprintf("XTick %d", k-cur), fmt.Sprintf("tick %d", k-cur))
			cur = k
			// unobserved timeouts (subscriber without OnTimeout), by elimination
			for _, q := range pairs {
				if q.state == 0 && !subs[q.s].OnT && q.dl <= cur && !q.everRecv {
					q.state = 2
					out.add(fmt.Sprintf("XTimeout %d %d", q.p, q.s), fmt.Sprintf("timeout* p%d s%d", q.p, q.s))
				}
			}
		}
	}
	flushTimeouts := func(t time.Duration) {
		for ti < len(touts) && touts[ti].t < t {
			e := touts[ti]
			ti++
			emitTick(e.t)
			if e.kind != 0 {
				// Close called from inside a callback (an environment label like any other Close)
				for s := range subs {
					if closed[s] || (e.kind == 1 && s != e.s) {
						continue
					}
					closed[s] = true
					out.add(fmt.Sprintf("XCloseSub %d", s), fmt.Sprintf("callback of s%d (p%d) closes s%d", e.s, e.p, s))
					closeTail(s)
				}
				continue
			}
			if q := findPair(e.p, e.s); q != nil && q.state == 0 {
				q.state = 2
			}
			out.add(fmt.Sprintf("XTimeout %d %d", e.p, e.s), fmt.Sprintf("timeout p%d s%d", e.p, e.s))
		}
	}
	windowDeliveries := func(mk marker) {
		for s := range subs {
			if subs[s].Cap == 0 || s >= len(mk.lens) {
				continue
			}
			d := recvCount[s] + mk.lens[s]
			for delivCount[s] < d {
				p := unknownPid
				if delivCount[s] < len(recvOrder[s]) {
					p = recvOrder[s][delivCount[s]]
				}
				delivCount[s]++
				if q := findPair(p, s); q != nil && q.state == 0 {
					q.state = 1
				}
				out.add(fmt.Sprintf("XDeliver %d %d", p, s), fmt.Sprintf("deliver p%d s%d", p, s))
			}
		}
	}
	closeTail = func(s int) {
		for _, q := range pairs {
			if q.s == s && q.state == 0 {
				q.state = 3
				out.add(fmt.Sprintf("XDrop %d %d", q.p, s), fmt.Sprintf("drop p%d s%d", q.p, s))
			}
		}
		out.add(fmt.Sprintf("XFinishClose %d", s), fmt.Sprintf("finishclose s%d", s))
	}

	for i, st := range ex.stims {
		sr := ex.res[i]
		lt := sr.tEnd
		if st.Op == opPub {
			lt = sr.tStart
		}
		flushTimeouts(lt)
		emitTick(lt)
		var closedNow []int
		switch st.Op {
		case opSub:
			subs = append(subs, st)
			closed = append(closed, false)
			out.add(fmt.Sprintf("XSub %d %s", st.Cap, optsCoq(st)),
				fmt.Sprintf("sub cap=%d filt=%s tmo=%dticks onF=%v onT=%v options=%v", st.Cap, fcodeCoq(st), tmoTicks[st.Tmo], st.OnF, st.OnT, optOrder(st)))
		case opPub:
			p := pubsSeen
			pubsSeen++
			var vis []int
			visitedAt := map[int]time.Duration{} // when the subscriber's filter returned (subscribers with a filter)
			for s := range subs {
				if subs[s].FK == 0 && !closed[s] {
					vis = append(vis, s)
				}
			}
			for _, e := range ex.events[sr.evFrom:sr.evTo] {
				if e.kind == evFilter {
					vis = append(vis, e.sid)
					if _, dup := visitedAt[e.sid]; !dup {
						visitedAt[e.sid] = e.t
					}
				}
			}
			out.add(fmt.Sprintf("XPub %d %s", st.M, cw.ZL(vis)), fmt.Sprintf("pub m=%d visited=%v", st.M, vis))
			for _, s := range vis {
				if s < len(subs) && accepts(subs[s], st.M) && findPair(p, s) == nil {
					// the delivery goroutine of a filtered subscriber cannot have started before its filter
					// returned: its own timeout runs from then (time spent on other subscribers does not count)
					if t, ok := visitedAt[s]; ok {
						emitTick(t)
					}
					q := &pairSt{p: p, s: s, dl: cur + max(0, tmoTicks[subs[s].Tmo]), everRecv: everRecv(s, p)}
					pairs = append(pairs, q)
					out.add(fmt.Sprintf("XEnter %d %d", p, s), fmt.Sprintf("enter p%d s%d", p, s))
					// a timeout <= 0 is due at once; without OnTimeout it is unobservable: by elimination, now
					if !subs[s].OnT && q.dl <= cur && !q.everRecv {
						q.state = 2
						out.add(fmt.Sprintf("XTimeout %d %d", q.p, q.s), fmt.Sprintf("timeout* p%d s%d", q.p, q.s))
					}
				}
			}
		case opRecv:
			switch sr.recv.kind {
			case 0:
				p := pidOf(sr.recv.m)
				out.add(fmt.Sprintf("XRecvVal %d %d %d", st.S, p, sr.recv.m), fmt.Sprintf("recv s%d -> m=%d (p%d)", st.S, sr.recv.m, p))
				if subs[st.S].Cap == 0 {
					if q := findPair(p, st.S); q != nil && q.state == 0 {
						q.state = 1
					}
				} else {
					recvCount[st.S]++
				}
			case 1:
				out.add(fmt.Sprintf("XRecvEmpty %d", st.S), fmt.Sprintf("recv s%d -> nothing", st.S))
			case 2:
				out.add(fmt.Sprintf("XRecvClosed %d", st.S), fmt.Sprintf("recv s%d -> closed", st.S))
			}
		case opCloseSub:
			out.add(fmt.Sprintf("XCloseSub %d", st.S), fmt.Sprintf("close s%d", st.S))
			if !closed[st.S] {
				closedNow = []int{st.S}
			}
		case opClosePub:
			for s := range subs {
				if !closed[s] {
					closedNow = append(closedNow, s)
				}
			}
			if len(closedNow) == 0 {
				out.add("XTick 0", "closepub (no subscriber left)")
			}
		}
		if st.Op == opClosePub {
			for _, s := range closedNow {
				out.add(fmt.Sprintf("XCloseSub %d", s), fmt.Sprintf("closepub: close s%d", s))
			}
		}
		for _, s := range closedNow {
			closed[s] = true
		}
		if len(sr.mk.lens) > 0 || st.Op == "settle" || len(subs) == 0 {
			windowDeliveries(sr.mk)
		}
		for _, s := range closedNow {
			closeTail(s)
		}
		if ex.blocked && !ex.cbBlocked && i == len(ex.stims)-1 {
			break
		}
		flushTimeouts(sr.mk.t)
		emitTick(sr.mk.t)
		mode := 0
		if st.Op == "settle" {
			mode = 2
		} else if st.Op == opAdvance && st.S == 0 {
			mode = 1
		}
		out.add(fmt.Sprintf("XQuiet %s %d %d", cw.ZL(sr.mk.lens), sr.mk.gor, mode),
			fmt.Sprintf("quiet lens=%v goroutines=%d %s", sr.mk.lens, sr.mk.gor, []string{"", "(after advance: no overdue delivery may be left)", "(settled)"}[mode]))
	}
	// callbacks after the last marker
	flushTimeouts(1 << 62)
	return out
}

func caseCoq(tr traceOut, blocked, panicked, complete bool) string {
	cb := make([]string, len(tr.cbF))
	for i, x := range tr.cbF {
		cb[i] = fmt.Sprintf("(%d, %d)", x[0], x[1])
	}
	return fmt.Sprintf("CScript [%s] (mkObs [%s] %s %s %s)", strings.Join(tr.coq, "; "), strings.Join(cb, "; "),
		cw.B(blocked), cw.B(panicked), cw.B(complete))
}
