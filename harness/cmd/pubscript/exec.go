package main

import (
	"bytes"
	"fmt"
	"math/rand"
	"regexp"
	"runtime"
	"sort"
	"strings"
	"sync"
	"sync/atomic"
	"time"

	"github.com/rbell/toolchest/publisher"
)

// ---------- scripts ----------

// timeout classes: real duration = ticks * tickDur
const tickDur = 20 * time.Millisecond

// short (60ms), medium (160ms), long (60s: never fires in a script), zero, negative (-1s): time.After(d) fires at once for d <= 0
var tmoTicks = []int{3, 8, 3000, 0, -50}

const (
	opSub      = "sub"
	opPub      = "pub"
	opRecv     = "recv"
	opAdvance  = "advance"
	opCloseSub = "closesub"
	opClosePub = "closepub"
)

// Stim is one stimulus of a script (an environment label of the model).
type Stim struct {
	Op   string `json:"op"`
	Cap  int    `json:"cap,omitempty"`
	FK   int    `json:"fk,omitempty"` // filter kind: 0 nil, 1 mod, 2 never
	FMod int    `json:"fmod,omitempty"`
	FRem int    `json:"frem,omitempty"`
	Tmo  int    `json:"tmo,omitempty"` // index into tmoTicks
	OnF  bool   `json:"onf,omitempty"`
	OnT  bool   `json:"ont,omitempty"`
	Ord  int    `json:"ord,omitempty"`  // order in which the options are passed to Subscribe: 0 = filter, timeout, OnFiltered, OnTimeout; otherwise the seed of a permutation
	Slow int    `json:"slow,omitempty"` // the filter takes this many milliseconds
	FCl  bool   `json:"fcl,omitempty"`  // the filter predicate itself closes its own subscriber when it rejects a message
	CbF  int    `json:"cbf,omitempty"`  // what OnFiltered does besides being recorded: 0 nothing, 1 closes its own subscriber
	CbT  int    `json:"cbt,omitempty"`  // what OnTimeout does: 0 nothing, 1 closes its own subscriber, 2 closes the publication
	M    int    `json:"m,omitempty"`
	S    int    `json:"s,omitempty"`
}

type Script struct {
	Idx    int      `json:"idx"`
	Family string   `json:"family"`
	Tags   []string `json:"tags"`
	Stims  []Stim   `json:"stims"`
}

// optOrder lists the kinds of options of a Subscribe stimulus ("F" filter, "T" timeout, "OF" OnFiltered,
// "OT" OnTimeout) in the order in which they are passed.
func optOrder(st Stim) []string {
	var ks []string
	if st.FK != 0 {
		ks = append(ks, "F")
	}
	ks = append(ks, "T")
	if st.OnF {
		ks = append(ks, "OF")
	}
	if st.OnT {
		ks = append(ks, "OT")
	}
	if st.Ord != 0 {
		rand.New(rand.NewSource(int64(st.Ord))).Shuffle(len(ks), func(i, j int) { ks[i], ks[j] = ks[j], ks[i] })
	}
	return ks
}

// optsCoq renders the option list of a Subscribe stimulus for Run/CorrPub.v.
func optsCoq(st Stim) string {
	var p []string
	for _, k := range optOrder(st) {
		switch k {
		case "F":
			p = append(p, "XoFilter "+fcodeCoq(st))
		case "T":
			p = append(p, fmt.Sprintf("XoTimeout %s", cwZ(tmoTicks[st.Tmo])))
		case "OF":
			p = append(p, "XoOnFiltered")
		case "OT":
			p = append(p, "XoOnTimeout")
		}
	}
	return "[" + strings.Join(p, "; ") + "]"
}

func cwZ(i int) string {
	if i < 0 {
		return fmt.Sprintf("(%d)", i)
	}
	return fmt.Sprintf("%d", i)
}

func accepts(st Stim, m int) bool {
	switch st.FK {
	case 0:
		return true
	case 1:
		return ((m%st.FMod)+st.FMod)%st.FMod == st.FRem
	default:
		return false
	}
}

// ---------- events observed while a script runs ----------

type evKind int

const (
	evFilter evKind = iota
	evOnFiltered
	evOnTimeout
	evCloseStart // a callback starts Subscriber.Close (aux 1) / Publication.Close (aux 2)
	evCloseEnd   // ... and that call has returned
)

type event struct {
	kind evKind
	sid  int
	m    int
	t    time.Duration
	aux  int
}

type marker struct {
	t    time.Duration
	lens []int
	gor  int
}

type recvOutcome struct {
	kind int // 0 value, 1 empty, 2 closed
	m    int
}

// stimResult is what one stimulus showed us.
type stimResult struct {
	tStart, tEnd time.Duration
	recv         recvOutcome
	mk           marker
	evFrom, evTo int   // filter events logged during this stimulus: events[evFrom:evTo]
	closedSubs   []int // subscribers closed by this stimulus (closepub)
}

type subH struct {
	cfg       Stim
	sub       *publisher.Subscriber[int]
	closed    atomic.Bool
	accepted  int // accepted messages published while subscribed (by the harness's own filter function)
	recvCount int
}

// shortResolved: by counting only - every delivery to a subscriber with a short timeout has ended (called
// after sleeping past all their deadlines): subscribers with OnTimeout have accepted = delivered + callbacks,
// and the live delivery goroutines are exactly the undelivered messages of the 60s subscribers.
func (r *runner) shortResolved(mk marker) bool {
	r.mu.Lock()
	cb := map[int]int{}
	for _, e := range r.events {
		if e.kind == evOnTimeout {
			cb[e.sid]++
		}
	}
	r.mu.Unlock()
	long := 0
	for i, s := range r.subs {
		if s.closed.Load() || i >= len(mk.lens) {
			continue
		}
		delivered := s.recvCount + mk.lens[i]
		if s.cfg.Tmo == 2 {
			long += s.accepted - delivered
		} else if s.cfg.OnT && s.accepted-delivered-cb[i] != 0 {
			return false
		}
	}
	return mk.gor == long
}

type runner struct {
	origin time.Time
	mu     sync.Mutex
	events []event
	pub    *publisher.Publication[int]
	subs   []*subH
	base   map[int]bool // goroutine ids that existed before the script (never counted)
}

func (r *runner) since() time.Duration { return time.Since(r.origin) }

func (r *runner) logAux(k evKind, sid, m, aux int) {
	t := r.since()
	r.mu.Lock()
	r.events = append(r.events, event{k, sid, m, t, aux})
	r.mu.Unlock()
}

func (r *runner) log(k evKind, sid, m int) {
	t := r.since()
	r.mu.Lock()
	r.events = append(r.events, event{k, sid, m, t, 0})
	r.mu.Unlock()
}

// ---------- quiescence ----------

var goroutineHdr = regexp.MustCompile(`^goroutine (\d+) \[([^\]]*)\]`)

type gInfo struct {
	id    string
	state string
}

// snapshot lists the goroutines whose stack mentions the package under test (any frame or the
// "created by" line), except the calling goroutine.
func snapshot() []gInfo {
	buf := make([]byte, 1<<20)
	for {
		n := runtime.Stack(buf, true)
		if n < len(buf) {
			buf = buf[:n]
			break
		}
		buf = make([]byte, 2*len(buf))
	}
	var res []gInfo
	first := true
	for _, blk := range bytes.Split(buf, []byte("\n\n")) {
		if first { // the first block is the caller
			first = false
			continue
		}
		s := string(blk)
		if !strings.Contains(s, "toolchest/publisher.") {
			continue
		}
		m := goroutineHdr.FindStringSubmatch(s)
		if m == nil {
			continue
		}
		st := m[2]
		if i := strings.Index(st, ","); i >= 0 {
			st = st[:i]
		}
		res = append(res, gInfo{m[1], st})
	}
	sort.Slice(res, func(i, j int) bool { return res[i].id < res[j].id })
	return res
}

func blocked(state string) bool {
	switch state {
	case "running", "runnable", "syscall", "":
		return false
	}
	if strings.HasPrefix(state, "GC") {
		return false
	}
	return true
}

func sameSnap(a, b []gInfo) bool {
	if len(a) != len(b) {
		return false
	}
	for i := range a {
		if a[i] != b[i] {
			return false
		}
	}
	return true
}

// quiesce waits until every goroutine of the package under test is parked and two consecutive
// snapshots agree; it then reads the channel lengths and the time (in this order).
func (r *runner) quiesce() (marker, bool) {
	deadline := time.Now().Add(5 * time.Second)
	var prev []gInfo
	havePrev := false
	for {
		runtime.Gosched()
		cur := snapshot()
		all := true
		for _, g := range cur {
			if !blocked(g.state) {
				all = false
				break
			}
		}
		if all && havePrev && sameSnap(prev, cur) {
			lens := make([]int, len(r.subs))
			for i, s := range r.subs {
				lens[i] = len(s.sub.Receive())
			}
			return marker{t: r.since(), lens: lens, gor: len(cur)}, true
		}
		prev, havePrev = cur, all
		if time.Now().After(deadline) {
			return marker{t: r.since(), gor: len(cur)}, false
		}
		if !all {
			time.Sleep(200 * time.Microsecond)
		}
	}
}

// ---------- executing one script ----------

type execResult struct {
	stims     []Stim // the stimuli actually executed (script + final drain)
	res       []stimResult
	events    []event
	blocked   bool // a Publish or Close call did not return within the watchdog
	cbBlocked bool // ... and it was a Close issued from inside a callback
	complete  bool
	notQuiet  bool // quiescence was not reached (reported as incomplete, never as a violation)
}

const watchdog = 3 * time.Second

func (r *runner) doStim(st Stim) (stimResult, bool) {
	var sr stimResult
	r.mu.Lock()
	sr.evFrom = len(r.events)
	r.mu.Unlock()
	sr.tStart = r.since()
	done := make(chan struct{})
	go func() {
		defer close(done)
		switch st.Op {
		case opSub:
			sid := len(r.subs)
			cfg := st
			byKind := map[string]publisher.SubscriberOption[int]{}
			byKind["T"] = publisher.WithTimeout[int](time.Duration(tmoTicks[st.Tmo]) * tickDur)
			h := &subH{cfg: st}
			// a callback may close its own subscriber or the whole publication (from inside the callback)
			act := func(kind, m int) {
				if kind == 0 {
					return
				}
				r.logAux(evCloseStart, sid, m, kind)
				if kind == 1 {
					h.sub.Close()
					h.closed.Store(true)
				} else {
					r.pub.Close()
					r.mu.Lock()
					all := append([]*subH(nil), r.subs...)
					r.mu.Unlock()
					for _, x := range all {
						x.closed.Store(true)
					}
				}
				r.logAux(evCloseEnd, sid, m, kind)
			}
			if st.FK != 0 {
				byKind["F"] = publisher.WithFilter(func(m int) bool {
					if cfg.Slow > 0 {
						time.Sleep(time.Duration(cfg.Slow) * time.Millisecond)
					}
					ok := accepts(cfg, m)
					if !ok && cfg.FCl {
						act(1, m) // re-entrant: the predicate unsubscribes its own subscriber
					}
					// stamped when the filter returns: the delivery of this pair cannot start earlier
					r.log(evFilter, sid, m)
					return ok
				})
			}
			if st.OnF {
				byKind["OF"] = publisher.OnFiltered(func(m int) { r.log(evOnFiltered, sid, m); act(cfg.CbF, m) })
			}
			if st.OnT {
				byKind["OT"] = publisher.OnTimeout(func(m int) { r.log(evOnTimeout, sid, m); act(cfg.CbT, m) })
			}
			var opts []publisher.SubscriberOption[int]
			for _, k := range optOrder(st) {
				opts = append(opts, byKind[k])
			}
			h.sub = r.pub.Subscribe(st.Cap, opts...)
			r.mu.Lock()
			r.subs = append(r.subs, h)
			r.mu.Unlock()
		case opPub:
			r.pub.Publish(st.M)
		case opRecv:
			select {
			case v, ok := <-r.subs[st.S].sub.Receive():
				if ok {
					sr.recv = recvOutcome{0, v}
				} else {
					sr.recv = recvOutcome{2, 0}
				}
			default:
				sr.recv = recvOutcome{1, 0}
			}
		case opCloseSub:
			r.subs[st.S].sub.Close()
			if !r.subs[st.S].closed.Swap(true) {
				sr.closedSubs = []int{st.S}
			}
		case opClosePub:
			r.pub.Close()
			for i, s := range r.subs {
				if !s.closed.Swap(true) {
					sr.closedSubs = append(sr.closedSubs, i)
				}
			}
		case opAdvance:
			time.Sleep(time.Duration(st.M) * time.Millisecond)
		}
	}()
	select {
	case <-done:
	case <-time.After(watchdog + time.Duration(st.M)*time.Millisecond):
		return sr, false
	}
	sr.tEnd = r.since()
	r.mu.Lock()
	sr.evTo = len(r.events)
	r.mu.Unlock()
	return sr, true
}

// pendingShort: latest real deadline of short/medium-timeout subscribers' publications so far.
func runScript(sc Script) execResult {
	r := &runner{origin: time.Now(), pub: publisher.NewPublication[int]()}
	var out execResult
	var lastShortDeadline, lastClass0 time.Duration
	haveShort := false
	step := func(st Stim) bool {
		if st.Op == opAdvance {
			// sleep until every short timer started so far is overdue by a margin
			wait := 0
			if haveShort {
				target := lastShortDeadline
				if st.S == 1 {
					target = lastClass0
				}
				d := target + 40*time.Millisecond - r.since()
				if d > 0 {
					wait = int(d / time.Millisecond)
				}
			}
			st.M = wait + 1
		}
		sr, ok := r.doStim(st)
		if !ok {
			out.blocked = true
			out.stims = append(out.stims, st)
			out.res = append(out.res, sr)
			return false
		}
		if st.Op == opPub {
			for _, s := range r.subs {
				if !s.closed.Load() && s.cfg.Tmo != 2 {
					d := sr.tEnd + time.Duration(tmoTicks[s.cfg.Tmo])*tickDur
					if d > lastShortDeadline {
						lastShortDeadline = d
					}
					if s.cfg.Tmo == 0 && d > lastClass0 {
						lastClass0 = d
					}
					haveShort = true
				}
			}
		}
		mk, q := r.quiesce()
		if q && st.Op == opAdvance && st.S == 0 {
			// the timers get a generous bound: up to 3s for every overdue delivery to end
			deadline := time.Now().Add(watchdog)
			for q && !r.shortResolved(mk) && time.Now().Before(deadline) {
				time.Sleep(5 * time.Millisecond)
				mk, q = r.quiesce()
			}
		}
		if st.Op == opRecv && sr.recv.kind == 0 {
			r.subs[st.S].recvCount++
		}
		if st.Op == opPub {
			for _, s := range r.subs {
				if !s.closed.Load() && accepts(s.cfg, st.M) {
					s.accepted++
				}
			}
		}
		sr.mk = mk
		out.stims = append(out.stims, st)
		out.res = append(out.res, sr)
		if !q {
			out.notQuiet = true
			return false
		}
		return true
	}
	func() {
		for _, st := range sc.Stims {
			if !step(st) {
				return
			}
		}
		// final phase: let every short timer expire, then drain every channel until nothing is left
		if haveShort {
			if !step(Stim{Op: opAdvance}) {
				return
			}
		}
		for round := 0; round < 10000; round++ {
			got := false
			for i := range r.subs {
				for {
					if !step(Stim{Op: opRecv, S: i}) {
						return
					}
					last := out.res[len(out.res)-1]
					if last.recv.kind == 0 {
						got = true
						continue
					}
					break
				}
			}
			if !got {
				break
			}
		}
		// settled marker: wait (generously) until no delivery goroutine is left
		{
			deadline := time.Now().Add(watchdog)
			for {
				mk, q := r.quiesce()
				if !q {
					out.notQuiet = true
					return
				}
				if mk.gor == 0 || time.Now().After(deadline) {
					out.stims = append(out.stims, Stim{Op: "settle"})
					out.res = append(out.res, stimResult{tStart: mk.t, tEnd: mk.t, mk: mk})
					break
				}
				time.Sleep(5 * time.Millisecond)
			}
		}
		out.complete = true
	}()
	// a Close called from inside a callback must have returned by now (generous: 3s)
	unfinished := func() bool {
		r.mu.Lock()
		defer r.mu.Unlock()
		n := 0
		for _, e := range r.events {
			if e.kind == evCloseStart {
				n++
			} else if e.kind == evCloseEnd {
				n--
			}
		}
		return n != 0
	}
	for deadline := time.Now().Add(watchdog); unfinished() && time.Now().Before(deadline); {
		time.Sleep(5 * time.Millisecond)
	}
	if unfinished() {
		out.blocked, out.cbBlocked, out.complete = true, true, false
	}
	r.mu.Lock()
	out.events = append([]event(nil), r.events...)
	r.mu.Unlock()
	return out
}
