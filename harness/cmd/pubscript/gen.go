package main

import (
	"fmt"
	"math/rand"
)

func sub(cap, fk, fmod, frem, tmo int, onF, onT bool) Stim {
	return Stim{Op: opSub, Cap: cap, FK: fk, FMod: fmod, FRem: frem, Tmo: tmo, OnF: onF, OnT: onT}
}
func pubS(m int) Stim   { return Stim{Op: opPub, M: m} }
func recvS(s int) Stim  { return Stim{Op: opRecv, S: s} }
func closeS(s int) Stim { return Stim{Op: opCloseSub, S: s} }

var advanceS = Stim{Op: opAdvance}
var closePubS = Stim{Op: opClosePub}

// number messages 1,2,3,... in publish order (distinct, alternating parity)
func renumber(st []Stim) []Stim {
	out := append([]Stim(nil), st...)
	k := 0
	for i := range out {
		if out[i].Op == opPub {
			k++
			out[i].M = k
		}
	}
	return out
}

// all sequences of length n over the alphabet
func sequences(alpha []Stim, n int) [][]Stim {
	if n == 0 {
		return [][]Stim{{}}
	}
	var out [][]Stim
	for _, pre := range sequences(alpha, n-1) {
		for _, a := range alpha {
			s := append(append([]Stim(nil), pre...), a)
			out = append(out, s)
		}
	}
	return out
}

type filt struct{ fk, mod, rem int }

var filtNil = filt{0, 0, 0}
var filtEven = filt{1, 2, 0}
var filtOdd = filt{1, 2, 1}
var filtNever = filt{2, 0, 0}

func randFilt(rng *rand.Rand) filt {
	switch rng.Intn(6) {
	case 0, 1:
		return filtNil
	case 2:
		return filtEven
	case 3:
		return filtOdd
	case 4:
		return filt{1, 3, rng.Intn(3)}
	default:
		return filtNever
	}
}

// churn: subscribers come and go.  Every sequence of length n over {Subscribe a new one, close the oldest open
// subscriber, close the newest open one, Publish}, after two initial subscribers; then a drain.  Whoever is
// subscribed and not closed at a Publish must get the message exactly once, whatever was closed or created
// before (subscriber ids must never be reused for a live subscriber).
func churnScripts(n int) [][]Stim {
	mk := func(k int) Stim {
		f := []filt{filtNil, filtEven, filtNil, filtOdd}[k%4]
		return sub(1+k%3, f.fk, f.mod, f.rem, 2, k%2 == 1, false)
	}
	var out [][]Stim
	var rec func(st []Stim, open []int, total, left int)
	rec = func(st []Stim, open []int, total, left int) {
		if left == 0 {
			out = append(out, append([]Stim(nil), st...))
			return
		}
		rec(append(st, mk(total)), append(append([]int(nil), open...), total), total+1, left-1)
		if len(open) > 0 {
			rec(append(st, closeS(open[0])), append([]int(nil), open[1:]...), total, left-1)
		}
		if len(open) > 1 {
			rec(append(st, closeS(open[len(open)-1])), append([]int(nil), open[:len(open)-1]...), total, left-1)
		}
		rec(append(st, pubS(0)), open, total, left-1)
	}
	rec([]Stim{mk(0), mk(1)}, []int{0, 1}, 2, n)
	return out
}

// secondLifeScripts: a publication is reused after Publication.Close.  Every sequence of length n over
// {Subscribe a new one, Publish, Publication.Close, close the OLDEST handle - also a stale one from before a
// Publication.Close -} after one initial subscriber, then a drain.  Nothing may survive the Close and leak into
// the second life (ids, counters, contexts, caches): the new subscribers get every message published while they
// are subscribed exactly once, an old handle's Close is a no-op.
func secondLifeScripts(n int) [][]Stim {
	mk := func(k int) Stim {
		f := []filt{filtNil, filt{1, 1, 0}, filtEven, filtNil}[k%4]
		return sub(1+k%3, f.fk, f.mod, f.rem, 2, k%2 == 1, k%3 == 0)
	}
	var out [][]Stim
	var rec func(st []Stim, total, nextStale, left int, closedPub bool)
	rec = func(st []Stim, total, nextStale, left int, closedPub bool) {
		if left == 0 {
			if closedPub { // only sequences that contain a Publication.Close
				out = append(out, append([]Stim(nil), st...))
			}
			return
		}
		rec(append(st, mk(total)), total+1, nextStale, left-1, closedPub)
		rec(append(st, pubS(0)), total, nextStale, left-1, closedPub)
		rec(append(st, closePubS), total, nextStale, left-1, true)
		if nextStale < total {
			rec(append(st, closeS(nextStale)), total, nextStale+1, left-1, closedPub)
		}
	}
	rec([]Stim{mk(0)}, 1, 0, n, false)
	return out
}

// callbackCloseScripts: OnTimeout / OnFiltered callbacks that call Subscriber.Close or Publication.Close from
// inside the callback.  Every subscriber has a filter (FMod 1 0 accepts everything) so that the visits of a
// Publish are observed; a run in which such a Close overlaps another Publish is discarded as timing-ambiguous.
func callbackCloseScripts(rng *rand.Rand, n1, n2 int) [][]Stim {
	all := func(c, tmo int, onT bool, cbT int) Stim {
		s := sub(c, 1, 1, 0, tmo, false, onT)
		s.CbT = cbT
		return s
	}
	rejecting := func(c int) Stim { // even filter, OnFiltered closes the subscriber
		s := sub(c, 1, 2, 0, 2, true, false)
		s.CbF = 1
		return s
	}
	var out [][]Stim
	// fixed ones
	out = append(out,
		[]Stim{all(0, 0, true, 1), pubS(0), advanceS, pubS(0), recvS(0)},
		[]Stim{all(1, 0, true, 2), all(2, 2, false, 0), pubS(0), pubS(0), pubS(0), advanceS, recvS(1), pubS(0)},
		[]Stim{all(1, 3, true, 1), pubS(0), pubS(0), pubS(0), recvS(0), recvS(0)},
		[]Stim{all(1, 4, true, 2), all(1, 2, true, 0), pubS(0), pubS(0), pubS(0)},
		[]Stim{rejecting(1), all(1, 2, false, 0), pubS(0), pubS(0), pubS(0), recvS(0), recvS(1)},
		[]Stim{all(0, 0, true, 1), all(0, 0, true, 1), all(0, 0, true, 2), pubS(0), pubS(0), advanceS, pubS(0)})
	// exhaustive short sequences for the single-subscriber configurations
	filterCloses := sub(1, 1, 2, 0, 2, false, false) // even filter whose predicate closes the subscriber when it rejects
	filterCloses.FCl = true
	for _, cfg := range []Stim{all(0, 0, true, 1), all(1, 0, true, 2), all(1, 3, true, 1), all(2, 4, true, 1), rejecting(1), filterCloses} {
		for _, seq := range sequences([]Stim{pubS(0), recvS(0), advanceS}, n1) {
			out = append(out, append([]Stim{cfg}, seq...))
		}
	}
	// two subscribers: s0's OnTimeout closes the publication / itself, s1 has a 60s timeout and buffered messages
	for _, cbt := range []int{1, 2} {
		for _, seq := range sequences([]Stim{pubS(0), recvS(0), recvS(1), advanceS}, n2) {
			out = append(out, append([]Stim{all(0, 0, true, cbt), all(2, 2, true, 0)}, seq...))
		}
	}
	_ = rng
	return out
}

// ---------- C06: no timeouts fire (60 s), no callbacks, no closes ----------

func genC06(tier string, rng *rand.Rand) []Script {
	var out []Script
	L1, L2, R := 5, 4, 120
	if tier == "thorough" {
		L1, L2, R = 8, 6, 3000
	}
	add := func(tag string, st []Stim) {
		out = append(out, Script{Family: "C06", Tags: []string{tag}, Stims: renumber(st)})
	}
	// every combination of filter x OnFiltered x OnTimeout x buffer on one publication: a rejected message must
	// not be delivered whatever other options the subscriber has
	{
		var st []Stim
		for _, f := range []filt{filtEven, filtOdd, filtNever} {
			for cb := 0; cb < 4; cb++ {
				st = append(st, sub(2+cb%2, f.fk, f.mod, f.rem, 2, cb&1 != 0, cb&2 != 0))
			}
		}
		for i := 0; i < 4; i++ {
			st = append(st, pubS(0))
		}
		add("options-matrix", st)
	}
	// another subscriber's slow filter must not eat this subscriber's timeout
	for _, st := range slowFilterScripts() {
		add("slow-filter", st)
	}
	// a subscriber closes itself from inside its filter / OnFiltered while Publish is walking the subscribers
	for _, st := range reentrantCloseScripts(map[string]int{"quick": 3, "thorough": 4}[tier]) {
		add("reentrant-close", st)
	}
	// the publication is closed and used again (second life), old handles are closed late
	for _, st := range secondLifeScripts(map[string]int{"quick": 5, "thorough": 6}[tier]) {
		add("second-life", st)
	}
	// subscribers closed, new ones created, older ones keep receiving
	for _, st := range churnScripts(map[string]int{"quick": 4, "thorough": 6}[tier]) {
		add("churn", st)
	}
	// exhaustive, one subscriber: every Publish/TryReceive sequence of length L1
	for _, c := range []int{0, 1, 2} {
		for _, f := range []filt{filtNil, filtEven} {
			for _, seq := range sequences([]Stim{pubS(0), recvS(0)}, L1) {
				cb := f.fk != 0 // the filtered subscriber also has OnFiltered and OnTimeout
				add("one-sub", append([]Stim{sub(c, f.fk, f.mod, f.rem, 2, cb, cb)}, seq...))
			}
		}
	}
	// exhaustive, two subscribers with different buffers and filters
	type cfg struct {
		c0, c1 int
		f0, f1 filt
	}
	for _, g := range []cfg{{0, 1, filtNil, filtOdd}, {1, 0, filtEven, filtNil}, {2, 1, filtOdd, filtEven}, {0, 0, filtNil, filtNil}} {
		for _, seq := range sequences([]Stim{pubS(0), recvS(0), recvS(1)}, L2) {
			// s0 carries OnFiltered/OnTimeout next to its filter, s1 only OnTimeout
			add("two-subs", append([]Stim{sub(g.c0, g.f0.fk, g.f0.mod, g.f0.rem, 2, true, true),
				sub(g.c1, g.f1.fk, g.f1.mod, g.f1.rem, 2, false, true)}, seq...))
		}
	}
	// structured random: 2-4 subscribers (one may join late), random buffers/filters, 10-24 stimuli
	for i := 0; i < R; i++ {
		ns := 2 + rng.Intn(3)
		var st []Stim
		have := 0
		n := 10 + rng.Intn(15)
		late := rng.Intn(2) == 0
		for have < ns-1 || (!late && have < ns) {
			f := randFilt(rng)
			st = append(st, sub(rng.Intn(4), f.fk, f.mod, f.rem, 2, rng.Intn(2) == 0, rng.Intn(2) == 0))
			have++
		}
		for k := 0; k < n; k++ {
			switch x := rng.Intn(10); {
			case x < 4:
				st = append(st, pubS(0))
			case x < 9:
				st = append(st, recvS(rng.Intn(have)))
			default:
				if have < ns {
					f := randFilt(rng)
					st = append(st, sub(rng.Intn(4), f.fk, f.mod, f.rem, 2, rng.Intn(2) == 0, rng.Intn(2) == 0))
					have++
				} else {
					st = append(st, pubS(0))
				}
			}
		}
		add("random", st)
	}
	return out
}

// ---------- C15: timeouts fire, callbacks, never/slow/prompt receivers, no closes ----------

var advanceShortS = Stim{Op: opAdvance, S: 1} // only past the deadlines of the 60ms subscribers

func genC15(tier string, rng *rand.Rand) []Script {
	var out []Script
	L1, L2, R := 4, 3, 60
	if tier == "thorough" {
		L1, L2, R = 5, 4, 1200
	}
	add := func(tag string, st []Stim) {
		out = append(out, Script{Family: "C15", Tags: []string{tag}, Stims: renumber(st)})
	}
	// corpus: the refutation witnesses of Findings/Pub.v (F11)
	add("corpus-f11-onfiltered", []Stim{sub(0, 1, 2, 0, 2, true, true), pubS(0)})
	add("corpus-f11-ontimeout", []Stim{sub(0, 0, 0, 0, 0, true, true), pubS(0), advanceS})
	// two subscribers with very different timeouts (60ms vs 60s), both callbacks, nobody receives
	add("two-timeouts", []Stim{sub(1, 0, 0, 0, 0, true, true), sub(1, 0, 0, 0, 2, true, true), pubS(0), pubS(0), pubS(0), advanceS})
	// 60ms vs 160ms: after the short one expired the other one must still be pending
	add("two-timeouts", []Stim{sub(0, 0, 0, 0, 0, true, true), sub(0, 0, 0, 0, 1, true, true), pubS(0), advanceShortS, recvS(1), pubS(0), advanceS})
	// zero and negative timeouts: time.After fires at once, a surplus message is dropped (OnTimeout) immediately
	for _, tm := range []int{3, 4} {
		add("nonpositive-timeout", []Stim{sub(2, 0, 0, 0, tm, true, true), pubS(0), pubS(0), pubS(0), pubS(0), pubS(0), advanceS})
		add("nonpositive-timeout", []Stim{sub(0, 0, 0, 0, tm, true, true), pubS(0), pubS(0), recvS(0)})
		add("nonpositive-timeout", []Stim{sub(1, 1, 2, 0, tm, false, false), sub(1, 0, 0, 0, 2, true, true), pubS(0), pubS(0), pubS(0), pubS(0), recvS(0), pubS(0)})
		for _, seq := range sequences([]Stim{pubS(0), recvS(0), advanceS}, L2) {
			add("one-sub-nonpositive", append([]Stim{sub(1, 0, 0, 0, tm, true, true)}, seq...))
		}
	}
	// option order: every permutation seed 1..24 of {WithFilter, WithTimeout, OnFiltered, OnTimeout} for a subscriber
	// whose deliveries time out and whose filter rejects: timeout, both callbacks and the filter must all be in force
	for ord := 0; ord <= 24; ord++ {
		s := sub(1, 1, 2, 0, 0, true, true)
		s.Ord = ord
		out = append(out, Script{Family: "C15", Tags: []string{"option-order"}, Stims: renumber([]Stim{s, pubS(0), pubS(0), pubS(0), pubS(0), advanceS})})
	}
	for _, st := range slowFilterScripts() {
		add("slow-filter", st)
	}
	// the publication is closed and used again; handles of the first life are closed afterwards
	for _, st := range secondLifeScripts(map[string]int{"quick": 4, "thorough": 5}[tier]) {
		add("second-life", st)
	}
	// callbacks that close their subscriber / the publication from inside the callback
	for _, st := range callbackCloseScripts(rng, map[string]int{"quick": 3, "thorough": 4}[tier], map[string]int{"quick": 2, "thorough": 3}[tier]) {
		add("callback-close", st)
	}
	// Publish with every buffer full and nobody receiving (60s timeouts): must return at once
	{
		st := []Stim{sub(2, 0, 0, 0, 2, true, true), sub(0, 0, 0, 0, 2, false, false), sub(1, 1, 2, 1, 2, true, false)}
		for i := 0; i < 12; i++ {
			st = append(st, pubS(0))
		}
		add("full-buffers", st)
	}
	// exhaustive, one subscriber with a 60ms timeout and both callbacks: Publish / TryReceive / Advance
	for _, c := range []int{0, 1} {
		for _, seq := range sequences([]Stim{pubS(0), recvS(0), advanceS}, L1) {
			add("one-sub", append([]Stim{sub(c, 1, 2, 0, 0, true, true)}, seq...))
		}
	}
	// exhaustive, two subscribers: s0 times out (60ms), s1 never does (60s); callbacks on s0 only / on both
	type cfg struct {
		c0, c1   int
		f0, f1   filt
		cb0, cb1 bool
	}
	for _, g := range []cfg{{1, 1, filtNil, filtOdd, true, true}, {0, 2, filtEven, filtNil, true, false}, {2, 0, filtNil, filtNil, false, true}} {
		for _, seq := range sequences([]Stim{pubS(0), recvS(0), recvS(1), advanceS}, L2) {
			add("two-subs", append([]Stim{sub(g.c0, g.f0.fk, g.f0.mod, g.f0.rem, 0, g.cb0, g.cb0),
				sub(g.c1, g.f1.fk, g.f1.mod, g.f1.rem, 2, g.cb1, g.cb1)}, seq...))
		}
	}
	// structured random
	for i := 0; i < R; i++ {
		ns := 2 + rng.Intn(3)
		var st []Stim
		for k := 0; k < ns; k++ {
			f := randFilt(rng)
			st = append(st, sub(rng.Intn(3), f.fk, f.mod, f.rem, rng.Intn(5), rng.Intn(3) > 0, rng.Intn(3) > 0))
		}
		n := 6 + rng.Intn(9)
		for k := 0; k < n; k++ {
			switch x := rng.Intn(20); {
			case x < 9:
				st = append(st, pubS(0))
			case x < 17:
				st = append(st, recvS(rng.Intn(ns)))
			case x < 18:
				st = append(st, advanceShortS)
			default:
				st = append(st, advanceS)
			}
		}
		add("random", st)
	}
	return out
}

// ---------- C10: Close injected at every position ----------

func insertAt(st []Stim, pos int, x ...Stim) []Stim {
	out := append([]Stim(nil), st[:pos]...)
	out = append(out, x...)
	return append(out, st[pos:]...)
}

func genC10(tier string, rng *rand.Rand) []Script {
	var out []Script
	R := 80
	if tier == "thorough" {
		R = 2500
	}
	add := func(tag string, st []Stim) {
		out = append(out, Script{Family: "C10", Tags: []string{tag}, Stims: renumber(st)})
	}
	long := func(c int, f filt) Stim { return sub(c, f.fk, f.mod, f.rem, 2, false, false) }
	// corpus: the refutation witness of Findings/Pub.v (F16) and its Subscriber.Close twin
	add("corpus-f16-close-pending", []Stim{long(0, filtNil), pubS(0), closePubS})
	add("corpus-f16-close-pending", []Stim{long(0, filtNil), pubS(0), closeS(0)})
	// buffered messages stay readable after the close, then "closed"
	add("buffer-kept", []Stim{long(2, filtNil), pubS(0), pubS(0), pubS(0), closeS(0), recvS(0), recvS(0), recvS(0), pubS(0), recvS(0)})
	// base scripts: Close (of each subscriber / of the publication, once and twice) at every position
	bases := [][]Stim{
		{long(0, filtNil), pubS(0), pubS(0), recvS(0), pubS(0)},
		{long(1, filtNil), pubS(0), pubS(0), pubS(0), recvS(0), pubS(0)},
		{long(2, filtEven), long(0, filtNil), pubS(0), pubS(0), recvS(1), pubS(0), recvS(0), pubS(0)},
		{long(1, filtNil), long(1, filtOdd), pubS(0), pubS(0), pubS(0), recvS(0), recvS(1), pubS(0)},
		{sub(1, 0, 0, 0, 0, true, true), long(0, filtNil), pubS(0), pubS(0), advanceS, pubS(0), recvS(1)},
	}
	if tier == "thorough" {
		bases = append(bases,
			[]Stim{long(0, filtNil), long(0, filtNil), long(3, filtNil), pubS(0), pubS(0), recvS(0), pubS(0), recvS(1), recvS(2), pubS(0), pubS(0)},
			[]Stim{sub(2, 0, 0, 0, 0, false, true), sub(0, 1, 2, 1, 1, true, true), pubS(0), pubS(0), pubS(0), advanceShortS, recvS(1), pubS(0), advanceS, pubS(0)})
	}
	for _, b := range bases {
		ns := 0
		for _, s := range b {
			if s.Op == opSub {
				ns++
			}
		}
		for pos := ns; pos <= len(b); pos++ {
			for s := 0; s < ns; s++ {
				add("close-sub", insertAt(b, pos, closeS(s)))
				add("close-sub-twice", insertAt(b, pos, closeS(s), closeS(s)))
			}
			add("close-pub", insertAt(b, pos, closePubS))
			add("close-pub-twice", insertAt(b, pos, closePubS, closePubS))
			add("close-both", insertAt(b, pos, closeS(0), closePubS, closeS(ns-1)))
		}
		// two closes at different positions
		for pos := ns; pos <= len(b); pos++ {
			for pos2 := pos; pos2 <= len(b); pos2 += 2 {
				add("close-sub-then-pub", insertAt(insertAt(b, pos2, closePubS), pos, closeS(rng.Intn(ns))))
			}
		}
	}
	for _, st := range secondLifeScripts(map[string]int{"quick": 4, "thorough": 5}[tier]) {
		add("second-life", st)
	}
	// Close from inside OnTimeout / OnFiltered (of the own subscriber, of the publication)
	for _, st := range callbackCloseScripts(rng, map[string]int{"quick": 3, "thorough": 4}[tier], map[string]int{"quick": 2, "thorough": 3}[tier]) {
		add("callback-close", st)
	}
	// structured random: subscribers with mixed timeouts, closes anywhere, subscribing after a close
	for i := 0; i < R; i++ {
		ns := 1 + rng.Intn(3)
		var st []Stim
		for k := 0; k < ns; k++ {
			f := randFilt(rng)
			tm := 2
			if rng.Intn(4) == 0 {
				tm = rng.Intn(2)
			}
			st = append(st, sub(rng.Intn(3), f.fk, f.mod, f.rem, tm, rng.Intn(2) == 0, rng.Intn(2) == 0))
		}
		n := 6 + rng.Intn(10)
		have := ns
		for k := 0; k < n; k++ {
			switch x := rng.Intn(20); {
			case x < 8:
				st = append(st, pubS(0))
			case x < 13:
				st = append(st, recvS(rng.Intn(have)))
			case x < 16:
				st = append(st, closeS(rng.Intn(have)))
			case x < 17:
				st = append(st, closePubS)
			case x < 18:
				st = append(st, advanceS)
			default:
				f := randFilt(rng)
				st = append(st, sub(rng.Intn(3), f.fk, f.mod, f.rem, 2, false, false))
				have++
			}
		}
		add("random", st)
	}
	return out
}

// reentrantCloseScripts: a subscriber unsubscribes itself from inside the library's Publish - from its filter
// predicate or from its OnFiltered callback - when it sees a message it rejects (the "one-shot subscriber").
// Publish must return, the others must get every message exactly once, the closing subscriber's channel is closed.
func reentrantCloseScripts(n int) [][]Stim {
	var out [][]Stim
	for variant := 0; variant < 2; variant++ {
		closing := sub(1, 1, 2, 0, 2, variant == 0, false) // even filter; 60s timeout
		if variant == 0 {
			closing.CbF = 1 // OnFiltered closes the subscriber
		} else {
			closing.FCl = true // the predicate itself does
		}
		other := sub(2, 1, 1, 0, 2, false, false) // accepts everything, observed visits
		for _, seq := range sequences([]Stim{pubS(0), recvS(0), recvS(1)}, n) {
			out = append(out, append([]Stim{closing, other}, seq...))
			out = append(out, append([]Stim{other, closing, other}, seq...))
		}
	}
	return out
}

// slowFilterScripts: s0's filter takes 100 ms (longer than s1's whole 60 ms timeout) and rejects or accepts;
// s1 has room in its buffer (or is drained between the publishes).  Whichever of the two the Range visits first,
// s1's own timeout starts when ITS delivery starts: its message must arrive, OnTimeout must not fire early.
func slowFilterScripts() [][]Stim {
	slow := func(fk, c int) Stim {
		s := sub(c, fk, 1, 0, 2, true, true)
		s.Slow = 100
		return s
	}
	var out [][]Stim
	for _, fk := range []int{1, 2} { // accept everything slowly / reject everything slowly
		for _, c1 := range []int{1, 3} {
			fast := sub(c1, 1, 1, 0, 0, true, true) // filter FMod 1 0 (accepts all), 60ms, both callbacks
			out = append(out,
				[]Stim{slow(fk, 2), fast, pubS(0), recvS(1), pubS(0), recvS(1), pubS(0), recvS(1), pubS(0)},
				[]Stim{fast, slow(fk, 2), fast, pubS(0), recvS(0), recvS(2), pubS(0), recvS(0), recvS(2), pubS(0)})
		}
	}
	return out
}

func generate(prop, tier string, rng *rand.Rand) []Script {
	var out []Script
	switch prop {
	case "C06":
		out = genC06(tier, rng)
	case "C15":
		out = genC15(tier, rng)
	case "C10":
		out = genC10(tier, rng)
	}
	// the order in which the options are passed to Subscribe is part of every script: a seeded permutation per
	// subscriber (scripts of the option-order family fix it themselves)
	for i := range out {
		if len(out[i].Tags) > 0 && out[i].Tags[0] == "option-order" {
			continue
		}
		for k := range out[i].Stims {
			if out[i].Stims[k].Op == opSub {
				out[i].Stims[k].Ord = 1 + rng.Intn(1000)
			}
		}
	}
	return out
}

func scopeText(prop, tier string, n int) string {
	switch prop {
	case "C06":
		if tier == "thorough" {
			return fmt.Sprintf("%d scripts: every Publish/TryReceive sequence of length 8 for one subscriber (buffer 0,1,2 x no filter/even filter), every sequence of length 6 over {Publish,TryReceive s0,TryReceive s1} for 4 two-subscriber configurations, 3000 random scripts (2-4 subscribers, buffers 0-3, six filter kinds, callbacks present or nil, late subscriber); each followed by a drain", n)
		}
		return fmt.Sprintf("%d scripts: every Publish/TryReceive sequence of length 5 for one subscriber (buffer 0,1,2 x no filter / even filter+OnFiltered+OnTimeout), a 12-subscriber matrix of filter x OnFiltered x OnTimeout, 8 slow-filter scripts (100ms filter next to a 60ms timeout), reentrant-close scripts (a filter predicate / OnFiltered callback closes its own subscriber inside Publish), second-life scripts (every sequence over {Subscribe, Publish, Publication.Close, close the oldest - possibly stale - handle} containing a Publication.Close), the option order of every Subscribe a seeded permutation, churn (every sequence of length %d over {Subscribe, close oldest, close newest, Publish} after two subscribers), every sequence of length 4 over {Publish,TryReceive s0,TryReceive s1} for 4 two-subscriber configurations, 120 random scripts (2-4 subscribers, buffers 0-3, six filter kinds, callbacks present or nil, late subscriber); each followed by a drain", n, 4)
	case "C15":
		return fmt.Sprintf("%d scripts: the two F11 witnesses, 60ms-vs-60s and 60ms-vs-160ms timeout pairs, zero and negative (-1s) timeouts (3 fixed scripts + every sequence of length %d over {Publish,TryReceive,Advance} each), Publish x12 into full buffers; 25 option orders of one subscriber; second-life scripts (publication reused after Close, stale handles closed late); another subscriber's 100ms filter next to a 60ms timeout; the option order of EVERY Subscribe is a seeded permutation; callbacks that call Subscriber.Close / Publication.Close from inside OnTimeout / OnFiltered; every sequence of length %d over {Publish,TryReceive,Advance} for one subscriber with a 60ms timeout and both callbacks (buffer 0,1); every sequence of length %d over {Publish,TryReceive s0,TryReceive s1,Advance} for 3 two-subscriber configurations (s0 60ms, s1 60s); seeded random scripts (2-4 subscribers, buffers 0-2, timeouts 60ms/160ms/60s/0/-1s, callbacks present or nil); each followed by Advance + drain + a settled marker", n, map[string]int{"quick": 3, "thorough": 4}[tier], map[string]int{"quick": 4, "thorough": 5}[tier], map[string]int{"quick": 3, "thorough": 4}[tier])
	case "C10":
		return fmt.Sprintf("%d scripts: the F16 witness (Subscribe(0); Publish(1); Close) for Publication.Close and Subscriber.Close, a buffer-kept script, and for each of %d base scripts (1-3 subscribers, buffers 0-3, deliveries pending / buffered / timed out) a Close of each subscriber, of the publication, twice, both, and at two different positions injected at EVERY position; Close called from inside OnTimeout / OnFiltered callbacks; second-life scripts; seeded random scripts with closes anywhere and subscribers joining after a close; each followed by a drain and a settled marker", n, map[string]int{"quick": 5, "thorough": 7}[tier])
	}
	return ""
}
