package main

import (
	"fmt"
	"math/rand"
)

func sub(cap, fk, fmod, frem, tmo int, onF, onT bool) Stim {
	return Stim{Op: opSub, Cap: cap, FK: fk, FMod: fmod, FRem: frem, Tmo: tmo, OnF: onF, OnT: onT}
}
func pubS(m int) Stim   { return Stim{Op: opPub, M: m} }
func recvS(s int) Stim  { return Stim{Op: opRecv, S: s} }
func closeS(s int) Stim { return Stim{Op: opCloseSub, S: s} }

var advanceS = Stim{Op: opAdvance}
var closePubS = Stim{Op: opClosePub}

// number messages 1,2,3,... in publish order (distinct, alternating parity)
func renumber(st []Stim) []Stim {
	out := append([]Stim(nil), st...)
	k := 0
	for i := range out {
		if out[i].Op == opPub {
			k++
			out[i].M = k
		}
	}
	return out
}

// all sequences of length n over the alphabet
func sequences(alpha []Stim, n int) [][]Stim {
	if n == 0 {
		return [][]Stim{{}}
	}
	var out [][]Stim
	for _, pre := range sequences(alpha, n-1) {
		for _, a := range alpha {
			s := append(append([]Stim(nil), pre...), a)
			out = append(out, s)
		}
	}
	return out
}

type filt struct{ fk, mod, rem int }

var filtNil = filt{0, 0, 0}
var filtEven = filt{1, 2, 0}
var filtOdd = filt{1, 2, 1}
var filtNever = filt{2, 0, 0}

func randFilt(rng *rand.Rand) filt {
	switch rng.Intn(6) {
	case 0, 1:
		return filtNil
	case 2:
		return filtEven
	case 3:
		return filtOdd
	case 4:
		return filt{1, 3, rng.Intn(3)}
	default:
		return filtNever
	}
}

// ---------- C06: no timeouts fire (60 s), no callbacks, no closes ----------

func genC06(tier string, rng *rand.Rand) []Script {
	var out []Script
	L1, L2, R := 5, 4, 120
	if tier == "thorough" {
		L1, L2, R = 8, 6, 3000
	}
	add := func(tag string, st []Stim) {
		out = append(out, Script{Family: "C06", Tags: []string{tag}, Stims: renumber(st)})
	}
	// exhaustive, one subscriber: every Publish/TryReceive sequence of length L1
	for _, c := range []int{0, 1, 2} {
		for _, f := range []filt{filtNil, filtEven} {
			for _, seq := range sequences([]Stim{pubS(0), recvS(0)}, L1) {
				add("one-sub", append([]Stim{sub(c, f.fk, f.mod, f.rem, 2, false, false)}, seq...))
			}
		}
	}
	// exhaustive, two subscribers with different buffers and filters
	type cfg struct {
		c0, c1 int
		f0, f1 filt
	}
	for _, g := range []cfg{{0, 1, filtNil, filtOdd}, {1, 0, filtEven, filtNil}, {2, 1, filtOdd, filtEven}, {0, 0, filtNil, filtNil}} {
		for _, seq := range sequences([]Stim{pubS(0), recvS(0), recvS(1)}, L2) {
			add("two-subs", append([]Stim{sub(g.c0, g.f0.fk, g.f0.mod, g.f0.rem, 2, false, false),
				sub(g.c1, g.f1.fk, g.f1.mod, g.f1.rem, 2, false, false)}, seq...))
		}
	}
	// structured random: 2-4 subscribers (one may join late), random buffers/filters, 10-24 stimuli
	for i := 0; i < R; i++ {
		ns := 2 + rng.Intn(3)
		var st []Stim
		have := 0
		n := 10 + rng.Intn(15)
		late := rng.Intn(2) == 0
		for have < ns-1 || (!late && have < ns) {
			f := randFilt(rng)
			st = append(st, sub(rng.Intn(4), f.fk, f.mod, f.rem, 2, false, false))
			have++
		}
		for k := 0; k < n; k++ {
			switch x := rng.Intn(10); {
			case x < 4:
				st = append(st, pubS(0))
			case x < 9:
				st = append(st, recvS(rng.Intn(have)))
			default:
				if have < ns {
					f := randFilt(rng)
					st = append(st, sub(rng.Intn(4), f.fk, f.mod, f.rem, 2, false, false))
					have++
				} else {
					st = append(st, pubS(0))
				}
			}
		}
		add("random", st)
	}
	return out
}

func generate(prop, tier string, rng *rand.Rand) []Script {
	switch prop {
	case "C06":
		return genC06(tier, rng)
	}
	return nil
}

func scopeText(prop, tier string, n int) string {
	switch prop {
	case "C06":
		if tier == "thorough" {
			return fmt.Sprintf("%d scripts: every Publish/TryReceive sequence of length 8 for one subscriber (buffer 0,1,2 x no filter/even filter), every sequence of length 6 over {Publish,TryReceive s0,TryReceive s1} for 4 two-subscriber configurations, 3000 random scripts (2-4 subscribers, buffers 0-3, six filter kinds, late subscriber); each followed by a drain", n)
		}
		return fmt.Sprintf("%d scripts: every Publish/TryReceive sequence of length 5 for one subscriber (buffer 0,1,2 x no filter/even filter), every sequence of length 4 over {Publish,TryReceive s0,TryReceive s1} for 4 two-subscriber configurations, 120 random scripts (2-4 subscribers, buffers 0-3, six filter kinds, late subscriber); each followed by a drain", n)
	}
	return ""
}
