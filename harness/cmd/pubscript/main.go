// Scripted-schedule harness for the publication properties C06, C15, C10.
//
// A script is a list of stimuli (the model's environment labels).  The harness applies one stimulus at a
// time to the REAL publisher package, waits for quiescence (every goroutine of the package parked, two
// agreeing snapshots of runtime.Stack), and records what it can see: the outcome of a non-blocking
// receive, channel lengths, the number of live delivery goroutines, filter / callback invocations with
// time stamps.  From that it writes a trace over the model's labels (trace.go) which Coq replays through
// Model/Pub.v (Run/CorrPub.v).  Scripts run in child processes (a panic of a delivery goroutine is an
// observation, not a crash of the harness).
package main

import (
	"bufio"
	"bytes"
	"crypto/sha1"
	"encoding/json"
	"flag"
	"fmt"
	"io"
	"math/rand"
	"os"
	"os/exec"
	"regexp"
	"strings"
	"sync"

	"verifharness/internal/cw"
)

type childResult struct {
	Idx       int      `json:"idx"`
	Coq       string   `json:"coq"`
	Desc      []string `json:"desc"`
	Blocked   bool     `json:"blocked"`
	Complete  bool     `json:"complete"`
	NotQuiet  bool     `json:"notquiet"`
	Ambiguous bool     `json:"ambiguous"`
	Feat      features `json:"feat"`
}

type features struct {
	NRecv, NDeliver, NTimeout, NDrop, NFilteredCb, MaxGor, NSubs, NPub, NClose, BufAtClose, PendAtClose int
}

func featuresOf(ex execResult, tr traceOut) features {
	var f features
	for _, d := range tr.desc {
		switch {
		case strings.HasPrefix(d, "recv") && strings.Contains(d, "-> m="):
			f.NRecv++
		case strings.HasPrefix(d, "deliver"):
			f.NDeliver++
		case strings.HasPrefix(d, "timeout"):
			f.NTimeout++
		case strings.HasPrefix(d, "drop"):
			f.NDrop++
		case strings.HasPrefix(d, "sub "):
			f.NSubs++
		case strings.HasPrefix(d, "pub "):
			f.NPub++
		case strings.HasPrefix(d, "close"):
			f.NClose++
		}
	}
	f.NFilteredCb = len(tr.cbF)
	f.PendAtClose = f.NDrop
	for i, r := range ex.res {
		if r.mk.gor > f.MaxGor {
			f.MaxGor = r.mk.gor
		}
		if len(r.closedSubs) > 0 && i > 0 {
			for _, s := range r.closedSubs {
				if s < len(ex.res[i-1].mk.lens) {
					f.BufAtClose += ex.res[i-1].mk.lens[s]
				}
			}
		}
	}
	return f
}

// ---------- child ----------

func childMain() {
	in := bufio.NewReaderSize(os.Stdin, 1<<20)
	outw := bufio.NewWriter(os.Stdout)
	for {
		line, err := in.ReadBytes('\n')
		if len(line) > 0 {
			var sc Script
			if json.Unmarshal(line, &sc) != nil {
				os.Exit(3)
			}
			fmt.Fprintf(outw, "S %d\n", sc.Idx)
			outw.Flush()
			var ex execResult
			var tr traceOut
			for attempt := 0; attempt < 3; attempt++ {
				ex = runScript(sc)
				tr = annotate(ex)
				if !ex.notQuiet && !(tr.ambiguous && !ex.blocked) {
					break
				}
			}
			res := childResult{Idx: sc.Idx, Coq: caseCoq(tr, ex.blocked, false, ex.complete && !ex.notQuiet), Desc: tr.desc,
				Blocked: ex.blocked, Complete: ex.complete, NotQuiet: ex.notQuiet, Ambiguous: tr.ambiguous && !ex.blocked, Feat: featuresOf(ex, tr)}
			js, _ := json.Marshal(res)
			outw.WriteString("R ")
			outw.Write(js)
			outw.WriteString("\n")
			outw.Flush()
			if ex.blocked {
				// a stimulus is still stuck inside the package: start from a clean process
				os.Exit(4)
			}
		}
		if err != nil {
			return
		}
	}
}

// ---------- parent ----------

var panicRe = regexp.MustCompile(`(?m)^(panic: .*|fatal error: .*)$`)
var frameRe = regexp.MustCompile(`(?m)^(github.com/rbell/toolchest/\S+)\(`)

type outcome struct {
	res      *childResult
	panicked bool
	panicMsg string
	frame    string
}

// runBatch runs the scripts (in order) in child processes, restarting after a crash.
func runBatch(self string, scripts []Script, results map[int]*outcome, mu *sync.Mutex) {
	todo := scripts
	for len(todo) > 0 {
		cmd := exec.Command(self, "-child")
		var stderr bytes.Buffer
		cmd.Stderr = &stderr
		stdin, _ := cmd.StdinPipe()
		stdout, _ := cmd.StdoutPipe()
		if err := cmd.Start(); err != nil {
			fmt.Fprintln(os.Stderr, "cannot start child:", err)
			os.Exit(2)
		}
		go func(batch []Script) {
			w := bufio.NewWriter(stdin)
			for _, sc := range batch {
				js, _ := json.Marshal(sc)
				w.Write(js)
				w.WriteString("\n")
			}
			w.Flush()
			stdin.Close()
		}(todo)
		rd := bufio.NewReaderSize(stdout, 1<<20)
		started := -1
		finished := map[int]bool{}
		for {
			line, err := rd.ReadString('\n')
			if strings.HasPrefix(line, "S ") {
				fmt.Sscanf(line, "S %d", &started)
			} else if strings.HasPrefix(line, "R ") {
				var cr childResult
				if json.Unmarshal([]byte(line[2:]), &cr) == nil {
					mu.Lock()
					results[cr.Idx] = &outcome{res: &cr}
					mu.Unlock()
					finished[cr.Idx] = true
				}
			}
			if err != nil {
				break
			}
		}
		io.Copy(io.Discard, stdout)
		cmd.Wait()
		// anything started but not finished died with the process
		var rest []Script
		crashed := false
		for _, sc := range todo {
			if finished[sc.Idx] {
				continue
			}
			if sc.Idx == started && !crashed {
				crashed = true
				o := &outcome{panicked: true}
				if m := panicRe.FindString(stderr.String()); m != "" {
					o.panicMsg = m
				} else {
					o.panicMsg = "child process died: " + lastLines(stderr.String(), 3)
				}
				if m := frameRe.FindStringSubmatch(stderr.String()); m != nil {
					o.frame = m[1]
				}
				mu.Lock()
				results[sc.Idx] = o
				mu.Unlock()
				continue
			}
			rest = append(rest, sc)
		}
		if !crashed && len(rest) == len(todo) {
			// died before starting anything: attribute it to the first script so that we always progress
			o := &outcome{panicked: true, panicMsg: "child process died: " + lastLines(stderr.String(), 3)}
			if m := panicRe.FindString(stderr.String()); m != "" {
				o.panicMsg = m
			}
			mu.Lock()
			results[rest[0].Idx] = o
			mu.Unlock()
			rest = rest[1:]
		}
		todo = rest
	}
}

func scriptKey(sc Script) string {
	js, _ := json.Marshal(sc.Stims)
	return fmt.Sprintf("%x", sha1.Sum(append([]byte(sc.Family), js...)))[:16]
}

func lastLines(s string, k int) string {
	l := strings.Split(strings.TrimSpace(s), "\n")
	if len(l) > k {
		l = l[len(l)-k:]
	}
	return strings.Join(l, " | ")
}

func stimString(st Stim) string {
	switch st.Op {
	case opSub:
		cb := func(set bool, act int) string {
			if !set {
				return "false"
			}
			return []string{"true", "closes-own-subscriber", "closes-publication"}[act]
		}
		slow := ""
		if st.FCl {
			slow = ",filterClosesOwnSubscriberOnReject"
		}
		if st.Slow > 0 {
			slow += fmt.Sprintf(",filterTakes=%dms", st.Slow)
		}
		return fmt.Sprintf("Subscribe(cap=%d,filter=%s%s,timeout=%dms,onFiltered=%s,onTimeout=%s,optionOrder=%v)", st.Cap, fcodeCoq(st), slow,
			tmoTicks[st.Tmo]*int(tickDur.Milliseconds()), cb(st.OnF, st.CbF), cb(st.OnT, st.CbT), optOrder(st))
	case opPub:
		return fmt.Sprintf("Publish(%d)", st.M)
	case opRecv:
		return fmt.Sprintf("TryReceive(s%d)", st.S)
	case opAdvance:
		if st.S == 1 {
			return "Advance(past the 60ms timeouts only)"
		}
		return "Advance(past every short timeout)"
	case opCloseSub:
		return fmt.Sprintf("s%d.Close()", st.S)
	case opClosePub:
		return "pub.Close()"
	}
	return st.Op
}

// stimCoq renders the stimuli alone (used when the process died before a trace could be built).
func stimOnlyCoq(sc Script) string {
	var items []string
	for _, st := range sc.Stims {
		switch st.Op {
		case opSub:
			items = append(items, fmt.Sprintf("XSub %d %s", st.Cap, optsCoq(st)))
		case opPub:
			items = append(items, fmt.Sprintf("XPub %d []", st.M))
		case opCloseSub:
			items = append(items, fmt.Sprintf("XCloseSub %d", st.S))
		}
	}
	return fmt.Sprintf("CScript [%s] (mkObs [] false true false)", strings.Join(items, "; "))
}

func nontrivial(family string, f features) bool {
	switch family {
	case "C06":
		return f.NRecv >= 1 && (f.MaxGor > 0 || f.NSubs >= 2 || f.NFilteredCb > 0)
	case "C15":
		return f.NTimeout+f.NFilteredCb >= 1 || f.MaxGor > 0
	case "C10":
		return f.NClose >= 1 && (f.PendAtClose > 0 || f.BufAtClose > 0)
	}
	return true
}

func main() {
	child := flag.Bool("child", false, "")
	seed := flag.Int64("seed", 1, "")
	tier := flag.String("tier", "quick", "")
	out := flag.String("out", "", "")
	prop := flag.String("prop", "C06", "")
	scriptsFile := flag.String("scripts", "", "re-run exactly these scripts (JSON list) instead of generating")
	workers := flag.Int("workers", 4, "")
	only := flag.String("only", "", "run only the script with this key")
	flag.Parse()
	if *child {
		childMain()
		return
	}
	rng := rand.New(rand.NewSource(*seed))
	var scripts []Script
	if *scriptsFile != "" {
		b, err := os.ReadFile(*scriptsFile)
		if err != nil || json.Unmarshal(b, &scripts) != nil {
			fmt.Fprintln(os.Stderr, "cannot read scripts")
			os.Exit(2)
		}
	} else {
		scripts = generate(*prop, *tier, rng)
	}
	if *only != "" {
		var keep []Script
		for _, sc := range scripts {
			if scriptKey(sc) == *only {
				keep = append(keep, sc)
			}
		}
		scripts = keep
	}
	for i := range scripts {
		scripts[i].Idx = i
	}
	self, _ := os.Executable()
	results := map[int]*outcome{}
	var mu sync.Mutex
	var wg sync.WaitGroup
	for w := 0; w < *workers; w++ {
		var mine []Script
		for i := w; i < len(scripts); i += *workers {
			mine = append(mine, scripts[i])
		}
		wg.Add(1)
		go func() { defer wg.Done(); runBatch(self, mine, results, &mu) }()
	}
	wg.Wait()

	w := cw.New(*out, "Corr"+*prop)
	w.Chunk = 100
	nPanic, nBlocked, nNotQuiet, nAmbiguous := 0, 0, 0, 0
	for _, sc := range scripts {
		o := results[sc.Idx]
		stims := make([]string, len(sc.Stims))
		for i, st := range sc.Stims {
			stims[i] = stimString(st)
		}
		js, _ := json.Marshal(sc.Stims)
		key := scriptKey(sc)
		desc := map[string]any{"family": sc.Family, "script": stims, "script_json": json.RawMessage(js), "script_tags": sc.Tags}
		tags := append([]string{}, sc.Tags...)
		if o == nil {
			continue
		}
		if o.panicked {
			nPanic++
			desc["observed"] = "the child process running this script died: " + o.panicMsg
			desc["panic"] = o.panicMsg
			desc["frame"] = o.frame
			tags = append(tags, "panic")
			w.Add(cw.Case{Coq: stimOnlyCoq(sc), Desc: desc, Tags: tags, Key: key, Trivial: false})
			continue
		}
		r := o.res
		if r.Ambiguous {
			// three attempts, each time a callback's Close overlapped another Publish call: nothing can be said
			nAmbiguous++
			continue
		}
		desc["trace"] = r.Desc
		if r.Blocked {
			nBlocked++
			desc["observed"] = "a call into the package did not return within the watchdog (3s)"
			tags = append(tags, "blocked")
		}
		if r.NotQuiet {
			nNotQuiet++
			desc["observed"] = "the package's goroutines did not come to rest within 5s (three attempts)"
			tags = append(tags, "notquiet")
		}
		w.Add(cw.Case{Coq: r.Coq, Desc: desc, Tags: tags, Key: key, Trivial: !nontrivial(sc.Family, r.Feat)})
	}
	w.Extra["scope"] = scopeText(*prop, *tier, len(scripts))
	w.Extra["scripts_panicked"] = nPanic
	w.Extra["scripts_blocked"] = nBlocked
	w.Extra["scripts_not_quiescent"] = nNotQuiet
	w.Extra["scripts_timing_discarded"] = nAmbiguous
	if err := w.Flush(); err != nil {
		fmt.Fprintln(os.Stderr, err)
		os.Exit(2)
	}
}
