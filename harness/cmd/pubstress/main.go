// Free-running stress for the publication properties (built with -race).  There is no model prediction
// here: real goroutines, uncontrolled schedules; what is checked are Go-side monitors of the properties
// (exact multisets, exactly-once counters, own-timeout lower bounds, latency of Publish under a watchdog,
// leaked goroutines) plus absence of panics, hangs and race reports.
//
//   pubstress -mode c06|c15|c10 -seed N -tier quick|thorough -out DIR      writes DIR/stress.json
//   pubstress -mode c10child -seed N                                       one C10 round (child process)
package main

import (
	"bytes"
	"encoding/json"
	"flag"
	"fmt"
	"math/rand"
	"os"
	"os/exec"
	"path/filepath"
	"regexp"
	"runtime"
	"sort"
	"strings"
	"sync"
	"sync/atomic"
	"time"

	"github.com/rbell/toolchest/publisher"
)

type failure struct {
	What      string `json:"what"`
	Detail    string `json:"detail"`
	Signature string `json:"signature"`
	Round     int    `json:"round"`
	Seed      int64  `json:"seed"`
}

type report struct {
	Mode        string         `json:"mode"`
	Rounds      int            `json:"rounds"`
	Evaluations int            `json:"evaluations"`
	Nontrivial  int            `json:"distinct_nontrivial"`
	Histogram   map[string]int `json:"histogram"`
	Failures    []failure      `json:"failures"`
	Samples     []string       `json:"samples"`
}

// burstSizes: numbers of messages outstanding on one subscriber, swept over powers of two +-1 (any internal cap
// on pending deliveries / queue length is most likely a power of two), quick up to ~10000, thorough 131073.
// firstLife: in half of the rounds the publication has been used and closed before: a few subscribers, a few
// messages, Publication.Close().  Nothing of that may leak into the second life (ids, counters, contexts,
// caches).  Returns the old handles.
func firstLife(rng *rand.Rand, pub *publisher.Publication[int]) []*publisher.Subscriber[int] {
	if rng.Intn(2) == 0 {
		return nil
	}
	var hs []*publisher.Subscriber[int]
	n := 1 + rng.Intn(4)
	for i := 0; i < n; i++ {
		hs = append(hs, pub.Subscribe(rng.Intn(3), publisher.WithTimeout[int](60*time.Second)))
	}
	for m := -5; m < 0; m++ {
		pub.Publish(m)
	}
	if rng.Intn(3) == 0 {
		hs[0].Close()
	}
	pub.Close()
	for _, h := range hs { // read what was buffered, see "closed"
		for range h.Receive() {
		}
	}
	waitNoGoroutines(10 * time.Second)
	return hs
}

func burstSizes(tier string, seed int64) []int {
	sizes := []int{1023, 1025, 2049, 4097, 8193, 9000 + int(seed%7)*150}
	if tier == "thorough" {
		sizes = nil
		for k := 8; k <= 17; k++ {
			sizes = append(sizes, 1<<k-1, 1<<k+1)
		}
		sizes = append(sizes, 100000)
	}
	return sizes
}

func shuffleOpts(rng *rand.Rand, opts []publisher.SubscriberOption[int]) {
	rng.Shuffle(len(opts), func(i, j int) { opts[i], opts[j] = opts[j], opts[i] })
}

// subRace: Subscribe while other goroutines publish.  `idle` subscribers that reject everything make every Publish
// long (a cached / snapshotted subscriber list has a wide window), 4 background publishers publish all the time.
// Each trial subscribes two subscribers back to back, waits 200us AFTER both Subscribe calls have returned and
// then publishes one message only those two accept: it must reach both (generous bound: 10s), exactly once.
func subRace(rep *report, trials, idle int, seed int64, prop string) {
	pub := publisher.NewPublication[int]()
	for i := 0; i < idle; i++ {
		pub.Subscribe(0, publisher.WithFilter(func(int) bool { return false }))
	}
	var stop atomic.Bool
	var bg sync.WaitGroup
	for p := 0; p < 4; p++ {
		bg.Add(1)
		go func() {
			defer bg.Done()
			for k := 1; !stop.Load(); k++ {
				pub.Publish(k)
			}
		}()
	}
	defer func() { stop.Store(true); bg.Wait(); pub.Close() }()
	hi := func(m int) bool { return m >= 500000000 }
	for trial := 0; trial < trials; trial++ {
		var early atomic.Int64
		mk := func() *publisher.Subscriber[int] {
			return pub.Subscribe(2, publisher.OnTimeout(func(int) { early.Add(1) }), publisher.WithFilter(hi), publisher.WithTimeout[int](60*time.Second))
		}
		a := mk()
		b := mk()
		time.Sleep(200 * time.Microsecond)
		m := 500000000 + trial
		pub.Publish(m)
		for i, s := range []*publisher.Subscriber[int]{a, b} {
			select {
			case v := <-s.Receive():
				if v != m {
					rep.Failures = append(rep.Failures, failure{"a subscriber received a value its filter rejects",
						fmt.Sprintf("subscribe-while-publishing trial %d: subscriber %d received %d", trial, i, v), prop + "-stress:rejected", trial, seed})
					return
				}
			case <-time.After(10 * time.Second):
				rep.Failures = append(rep.Failures, failure{"a message published after Subscribe had returned never reached the subscriber",
					fmt.Sprintf("subscribe-while-publishing trial %d (%d idle subscribers, 4 background publishers): subscriber %d of 2, subscribed 200us before Publish(%d) was called, had not received it after 10s (no OnFiltered/OnTimeout either: %d OnTimeout calls)",
						trial, idle, i, m, early.Load()), prop + "-stress:lost-after-subscribe", trial, seed})
				return
			}
		}
		a.Close()
		b.Close()
		rep.Evaluations += 2
	}
	rep.Histogram[fmt.Sprintf("subscribe-while-publishing trials (%d idle subscribers)", idle)] += trials
}

// slowFilterRound: subscriber A's filter takes 60 ms; subscriber B (buffer 2, drained all the time) has a 40 ms
// timeout.  B's own timeout starts when B's delivery starts, so every message must reach B and OnTimeout must
// never fire - however long A's filter took, whichever of the two is visited first.
func slowFilterRound(rng *rand.Rand, rep *report, seed int64, prop string) {
	pub := publisher.NewPublication[int]()
	var aRej, bTimeouts atomic.Int64
	acceptA := rng.Intn(2) == 0
	optsA := []publisher.SubscriberOption[int]{publisher.WithFilter(func(int) bool { time.Sleep(60 * time.Millisecond); return acceptA }),
		publisher.OnFiltered(func(int) { aRej.Add(1) }), publisher.WithTimeout[int](60 * time.Second)}
	optsB := []publisher.SubscriberOption[int]{publisher.WithTimeout[int](40 * time.Millisecond), publisher.OnTimeout(func(int) { bTimeouts.Add(1) })}
	shuffleOpts(rng, optsA)
	shuffleOpts(rng, optsB)
	var a, b *publisher.Subscriber[int]
	if rng.Intn(2) == 0 {
		a, b = pub.Subscribe(64, optsA...), pub.Subscribe(2, optsB...)
	} else {
		b, a = pub.Subscribe(2, optsB...), pub.Subscribe(64, optsA...)
	}
	_ = a
	const N = 16
	got := map[int]int{}
	done := make(chan struct{})
	go func() {
		defer close(done)
		for v := range b.Receive() {
			got[v]++
		}
	}()
	for m := 1; m <= N; m++ {
		pub.Publish(m)
	}
	time.Sleep(150 * time.Millisecond)
	waitNoGoroutines(5 * time.Second)
	pub.Close()
	<-done
	if bTimeouts.Load() != 0 || len(got) != N {
		rep.Failures = append(rep.Failures, failure{"a delivery timed out before the subscriber's own timeout had run from the start of ITS delivery",
			fmt.Sprintf("subscriber A's filter takes 60ms; subscriber B (buffer 2, drained continuously, timeout 40ms) received %d of %d messages, OnTimeout fired %d times: time spent on A was charged to B",
				len(got), N, bTimeouts.Load()), prop + "-stress:early-timeout", 0, seed})
		return
	}
	rep.Evaluations += N
	rep.Histogram["slow-filter messages"] += N
}

func pkgGoroutines() int {
	buf := make([]byte, 1<<20)
	for {
		n := runtime.Stack(buf, true)
		if n < len(buf) {
			buf = buf[:n]
			break
		}
		buf = make([]byte, 2*len(buf))
	}
	c := 0
	for i, blk := range bytes.Split(buf, []byte("\n\n")) {
		if i == 0 {
			continue
		}
		if bytes.Contains(blk, []byte("toolchest/publisher.")) {
			c++
		}
	}
	return c
}

func waitNoGoroutines(d time.Duration) int {
	deadline := time.Now().Add(d)
	for {
		g := pkgGoroutines()
		if g == 0 || time.Now().After(deadline) {
			return g
		}
		time.Sleep(5 * time.Millisecond)
	}
}

type subCfg struct {
	cap  int
	mod  int // 0 = no filter; otherwise accept m%mod == rem
	rem  int
	late bool
	onF  bool // OnFiltered set
	onT  bool // OnTimeout set
	quit bool // closed while publishing is under way (before the late subscribers join)
}

// sizes overrides the random dimensions of a C06 round (size sweep: thresholds the random rounds never cross)
type sizes struct{ S, P, N, cap int }

func (c subCfg) accepts(m int) bool { return c.mod == 0 || m%c.mod == c.rem }

// ---------- C06: exact multiset per subscriber ----------

func roundC06(rng *rand.Rand, rep *report, round int, seed int64, sz *sizes) {
	S := 1 + rng.Intn(8)
	P := 1 + rng.Intn(8)
	N := 10 + rng.Intn(150)
	if sz != nil {
		S, P, N = sz.S, sz.P, sz.N
	}
	pub := publisher.NewPublication[int]()
	oldHandles := firstLife(rng, pub)
	cfgs := make([]subCfg, S)
	subs := make([]*publisher.Subscriber[int], S)
	got := make([][]int, S)
	nFiltered := make([]atomic.Int64, S)
	nTimedOut := make([]atomic.Int64, S)
	orng := rand.New(rand.NewSource(seed ^ 0x5eed)) // order of the Subscribe options
	var extra []int                                  // messages published by this goroutine, after some Subscribe calls had returned
	joinedAt := make([]int, S)                       // len(extra) when subscriber i's Subscribe returned
	var rwg sync.WaitGroup
	stop := make(chan struct{})
	startSub := func(i int) {
		c := cfgs[i]
		var opts []publisher.SubscriberOption[int]
		if c.mod != 0 {
			opts = append(opts, publisher.WithFilter(func(m int) bool { return m%c.mod == c.rem }))
		}
		opts = append(opts, publisher.WithTimeout[int](60*time.Second))
		if c.onF {
			opts = append(opts, publisher.OnFiltered(func(m int) { nFiltered[i].Add(1) }))
		}
		if c.onT {
			opts = append(opts, publisher.OnTimeout(func(m int) { nTimedOut[i].Add(1) }))
		}
		shuffleOpts(orng, opts)
		subs[i] = pub.Subscribe(c.cap, opts...)
		joinedAt[i] = len(extra)
		rwg.Add(1)
		ch := subs[i].Receive()
		go func() {
			defer rwg.Done()
			for {
				select {
				case v, ok := <-ch:
					if !ok {
						return // closed (a subscriber that quits)
					}
					got[i] = append(got[i], v)
				case <-stop:
					// final sweep: whatever is still buffered
					for {
						select {
						case v, ok := <-ch:
							if !ok {
								return
							}
							got[i] = append(got[i], v)
						default:
							return
						}
					}
				}
			}
		}()
	}
	nLate := 0
	for i := range cfgs {
		cfgs[i] = subCfg{cap: rng.Intn(5)}
		if sz != nil {
			cfgs[i].cap = sz.cap
			if i%3 == 1 {
				cfgs[i].cap = sz.cap / 2
			}
		}
		if rng.Intn(3) > 0 {
			cfgs[i].mod = 2 + rng.Intn(3)
			cfgs[i].rem = rng.Intn(cfgs[i].mod)
		}
		if i > 0 && rng.Intn(4) == 0 {
			cfgs[i].late = true
			nLate++
		}
		cfgs[i].onF = rng.Intn(2) == 0
		cfgs[i].onT = rng.Intn(2) == 0
		// churn: some of the initial subscribers (never the last one) quit while publishing is under way and
		// before the late ones join; everybody else must be unaffected by that
		if !cfgs[i].late && i < S-1 && rng.Intn(5) == 0 {
			cfgs[i].quit = true
		}
	}
	nQuit := 0
	for i := range cfgs {
		if !cfgs[i].late {
			startSub(i)
		}
	}
	// handles from the publication's first life are closed now (typical `defer sub.Close()` after pub.Close()):
	// must be a no-op for the subscribers of the second life
	for _, h := range oldHandles {
		h.Close()
	}
	var pwg sync.WaitGroup
	var published sync.Map
	for p := 0; p < P; p++ {
		pwg.Add(1)
		go func(p int) {
			defer pwg.Done()
			for k := 0; k < N; k++ {
				m := p*1000000 + k + 1
				published.Store(m, true)
				pub.Publish(m)
				if k%16 == 0 {
					runtime.Gosched()
				}
			}
		}(p)
	}
	for i := range cfgs {
		if cfgs[i].quit {
			time.Sleep(time.Duration(rng.Intn(200)) * time.Microsecond)
			subs[i].Close()
			nQuit++
		}
	}
	// late subscribers join while publishing is going on
	for i := range cfgs {
		if cfgs[i].late {
			time.Sleep(time.Duration(rng.Intn(300)) * time.Microsecond)
			startSub(i)
			// Subscribe has returned: whatever is published from now on must reach subscriber i
			m := 800000000 + i
			published.Store(m, true)
			extra = append(extra, m)
			pub.Publish(m)
		}
	}
	pwg.Wait()
	// epilogue: every Subscribe / Close has returned long ago
	for k := 1; k <= 3; k++ {
		m := 900000000 + k
		published.Store(m, true)
		extra = append(extra, m)
		pub.Publish(m)
	}
	left := waitNoGoroutines(20 * time.Second)
	close(stop)
	rwg.Wait()
	if left != 0 {
		rep.Failures = append(rep.Failures, failure{"delivery goroutines still pending although every subscriber keeps receiving",
			fmt.Sprintf("S=%d P=%d N=%d: %d goroutines of the package left after 20s", S, P, N, left), "c06-stress:hang", round, seed})
		return
	}
	for i, c := range cfgs {
		seen := map[int]int{}
		for _, v := range got[i] {
			seen[v]++
		}
		rep.Evaluations += len(got[i])
		for v, k := range seen {
			if _, ok := published.Load(v); !ok {
				rep.Failures = append(rep.Failures, failure{"a subscriber received a value that was never published",
					fmt.Sprintf("subscriber %d (cap %d) received %d", i, c.cap, v), "c06-stress:foreign", round, seed})
				return
			}
			if !c.accepts(v) {
				rep.Failures = append(rep.Failures, failure{"a subscriber received a value its filter rejects",
					fmt.Sprintf("subscriber %d (filter m%%%d==%d) received %d", i, c.mod, c.rem, v), "c06-stress:rejected", round, seed})
				return
			}
			if k > 1 {
				rep.Failures = append(rep.Failures, failure{"a message reached a subscriber more than once",
					fmt.Sprintf("subscriber %d received %d %d times", i, v, k), "c06-stress:duplicate", round, seed})
				return
			}
		}
		if nTimedOut[i].Load() != 0 {
			rep.Failures = append(rep.Failures, failure{"OnTimeout fired for a subscriber that keeps receiving (timeout 60s)",
				fmt.Sprintf("subscriber %d: %d OnTimeout calls", i, nTimedOut[i].Load()), "c06-stress:timeout", round, seed})
			return
		}
		if !c.quit {
			// published after this subscriber's Subscribe call had returned: must arrive
			for _, m := range extra[joinedAt[i]:] {
				if c.accepts(m) && seen[m] != 1 {
					rep.Failures = append(rep.Failures, failure{"a message published after Subscribe had returned never reached the subscriber",
						fmt.Sprintf("subscriber %d (cap %d, filter m%%%d==%d, joined while %d publishers were publishing: %v) never received %d (S=%d)", i, c.cap, c.mod, c.rem, P, c.late, m, S),
						"c06-stress:lost-after-subscribe", round, seed})
					return
				}
			}
		}
		if !c.late && !c.quit {
			// subscribed during every Publish: exactly the accepted messages
			want := 0
			for _, m := range extra {
				if c.accepts(m) {
					want++
				}
			}
			for p := 0; p < P; p++ {
				for k := 0; k < N; k++ {
					m := p*1000000 + k + 1
					if c.accepts(m) {
						want++
						if seen[m] != 1 {
							rep.Failures = append(rep.Failures, failure{"an accepted message never reached a subscriber that kept receiving",
								fmt.Sprintf("subscriber %d (cap %d, filter m%%%d==%d) never received %d (S=%d P=%d N=%d)", i, c.cap, c.mod, c.rem, m, S, P, N),
								"c06-stress:lost", round, seed})
							return
						}
					}
				}
			}
			rep.Histogram["pairs-exact"] += want
			if c.onF {
				if rej := int64(P*N + len(extra) - want); nFiltered[i].Load() != rej {
					rep.Failures = append(rep.Failures, failure{"OnFiltered not invoked exactly once per rejected message",
						fmt.Sprintf("subscriber %d: %d rejected messages, %d OnFiltered calls", i, rej, nFiltered[i].Load()), "c06-stress:onfiltered", round, seed})
					return
				}
				rep.Histogram["subscribers-filter+callbacks"]++
			}
		} else {
			rep.Histogram["pairs-late-or-quitting-subscriber"] += len(got[i])
		}
	}
	rep.Nontrivial++
	rep.Histogram["rounds"]++
	if nQuit > 0 && nLate > 0 {
		rep.Histogram["rounds-with-quit-then-subscribe"]++
	}
	if sz != nil {
		rep.Histogram[fmt.Sprintf("sweep S=%d cap=%d msgs=%d", S, sz.cap, P*N)]++
	}
	if len(rep.Samples) < 4 {
		rep.Samples = append(rep.Samples, fmt.Sprintf("S=%d subscribers (%d late, %d quitting), P=%d publishers x N=%d messages", S, nLate, nQuit, P, N))
	}
}

// ---------- C15: non-blocking Publish, buffers, callbacks exactly once, own timeout, no leak ----------

func roundC15(rng *rand.Rand, rep *report, round int, seed int64) {
	S := 1 + rng.Intn(6)
	P := 1 + rng.Intn(4)
	N := 5 + rng.Intn(40)
	pub := publisher.NewPublication[int]()
	oldHandles := firstLife(rng, pub)
	type sst struct {
		cfg      subCfg
		tmo      time.Duration
		sub      *publisher.Subscriber[int]
		onT, onF sync.Map // message -> *int32 count
		early    atomic.Int64
		mode     int // 0 never receives, 1 slow receiver, 2 prompt receiver
		pause    time.Duration
		got      []int
	}
	var pubStart sync.Map // message -> time.Time (taken before Publish)
	subs := make([]*sst, S)
	stop := make(chan struct{})
	var rwg sync.WaitGroup
	for i := range subs {
		s := &sst{cfg: subCfg{cap: rng.Intn(4)}}
		if rng.Intn(2) == 0 {
			s.cfg.mod = 2 + rng.Intn(2)
			s.cfg.rem = rng.Intn(s.cfg.mod)
		}
		switch rng.Intn(5) {
		case 0:
			s.tmo = time.Duration(30+rng.Intn(50)) * time.Millisecond
		case 1:
			s.tmo = time.Duration(100+rng.Intn(100)) * time.Millisecond
		case 2:
			s.tmo = 0 // time.After(0) fires at once: a message that cannot be sent immediately is dropped
		case 3:
			s.tmo = -time.Second
		default:
			s.tmo = 60 * time.Second
		}
		s.mode = rng.Intn(3)
		s.pause = time.Duration(rng.Intn(3000)) * time.Microsecond
		var opts []publisher.SubscriberOption[int]
		if s.cfg.mod != 0 {
			c := s.cfg
			opts = append(opts, publisher.WithFilter(func(m int) bool { return c.accepts(m) }))
		}
		bump := func(mp *sync.Map, m int) {
			v, _ := mp.LoadOrStore(m, new(int32))
			atomic.AddInt32(v.(*int32), 1)
		}
		opts = append(opts, publisher.WithTimeout[int](s.tmo),
			publisher.OnTimeout(func(m int) {
				if t0, ok := pubStart.Load(m); ok && time.Since(t0.(time.Time)) < s.tmo {
					s.early.Add(1)
				}
				bump(&s.onT, m)
			}),
			publisher.OnFiltered(func(m int) { bump(&s.onF, m) }))
		shuffleOpts(rng, opts)
		s.sub = pub.Subscribe(s.cfg.cap, opts...)
		subs[i] = s
		if s.mode != 0 {
			rwg.Add(1)
			go func() {
				defer rwg.Done()
				for {
					select {
					case v, ok := <-s.sub.Receive():
						if !ok {
							return // closed although nobody closed it: the accounting below reports what is missing
						}
						s.got = append(s.got, v)
						if s.mode == 1 {
							time.Sleep(s.pause)
						}
					case <-stop:
						return
					}
				}
			}()
		}
	}
	for _, h := range oldHandles { // stale handles of the first life: closing them must not touch the new subscribers
		h.Close()
	}
	var pwg sync.WaitGroup
	var maxLat atomic.Int64
	var all []int
	for p := 0; p < P; p++ {
		for k := 0; k < N; k++ {
			all = append(all, p*1000000+k+1)
		}
		pwg.Add(1)
		go func(p int) {
			defer pwg.Done()
			for k := 0; k < N; k++ {
				m := p*1000000 + k + 1
				t0 := time.Now()
				pubStart.Store(m, t0)
				pub.Publish(m)
				if d := int64(time.Since(t0)); d > maxLat.Load() {
					maxLat.Store(d)
				}
			}
		}(p)
	}
	done := make(chan struct{})
	go func() { pwg.Wait(); close(done) }()
	select {
	case <-done:
	case <-time.After(10 * time.Second):
		rep.Failures = append(rep.Failures, failure{"Publish blocks when subscribers do not receive",
			fmt.Sprintf("S=%d P=%d N=%d: publishers not finished after 10s", S, P, N), "c15-stress:publish-blocks", round, seed})
		return
	}
	if time.Duration(maxLat.Load()) > 2*time.Second {
		rep.Failures = append(rep.Failures, failure{"Publish blocks when subscribers do not receive",
			fmt.Sprintf("slowest Publish call took %v", time.Duration(maxLat.Load())), "c15-stress:publish-blocks", round, seed})
		return
	}
	// let every short timer expire (generously), stop the receivers, then read what the buffers absorbed
	time.Sleep(300 * time.Millisecond)
	// never-receivers with the 60s timeout still hold pending deliveries: drain those at the end
	deadline := time.Now().Add(5 * time.Second)
	for {
		short := 0
		for _, s := range subs {
			if s.tmo < time.Second || s.mode != 0 {
				continue
			}
			for {
				select {
				case v, ok := <-s.sub.Receive():
					if ok {
						s.got = append(s.got, v)
						continue
					}
				default:
				}
				break
			}
		}
		short = pkgGoroutines()
		if short == 0 || time.Now().After(deadline) {
			break
		}
		time.Sleep(2 * time.Millisecond)
	}
	left := waitNoGoroutines(5 * time.Second)
	close(stop)
	rwg.Wait()
	if left != 0 {
		rep.Failures = append(rep.Failures, failure{"delivery goroutines remain after every timeout has expired",
			fmt.Sprintf("%d goroutines of the package left", left), "c15-stress:leak", round, seed})
		return
	}
	for i, s := range subs {
		for {
			select {
			case v, ok := <-s.sub.Receive():
				if ok {
					s.got = append(s.got, v)
					continue
				}
			default:
			}
			break
		}
		if s.early.Load() > 0 {
			rep.Failures = append(rep.Failures, failure{"OnTimeout fired before the subscriber's own timeout",
				fmt.Sprintf("subscriber %d (timeout %v): %d early callbacks", i, s.tmo, s.early.Load()), "c15-stress:early-timeout", round, seed})
			return
		}
		recv := map[int]int{}
		for _, v := range s.got {
			recv[v]++
		}
		if s.mode == 0 && s.tmo > 0 && len(s.got) < s.cfg.cap {
			acc := 0
			for _, m := range all {
				if s.cfg.accepts(m) {
					acc++
				}
			}
			if len(s.got) < acc {
				rep.Failures = append(rep.Failures, failure{"a never-receiving subscriber's buffer did not absorb its capacity",
					fmt.Sprintf("subscriber %d cap %d: %d accepted, only %d readable later", i, s.cfg.cap, acc, len(s.got)), "c15-stress:buffer", round, seed})
				return
			}
		}
		for _, m := range all {
			cnt := func(mp *sync.Map) int {
				if v, ok := mp.Load(m); ok {
					return int(atomic.LoadInt32(v.(*int32)))
				}
				return 0
			}
			nT, nF, nR := cnt(&s.onT), cnt(&s.onF), recv[m]
			rep.Evaluations++
			var bad string
			if s.cfg.accepts(m) {
				if nF != 0 {
					bad = "OnFiltered called for an accepted message"
				} else if nR+nT != 1 {
					bad = fmt.Sprintf("accepted pair ended %d times as delivered and %d times as timed out (want exactly one)", nR, nT)
				} else if nT == 1 && s.tmo > time.Second {
					bad = "OnTimeout fired for a subscriber whose timeout is 60s"
				}
			} else {
				if nF != 1 || nT != 0 || nR != 0 {
					bad = fmt.Sprintf("rejected pair: OnFiltered %d times, OnTimeout %d, delivered %d (want 1,0,0)", nF, nT, nR)
				}
			}
			if bad != "" {
				sig := "c15-stress:accounting"
				if strings.Contains(bad, "OnFiltered 0 times") || (s.cfg.accepts(m) && nR+nT == 0) {
					sig = "c15-stress:callback-missing"
				}
				rep.Failures = append(rep.Failures, failure{"a (message, subscriber) pair is not accounted for exactly once",
					fmt.Sprintf("subscriber %d (cap %d, timeout %v, filter m%%%d==%d, mode %d), message %d: %s", i, s.cfg.cap, s.tmo, s.cfg.mod, s.cfg.rem, s.mode, m, bad),
					sig, round, seed})
				return
			}
			if nT == 1 {
				rep.Histogram["pairs-timed-out"]++
			} else if nF == 1 {
				rep.Histogram["pairs-filtered"]++
			} else {
				rep.Histogram["pairs-delivered"]++
			}
		}
	}
	rep.Nontrivial++
	rep.Histogram["rounds"]++
	if len(rep.Samples) < 4 {
		rep.Samples = append(rep.Samples, fmt.Sprintf("S=%d subscribers (never/slow/prompt receivers, timeouts 30ms..60s), P=%d publishers x N=%d, slowest Publish %v", S, P, N, time.Duration(maxLat.Load())))
	}
}

// burstC15: many publishers released at the same instant onto one small buffer that nobody reads, with a
// 60s subscriber timeout: every single Publish call must return promptly (bound: 2s), the buffer absorbs
// exactly its capacity, the surplus deliveries wait in the background and are dropped by Close.
func burstC15(rng *rand.Rand, rep *report, trials int, seed int64) {
	for trial := 0; trial < trials; trial++ {
		K := 8 + rng.Intn(9)
		c := 1 + rng.Intn(3)
		pub := publisher.NewPublication[int]()
		sub := pub.Subscribe(c, publisher.WithTimeout[int](60*time.Second))
		other := pub.Subscribe(0, publisher.WithTimeout[int](60*time.Second)) // unbuffered, never receives either
		start := make(chan struct{})
		lat := make([]time.Duration, K)
		var wg sync.WaitGroup
		for i := 0; i < K; i++ {
			wg.Add(1)
			go func() {
				defer wg.Done()
				<-start
				t0 := time.Now()
				pub.Publish(i + 1)
				lat[i] = time.Since(t0)
			}()
		}
		close(start)
		done := make(chan struct{})
		go func() { wg.Wait(); close(done) }()
		blocked := false
		select {
		case <-done:
		case <-time.After(2 * time.Second):
			blocked = true
		}
		if !blocked {
			for _, d := range lat {
				if d > 2*time.Second {
					blocked = true
				}
			}
		}
		if blocked {
			rep.Failures = append(rep.Failures, failure{"Publish blocks when subscribers do not receive",
				fmt.Sprintf("burst trial %d: %d publishers released together onto a buffer of %d that nobody reads (subscriber timeout 60s): a Publish call had not returned after 2s", trial, K, c),
				"c15-stress:publish-blocks", trial, seed})
			pub.Close()
			return
		}
		// the buffer absorbs exactly its capacity (the deliveries run in the background)
		deadline := time.Now().Add(5 * time.Second)
		for len(sub.Receive()) < c && time.Now().Before(deadline) {
			time.Sleep(50 * time.Microsecond)
		}
		if n := len(sub.Receive()); n != c {
			rep.Failures = append(rep.Failures, failure{"a never-receiving subscriber's buffer did not absorb its capacity",
				fmt.Sprintf("burst trial %d: %d messages published, buffer of %d holds %d after 5s", trial, K, c, n), "c15-stress:buffer", trial, seed})
			pub.Close()
			return
		}
		_ = other
		pub.Close()
		rep.Evaluations += 2 * K
		rep.Histogram["burst-publish-calls"] += K
	}
	if left := waitNoGoroutines(10 * time.Second); left != 0 {
		rep.Failures = append(rep.Failures, failure{"delivery goroutines remain after the publication was closed",
			fmt.Sprintf("%d goroutines of the package left after the publish bursts", left), "c15-stress:leak", 0, seed})
		return
	}
	rep.Histogram["burst-trials"] += trials
	rep.Samples = append(rep.Samples, fmt.Sprintf("%d bursts of 8-16 simultaneous Publish calls onto a never-read buffer of 1-3 (timeout 60s), every call under 2s", trials))
}

// bigBurstC15: thousands of messages outstanding on subscribers that are not receiving yet (60s timeouts):
// Publish stays fast, nothing is given up before the subscriber's own timeout (OnTimeout must not run at all),
// and once the subscribers start receiving every single message arrives.  Crosses any plausible internal limit
// on pending deliveries per subscriber.
func bigBurstC15(rng *rand.Rand, rep *report, N int, seed int64, prop string) {
	P := 1 + rng.Intn(4)
	pub := publisher.NewPublication[int]()
	type bs struct {
		sub    *publisher.Subscriber[int]
		cap    int
		early  atomic.Int64
		filter int // 0 none, k: accept m%k==0
	}
	mk := func(c, filter int) *bs {
		b := &bs{cap: c, filter: filter}
		opts := []publisher.SubscriberOption[int]{publisher.WithTimeout[int](60 * time.Second),
			publisher.OnTimeout(func(m int) { b.early.Add(1) })}
		if filter != 0 {
			opts = append(opts, publisher.WithFilter(func(m int) bool { return m%filter == 0 }))
		}
		shuffleOpts(rng, opts)
		b.sub = pub.Subscribe(c, opts...)
		return b
	}
	subs := []*bs{mk(rng.Intn(9), 0), mk(0, 0), mk(1+rng.Intn(64), 2)}
	var maxLat atomic.Int64
	var wg sync.WaitGroup
	per := N / P
	for p := 0; p < P; p++ {
		wg.Add(1)
		go func() {
			defer wg.Done()
			for k := 0; k < per; k++ {
				t0 := time.Now()
				pub.Publish(p*per + k + 1)
				if d := int64(time.Since(t0)); d > maxLat.Load() {
					maxLat.Store(d)
				}
			}
		}()
	}
	done := make(chan struct{})
	go func() { wg.Wait(); close(done) }()
	select {
	case <-done:
	case <-time.After(30 * time.Second):
		rep.Failures = append(rep.Failures, failure{"Publish blocks when subscribers do not receive",
			fmt.Sprintf("big burst: %d messages to 3 never-receiving subscribers not published after 30s", P*per), prop+"-stress:publish-blocks", 0, seed})
		return
	}
	if time.Duration(maxLat.Load()) > 2*time.Second {
		rep.Failures = append(rep.Failures, failure{"Publish blocks when subscribers do not receive",
			fmt.Sprintf("big burst: slowest Publish call took %v", time.Duration(maxLat.Load())), prop+"-stress:publish-blocks", 0, seed})
		return
	}
	total := P * per
	// now the subscribers start receiving: everything published must arrive, nothing may have been given up
	for i, b := range subs {
		want := total
		if b.filter != 0 {
			want = total / b.filter
		}
		seen := map[int]bool{}
		deadline := time.After(60 * time.Second)
	recv:
		for len(seen) < want {
			select {
			case v := <-b.sub.Receive():
				if seen[v] {
					rep.Failures = append(rep.Failures, failure{"a message reached a subscriber more than once",
						fmt.Sprintf("big burst: subscriber %d received %d twice", i, v), prop+"-stress:accounting", 0, seed})
					return
				}
				seen[v] = true
			case <-deadline:
				break recv
			case <-time.After(5 * time.Second):
				break recv // nothing more is coming
			}
		}
		if e := b.early.Load(); e > 0 {
			rep.Failures = append(rep.Failures, failure{"OnTimeout fired before the subscriber's own timeout",
				fmt.Sprintf("big burst: %d messages outstanding on subscriber %d (buffer %d, timeout 60s): %d were given up (OnTimeout) within seconds; %d of %d arrived",
					total, i, b.cap, e, len(seen), want), prop+"-stress:early-timeout", 0, seed})
			return
		}
		if len(seen) != want {
			rep.Failures = append(rep.Failures, failure{"a (message, subscriber) pair is not accounted for exactly once",
				fmt.Sprintf("big burst: subscriber %d (buffer %d, timeout 60s) received %d of %d messages once it started receiving, no OnTimeout", i, b.cap, len(seen), want),
				prop+"-stress:accounting", 0, seed})
			return
		}
		rep.Evaluations += want
	}
	if left := waitNoGoroutines(10 * time.Second); left != 0 {
		rep.Failures = append(rep.Failures, failure{"delivery goroutines remain after everything was delivered",
			fmt.Sprintf("big burst: %d goroutines of the package left", left), prop+"-stress:leak", 0, seed})
		return
	}
	pub.Close()
	rep.Histogram["big-burst-messages"] += total
	rep.Samples = append(rep.Samples, fmt.Sprintf("big burst: %d messages from %d publishers outstanding on 3 subscribers (buffers %d, 0, %d) that start receiving afterwards; slowest Publish %v",
		total, P, subs[0].cap, subs[2].cap, time.Duration(maxLat.Load())))
}

// ---------- Close while deliveries are in flight (hot publishers), one child process, many trials ----------

func pkgStacks(max int) string {
	buf := make([]byte, 1<<20)
	buf = buf[:runtime.Stack(buf, true)]
	var out []byte
	for i, blk := range bytes.Split(buf, []byte("\n\n")) {
		if i > 0 && bytes.Contains(blk, []byte("toolchest/publisher.")) && len(out) < max {
			out = append(out, blk...)
			out = append(out, '\n', '\n')
		}
	}
	if len(out) > max {
		out = out[:max]
	}
	return string(out)
}

// hotCloseChild: 8 goroutines publish as fast as they can to a subscriber that drains its channel, so deliveries are
// in flight (entering send, not parked on a full buffer) all the time; after 100-800us the subscriber (or the
// publication) is closed, sometimes by two callers.  Close must return (bound 10s; on a hang the stacks of the
// package's goroutines go into the report), the reader must see "closed", the publishers must not be stuck, the
// other subscriber still works.  Timeouts 1min / 0 / -1s (only the non-positive ones when prop is c15): a
// delivery started just before the close must never send on the closed channel (the child would die: panic).
func hotCloseChild(seed int64, trials int, prop string) {
	rng := rand.New(rand.NewSource(seed))
	res := c10result{Hist: map[string]int{}}
	fail := func(what, detail, sig string) {
		res.Failures = append(res.Failures, failure{what, detail, sig, 0, seed})
		out, _ := json.Marshal(res)
		fmt.Println(string(out))
		os.Exit(0)
	}
	for trial := 0; trial < trials; trial++ {
		pub := publisher.NewPublication[int]()
		tmo := []time.Duration{time.Minute, 0, -time.Second, time.Minute}[rng.Intn(4)]
		if prop == "c15" {
			tmo = []time.Duration{0, -time.Second}[rng.Intn(2)]
		}
		c := []int{0, 1, 64}[rng.Intn(3)]
		var nT atomic.Int64
		opts := []publisher.SubscriberOption[int]{publisher.WithTimeout[int](tmo), publisher.OnTimeout(func(int) { nT.Add(1) })}
		shuffleOpts(rng, opts)
		sub := pub.Subscribe(c, opts...)
		other := pub.Subscribe(4096, publisher.WithFilter(func(i int) bool { return i == -1 }))
		var stop atomic.Bool
		var pubs sync.WaitGroup
		for g := 0; g < 8; g++ {
			pubs.Add(1)
			go func() {
				defer pubs.Done()
				for i := 0; !stop.Load(); i++ {
					pub.Publish(i)
				}
			}()
		}
		readerDone := make(chan struct{})
		nRecv := 0
		go func() {
			defer close(readerDone)
			for range sub.Receive() {
				nRecv++
			}
		}()
		time.Sleep(time.Duration(100+rng.Intn(700)) * time.Microsecond)
		whole := rng.Intn(4) == 0
		nClosers := 1 + rng.Intn(2)
		closed := make(chan struct{})
		var cw sync.WaitGroup
		for k := 0; k < nClosers; k++ {
			cw.Add(1)
			go func() {
				defer cw.Done()
				if whole && k == 0 {
					pub.Close()
				} else {
					sub.Close()
				}
			}()
		}
		go func() { cw.Wait(); close(closed) }()
		select {
		case <-closed:
		case <-time.After(10 * time.Second):
			st := pkgStacks(6000)
			stop.Store(true)
			fail("Close does not return (deadlock)",
				fmt.Sprintf("trial %d: 8 goroutines publishing to a draining subscriber (buffer %d, timeout %v); %d Close call(s) (publication: %v) had not returned after 10s.  Goroutines inside the package:\n%s", trial, c, tmo, nClosers, whole, st),
				prop+"-stress:close-hangs")
		}
		stop.Store(true)
		pdone := make(chan struct{})
		go func() { pubs.Wait(); close(pdone) }()
		select {
		case <-pdone:
		case <-time.After(10 * time.Second):
			fail("Publish blocks", fmt.Sprintf("trial %d: publishers still inside Publish 10s after the close.  Goroutines inside the package:\n%s", trial, pkgStacks(6000)), prop+"-stress:publish-blocks")
		}
		select {
		case <-readerDone:
		case <-time.After(10 * time.Second):
			fail("a closed subscriber's channel never reports closed", fmt.Sprintf("trial %d (buffer %d, timeout %v)", trial, c, tmo), prop+"-stress:not-closed")
		}
		if !whole {
			pub.Publish(-1)
			select {
			case v := <-other.Receive():
				if v != -1 {
					fail("closing a subscriber affected another one", fmt.Sprintf("trial %d: got %d", trial, v), prop+"-stress:others-affected")
				}
			case <-time.After(10 * time.Second):
				fail("closing a subscriber affected another one", fmt.Sprintf("trial %d: the other subscriber did not get its message within 10s", trial), prop+"-stress:others-affected")
			}
			pub.Close()
		}
		res.Evals += nRecv + 1
	}
	if left := waitNoGoroutines(10 * time.Second); left != 0 {
		fail("delivery goroutines remain after every subscriber was closed", fmt.Sprintf("%d goroutines of the package left:\n%s", left, pkgStacks(3000)), prop+"-stress:leak")
	}
	res.Hist["hot-close-trials"] = trials
	res.Sample = fmt.Sprintf("%d trials: Close (1-2 callers, subscriber or publication) while 8 goroutines publish to a draining subscriber (buffer 0/1/64, timeout 1min/0/-1s)", trials)
	out, _ := json.Marshal(res)
	fmt.Println(string(out))
}

// ---------- Subscribe racing Publication.Close (consumers that re-subscribe when their channel closes) ----------

// resubChild: K consumers range over their subscriber's channel and re-subscribe (once) the moment it is closed;
// the main goroutine calls Publication.Close, so the re-subscriptions overlap the Close that is still shutting
// down the remaining subscribers.  Every subscriber created that way must afterwards be either closed (that Close
// got it) or fully alive: a message published now reaches it, and its own Close closes its channel.
func resubChild(seed int64, trials int) {
	rng := rand.New(rand.NewSource(seed))
	res := c10result{Hist: map[string]int{}}
	fail := func(what, detail, sig string) {
		res.Failures = append(res.Failures, failure{what, detail, sig, 0, seed})
		out, _ := json.Marshal(res)
		fmt.Println(string(out))
		os.Exit(0)
	}
	closedByClose, alive := 0, 0
	for trial := 0; trial < trials; trial++ {
		pub := publisher.NewPublication[int]()
		K := 4 + rng.Intn(29)
		fresh := make([]*publisher.Subscriber[int], K)
		var cons sync.WaitGroup
		for i := 0; i < K; i++ {
			s := pub.Subscribe(rng.Intn(3), publisher.WithTimeout[int](60*time.Second))
			cons.Add(1)
			go func() {
				defer cons.Done()
				for range s.Receive() {
				}
				fresh[i] = pub.Subscribe(2, publisher.WithTimeout[int](60*time.Second)) // re-subscribe
			}()
		}
		pub.Publish(1)
		time.Sleep(time.Duration(rng.Intn(200)) * time.Microsecond)
		cdone := make(chan struct{})
		go func() { pub.Close(); close(cdone) }()
		select {
		case <-cdone:
		case <-time.After(10 * time.Second):
			fail("Close does not return (deadlock)", fmt.Sprintf("trial %d: Publication.Close with %d re-subscribing consumers not back after 10s:\n%s", trial, K, pkgStacks(4000)), "c10-stress:close-hangs")
		}
		wdone := make(chan struct{})
		go func() { cons.Wait(); close(wdone) }()
		select {
		case <-wdone:
		case <-time.After(10 * time.Second):
			fail("a closed subscriber's channel never reports closed", fmt.Sprintf("trial %d: after Publication.Close some of the %d consumers never saw their channel closed", trial, K), "c10-stress:not-closed")
		}
		waitNoGoroutines(10 * time.Second)
		marker := 1000 + trial
		pub.Publish(marker)
		for i, f := range fresh {
			// either that Close got the new subscriber (channel closed, nothing else) ...
			got, isClosed := 0, false
			select {
			case v, ok := <-f.Receive():
				if !ok {
					isClosed = true
				} else {
					got = v
				}
			case <-time.After(10 * time.Second):
				fail("a subscriber created while Publication.Close was running is neither closed nor subscribed",
					fmt.Sprintf("trial %d: consumer %d of %d re-subscribed when its channel closed (during Publication.Close); the new subscriber's channel is not closed, and Publish(%d) after the Close did not reach it within 10s", trial, i, K, marker),
					"c10-stress:zombie-subscriber")
			}
			if isClosed {
				closedByClose++
				continue
			}
			if got != marker {
				fail("a subscriber received a value that was never published to it", fmt.Sprintf("trial %d: new subscriber %d got %d, want %d", trial, i, got, marker), "c10-stress:foreign")
			}
			// ... or it is alive: its own Close closes its channel
			f.Close()
			select {
			case _, ok := <-f.Receive():
				if ok {
					fail("something was delivered after the close", fmt.Sprintf("trial %d subscriber %d", trial, i), "c10-stress:after-close")
				}
			case <-time.After(10 * time.Second):
				fail("a closed subscriber's channel never reports closed",
					fmt.Sprintf("trial %d: subscriber %d was created while Publication.Close was running; it received Publish(%d), but its own Close() did not close its channel within 10s", trial, i, marker), "c10-stress:not-closed")
			}
			alive++
		}
		res.Evals += K
	}
	res.Hist["resubscribe-trials"] = trials
	res.Hist["resubscribed-closed-by-that-Close"] = closedByClose
	res.Hist["resubscribed-alive"] = alive
	res.Sample = fmt.Sprintf("%d trials: 4-32 consumers re-subscribe when their channel closes while Publication.Close is running (%d new subscribers closed by it, %d alive)", trials, closedByClose, alive)
	out, _ := json.Marshal(res)
	fmt.Println(string(out))
}

// ---------- C10: simultaneous closers of one subscriber (many trials in one child process) ----------

func c10burstChild(seed int64, trials int) {
	rng := rand.New(rand.NewSource(seed))
	res := c10result{Hist: map[string]int{}}
	fail := func(what, detail, sig string) {
		res.Failures = append(res.Failures, failure{what, detail, sig, 0, seed})
		out, _ := json.Marshal(res)
		fmt.Println(string(out))
		os.Exit(0)
	}
	for trial := 0; trial < trials; trial++ {
		pub := publisher.NewPublication[int]()
		sub := pub.Subscribe(1, publisher.WithTimeout[int](60*time.Second))
		other := pub.Subscribe(1, publisher.WithTimeout[int](60*time.Second))
		pub.Publish(42) // one message buffered in each: it must stay readable after the close
		for len(sub.Receive()) < 1 || len(other.Receive()) < 1 {
			runtime.Gosched()
		}
		N := 2 + rng.Intn(5)
		pubCloser := rng.Intn(N + 1) // index of the closer that calls Publication.Close (N = nobody)
		start := make(chan struct{})
		var wg sync.WaitGroup
		for c := 0; c < N; c++ {
			wg.Add(1)
			go func() {
				defer wg.Done()
				<-start
				if c == pubCloser {
					pub.Close()
				} else {
					sub.Close()
				}
			}()
		}
		close(start)
		done := make(chan struct{})
		go func() { wg.Wait(); close(done) }()
		select {
		case <-done:
		case <-time.After(10 * time.Second):
			fail("Close does not return (deadlock)", fmt.Sprintf("trial %d: %d simultaneous closers still blocked after 10s", trial, N), "c10-stress:close-hangs")
		}
		if v, ok := <-sub.Receive(); !ok || v != 42 {
			fail("a message buffered before the close is not readable afterwards", fmt.Sprintf("trial %d: got (%d,%v)", trial, v, ok), "c10-stress:buffer-lost")
		}
		select {
		case _, ok := <-sub.Receive():
			if ok {
				fail("something was delivered after the close", fmt.Sprintf("trial %d", trial), "c10-stress:after-close")
			}
		default:
			fail("a closed subscriber's channel never reports closed", fmt.Sprintf("trial %d", trial), "c10-stress:not-closed")
		}
		if pubCloser == N {
			// the publication was not closed: the other subscriber is untouched and still works
			if len(other.Receive()) != 1 {
				fail("closing a subscriber affected another one", fmt.Sprintf("trial %d", trial), "c10-stress:others-affected")
			}
			<-other.Receive()
			pub.Publish(43)
			select {
			case v := <-other.Receive():
				if v != 43 {
					fail("closing a subscriber affected another one", fmt.Sprintf("trial %d: got %d", trial, v), "c10-stress:others-affected")
				}
			case <-time.After(10 * time.Second):
				fail("closing a subscriber affected another one", fmt.Sprintf("trial %d: no delivery within 10s", trial), "c10-stress:others-affected")
			}
			other.Close()
		}
		res.Evals += N
	}
	res.Hist["burst-trials"] = trials
	res.Sample = fmt.Sprintf("%d trials of 2-6 closers (Subscriber.Close, one of them possibly Publication.Close) released together on a subscriber holding a buffered message", trials)
	out, _ := json.Marshal(res)
	fmt.Println(string(out))
}

// ---------- C10: closers racing publishers (one round = one child process) ----------

type c10result struct {
	Failures []failure      `json:"failures"`
	Evals    int            `json:"evals"`
	Hist     map[string]int `json:"hist"`
	Sample   string         `json:"sample"`
}

func c10child(seed int64) {
	rng := rand.New(rand.NewSource(seed))
	res := c10result{Hist: map[string]int{}}
	fail := func(what, detail, sig string) {
		res.Failures = append(res.Failures, failure{what, detail, sig, 0, seed})
	}
	S := 1 + rng.Intn(6)
	P := 1 + rng.Intn(4)
	dur := time.Duration(20+rng.Intn(60)) * time.Millisecond
	pub := publisher.NewPublication[int]()
	type sst struct {
		cfg     subCfg
		sub     *publisher.Subscriber[int]
		got     []int
		sawEOF  bool
		closers int
		closeAt []time.Duration
		tmo     time.Duration
	}
	subs := make([]*sst, S)
	var rwg sync.WaitGroup
	pubClose := rng.Intn(3) == 0
	for i := range subs {
		s := &sst{cfg: subCfg{cap: rng.Intn(4)}}
		if rng.Intn(2) == 0 {
			s.cfg.mod = 2
			s.cfg.rem = rng.Intn(2)
		}
		if rng.Intn(3) > 0 {
			s.closers = 1 + rng.Intn(3)
			same := rng.Intn(2) == 0 // all closers of this subscriber at the same instant
			at0 := time.Duration(rng.Int63n(int64(dur)))
			for k := 0; k < s.closers; k++ {
				if same {
					s.closeAt = append(s.closeAt, at0)
				} else {
					s.closeAt = append(s.closeAt, time.Duration(rng.Int63n(int64(dur))))
				}
			}
		}
		var opts []publisher.SubscriberOption[int]
		if s.cfg.mod != 0 {
			c := s.cfg
			opts = append(opts, publisher.WithFilter(func(m int) bool { return c.accepts(m) }))
		}
		tm := 60 * time.Second
		if rng.Intn(4) == 0 {
			tm = time.Duration(1+rng.Intn(20)) * time.Millisecond
		}
		opts = append(opts, publisher.WithTimeout[int](tm))
		if tm < time.Second && rng.Intn(2) == 0 {
			// "drop the slow consumer": OnTimeout closes the subscriber (or the publication) from inside the callback
			whole := rng.Intn(4) == 0
			opts = append(opts, publisher.OnTimeout(func(int) {
				if whole {
					pub.Close()
				} else {
					s.sub.Close()
				}
			}))
			s.closers++ // counts as closed by somebody
			if whole {
				pubClose = true
			}
			res.Hist["subscribers-closing-from-OnTimeout"]++
		}
		s.tmo = tm
		shuffleOpts(rng, opts)
		s.sub = pub.Subscribe(s.cfg.cap, opts...)
		subs[i] = s
		slow := rng.Intn(3) == 0
		rwg.Add(1)
		go func() {
			defer rwg.Done()
			for v := range s.sub.Receive() {
				s.got = append(s.got, v)
				if slow {
					time.Sleep(200 * time.Microsecond)
				}
			}
			s.sawEOF = true
		}()
	}
	var stopPub atomic.Bool
	var pwg sync.WaitGroup
	counts := make([]int, P)
	for p := 0; p < P; p++ {
		pwg.Add(1)
		go func(p int) {
			defer pwg.Done()
			for k := 0; !stopPub.Load() && k < 400; k++ {
				pub.Publish(p*1000000 + k + 1)
				counts[p] = k + 1
				if k%4 == 0 {
					time.Sleep(100 * time.Microsecond)
				}
			}
		}(p)
	}
	var cwg sync.WaitGroup
	t0 := time.Now()
	// closers due at the same instant are released together by one gate (closed by a timer)
	gates := map[time.Duration]chan struct{}{}
	gate := func(at time.Duration) chan struct{} {
		if g, ok := gates[at]; ok {
			return g
		}
		g := make(chan struct{})
		gates[at] = g
		time.AfterFunc(time.Until(t0.Add(at)), func() { close(g) })
		return g
	}
	for _, s := range subs {
		for _, at := range s.closeAt {
			cwg.Add(1)
			g := gate(at)
			go func() {
				defer cwg.Done()
				<-g
				s.sub.Close()
			}()
		}
	}
	if pubClose {
		n := 1 + rng.Intn(2)
		at := time.Duration(rng.Int63n(int64(dur)))
		if rng.Intn(2) == 0 {
			for _, s := range subs { // together with some subscriber's closers
				if len(s.closeAt) > 0 {
					at = s.closeAt[0]
					break
				}
			}
		}
		for k := 0; k < n; k++ {
			cwg.Add(1)
			g := gate(at)
			go func() {
				defer cwg.Done()
				<-g
				pub.Close()
			}()
		}
	}
	closed := make(chan struct{})
	go func() { cwg.Wait(); close(closed) }()
	select {
	case <-closed:
	case <-time.After(dur + 10*time.Second):
		fail("Close does not return (deadlock)", fmt.Sprintf("S=%d P=%d: closers still blocked 10s after the last close was issued", S, P), "c10-stress:close-hangs")
		out, _ := json.Marshal(res)
		fmt.Println(string(out))
		return
	}
	time.Sleep(time.Until(t0.Add(dur)))
	stopPub.Store(true)
	pwg.Wait()
	// subscribers that nobody closed are closed now (after the publishers stopped), so that receivers end
	neverClosed := map[int]bool{}
	for i, s := range subs {
		if s.closers == 0 && !pubClose && s.tmo > time.Second {
			neverClosed[i] = true
		}
	}
	// wait for their pending deliveries first (they keep receiving), then close them
	if len(neverClosed) > 0 {
		waitNoGoroutines(10 * time.Second)
	}
	fdone := make(chan struct{})
	go func() {
		for _, s := range subs {
			s.sub.Close()
		}
		close(fdone)
	}()
	select {
	case <-fdone:
	case <-time.After(10 * time.Second):
		fail("Close does not return (deadlock)", fmt.Sprintf("S=%d: closing the remaining subscribers still blocked after 10s", S), "c10-stress:close-hangs")
		out, _ := json.Marshal(res)
		fmt.Println(string(out))
		os.Exit(0)
	}
	rdone := make(chan struct{})
	go func() { rwg.Wait(); close(rdone) }()
	select {
	case <-rdone:
	case <-time.After(10 * time.Second):
		fail("a closed subscriber's channel never reports closed", fmt.Sprintf("S=%d: receivers still blocked 10s after Close", S), "c10-stress:not-closed")
		out, _ := json.Marshal(res)
		fmt.Println(string(out))
		return
	}
	if left := waitNoGoroutines(10 * time.Second); left != 0 {
		fail("delivery goroutines remain after every subscriber was closed", fmt.Sprintf("%d goroutines of the package left", left), "c10-stress:leak")
	}
	for i, s := range subs {
		seen := map[int]int{}
		for _, v := range s.got {
			seen[v]++
			p, k := v/1000000, v%1000000
			if p >= P || k < 1 || k > counts[p] {
				fail("a subscriber received a value that was never published", fmt.Sprintf("subscriber %d received %d", i, v), "c10-stress:foreign")
			} else if !s.cfg.accepts(v) {
				fail("a subscriber received a value its filter rejects", fmt.Sprintf("subscriber %d received %d", i, v), "c10-stress:rejected")
			} else if seen[v] > 1 {
				fail("a message reached a subscriber more than once", fmt.Sprintf("subscriber %d received %d twice", i, v), "c10-stress:duplicate")
			}
		}
		res.Evals += len(s.got)
		if !s.sawEOF {
			fail("a closed subscriber's channel never reports closed", fmt.Sprintf("subscriber %d", i), "c10-stress:not-closed")
		}
		if neverClosed[i] {
			// unaffected by the closes of the others: exactly its accepted messages (60s timeout only)
			for p := 0; p < P; p++ {
				for k := 1; k <= counts[p]; k++ {
					m := p*1000000 + k
					if s.cfg.accepts(m) && seen[m] != 1 {
						fail("closing other subscribers affected a subscriber that stayed open",
							fmt.Sprintf("subscriber %d (cap %d) was never closed but did not receive %d", i, s.cfg.cap, m), "c10-stress:others-affected")
						break
					}
				}
			}
			res.Hist["open-subscribers-exact"]++
		}
	}
	res.Hist["closers"] += func() int {
		c := 0
		for _, s := range subs {
			c += s.closers
		}
		return c
	}()
	if pubClose {
		res.Hist["publication-closed-while-publishing"]++
	}
	res.Sample = fmt.Sprintf("S=%d subscribers, P=%d publishers for %v, closers per subscriber %v, pub.Close racing: %v", S, P, dur,
		func() []int {
			r := []int{}
			for _, s := range subs {
				r = append(r, s.closers)
			}
			return r
		}(), pubClose)
	out, _ := json.Marshal(res)
	fmt.Println(string(out))
}

var panicRe = regexp.MustCompile(`(?m)^(panic: .*|fatal error: .*)$`)
var frameRe = regexp.MustCompile(`(?m)^(github.com/rbell/toolchest/\S+)\(`)

func roundC10(self string, rep *report, round int, seed int64) {
	childRound(self, rep, round, seed, "-mode", "c10child", "-seed", fmt.Sprint(seed))
}

var sigProp = "c10"

func childRound(self string, rep *report, round int, seed int64, args ...string) {
	cmd := exec.Command(self, args...)
	var stdout, stderr bytes.Buffer
	cmd.Stdout, cmd.Stderr = &stdout, &stderr
	err := cmd.Run()
	es := stderr.String()
	if strings.Contains(es, "WARNING: DATA RACE") {
		i := strings.Index(es, "WARNING: DATA RACE")
		rep.Failures = append(rep.Failures, failure{"data race reported while closing concurrently with publishing", clip(es[i:], 1500), sigProp+"-stress:race", round, seed})
		return
	}
	if m := panicRe.FindString(es); m != "" {
		fr := ""
		if f := frameRe.FindStringSubmatch(es); f != nil {
			fr = f[1]
		}
		rep.Failures = append(rep.Failures, failure{"panic while closing concurrently with publishing", m + " at " + fr + "\n" + clip(es, 1200), sigProp+"-stress:"+m, round, seed})
		return
	}
	if err != nil {
		rep.Failures = append(rep.Failures, failure{"child process failed", clip(es, 1200), sigProp+"-stress:child-failed", round, seed})
		return
	}
	var r c10result
	if json.Unmarshal(bytes.TrimSpace(stdout.Bytes()), &r) != nil {
		rep.Failures = append(rep.Failures, failure{"child process wrote no result", clip(stdout.String()+es, 800), sigProp+"-stress:child-failed", round, seed})
		return
	}
	for _, f := range r.Failures {
		f.Round = round
		rep.Failures = append(rep.Failures, f)
	}
	rep.Evaluations += r.Evals
	for k, v := range r.Hist {
		rep.Histogram[k] += v
	}
	rep.Histogram["rounds"]++
	rep.Nontrivial++
	if len(rep.Samples) < 4 {
		rep.Samples = append(rep.Samples, r.Sample)
	}
}

func clip(s string, n int) string {
	if len(s) > n {
		return s[:n]
	}
	return s
}

func main() {
	mode := flag.String("mode", "c06", "")
	seed := flag.Int64("seed", 1, "")
	tier := flag.String("tier", "quick", "")
	out := flag.String("out", "", "")
	rounds := flag.Int("rounds", 0, "")
	roundSeed := flag.Int64("roundseed", 0, "replay exactly the round with this seed")
	propFlag := flag.String("prop", "c10", "")
	flag.Parse()
	if *mode == "c10child" {
		c10child(*seed)
		return
	}
	if *mode == "resubchild" {
		resubChild(*seed, *rounds)
		return
	}
	if *mode == "hotclosechild" {
		hotCloseChild(*seed, *rounds, *propFlag)
		return
	}
	if *mode == "c10burstchild" {
		c10burstChild(*seed, *rounds)
		return
	}
	rep := &report{Mode: *mode, Histogram: map[string]int{}}
	if *mode == "c15" {
		sigProp = "c15"
	}
	R := map[string]int{"c06": 40, "c15": 12, "c10": 40}[*mode]
	if *tier == "thorough" {
		R = map[string]int{"c06": 600, "c15": 150, "c10": 600}[*mode]
	}
	if *rounds > 0 {
		R = *rounds
	}
	self, _ := os.Executable()
	if *roundSeed != 0 {
		rng := rand.New(rand.NewSource(*roundSeed))
		if *mode == "c06" || *mode == "c15" {
			subRace(rep, 60, 3000, *roundSeed, *mode)
			if len(rep.Failures) == 0 {
				subRace(rep, 240, 0, *roundSeed, *mode)
			}
			if len(rep.Failures) == 0 {
				slowFilterRound(rand.New(rand.NewSource(*roundSeed)), rep, *roundSeed, *mode)
			}
		}
		switch *mode {
		case "c06":
			if len(rep.Failures) == 0 {
				roundC06(rng, rep, 0, *roundSeed, nil)
			}
		case "c15":
			if len(rep.Failures) > 0 {
				break
			}
			burstC15(rand.New(rand.NewSource(*roundSeed)), rep, 150, *roundSeed)
			if len(rep.Failures) == 0 {
				bigBurstC15(rand.New(rand.NewSource(*roundSeed)), rep, 4500, *roundSeed, *mode)
			}
			if len(rep.Failures) == 0 {
				roundC15(rng, rep, 0, *roundSeed)
			}
		case "c10":
			childRound(self, rep, 0, *roundSeed, "-mode", "hotclosechild", "-prop", "c10", "-seed", fmt.Sprint(*roundSeed), "-rounds", "150")
			if len(rep.Failures) == 0 {
				childRound(self, rep, 0, *roundSeed, "-mode", "resubchild", "-seed", fmt.Sprint(*roundSeed), "-rounds", "320")
			}
			if len(rep.Failures) == 0 {
				childRound(self, rep, 0, *roundSeed, "-mode", "c10burstchild", "-seed", fmt.Sprint(*roundSeed), "-rounds", "4000")
			}
			if len(rep.Failures) == 0 {
				roundC10(self, rep, 0, *roundSeed)
			}
		}
		rep.Rounds = 1
		R = 0
	}
	if (*mode == "c06" || *mode == "c15") && *roundSeed == 0 {
		// Subscribe overlapping Publish (stale subscriber lists), another subscriber's slow filter
		prop := *mode
		tr := 60
		if *tier == "thorough" {
			tr = 600
		}
		subRace(rep, tr, 3000, *seed, prop)
		if len(rep.Failures) == 0 {
			subRace(rep, 4*tr, 0, *seed, prop)
		}
		if len(rep.Failures) == 0 {
			slowFilterRound(rand.New(rand.NewSource(*seed*31+7)), rep, *seed*31+7, prop)
		}
	}
	if *mode == "c15" && *roundSeed == 0 && len(rep.Failures) == 0 {
		trials := 150
		if *tier == "thorough" {
			trials = 3000
		}
		burstC15(rand.New(rand.NewSource(*seed*7919+1)), rep, trials, *seed*7919+1)
		// pending deliveries per subscriber far above any plausible internal limit
		for i, n := range burstSizes(*tier, *seed) {
			if len(rep.Failures) == 0 {
				bigBurstC15(rand.New(rand.NewSource(*seed*6700417+int64(i))), rep, n, *seed*6700417+int64(i), "c15")
			}
		}
	}
	if *mode == "c06" && *roundSeed == 0 && len(rep.Failures) == 0 {
		// the same bursts for C06: everything outstanding on subscribers that start receiving later must arrive once
		for i, n := range burstSizes(*tier, *seed) {
			if len(rep.Failures) == 0 {
				bigBurstC15(rand.New(rand.NewSource(*seed*6700417+int64(i))), rep, n, *seed*6700417+int64(i), "c06")
			}
		}
	}
	if (*mode == "c10" || *mode == "c15") && *roundSeed == 0 && len(rep.Failures) == 0 {
		// Close while deliveries are in flight: child processes (a panic / hang is an observation)
		n, tr := 2, 80
		if *mode == "c15" {
			n, tr = 1, 40
		}
		if *tier == "thorough" {
			tr *= 10
		}
		var mu sync.Mutex
		var wg sync.WaitGroup
		for k := 0; k < n; k++ {
			wg.Add(1)
			go func() {
				defer wg.Done()
				local := &report{Histogram: map[string]int{}}
				hs := *seed*611953 + int64(k) + 1
				childRound(self, local, -10-k, hs, "-mode", "hotclosechild", "-prop", *mode, "-seed", fmt.Sprint(hs), "-rounds", fmt.Sprint(tr))
				if k == 0 && *mode == "c10" && len(local.Failures) == 0 {
					// Subscribe racing Publication.Close
					childRound(self, local, -20, hs, "-mode", "resubchild", "-seed", fmt.Sprint(hs), "-rounds", fmt.Sprint(tr*4))
				}
				mu.Lock()
				rep.Failures = append(rep.Failures, local.Failures...)
				rep.Evaluations += local.Evaluations
				for kk, v := range local.Histogram {
					if kk != "rounds" {
						rep.Histogram[kk] += v
					}
				}
				if k == 0 {
					rep.Samples = append(rep.Samples, local.Samples...)
				}
				mu.Unlock()
			}()
		}
		wg.Wait()
		if len(rep.Failures) > 1 {
			rep.Failures = rep.Failures[:1]
		}
	}
	if *mode == "c10" && *roundSeed == 0 && len(rep.Failures) == 0 {
		// simultaneous closers: three child processes in parallel, thousands of trials each
		trials := 4000
		if *tier == "thorough" {
			trials = 60000
		}
		var mu sync.Mutex
		var wg sync.WaitGroup
		for k := 0; k < 3; k++ {
			wg.Add(1)
			go func() {
				defer wg.Done()
				local := &report{Histogram: map[string]int{}}
				bs := *seed*104729 + int64(k) + 1
				childRound(self, local, -1-k, bs, "-mode", "c10burstchild", "-seed", fmt.Sprint(bs), "-rounds", fmt.Sprint(trials))
				mu.Lock()
				rep.Failures = append(rep.Failures, local.Failures...)
				rep.Evaluations += local.Evaluations
				for kk, v := range local.Histogram {
					if kk != "rounds" {
						rep.Histogram[kk] += v
					}
				}
				rep.Samples = append(rep.Samples, local.Samples...)
				mu.Unlock()
			}()
		}
		wg.Wait()
		if len(rep.Failures) > 1 {
			rep.Failures = rep.Failures[:1]
		}
		if len(rep.Samples) > 1 {
			rep.Samples = rep.Samples[:1]
		}
	}
	if *mode == "c10" {
		// independent child processes: four at a time
		var mu sync.Mutex
		sem := make(chan struct{}, 4)
		var wg sync.WaitGroup
		for i := 0; i < R; i++ {
			mu.Lock()
			stop := len(rep.Failures) > 0
			mu.Unlock()
			if stop {
				break
			}
			sem <- struct{}{}
			wg.Add(1)
			go func(i int) {
				defer wg.Done()
				defer func() { <-sem }()
				local := &report{Histogram: map[string]int{}}
				roundC10(self, local, i, *seed*1000003+int64(i))
				mu.Lock()
				rep.Failures = append(rep.Failures, local.Failures...)
				rep.Evaluations += local.Evaluations
				rep.Nontrivial += local.Nontrivial
				for k, v := range local.Histogram {
					rep.Histogram[k] += v
				}
				if len(rep.Samples) < 4 {
					rep.Samples = append(rep.Samples, local.Samples...)
				}
				rep.Rounds++
				mu.Unlock()
			}(i)
		}
		wg.Wait()
		if len(rep.Failures) > 1 {
			sort.Slice(rep.Failures, func(i, j int) bool { return rep.Failures[i].Round < rep.Failures[j].Round })
			rep.Failures = rep.Failures[:1]
		}
	}
	for i := 0; *mode != "c10" && i < R && len(rep.Failures) == 0; i++ {
		rs := *seed*1000003 + int64(i)
		rng := rand.New(rand.NewSource(rs))
		switch *mode {
		case "c06":
			roundC06(rng, rep, i, rs, nil)
		case "c15":
			roundC15(rng, rep, i, rs)
		}
		rep.Rounds++
	}
	if *mode == "c06" && *roundSeed == 0 && len(rep.Failures) == 0 {
		// size sweep: geometric ranges of subscribers, buffer sizes and messages (thresholds such as 1024)
		var sw []sizes
		if *tier == "thorough" {
			for _, s := range []int{1, 4, 16, 64, 256} {
				for _, c := range []int{0, 1, 8, 64, 512, 4096} {
					for _, n := range []int{1, 16, 256, 2048, 16384} {
						if s*n <= 300000 {
							sw = append(sw, sizes{S: s, P: 1 + (s+c+n)%4, N: (n + (s+c+n)%4) / (1 + (s+c+n)%4), cap: c})
						}
					}
				}
			}
		} else {
			sw = []sizes{{S: 64, P: 4, N: 40, cap: 2}, {S: 2, P: 3, N: 1500, cap: 2048}, {S: 3, P: 2, N: 2500, cap: 0}}
		}
		for i, z := range sw {
			if len(rep.Failures) > 0 {
				break
			}
			if z.N < 1 {
				z.N = 1
			}
			rs := *seed*15485863 + int64(i)
			roundC06(rand.New(rand.NewSource(rs)), rep, 1000+i, rs, &z)
			rep.Rounds++
		}
	}
	sort.Strings(rep.Samples)
	js, _ := json.MarshalIndent(rep, "", " ")
	if *out != "" {
		os.MkdirAll(*out, 0o755)
		os.WriteFile(filepath.Join(*out, "stress.json"), js, 0o644)
	} else {
		fmt.Println(string(js))
	}
}
