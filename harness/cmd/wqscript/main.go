package main

import (
	"encoding/json"
	"flag"
	"fmt"
	"github.com/rbell/toolchest/workqueue"
	"math"
	"math/rand"
	"os"
	"os/exec"
	"regexp"
	"runtime"
	"strconv"
	"strings"
	"sync/atomic"
	"time"

	"verifharness/internal/cw"
)

// ---------- rendering ----------

func (st Stim) coq() string {
	switch st.Op {
	case "enq":
		return fmt.Sprintf("SEnq %s %s %d", cw.Z(st.A), cw.B(st.Adj), st.B)
	case "fin":
		return fmt.Sprintf("SFinish %d %s", st.A, cw.Z(st.B))
	case "deq":
		return fmt.Sprintf("SDequeue %s", cw.Z(st.A))
	case "setp":
		return fmt.Sprintf("SSetPrio %s %s", cw.Z(st.A), cw.Z(st.B))
	case "esub":
		return "SErrSub"
	case "erecv":
		return fmt.Sprintf("SErrRecv %s", cw.Z(st.A))
	case "resize":
		return fmt.Sprintf("SResize %s", cw.Z(st.A))
	case "stop":
		return "SStop"
	case "break":
		return "SBreak"
	case "adj":
		return fmt.Sprintf("SAdj %s %s", cw.Z(st.A), cw.Z(st.B))
	case "sib":
		return fmt.Sprintf("SSib %s", cw.Z(st.A))
	case "batch":
		subs := make([]string, len(st.Sub))
		for i, x := range st.Sub {
			subs[i] = x.coq()
		}
		return "SBatch " + cw.L(subs)
	}
	panic("unknown stimulus " + st.Op)
}

func (o Obs) coq() string {
	its := make([]string, len(o.Items))
	for i, t := range o.Items {
		its[i] = fmt.Sprintf("(%s, %s, %s)", cw.Z(t[0]), cw.Z(t[1]), cw.Z(t[2]))
	}
	return fmt.Sprintf("Ob %s %s %s %s %s", cw.ZL(o.Started), cw.ZL(o.Returned), cw.L(its), cw.ZL(o.Consulted), cw.Z(o.Res))
}

func short(st Stim) string {
	switch st.Op {
	case "enq":
		if st.Adj {
			return fmt.Sprintf("enq(%d,adj)", st.A)
		}
		return fmt.Sprintf("enq(%d)", st.A)
	case "fin":
		if st.B < 0 {
			return fmt.Sprintf("fin(%d)", st.A)
		}
		return fmt.Sprintf("fin(%d,err%d)", st.A, st.B)
	case "batch":
		subs := make([]string, len(st.Sub))
		for i, x := range st.Sub {
			subs[i] = short(x)
		}
		return fmt.Sprintf("batch(adjust of %d held: %s)", st.A, strings.Join(subs, " "))
	case "esub", "stop", "break":
		return st.Op
	case "sib":
		return fmt.Sprintf("sibling.resize(%d)", st.A)
	case "deq", "erecv", "resize":
		return fmt.Sprintf("%s(%d)", st.Op, st.A)
	}
	return fmt.Sprintf("%s(%d,%d)", st.Op, st.A, st.B)
}

// ---------- script execution ----------

type script struct {
	W, L  int
	Stims []Stim
	Gen   string // which generator produced it
}

type world struct {
	w        *cw.Writer
	rng      *rand.Rand
	prop     string
	unstable int
	sessions int
	steps    int
}

// emit turns a finished session into a case.
func (g *world) emit(s *sess, gen string) {
	g.sessions++
	g.steps += len(s.steps)
	if s.unstable {
		g.unstable++
		return
	}
	parts := make([]string, len(s.steps))
	stims := make([]Stim, len(s.steps))
	sh := make([]string, len(s.steps))
	for i, st := range s.steps {
		parts[i] = "(" + st.S.coq() + ", " + st.O.coq() + ")"
		stims[i] = st.S
		sh[i] = short(st.S)
	}
	tags, trivial := classify(s, g.prop)
	tags = append([]string{gen}, tags...)
	opts := s.opts
	if opts == nil {
		opts = []Opt{{"w", s.W}, {"l", s.L}}
	}
	os_ := make([]string, len(opts))
	on := make([]string, len(opts))
	for i, o := range opts {
		if o.K == "w" {
			os_[i] = fmt.Sprintf("OWorkers %s", cw.Z(o.N))
			on[i] = fmt.Sprintf("WithWorkers(%d)", o.N)
		} else {
			os_[i] = fmt.Sprintf("OLength %s", cw.Z(o.N))
			on[i] = fmt.Sprintf("WithQueueLength(%d)", o.N)
		}
	}
	// W and L are NOT passed to Coq: the model computes the effective configuration from the option list
	coq := fmt.Sprintf("WQOpts %d %s %s", runtime.NumCPU(), cw.L(os_), cw.L(parts))
	key := fmt.Sprintf("NewQueue(%s) %s", strings.Join(on, ","), strings.Join(sh, " "))
	g.w.Add(cw.Case{Coq: coq, Key: key, Tags: tags, Trivial: trivial,
		Desc: map[string]any{"W": s.W, "L": s.L, "opts": opts, "sibling": s.sib != nil || s.hadSib, "new_queue": "NewQueue(" + strings.Join(on, ", ") + ")", "num_cpu": runtime.NumCPU(),
			"script": strings.Join(sh, " "), "stimuli": stims, "steps": s.steps, "generator": gen}})
}

// classify derives branch tags from what the harness saw (black box) and the property's non-triviality rule.
func classify(s *sess, prop string) ([]string, bool) {
	tags := map[string]bool{}
	enqStep := map[int]int{}
	waited := 0    // items that started in a later step than their own Enqueue (they waited somewhere)
	contested := 0 // ... while at least one other accepted item was still unstarted
	started := map[int]bool{}
	nEnq := 0
	for k, st := range s.steps {
		switch st.S.Op {
		case "enq":
			enqStep[nEnq] = k
			blocked := true
			for _, r := range st.O.Returned {
				if r == nEnq {
					blocked = false
				}
			}
			if blocked {
				tags["blocked-producer"] = true
			}
			nEnq++
		case "batch":
			tags["held-adjust-batch"] = true
			for _, sub := range st.S.Sub {
				if sub.Op == "enq" {
					enqStep[nEnq] = k
					nEnq++
				}
			}
		case "deq":
			tags[fmt.Sprintf("deq-res%d", st.O.Res)] = true
		case "setp":
			tags[fmt.Sprintf("setp-res%d", st.O.Res)] = true
		case "erecv":
			if st.O.Res >= 0 {
				tags["error-delivered"] = true
			}
		case "resize":
			tags["resize"] = true
		case "fin":
			if st.S.B >= 0 {
				tags["work-error"] = true
			}
		}
		if len(st.O.Consulted) > 0 {
			tags["adjust-consulted"] = true
		}
		if st.O.Res == -9 {
			tags["caller-hang"] = true
		}
		for _, i := range st.O.Started {
			if enqStep[i] != k {
				waited++
				others := 0
				for j := 0; j < nEnq; j++ {
					if j != i && !started[j] {
						others++
					}
				}
				if others > 0 {
					contested++
				}
			}
		}
		for _, i := range st.O.Started {
			started[i] = true
		}
	}
	if waited > 0 {
		tags["item-waited"] = true
	}
	if contested > 0 {
		tags["contested-start"] = true
	}
	prios := map[int]int{}
	for _, it := range s.items {
		prios[it.prio]++
	}
	for _, c := range prios {
		if c > 1 {
			tags["equal-priorities"] = true
		}
	}
	out := []string{}
	for t := range tags {
		out = append(out, t)
	}
	trivial := true
	switch prop {
	case "C05":
		trivial = !tags["contested-start"]
	case "C16":
		trivial = !(tags["deq-res0"] || tags["deq-res1"] || tags["setp-res0"] || tags["setp-res1"]) || !tags["item-waited"]
	case "C09":
		trivial = !(tags["blocked-producer"] || tags["item-waited"])
	case "C14":
		trivial = !tags["work-error"]
	default:
		trivial = !tags["item-waited"]
	}
	return out, trivial
}

func (g *world) runFixed(sc script) {
	s := newSess(sc.W, sc.L)
	for _, st := range sc.Stims {
		s.do(st)
	}
	s.finishAll(400)
	s.close()
	g.emit(s, sc.Gen)
}

// ---------- adaptive random generator ----------

type profile struct {
	Ws, Ls                                                []int
	steps, maxItems, prioRange                            int
	wEnq, wFin, wAdj, wDeq, wSetp, wEsub, wErecv, wResize int
	pAdjItem, pErr                                        float64
	burst                                                 bool // fill the queue first
	wSib                                                  int  // > 0: a sibling queue shares the option values; weight of resizing IT
	extreme                                               bool // priorities / adjust values / SetPriority arguments from the int extremes
}

// priorities at and next to the ends of the int range (differences overflow), and around zero
var extremes = []int{math.MinInt, math.MinInt + 1, -2, -1, 0, 1, math.MaxInt - 1, math.MaxInt}

func (p profile) prio(r *rand.Rand, lo, n int) int {
	if p.extreme && r.Intn(3) != 0 {
		return extremes[r.Intn(len(extremes))]
	}
	return lo + r.Intn(n)
}

func pick(r *rand.Rand, l []int) int { return l[r.Intn(len(l))] }

func (g *world) runRandom(p profile, gen string) {
	r := g.rng
	W0, L0 := pick(r, p.Ws), pick(r, p.Ls)
	opts := []Opt{{"w", W0}, {"l", L0}}
	if r.Intn(2) == 0 {
		opts = []Opt{{"l", L0}, {"w", W0}} // the configuration is the same whichever option comes first
	}
	s := newSessShared(opts, p.wSib > 0)
	nItems := 0
	nsub := 0
	nextErr := 0
	for k := 0; k < p.steps; k++ {
		running := s.runningItems()
		type cand struct {
			w  int
			op string
		}
		cs := []cand{}
		if nItems < p.maxItems && s.blockedProducers() < 3 {
			w := p.wEnq
			if p.burst && nItems < s.W*2+s.L+2 {
				w *= 6
			}
			cs = append(cs, cand{w, "enq"})
		}
		if len(running) > 0 {
			cs = append(cs, cand{p.wFin, "fin"})
		}
		if nItems > 0 {
			cs = append(cs, cand{p.wAdj, "adj"})
			if s.dispatcherIdle() {
				cs = append(cs, cand{p.wDeq, "deq"}, cand{p.wSetp, "setp"})
			}
		}
		cs = append(cs, cand{p.wEsub, "esub"}, cand{p.wResize, "resize"}, cand{p.wSib, "sib"})
		if nsub > 0 {
			cs = append(cs, cand{p.wErecv, "erecv"})
		}
		tot := 0
		for _, c := range cs {
			tot += c.w
		}
		if tot == 0 {
			break
		}
		x := r.Intn(tot)
		op := ""
		for _, c := range cs {
			if x < c.w {
				op = c.op
				break
			}
			x -= c.w
		}
		switch op {
		case "enq":
			s.do(Stim{Op: "enq", A: p.prio(r, 0, p.prioRange), B: nItems, Adj: r.Float64() < p.pAdjItem})
			nItems++
		case "fin":
			e := -1
			if r.Float64() < p.pErr {
				e = nextErr
				nextErr++
			}
			s.do(Stim{Op: "fin", A: running[r.Intn(len(running))], B: e})
		case "adj":
			// change one or several adjust functions at once (no quiescence needed in between, nothing reacts)
			n := 1 + r.Intn(3)
			for j := 0; j < n; j++ {
				s.do(Stim{Op: "adj", A: r.Intn(nItems), B: p.prio(r, -1, p.prioRange+2)})
			}
		case "deq":
			s.do(Stim{Op: "deq", A: r.Intn(nItems+1) - r.Intn(2)*0}) // nItems = an unknown id
		case "setp":
			s.do(Stim{Op: "setp", A: r.Intn(nItems + 1), B: p.prio(r, -1, p.prioRange+2)})
		case "esub":
			s.do(Stim{Op: "esub"})
			nsub++
		case "erecv":
			s.do(Stim{Op: "erecv", A: r.Intn(nsub)})
		case "resize":
			s.do(Stim{Op: "resize", A: 1 + r.Intn(6)})
		case "sib":
			s.do(Stim{Op: "sib", A: 1 + r.Intn(12)})
		}
		if s.unstable || s.hung {
			break
		}
	}
	s.finishAll(400)
	s.close()
	g.emit(s, gen)
}

func profileFor(prop, tier string) profile {
	p := profile{Ws: []int{1, 2, 3}, Ls: []int{1, 2, 3, 6}, steps: 30, maxItems: 14, prioRange: 4,
		wEnq: 10, wFin: 8, wAdj: 2, wDeq: 1, wSetp: 1, wEsub: 1, wErecv: 2, wResize: 1, pAdjItem: 0.3, pErr: 0.2, burst: true}
	switch prop {
	case "C05":
		p.Ws = []int{1, 2}
		p.wAdj, p.wDeq, p.wSetp, p.wEsub, p.wErecv, p.wResize, p.pErr = 5, 0, 1, 0, 0, 0, 0
		p.pAdjItem = 0.5
	case "C16":
		p.wDeq, p.wSetp, p.wAdj, p.wEsub, p.wErecv, p.wResize, p.pErr = 4, 4, 2, 0, 0, 0, 0
	case "C04":
		p.wAdj, p.wDeq, p.wSetp = 1, 1, 0
	case "C09":
		// work functions that return errors, without subscribers (variant 0) and with subscribers (variant 1): a worker
		// must hand its token back after a failing item too
		p.wResize, p.wAdj, p.wDeq, p.wSetp, p.wEsub, p.wErecv, p.pErr = 3, 0, 0, 0, 0, 0, 0.4
		p.wSib = 3
		p.Ws = []int{1, 2, 3, 4}
	case "C14":
		p.wEsub, p.wErecv, p.pErr, p.wAdj, p.wDeq, p.wSetp, p.wResize = 3, 8, 0.6, 0, 0, 0, 0
	}
	if tier == "thorough" {
		p.steps = 60
		p.maxItems = 24
		p.Ws = append(p.Ws, 4)
	}
	return p
}

// ---------- held adjust function: an arrival and a completion token compete at the dispatcher's select (C05) ----------
// One worker: item 0 executes, 1 sits in the worker channel, 2 (adjust function, held) and the next nWait items wait
// in the priority queue.  Batch: 0 completes -> the dispatcher consumes the token and parks inside item 2's adjust
// function; 1 completes (its token is pending, the worker is idle, the worker channel has room); a newcomer is
// enqueued (its producer waits at workChan); release.  The dispatcher hands out 2 and then finds BOTH the token and
// the arrival ready: Go's select picks either.  Whatever it picks, no waiting item may be overtaken by the newcomer
// unless the newcomer's priority entitles it to - the model (all interleavings) says exactly which start orders are
// allowed.  The choice is random, so the scenario is run many times.
func (g *world) runHeld(trial int) {
	r := g.rng
	nWait := 1 + trial%3
	L := 3 + nWait + r.Intn(3)
	opts := []Opt{{"w", 1}, {"l", L}}
	if trial%2 == 1 {
		opts = []Opt{{"l", L}, {"w", 1}}
	}
	s := newSessOpts(opts)
	s.do(Stim{Op: "enq", A: 1, B: 0})
	s.do(Stim{Op: "enq", A: 1, B: 1})
	s.do(Stim{Op: "enq", A: 1, B: 2, Adj: true})
	for i := 0; i < nWait; i++ {
		s.do(Stim{Op: "enq", A: 2 + r.Intn(2), B: 3 + i})
	}
	newPrio := 100
	if trial%4 == 3 {
		newPrio = 0 // a newcomer that is entitled to overtake if it arrives before the decision
	}
	s.do(Stim{Op: "batch", A: 2, Sub: []Stim{{Op: "fin", A: 0, B: -1}, {Op: "fin", A: 1, B: -1}, {Op: "enq", A: newPrio, B: 3 + nWait}}})
	s.finishAll(100)
	s.close()
	g.emit(s, "held-adjust")
}

// Two completion tokens pending at once (C05: "every waiting item's adjust function is consulted for EVERY decision").
// Two workers; items 0,1 execute, 2,3 sit in the worker channel, 4 (adjust function, worst priority, held), 5, 6, 7 wait.
// Batch: 0 completes -> the dispatcher consumes the token and parks in item 4's adjust function; 1 completes and 2
// (started meanwhile) completes: two tokens are pending when the dispatcher is released.  Three decisions follow, each
// must consult item 4: three consultations in the batch's observation, and 5, 6, 7 are handed out in that order.
func (g *world) runHeldTwoTokens(trial int) {
	L := 4 + trial%3
	opts := []Opt{{"w", 2}, {"l", L}}
	if trial%2 == 1 {
		opts = []Opt{{"l", L}, {"w", 2}}
	}
	s := newSessOpts(opts)
	for i := 0; i < 4; i++ {
		s.do(Stim{Op: "enq", A: 1, B: i})
	}
	s.do(Stim{Op: "enq", A: 9, B: 4, Adj: true})
	s.do(Stim{Op: "enq", A: 1 + trial%2, B: 5})
	s.do(Stim{Op: "enq", A: 2, B: 6})
	s.do(Stim{Op: "enq", A: 3, B: 7})
	s.do(Stim{Op: "batch", A: 4, Sub: []Stim{{Op: "fin", A: 0, B: -1}, {Op: "fin", A: 1, B: -1}, {Op: "fin", A: 2, B: -1}}})
	s.finishAll(100)
	s.close()
	g.emit(s, "held-adjust-two-tokens")
}

// A pending completion is served although producers keep arriving (C09, work conservation under load).
// One worker; 0 executes, 1 is handed off, 2 (adjust function, held) and 3 wait.  Batch: 0 completes -> the dispatcher
// takes the token and parks in item 2's adjust function; 1 completes: its token is pending and the worker is idle;
// K producers call Enqueue (priorities -1, -2, ... -K: each newcomer beats all earlier ones) and block at workChan.
// Release: 2 is handed out and started; now the pending token and K arrivals compete at the dispatcher's select.  Go
// chooses uniformly among the ready cases, so the token is served after j arrivals with probability 2^-(j+1); the item
// popped for it is the best present one, i.e. newcomer j (or item 3 for j = 0), and it is the next item to start.
// Returns true iff ALL K arrivals were served before the completion (probability 2^-K on the unchanged code).
const fairK = 16

func (g *world) runFairness(trial int) bool {
	opts := []Opt{{"w", 1}, {"l", fairK + 6}}
	if trial%2 == 1 {
		opts = []Opt{{"l", fairK + 6}, {"w", 1}}
	}
	s := newSessOpts(opts)
	s.do(Stim{Op: "enq", A: 1, B: 0})
	s.do(Stim{Op: "enq", A: 1, B: 1})
	s.do(Stim{Op: "enq", A: 1, B: 2, Adj: true})
	s.do(Stim{Op: "enq", A: 5, B: 3})
	sub := []Stim{{Op: "fin", A: 0, B: -1}, {Op: "fin", A: 1, B: -1}}
	for i := 0; i < fairK; i++ {
		sub = append(sub, Stim{Op: "enq", A: -(i + 1), B: 4 + i})
	}
	s.do(Stim{Op: "batch", A: 2, Sub: sub})
	o := s.do(Stim{Op: "fin", A: 2, B: -1})
	allFirst := len(o.Started) == 1 && o.Started[0] == 4+fairK-1
	s.finishAll(200)
	s.close()
	// not replayed in Coq: the model lets the dispatcher receive the blocked producers in ANY order (2^K subsets); the
	// clause is evaluated here, on the observation alone
	g.sessions++
	g.steps += len(s.steps)
	return allFirst
}

// Many error subscribers (C14): n channels, one failing item, every channel receives the error once, in turn.
func (g *world) runManySubscribers(n int) {
	s := newSessOpts([]Opt{{"l", 2}, {"w", 1}})
	for i := 0; i < n; i++ {
		s.do(Stim{Op: "esub"})
	}
	s.do(Stim{Op: "enq", A: 1, B: 0})
	s.do(Stim{Op: "enq", A: 1, B: 1})
	s.do(Stim{Op: "fin", A: 0, B: 0})
	for i := 0; i < n; i++ {
		s.do(Stim{Op: "erecv", A: i})
	}
	s.do(Stim{Op: "erecv", A: 0}) // nothing more
	s.finishAll(50)
	s.close()
	g.emit(s, fmt.Sprintf("subscribers-%d", n))
}

// ---------- configuration scripts: HOW the worker count and queue length are given (C09) ----------
// Each script builds the queue from an option list (either order, one option alone = the other at its default
// NumCPU / 2*NumCPU, repeated options, optionally ResizeQueueLength right after construction), fills it with gated
// work until two producers are blocked, completes three items and drains.  The expected W and L are computed in Coq.

type cfgScript struct {
	opts   []Opt
	resize int // > 0: ResizeQueueLength(resize) right after construction
	name   string
	sib    int // > 0: a sibling queue is built from the same option values and ITS length is resized to sib
}

func configScripts() []cfgScript {
	w := func(n int) Opt { return Opt{"w", n} }
	l := func(n int) Opt { return Opt{"l", n} }
	return []cfgScript{
		{[]Opt{w(2), l(1)}, 0, "workers-then-length", 0},
		{[]Opt{l(1), w(2)}, 0, "length-then-workers", 0},
		{[]Opt{l(20), w(2)}, 0, "long-length-then-workers", 0},
		{[]Opt{w(3), l(7)}, 0, "workers-then-length", 0},
		{[]Opt{l(7), w(3)}, 0, "length-then-workers", 0},
		{[]Opt{w(2)}, 0, "workers-only-default-length", 0},
		{[]Opt{l(1)}, 0, "length-only-default-workers", 0},
		{[]Opt{}, 0, "all-defaults", 0},
		{[]Opt{w(1), l(3), w(3)}, 0, "repeated-workers", 0},
		{[]Opt{l(5), w(2), l(1)}, 0, "repeated-length", 0},
		{[]Opt{l(3), w(1), l(2), w(2)}, 0, "repeated-both", 0},
		{[]Opt{l(1), w(2)}, 4, "resize-after-construction", 0},
		{[]Opt{w(2), l(6)}, 1, "resize-after-construction", 0},
		{[]Opt{w(2)}, 3, "resize-after-construction-default-length", 0},
		// one option value configures two queues: resizing the sibling must not move this queue's threshold
		{[]Opt{w(2), l(1)}, 0, "shared-options-sibling-grown", 20},
		{[]Opt{l(6), w(2)}, 0, "shared-options-sibling-shrunk", 1},
		{[]Opt{l(2), w(1)}, 4, "shared-options-both-resized", 9},
		{[]Opt{w(2)}, 0, "shared-options-default-length-sibling-resized", 3},
	}
}

func (g *world) runConfig(c cfgScript) {
	s := newSessShared(c.opts, c.sib > 0)
	if c.resize > 0 {
		s.do(Stim{Op: "resize", A: c.resize})
	}
	if c.sib > 0 {
		s.do(Stim{Op: "sib", A: c.sib})
	}
	n := 0
	for n < 130 && s.blockedProducers() < 2 && !s.hung && !s.unstable {
		s.do(Stim{Op: "enq", A: 1, B: n})
		n++
	}
	for k := 0; k < 3; k++ {
		if r := s.runningItems(); len(r) > 0 {
			s.do(Stim{Op: "fin", A: r[0], B: -1})
		}
	}
	s.finishAll(600)
	s.close()
	g.emit(s, "config-"+c.name)
}

// ---------- exhaustive small scope: every word over a small adaptive alphabet ----------

// symbols: a,b = Enqueue with priority 1,2; c = Enqueue with priority 1 and an adjust function;
// f = finish the oldest running item; g = finish the newest running item; u = make every adjust function return 0;
// d = Dequeue the newest unstarted item; p = SetPriority(newest unstarted item, 0)
// Returns the length of the longest prefix that denotes a script (len(word) if the whole word does).
func (g *world) runWord(W, L int, word string) int {
	wopts := []Opt{{"w", W}, {"l", L}}
	if len(word)%2 == 0 {
		wopts = []Opt{{"l", L}, {"w", W}}
	}
	s := newSessOpts(wopts)
	n := 0
	ok := true
	good := 0
	for _, c := range word {
		switch c {
		case 'a', 'b', 'c':
			pr := 1
			if c == 'b' {
				pr = 2
			}
			s.do(Stim{Op: "enq", A: pr, B: n, Adj: c == 'c'})
			n++
		case 'f', 'g', 'e':
			r := s.runningItems()
			if len(r) == 0 {
				ok = false
			} else if c == 'f' {
				s.do(Stim{Op: "fin", A: r[0], B: -1})
			} else if c == 'e' {
				s.do(Stim{Op: "fin", A: r[0], B: r[0]}) // the oldest running item returns an error (token = its index)
			} else {
				s.do(Stim{Op: "fin", A: r[len(r)-1], B: -1})
			}
		case 'u':
			any := false
			for _, it := range s.items {
				if it.adj && !it.started {
					s.do(Stim{Op: "adj", A: it.idx, B: 0})
					any = true
				}
			}
			ok = ok && any
		case 'd', 'p':
			u := s.unstarted()
			if len(u) == 0 || !s.dispatcherIdle() {
				ok = false
			} else if c == 'd' {
				s.do(Stim{Op: "deq", A: u[len(u)-1]})
			} else {
				s.do(Stim{Op: "setp", A: u[len(u)-1], B: 0})
			}
		}
		if !ok {
			break // the word does not denote a new script (its prefix is enumerated anyway)
		}
		good++
	}
	s.finishAll(400)
	s.close()
	if ok {
		g.emit(s, "exhaustive")
	}
	return good
}

func words(alpha string, n int, f func(string)) {
	var rec func(prefix string)
	rec = func(prefix string) {
		if len(prefix) == n {
			f(prefix)
			return
		}
		for _, c := range alpha {
			rec(prefix + string(c))
		}
	}
	rec("")
}

// ---------- corpus: the refutation witnesses of Findings/WQ.v and minimised past failures ----------

func enq(p, name int) Stim  { return Stim{Op: "enq", A: p, B: name} }
func enqA(p, name int) Stim { return Stim{Op: "enq", A: p, B: name, Adj: true} }
func fin(i int) Stim        { return Stim{Op: "fin", A: i, B: -1} }
func finE(i, e int) Stim    { return Stim{Op: "fin", A: i, B: e} }
func adjv(i, v int) Stim    { return Stim{Op: "adj", A: i, B: v} }
func deq(i int) Stim        { return Stim{Op: "deq", A: i} }
func setp(i, p int) Stim    { return Stim{Op: "setp", A: i, B: p} }

func corpus() []script {
	return []script{
		// F3: full-queue branch appends without sift-up: W=1, L=2, priorities 5,5,9,8,1,7,0 (9 starts before 1)
		{1, 2, []Stim{enq(5, 0), enq(5, 1), enq(9, 2), enq(8, 3), enq(1, 4), enq(7, 5), enq(0, 6),
			fin(0), fin(1)}, "corpus-F3"},
		// F4: equal priorities must start in arrival order
		{1, 6, []Stim{enq(1, 0), enq(1, 1), enq(1, 2), enq(1, 3), enq(1, 4), enq(1, 5), enq(1, 6), enq(1, 7)}, "corpus-F4"},
		// F5: two adjust functions change at once; every waiting adjust function is consulted for every decision
		// (heap [2,6,4]; 2->9 sinks below 4, which moves to the visited index 0 and is never asked for its new value 8)
		{1, 6, []Stim{enq(1, 0), enq(1, 1), enqA(2, 2), enqA(6, 3), enqA(4, 4), adjv(2, 9), adjv(4, 8), fin(0), fin(1)}, "corpus-F5"},
		// F6: Dequeue of a handed-off item must not remove a different waiting item
		{1, 3, []Stim{enq(1, 0), enq(1, 1), enq(1, 2), enq(1, 3), deq(1), fin(0)}, "corpus-F6-dequeue-handed-off"},
		// F6: SetPriority re-orders the queue
		{1, 6, []Stim{enq(1, 0), enq(1, 1), enq(2, 2), enq(3, 3), enq(4, 4), setp(4, 0), fin(0), fin(1)}, "corpus-F6-setpriority"},
		// F6: Dequeue / SetPriority of an executing item and of an unknown id
		{2, 2, []Stim{enq(1, 0), enq(1, 1), enq(1, 2), deq(0), setp(1, 5), deq(7), setp(7, 1)}, "corpus-F6-executing-unknown"},
		// a failing work function must give its worker's token back: 1 worker, two failing items, then two ordinary ones
		{1, 3, []Stim{enq(1, 0), enq(1, 1), enq(1, 2), enq(1, 3), finE(0, 0), finE(1, 1)}, "corpus-failing-items-keep-tokens"},
		// ... and a producer blocked on the full queue resumes when failing items complete (every item fails)
		{1, 1, []Stim{enq(1, 0), enq(1, 1), enq(1, 2), enq(1, 3), enq(1, 4), finE(0, 0), finE(1, 1), finE(2, 2), finE(3, 3), finE(4, 4)}, "corpus-failing-items-resume-producer"},
		// the same with an error subscriber that receives every error
		{1, 1, []Stim{{Op: "esub"}, enq(1, 0), enq(1, 1), enq(1, 2), enq(1, 3), finE(0, 0), {Op: "erecv", A: 0}, finE(1, 1), {Op: "erecv", A: 0}, finE(2, 2), {Op: "erecv", A: 0}}, "corpus-failing-items-subscriber"},
		// Dequeue / SetPriority after adjust functions changed value (the target's index moves when priorities are
		// re-evaluated): heap [2(p2,adj) 3(p3) 4(p4,adj)], item 2 now says 9
		{1, 6, []Stim{enq(1, 0), enq(1, 1), enqA(2, 2), enq(3, 3), enqA(4, 4), adjv(2, 9), deq(2), fin(0), fin(1)}, "corpus-dequeue-after-adjust-change"},
		{1, 6, []Stim{enq(1, 0), enq(1, 1), enqA(2, 2), enq(3, 3), enqA(4, 4), adjv(2, 9), adjv(4, 0), deq(3), fin(0), fin(1)}, "corpus-dequeue-other-after-adjust-change"},
		{1, 6, []Stim{enq(1, 0), enq(1, 1), enqA(2, 2), enq(3, 3), enq(5, 4), adjv(2, 9), setp(4, 0), fin(0), fin(1)}, "corpus-setpriority-after-adjust-change"},
		// Dequeue of waiting items, the queue drains, then new work arrives on the idle queue: it must start at once
		{1, 3, []Stim{enq(1, 0), enq(1, 1), enq(1, 2), enq(1, 3), deq(3), fin(0), fin(1), fin(2), enq(1, 4), fin(4), enq(1, 5)}, "corpus-dequeue-drain-enqueue"},
		{2, 2, []Stim{enq(1, 0), enq(1, 1), enq(1, 2), enq(1, 3), enq(1, 4), enq(1, 5), deq(4), deq(5), fin(0), fin(1), fin(2), fin(3), enq(1, 6), enq(1, 7), enq(1, 8)}, "corpus-dequeue-drain-enqueue"},
		// Dequeue frees queue length: after two dequeues two more arrivals fit without the full-queue branch
		{1, 2, []Stim{enq(1, 0), enq(1, 1), enq(1, 2), enq(1, 3), deq(2), deq(3), enq(1, 4), enq(1, 5), enq(1, 6), enq(1, 7)}, "corpus-dequeue-frees-length"},
		// several Dequeue calls on a heap whose array layout is not the sorted one (1 5 2 6 7 3): each removes exactly its
		// target, every other accepted item still runs
		{1, 8, []Stim{enq(0, 0), enq(0, 1), enq(1, 2), enq(5, 3), enq(2, 4), enq(6, 5), enq(7, 6), enq(3, 7), deq(5), deq(4), deq(6), fin(0), fin(1)}, "corpus-two-dequeues"},
		{2, 8, []Stim{enq(0, 0), enq(0, 1), enq(0, 2), enq(0, 3), enq(1, 4), enq(5, 5), enq(2, 6), enq(6, 7), enq(7, 8), enq(3, 9), setp(9, 0), deq(7), deq(6), fin(0), fin(1)}, "corpus-two-dequeues"},
		// explicit priority 0 (the zero value) is a priority like any other
		{1, 6, []Stim{enq(1, 0), enq(1, 1), enq(1, 2), enq(0, 3), enq(1, 4), enq(0, 5), fin(0), fin(1)}, "corpus-priority-zero"},
		// far more workers than items (and than CPUs)
		{64, 1, []Stim{enq(1, 0), enq(2, 1), enq(1, 2), enq(0, 3), enq(1, 4), fin(2), fin(0)}, "corpus-many-workers"},
		// priorities further apart than the int range: the order must not be computed from a difference
		{1, 6, []Stim{enq(0, 0), enq(0, 1), enq(math.MaxInt, 2), enq(-2, 3), enq(5, 4), enq(math.MinInt, 5), fin(0), fin(1)}, "corpus-extreme-priorities-enqueue"},
		{1, 6, []Stim{enq(0, 0), enq(0, 1), enqA(1, 2), enqA(2, 3), enq(3, 4), adjv(2, math.MaxInt), adjv(3, math.MinInt), fin(0), fin(1)}, "corpus-extreme-priorities-adjust"},
		{1, 6, []Stim{enq(0, 0), enq(0, 1), enq(1, 2), enq(2, 3), enq(-1, 4), setp(3, math.MinInt), setp(4, math.MaxInt), fin(0), fin(1)}, "corpus-extreme-priorities-setpriority"},
		// Errors() called again while an earlier error still waits for a subscriber that has not started reading: the
		// call returns, other work keeps completing, the first subscriber gets the error once, the late one nothing
		{1, 2, []Stim{{Op: "esub"}, enq(1, 0), enq(1, 1), enq(1, 2), finE(0, 0), {Op: "esub"}, fin(1), {Op: "erecv", A: 0}, {Op: "erecv", A: 1}, {Op: "erecv", A: 0}}, "corpus-subscribe-during-blocked-fanout"},
		{2, 1, []Stim{{Op: "esub"}, {Op: "esub"}, enq(1, 0), enq(1, 1), enq(1, 2), finE(0, 0), {Op: "erecv", A: 0}, {Op: "esub"}, finE(1, 1), fin(2), {Op: "erecv", A: 1}, {Op: "erecv", A: 0}, {Op: "erecv", A: 1}, {Op: "erecv", A: 2}}, "corpus-subscribe-mid-fanout"},
	}
}

// ---------- C19: scripts with Stop/Break run in child processes (a crash of the queue kills the process) ----------

type childIn struct {
	W, L    int
	Opts    []Opt  `json:"opts,omitempty"`
	NoDrain bool   `json:"no_drain,omitempty"` // the gated work is never released (nothing may finish after the shutdown: K5)
	Stimuli []Stim `json:"stimuli"`
}

// runChild executes the stimuli, then drains adaptively, appending every completed step to the output file as one JSON
// line (so that the parent still has the observations made before a crash).
func runChild(in, out string) {
	var ci childIn
	b, err := os.ReadFile(in)
	if err == nil {
		err = json.Unmarshal(b, &ci)
	}
	if err != nil {
		fmt.Fprintln(os.Stderr, "child:", err)
		os.Exit(2)
	}
	f, err := os.OpenFile(out, os.O_CREATE|os.O_WRONLY|os.O_TRUNC, 0o644)
	if err != nil {
		fmt.Fprintln(os.Stderr, "child:", err)
		os.Exit(2)
	}
	if len(ci.Opts) == 0 {
		ci.Opts = []Opt{{"w", ci.W}, {"l", ci.L}}
	}
	s := newSessOpts(ci.Opts)
	s.onStep = func(st Step) {
		j, _ := json.Marshal(st)
		f.Write(append(j, '\n'))
		f.Sync()
	}
	s.onIntent = func(st Stim) {
		j, _ := json.Marshal(map[string]any{"intent": st})
		f.Write(append(j, '\n'))
		f.Sync()
	}
	for _, st := range ci.Stimuli {
		s.do(st)
	}
	if !ci.NoDrain {
		s.finishAll(200)
	}
	if s.unstable {
		f.Write([]byte("{\"unstable\":true}\n"))
	}
	f.Close()
	os.Exit(0)
}

type crash struct {
	W, L    int
	Stimuli []Stim   `json:"stimuli"`
	Script  string   `json:"script"`
	Done    int      `json:"steps_completed"`
	Kind    string   `json:"kind"` // panic | hang | exit
	Panic   string   `json:"panic"`
	Frames  []string `json:"frames"`
	Sig     string   `json:"signature"`
	Stderr  string   `json:"stderr_tail"`
}

var frameRe = regexp.MustCompile(`workqueue\.\(\*Queue\)\.(\w+)`)
var panicRe = regexp.MustCompile(`(?m)^(panic: .*|fatal error: .*)$`)

// spawn runs one script in a child process and returns the steps it completed plus a crash record (nil if it exited 0).
func (g *world) spawn(self string, dir string, k int, W, L int, stims []Stim) ([]Step, *crash) {
	return g.spawnND(self, dir, k, W, L, stims, false)
}

func (g *world) spawnND(self string, dir string, k int, W, L int, stims []Stim, noDrain bool) ([]Step, *crash) {
	in := fmt.Sprintf("%s/child-%d.json", dir, k)
	out := fmt.Sprintf("%s/child-%d.jsonl", dir, k)
	b, _ := json.Marshal(childIn{W: W, L: L, Stimuli: stims, NoDrain: noDrain})
	os.WriteFile(in, b, 0o644)
	cmd := exec.Command(self, "-child", in, "-out", out)
	var errb strings.Builder
	cmd.Stderr = &errb
	cmd.Stdout = nil
	done := make(chan error, 1)
	cmd.Start()
	go func() { done <- cmd.Wait() }()
	var werr error
	hang := false
	select {
	case werr = <-done:
	case <-time.After(60 * time.Second): // generous watchdog: a script takes milliseconds
		cmd.Process.Kill()
		<-done
		hang = true
	}
	steps := []Step{}
	unstable := false
	var intent *Stim
	if ob, err := os.ReadFile(out); err == nil {
		for _, line := range strings.Split(string(ob), "\n") {
			if strings.HasPrefix(line, "{\"unstable\"") {
				unstable = true
				continue
			}
			if strings.HasPrefix(line, "{\"intent\"") {
				var it struct {
					Intent Stim `json:"intent"`
				}
				if json.Unmarshal([]byte(line), &it) == nil {
					intent = &it.Intent
				}
				continue
			}
			var st Step
			if line != "" && json.Unmarshal([]byte(line), &st) == nil {
				steps = append(steps, st)
				intent = nil
			}
		}
	}
	os.Remove(in)
	os.Remove(out)
	if werr == nil && !hang && !unstable {
		return steps, nil
	}
	sh := make([]string, len(stims))
	for i, st := range stims {
		sh[i] = short(st)
	}
	c := &crash{W: W, L: L, Stimuli: stims, Script: strings.Join(sh, " "), Done: len(steps)}
	se := errb.String()
	if len(se) > 1500 {
		c.Stderr = se[:1500]
	} else {
		c.Stderr = se
	}
	if intent != nil && !hang && !unstable {
		// the stimulus being processed when the process died: res 99 = "died here"; Coq checks that the model can panic here
		steps = append(steps, Step{*intent, Obs{Started: []int{}, Returned: []int{}, Items: [][3]int{}, Consulted: []int{}, Res: 99}})
	}
	switch {
	case hang || unstable:
		c.Kind = "hang"
		c.Sig = "crash:hang"
	default:
		c.Kind = "panic"
		if m := panicRe.FindString(se); m != "" {
			c.Panic = m
		} else {
			c.Kind = "exit"
			c.Panic = fmt.Sprint(werr)
		}
		seen := map[string]bool{}
		// frames of the panicking goroutine only (first goroutine block after the panic line)
		blk := se
		if i := strings.Index(blk, "\n\ngoroutine"); i >= 0 {
			blk = blk[i+2:]
			if j := strings.Index(blk, "\n\n"); j >= 0 {
				blk = blk[:j]
			}
		}
		for _, m := range frameRe.FindAllStringSubmatch(blk, -1) {
			if !seen[m[1]] {
				seen[m[1]] = true
				c.Frames = append(c.Frames, m[1])
			}
		}
		c.Sig = "crash:" + c.Panic + ":" + strings.Join(c.Frames, ",")
	}
	return steps, c
}

// emitSteps turns the steps of a child run into a case (same rendering as emit).
func (g *world) emitSteps(W, L int, steps []Step, gen string, extra []string) {
	s := &sess{W: W, L: L, steps: steps}
	for _, st := range steps {
		if st.S.Op == "enq" {
			s.items = append(s.items, &item{idx: len(s.items), prio: st.S.A})
		}
	}
	before := len(g.w.Cases)
	g.emit(s, gen)
	if len(g.w.Cases) > before {
		c := &g.w.Cases[len(g.w.Cases)-1]
		c.Tags = append(c.Tags, extra...)
		c.Trivial = false
	}
}

func (g *world) runC19(tier, dir string) (map[string]any, []crash) {
	self, _ := os.Executable()
	os.MkdirAll(dir, 0o755)
	crashes := []crash{}
	k := 0
	nChildren := 0
	// workloads: n items of equal priority (so they start in arrival order), finished in that order; some return errors;
	// optionally one error subscriber; Stop or Break injected at every position; then two more Enqueue calls
	type wl struct {
		W, L, n int
		errAt   int // item that returns an error (-1 none)
		sub     bool
	}
	wls := []wl{{1, 1, 0, -1, false}, {1, 1, 1, -1, false}, {1, 1, 4, -1, false}, {2, 2, 3, -1, false}, {2, 1, 6, -1, false}, {1, 2, 3, 1, true}}
	if tier == "thorough" {
		wls = append(wls, wl{2, 2, 7, -1, false}, wl{3, 1, 6, 2, true}, wl{1, 3, 6, -1, false}, wl{3, 3, 9, 4, false}, wl{2, 1, 5, 0, true})
	}
	for _, w := range wls {
		base := []Stim{}
		if w.sub {
			base = append(base, Stim{Op: "esub"})
		}
		for i := 0; i < w.n; i++ {
			base = append(base, Stim{Op: "enq", A: 1, B: i})
		}
		for i := 0; i < w.n; i++ {
			e := -1
			if i == w.errAt {
				e = 0
			}
			base = append(base, Stim{Op: "fin", A: i, B: e})
			if i == w.errAt && w.sub {
				base = append(base, Stim{Op: "erecv", A: 0})
			}
		}
		for _, op := range []string{"stop", "break"} {
			for pos := 0; pos <= len(base); pos++ {
				stims := append([]Stim{}, base[:pos]...)
				stims = append(stims, Stim{Op: op})
				// completions scripted after the injection point are left to the adaptive drain (they may not be
				// enabled any more); Enqueue calls after it are kept: they must return and never run
				nEnq := 0
				for _, st := range base[:pos] {
					if st.Op == "enq" {
						nEnq++
					}
				}
				for _, st := range base[pos:] {
					if st.Op == "enq" {
						st.B = nEnq
						nEnq++
						stims = append(stims, st)
					}
				}
				stims = append(stims, Stim{Op: "enq", A: 1, B: nEnq})
				steps, c := g.spawn(self, dir, k, w.W, w.L, stims)
				k++
				nChildren++
				tag := "no-crash"
				if c != nil {
					crashes = append(crashes, *c)
					tag = "child-" + c.Kind
				}
				if len(steps) > 0 {
					g.emitSteps(w.W, w.L, steps, "inject-"+op, []string{tag})
				}
			}
		}
	}
	// shutdown sequences: Stop then Break (escalation), Break then Stop, repeated Stop / Break - on an idle queue, with all
	// workers executing, and with the worker channel full and items waiting.  The gated work is never released, so
	// nothing finishes after the shutdown (the regime in which the unchanged code does not crash); every call must
	// return (hang detector of the scripted harness), nothing waiting may start after Break, a later Enqueue returns.
	nSeq := 0
	for _, W := range []int{1, 2} {
		for _, fill := range []int{0, W, 2 * W, 2*W + 1, 2*W + 2} {
			for _, seq := range [][]string{{"stop", "break"}, {"break", "stop"}, {"stop", "stop"}, {"break", "break"}, {"stop", "break", "stop"}} {
				stims := []Stim{}
				for i := 0; i < fill; i++ {
					stims = append(stims, Stim{Op: "enq", A: 1, B: i})
				}
				for _, op := range seq {
					stims = append(stims, Stim{Op: op})
				}
				stims = append(stims, Stim{Op: "enq", A: 1, B: fill})
				steps, c := g.spawnND(self, dir, k, W, 3, stims, true)
				k++
				nChildren++
				nSeq++
				tag := "no-crash"
				if c != nil {
					crashes = append(crashes, *c)
					tag = "child-" + c.Kind
				}
				if len(steps) > 0 {
					g.emitSteps(W, 3, steps, "shutdown-sequence-"+strings.Join(seq, "-"), []string{tag})
				}
			}
		}
	}
	g.w.Extra["shutdown_sequences"] = nSeq
	ntr, bfails, bcrashes := g.runBursts(self, dir, tier)
	crashes = append(crashes, bcrashes...)
	g.w.Extra["burst_failures"] = bfails
	g.w.Extra["burst_trials"] = ntr
	scope := map[string]any{"children": nChildren, "crashed_children": len(crashes),
		"workloads": fmt.Sprintf("%d workloads (W,L,n items, optional error + subscriber) x {Stop,Break} injected at every position, followed by the remaining Enqueue calls + 1 and an adaptive drain", len(wls)),
		"bursts":    fmt.Sprintf("%d trials: n in 1..6 Enqueue calls of never-returning work from one goroutine, immediately Stop (no quiescence in between), W in n..n+2, L in {1,2,n,2n}; then one Enqueue after Stop", ntr)}
	return scope, crashes
}

// ---------- C19: a burst of Enqueue calls immediately followed by Stop (no quiescence in between) ----------
// Regime in which the unchanged code is deterministic and outside known finding K5: the work functions never return,
// there are at least as many workers as items, the producer is a single goroutine whose calls have all returned before
// Stop.  Each returned Enqueue has handed its item to the dispatcher, which passes it straight to the worker channel
// (nothing is waiting, the channel has room) before it looks at the cancellation; workers drain a closed channel.  So
// every item accepted before Stop starts exactly once; nothing ever finishes, so nothing is sent on a closed channel.

type burstCfg struct {
	W, L, N int
	First   string `json:"first,omitempty"` // "stop" / "break": that call is the VERY FIRST call on the fresh queue (N = 0)
}
type burstRes struct {
	Cfg          burstCfg `json:"cfg"`
	Trial        int      `json:"trial"`
	Starts       []int64  `json:"starts"`        // how often each item's work function was called
	EnqueueHang  bool     `json:"enqueue_hang"`  // a call before Stop did not return within the bound
	LateReturned bool     `json:"late_returned"` // Enqueue after Stop returned
	LateRan      bool     `json:"late_ran"`
	Unstable     bool     `json:"unstable"`
}

func runBurstChild(in, out string) {
	var cfgs []burstCfg
	b, err := os.ReadFile(in)
	if err == nil {
		err = json.Unmarshal(b, &cfgs)
	}
	if err != nil {
		fmt.Fprintln(os.Stderr, "burst child:", err)
		os.Exit(2)
	}
	f, _ := os.OpenFile(out, os.O_CREATE|os.O_WRONLY|os.O_TRUNC, 0o644)
	never := make(chan struct{})
	for trial, c := range cfgs {
		r := burstRes{Cfg: c, Trial: trial}
		bo := []workqueue.WorkQueueOption{workqueue.WithWorkers(c.W), workqueue.WithQueueLength(c.L)}
		if trial%2 == 1 {
			bo[0], bo[1] = bo[1], bo[0]
		}
		if ij, err := json.Marshal(map[string]any{"intent": c, "trial": trial}); err == nil {
			f.Write(append(ij, '\n')) // what is being tried, should the process die in this trial
			f.Sync()
		}
		q := workqueue.NewQueue(bo...)
		if c.First == "stop" {
			q.Stop() // no yield between NewQueue and the call: the dispatcher goroutine may not have run yet
		} else if c.First == "break" {
			q.Break()
		}
		starts := make([]atomic.Int64, c.N)
		done := make(chan struct{})
		go func() {
			for i := 0; i < c.N; i++ {
				i := i
				q.Enqueue(func() error { starts[i].Add(1); <-never; return nil }, workqueue.WithName(strconv.Itoa(i)))
			}
			if c.First == "" {
				q.Stop() // immediately after the last accepted call, same goroutine
			}
			close(done)
		}()
		select {
		case <-done:
		case <-time.After(20 * time.Second): // generous: the burst takes microseconds
			r.EnqueueHang = true
		}
		if !quiesce() {
			r.Unstable = true
		}
		for i := range starts {
			r.Starts = append(r.Starts, starts[i].Load())
		}
		if !r.EnqueueHang {
			var late atomic.Int64
			var ret atomic.Bool
			go func() {
				q.Enqueue(func() error { late.Add(1); <-never; return nil })
				ret.Store(true)
			}()
			if !quiesce() {
				r.Unstable = true
			}
			r.LateReturned = ret.Load()
			r.LateRan = late.Load() > 0
		}
		j, _ := json.Marshal(r)
		f.Write(append(j, '\n'))
		f.Sync()
	}
	f.Close()
	os.Exit(0)
}

type burstFailure struct {
	Clause string   `json:"clause"`
	Detail string   `json:"detail"`
	Res    burstRes `json:"trial"`
	Sig    string   `json:"signature"`
}

// runBursts spawns children that each run a batch of burst trials; returns (#trials, failures, crashes).
func (g *world) runBursts(self, dir string, tier string) (int, []burstFailure, []crash) {
	fails := []burstFailure{}
	crashes := []crash{}
	batches, per := 8, 25
	if tier == "thorough" {
		batches = 40
	}
	trials := 0
	for bi := 0; bi < batches; bi++ {
		cfgs := []burstCfg{}
		for k := 0; k < per; k++ {
			n := 1 + g.rng.Intn(6)
			Ls := []int{1, 2, n, 2 * n}
			cfgs = append(cfgs, burstCfg{W: n + g.rng.Intn(3), L: Ls[g.rng.Intn(len(Ls))], N: n})
		}
		// Stop / Break as the very first call on a fresh queue: a later Enqueue is refused without panic, nothing runs
		for k := 0; k < per; k++ {
			first := "stop"
			if k%2 == 1 {
				first = "break"
			}
			cfgs = append(cfgs, burstCfg{W: 1 + k%3, L: 1 + k%2, N: 0, First: first})
		}
		in := fmt.Sprintf("%s/burst-%d.json", dir, bi)
		out := fmt.Sprintf("%s/burst-%d.jsonl", dir, bi)
		b, _ := json.Marshal(cfgs)
		os.WriteFile(in, b, 0o644)
		cmd := exec.Command(self, "-burst", in, "-out", out)
		var errb strings.Builder
		cmd.Stderr = &errb
		done := make(chan error, 1)
		cmd.Start()
		go func() { done <- cmd.Wait() }()
		var werr error
		hang := false
		select {
		case werr = <-done:
		case <-time.After(600 * time.Second):
			cmd.Process.Kill()
			<-done
			hang = true
		}
		n := 0
		var lastIntent string
		if ob, err := os.ReadFile(out); err == nil {
			for _, line := range strings.Split(string(ob), "\n") {
				if strings.HasPrefix(line, "{\"intent\"") {
					lastIntent = line
					continue
				}
				var r burstRes
				if line == "" || json.Unmarshal([]byte(line), &r) != nil {
					continue
				}
				n++
				add := func(clause, detail string) {
					fails = append(fails, burstFailure{clause, detail, r, "burst:" + clause})
				}
				if r.Unstable {
					continue // the machine did not settle within the bound: the trial says nothing
				}
				if r.EnqueueHang {
					add("enqueue-hang", "an Enqueue call made before Stop did not return within 20 s")
					continue
				}
				for i, c := range r.Starts {
					if c == 0 {
						add("accepted-work-lost", fmt.Sprintf("item %d: Enqueue returned before Stop, its work function was never called (W=%d idle workers, L=%d, %d items)", i, r.Cfg.W, r.Cfg.L, r.Cfg.N))
						break
					}
					if c > 1 {
						add("accepted-work-twice", fmt.Sprintf("item %d ran %d times", i, c))
						break
					}
				}
				if !r.LateReturned {
					add("late-enqueue-hang", "Enqueue after Stop did not return")
				}
				if r.LateRan {
					add("late-work-ran", "work submitted after Stop was run")
				}
			}
		}
		trials += n
		os.Remove(in)
		os.Remove(out)
		if werr != nil || hang {
			se := errb.String()
			c := crash{Script: fmt.Sprintf("burst batch %d (%d trials completed); the process died in trial %s (first = Stop/Break as the very first call on the fresh queue, then one Enqueue; N = Enqueue calls before Stop)", bi, n, lastIntent), Done: n, Kind: "panic", Stderr: se}
			if len(se) > 1500 {
				c.Stderr = se[:1500]
			}
			if hang {
				c.Kind, c.Sig = "hang", "crash:hang"
			} else {
				c.Panic = panicRe.FindString(se)
				c.Sig = "crash-burst:" + c.Panic
			}
			crashes = append(crashes, c)
		}
		if len(fails) >= 20 {
			break
		}
	}
	return trials, fails, crashes
}

// Sessions whose work never completes cannot be shut down safely and leave their goroutines blocked; that only
// happens when the queue under test loses work (each such session is itself a failing case).  Beyond a bound the stack
// snapshots of the quiescence detector become slow, so script generation stops: the evidence is already there.
var leakTruncated bool

func tooManyLeaks() bool {
	if runtime.NumGoroutine() > 1500 {
		leakTruncated = true
	}
	return leakTruncated
}

// ---------- main ----------

func main() {
	seed := flag.Int64("seed", 1, "")
	tier := flag.String("tier", "quick", "")
	out := flag.String("out", "out", "")
	prop := flag.String("prop", "WQ", "property whose generator profile and non-triviality rule apply")
	module := flag.String("module", "", "Coq module defining case/mismatches (default Corr<prop>)")
	rerun := flag.String("rerun", "", "JSON file with a list of {W,L,stimuli}: run each -times times, nothing else")
	times := flag.Int("times", 3, "")
	nrandom := flag.Int("random", -1, "number of random scripts (default by tier)")
	child := flag.String("child", "", "run the script in this file (child-process mode of -prop C19)")
	burst := flag.String("burst", "", "run the burst trials in this file (child-process mode of -prop C19)")
	flag.Parse()
	if *child != "" {
		runChild(*child, *out)
		return
	}
	if *burst != "" {
		runBurstChild(*burst, *out)
		return
	}
	if *module == "" {
		*module = "Corr" + *prop
	}
	os.MkdirAll(*out, 0o755)
	progressPath = *out + "/progress.json"
	g := &world{w: cw.New(*out, *module), rng: rand.New(rand.NewSource(*seed)), prop: *prop}
	g.w.Chunk = 50
	t0 := time.Now()
	scope := map[string]any{}

	if *rerun != "" {
		var scs []struct {
			W, L    int
			Opts    []Opt  `json:"opts"`
			Sibling bool   `json:"sibling"`
			Stimuli []Stim `json:"stimuli"`
		}
		b, err := os.ReadFile(*rerun)
		if err == nil {
			err = json.Unmarshal(b, &scs)
		}
		if err != nil {
			fmt.Fprintln(os.Stderr, "rerun:", err)
			os.Exit(2)
		}
		for i, sc := range scs {
			for k := 0; k < *times; k++ {
				if len(sc.Opts) == 0 {
					sc.Opts = []Opt{{"w", sc.W}, {"l", sc.L}}
				}
				s := newSessShared(sc.Opts, sc.Sibling)
				for _, st := range sc.Stimuli {
					s.do(st)
				}
				s.close()
				before := len(g.w.Cases)
				g.emit(s, fmt.Sprintf("rerun-%d", i))
				if len(g.w.Cases) > before {
					g.w.Cases[len(g.w.Cases)-1].Key = fmt.Sprintf("rerun-%d-%d", i, k)
				}
			}
		}
	} else if *prop == "C19" {
		sc, crashes := g.runC19(*tier, *out+"-children")
		for kk, v := range sc {
			scope[kk] = v
		}
		g.w.Extra["crashes"] = crashes
	} else {
		// 1. corpus
		for _, sc := range corpus() {
			g.runFixed(sc)
		}
		if *prop == "C05" {
			nh := 24
			if *tier == "thorough" {
				nh = 200
			}
			for i := 0; i < nh; i++ {
				if i%3 == 2 {
					g.runHeldTwoTokens(i)
				} else {
					g.runHeld(i)
				}
			}
			scope["held-adjust"] = fmt.Sprintf("%d runs of the held-adjust-function scenario (W=1; an arrival and a completion token become ready together while the dispatcher is parked in an adjust function)", nh)
		}
		if *prop == "C14" {
			ns := []int{8, 9, 17}
			if *tier == "thorough" {
				ns = []int{7, 8, 9, 16, 17, 33, 64, 65, 100}
			}
			for _, n := range ns {
				g.runManySubscribers(n)
			}
			scope["subscribers"] = fmt.Sprintf("scripts with %v error subscribers (one failing item, every channel read in turn)", ns)
		}
		if *prop == "C09" {
			nf, starved := 6, 0
			for i := 0; i < nf; i++ {
				if g.runFairness(i) {
					starved++
				}
			}
			scope["arrivals-vs-completion"] = fmt.Sprintf("%d trials: a completion token and %d blocked producers compete at the dispatcher; in %d trials all arrivals were served first", nf, fairK, starved)
			if starved >= 2 {
				g.w.Extra["burst_failures"] = []burstFailure{{Clause: "completion-starved-by-arrivals",
					Detail: fmt.Sprintf("in %d of %d trials the dispatcher served all %d pending arrivals before the pending worker-done signal (worker idle, item waiting); on the unchanged code each such trial has probability 2^-%d", starved, nf, fairK, fairK),
					Res:    burstRes{Cfg: burstCfg{W: 1, L: fairK + 6, N: fairK}, Trial: starved},
					Sig:    "fairness:completion-starved-by-arrivals"}}
			}
			for _, c := range configScripts() {
				g.runConfig(c)
			}
			scope["configuration"] = fmt.Sprintf("%d scripts over NewQueue option lists (both orders, single options with the other at its default for NumCPU=%d, repeated options, ResizeQueueLength right after construction), each filling the queue until 2 producers block", len(configScripts()), runtime.NumCPU())
		}
		// 2. exhaustive small scope
		alpha, n := "abf", 6
		Ws, Ls := []int{1, 2}, []int{1, 2}
		switch *prop {
		case "C05":
			alpha, n = "abcfu", 4
		case "C16":
			alpha, n = "abfdp", 5
		case "C09":
			alpha, n = "abfe", 5
		case "C04":
			alpha, n = "abfg", 5
		}
		if *tier == "thorough" {
			n += 1
			Ls = []int{1, 2, 3}
		}
		cnt := 0
		for _, W := range Ws {
			for _, L := range Ls {
				dead := map[string]bool{} // prefixes that do not denote a script (e.g. "finish" with nothing running)
				for k := 1; k <= n; k++ {
					words(alpha, k, func(w string) {
						for j := 1; j <= len(w); j++ {
							if dead[w[:j]] {
								return
							}
						}
						if tooManyLeaks() {
							return
						}
						if good := g.runWord(W, L, w); good == len(w) {
							cnt++
						} else {
							dead[w[:good+1]] = true
						}
					})
				}
			}
		}
		scope["exhaustive"] = fmt.Sprintf("every word of length <= %d over {%s} for W in %v, L in %v: %d scripts", n, alpha, Ws, Ls, cnt)
		// 3. structured random
		nr := *nrandom
		if nr < 0 {
			nr = 120
			if *tier == "thorough" {
				nr = 1500
			}
		}
		p := profileFor(*prop, *tier)
		for i := 0; i < nr && !tooManyLeaks(); i++ {
			q := p
			gen := "random"
			if *prop == "C09" && i%3 == 1 {
				q.wEsub, q.wErecv = 1, 6
				gen = "random-subscribers"
			}
			if *prop == "C09" && i%3 == 2 {
				q.pErr = 0
				gen = "random-no-errors"
				if i%2 == 0 {
					// items taken out of the priority queue by Dequeue: the dispatcher's view of the queue must follow
					q.wDeq = 4
					gen = "random-dequeue"
				}
			}
			if (*prop == "C05" && i%3 == 1) || (*prop == "C16" && i%4 == 2) {
				// priorities, adjust values and SetPriority arguments at the ends of the int range
				q.extreme = true
				gen = "random-extreme-priorities"
			}
			if *prop == "C04" && i%3 == 1 {
				// Dequeue-bearing scripts without errors/subscribers: every accepted item that is not dequeued must run
				q.wDeq, q.wAdj, q.wSetp, q.pErr, q.wEsub, q.wErecv = 6, 2, 2, 0, 0, 0
				q.Ls = []int{3, 6, 8}
				gen = "random-dequeue"
			}
			if *prop == "C16" && i%2 == 1 {
				// adjust functions that change value between Enqueue and the Dequeue/SetPriority call
				q.wAdj, q.pAdjItem = 8, 0.6
				gen = "random-adjust"
			}
			g.runRandom(q, gen)
		}
		scope["random"] = fmt.Sprintf("%d adaptive random scripts of <= %d stimuli (+ drain), W in %v, L in %v, <= %d items, priorities 0..%d", nr, p.steps, p.Ws, p.Ls, p.maxItems, p.prioRange-1)
	}
	g.w.Extra["scope"] = scope
	g.w.Extra["sessions"] = g.sessions
	g.w.Extra["stimuli_executed"] = g.steps
	g.w.Extra["unstable_runs_dropped"] = g.unstable
	g.w.Extra["quiescence_waits"] = quiesceCalls
	g.w.Extra["stack_snapshots"] = quiesceSnaps
	g.w.Extra["goroutines_at_end"] = runtime.NumGoroutine()
	g.w.Extra["generation_truncated_by_leaked_goroutines"] = leakTruncated
	g.w.Extra["harness_wall_s"] = time.Since(t0).Seconds()
	if err := g.w.Flush(); err != nil {
		fmt.Fprintln(os.Stderr, err)
		os.Exit(2)
	}
	fmt.Fprintf(os.Stderr, "wqscript: %d cases, %d stimuli, %d unstable, %.1fs\n", len(g.w.Cases), g.steps, g.unstable, time.Since(t0).Seconds())
}
