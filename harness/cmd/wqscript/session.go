// Scripted harness for the work queue (C04, C05, C09, C14, C16, C19): one stimulus at a time on the REAL
// queue from $VERIF_REPO, quiescence detection by parsing runtime.Stack(all), projected observations.
package main

import (
	"encoding/json"
	"fmt"
	"os"
	"regexp"
	"runtime"
	"sort"
	"strconv"
	"strings"
	"sync/atomic"
	"time"

	"github.com/google/uuid"
	"github.com/rbell/toolchest/workqueue"
	"verifharness/internal/werr"
)

// Stim is one stimulus = one environment label of Model/WQ.v.
//
//	enq    A=priority Adj=has adjust function (name = index of the item)
//	fin    A=item B=error token (-1 = nil)
//	deq    A=item            setp A=item B=priority
//	esub                     erecv A=subscriber
//	resize A=length          stop / break
//	adj    A=item B=value the adjust function returns from now on
//	batch  A=item whose adjust function is HELD (blocks when consulted) while the stimuli Sub are given one after the
//	       other (quiescence in between, no observation), then released; one observation for the whole batch
type Stim struct {
	Op  string `json:"op"`
	A   int    `json:"a"`
	B   int    `json:"b"`
	Adj bool   `json:"adj,omitempty"`
	Sub []Stim `json:"sub,omitempty"`
}

// Obs is the projected observation after the queue has become quiescent.
type Obs struct {
	Started   []int    `json:"started"`   // items whose work function started since the previous stimulus (sorted)
	Returned  []int    `json:"returned"`  // items whose Enqueue call returned since the previous stimulus (sorted)
	Items     [][3]int `json:"items"`     // WorkItems(): (name, priority, state 0 queued / 1 in progress), sorted by name
	Consulted []int    `json:"consulted"` // adjust functions consulted since the previous stimulus (sorted, with multiplicity)
	Res       int      `json:"res"`       // deq/setp: 0 nil 1 error 2 panic; erecv: token (>= 0), -1 nothing, -2 nil, -3 foreign value; any call: -9 never returned
	Note      string   `json:"note,omitempty"`
}

type Step struct {
	S Stim `json:"s"`
	O Obs  `json:"o"`
}

type item struct {
	idx      int
	prio     int
	adj      bool
	gate     chan int
	adjVal   atomic.Int64
	consults atomic.Int64
	seenCons int64
	returned atomic.Bool
	seenRet  bool
	id       uuid.UUID
	started  bool
	released bool
	runs     atomic.Int64
	hold     atomic.Bool   // the adjust function blocks on release when consulted
	release  chan struct{} // closed to let a held adjust function return
}

type sess struct {
	W, L     int
	q        *workqueue.Queue
	items    []*item
	startCh  chan int
	subs     []chan error
	errs     *werr.Store // the error values work functions return, of every dynamic kind (token k -> value)
	steps    []Step
	unstable bool   // a quiescence wait timed out: the run says nothing
	dispID   string // goroutine id of this queue's dispatcher
	onStep   func(Step)
	opts     []Opt            // the NewQueue options, in the order they were passed
	sib      *workqueue.Queue // a second queue built from the same option values (nil: none)
	hadSib   bool
	hung     bool // a synchronous call of the script never returned: the script ends there
	inBatch  bool // inside a batch stimulus: act and wait for quiescence, but do not observe or record
	onIntent func(Stim)
	stopped  bool
}

// progressPath: file that always holds the script (so far) of the session in progress
var progressPath string

var hdrRe = regexp.MustCompile(`^goroutine (\d+) \[([^\],]+)`)

// snapshot returns a canonical description of all goroutines but the caller and whether all are blocked.
// dispState[id] = wait state of every goroutine running workqueue.(*Queue).start itself (the dispatcher)
var dispState = map[string]string{}

func snapshot(buf []byte) (string, bool, []byte) {
	for k := range dispState {
		delete(dispState, k)
	}
	for {
		n := runtime.Stack(buf, true)
		if n < len(buf) {
			buf = buf[:n]
			break
		}
		buf = make([]byte, 2*len(buf))
	}
	blocks := strings.Split(string(buf), "\n\n")
	var sb strings.Builder
	all := true
	for i, b := range blocks {
		if i == 0 {
			continue // the calling goroutine comes first
		}
		m := hdrRe.FindStringSubmatch(b)
		if m == nil {
			continue
		}
		st := m[2]
		blocked := strings.HasPrefix(st, "chan receive") || strings.HasPrefix(st, "chan send") ||
			strings.HasPrefix(st, "select") || strings.HasPrefix(st, "semacquire") ||
			strings.HasPrefix(st, "sync.") || st == "sleep"
		if !blocked {
			all = false
		}
		if strings.Contains(b, "workqueue.(*Queue).start(") {
			dispState[m[1]] = st
		}
		sb.WriteString(m[1])
		sb.WriteByte(':')
		sb.WriteString(st)
		// function on top of the stack (no line numbers)
		if k := strings.Index(b, "\n"); k >= 0 {
			rest := b[k+1:]
			if e := strings.Index(rest, "\n"); e >= 0 {
				rest = rest[:e]
			}
			if p := strings.Index(rest, "("); p >= 0 {
				rest = rest[:p]
			}
			sb.WriteString(rest)
		}
		sb.WriteByte(';')
	}
	return sb.String(), all, buf[:cap(buf)]
}

var stackBuf = make([]byte, 1<<16)
var quiesceCalls, quiesceSnaps int

// quiesce waits until every other goroutine is blocked and two consecutive snapshots agree.
func quiesce() bool {
	quiesceCalls++
	deadline := time.Now().Add(20 * time.Second)
	prev := ""
	spins := 0
	for {
		runtime.Gosched()
		var s string
		var ok bool
		s, ok, stackBuf = snapshot(stackBuf)
		quiesceSnaps++
		if ok && s == prev {
			return true
		}
		if ok {
			prev = s
		} else {
			prev = ""
		}
		if time.Now().After(deadline) {
			return false
		}
		spins++
		if spins < 400 {
			for i := 0; i < 20; i++ {
				runtime.Gosched()
			}
		} else {
			time.Sleep(100 * time.Microsecond) // a long wait: stop burning a CPU
		}
	}
}

// Opt is one NewQueue option: K = "w" (WithWorkers) or "l" (WithQueueLength); the list is passed in order.
type Opt struct {
	K string `json:"k"`
	N int    `json:"n"`
}

// effectiveCfg is the harness' own reading of an option list (defaults NumCPU / 2*NumCPU, last one wins).  It only
// steers the generators (how many items fill the queue); the expectation the observations are compared with is
// computed in Coq from the option list (Model/WQ.v effective).
func effectiveCfg(opts []Opt) (int, int) {
	W, L := runtime.NumCPU(), 2*runtime.NumCPU()
	for _, o := range opts {
		if o.K == "w" {
			W = o.N
		} else {
			L = o.N
		}
	}
	return W, L
}

func newSess(W, L int) *sess { return newSessOpts([]Opt{{"w", W}, {"l", L}}) }

func newSessOpts(opts []Opt) *sess { return newSessShared(opts, false) }

// newSessShared: with sibling = true a second queue is built FROM THE SAME OPTION VALUES (the same slice of
// WorkQueueOption) before the queue under test: an option value is a description that may configure any number of
// queues, which must stay independent (a "sib" stimulus resizes the sibling; nothing may change here).
func newSessShared(opts []Opt, sibling bool) *sess {
	W, L := effectiveCfg(opts)
	s := &sess{W: W, L: L, opts: opts, startCh: make(chan int, 4096), errs: werr.NewStore()}
	quiesce()
	old := map[string]bool{}
	for id := range dispState {
		old[id] = true
	}
	qo := make([]workqueue.WorkQueueOption, len(opts))
	for i, o := range opts {
		if o.K == "w" {
			qo[i] = workqueue.WithWorkers(o.N)
		} else {
			qo[i] = workqueue.WithQueueLength(o.N)
		}
	}
	if sibling {
		s.hadSib = true
		s.sib = workqueue.NewQueue(qo...)
		quiesce()
		for id := range dispState {
			old[id] = true
		}
	}
	s.q = workqueue.NewQueue(qo...)
	if !quiesce() {
		s.unstable = true
	}
	for id := range dispState {
		if !old[id] {
			s.dispID = id
		}
	}
	return s
}

// prioOption returns ONE option value per priority and session, reused for every Enqueue with that priority (an
// Enqueue option is a description too).
func mkOptCache[T any](_ T) map[int]T { return map[int]T{} }

var prioOptions = mkOptCache(workqueue.WithPriority(0))

// dispatcherIdle reports whether this queue's dispatcher goroutine is parked at its select (valid right after a
// quiescence wait).  Dequeue and SetPriority are specified for that situation only (C16).
func (s *sess) dispatcherIdle() bool {
	return strings.HasPrefix(dispState[s.dispID], "select")
}

func (s *sess) uuidOf(i int) (uuid.UUID, bool) {
	if i < 0 || i >= len(s.items) {
		return uuid.New(), false // an id the queue has never seen
	}
	it := s.items[i]
	if it.returned.Load() {
		return it.id, true
	}
	// Enqueue still blocked: the id is visible through WorkItems() (name = index)
	for _, w := range s.q.WorkItems() {
		if w.Name() == strconv.Itoa(i) {
			if u, err := uuid.Parse(w.Id()); err == nil {
				return u, true
			}
		}
	}
	return uuid.New(), false
}

// call runs one synchronous API call of the queue in its own goroutine and reports whether it returned.  "Not
// returned" is decided at a quiescent moment (every goroutine, the caller included, is blocked in two equal snapshots):
// nobody is left who could wake the caller, so it hangs for ever - no wall-clock bound is involved except the
// detector's own generous one.  A panic in the call is recovered into *panicked.
func (s *sess) call(fn func(), panicked *string) bool {
	done := make(chan struct{})
	go func() {
		defer close(done)
		defer func() {
			if r := recover(); r != nil {
				*panicked = fmt.Sprint(r)
			}
		}()
		fn()
	}()
	select {
	case <-done:
		return true
	case <-time.After(200 * time.Microsecond):
	}
	if !quiesce() {
		s.unstable = true
	}
	select {
	case <-done:
		return true
	default:
		s.hung = true
		return false
	}
}

func (s *sess) do(st Stim) Obs {
	if s.hung {
		return Obs{Res: -1, Note: "skipped: an earlier call of this script never returned"}
	}
	if s.onIntent != nil && !s.inBatch {
		if st.Op == "enq" {
			st.B = len(s.items)
		}
		s.onIntent(st)
	}
	if progressPath != "" && !s.inBatch {
		// what is being executed right now, for the runner: if the queue under test panics, the process dies here
		stims := make([]Stim, 0, len(s.steps)+1)
		for _, x := range s.steps {
			stims = append(stims, x.S)
		}
		stims = append(stims, st)
		if b, err := json.Marshal(map[string]any{"W": s.W, "L": s.L, "opts": s.opts, "stimuli": stims}); err == nil {
			os.WriteFile(progressPath, b, 0o644)
		}
	}
	res := 0
	note := ""
	switch st.Op {
	case "batch":
		// The dispatcher is parked inside AdjustPriorities (in the held adjust function) while further stimuli pile up;
		// after the release it finds several of its select cases ready at once - the only way to reach, from outside,
		// the states in which an arrival and a completion token compete.
		sub := append([]Stim{}, st.Sub...)
		st.Sub = sub
		var held *item
		if st.A >= 0 && st.A < len(s.items) {
			held = s.items[st.A]
			held.release = make(chan struct{})
			held.hold.Store(true)
		}
		s.inBatch = true
		for i := range sub {
			if sub[i].Op == "enq" {
				sub[i].B = len(s.items)
			}
			s.do(sub[i])
		}
		s.inBatch = false
		if held != nil {
			held.hold.Store(false)
			close(held.release)
		}
	case "enq":
		it := &item{idx: len(s.items), prio: st.A, adj: st.Adj, gate: make(chan int, 1)}
		st.B = it.idx // the name of an item is its index
		it.adjVal.Store(int64(st.A))
		s.items = append(s.items, it)
		work := func() error {
			it.runs.Add(1)
			s.startCh <- it.idx
			r := <-it.gate
			if r < 0 {
				return nil
			}
			return s.errOf(r)
		}
		// the Enqueue options in every order (by item index); priority 1 is the default, so for every second such item
		// WithPriority is left out (for an item with an adjust function the priority then comes from that function alone)
		eo := sliceOf(workqueue.WithName(strconv.Itoa(it.idx)))
		if !(it.prio == 1 && it.idx%2 == 1) {
			po, ok := prioOptions[it.prio]
			if !ok {
				if len(prioOptions) > 64 {
					clear(prioOptions)
				}
				po = workqueue.WithPriority(it.prio)
				prioOptions[it.prio] = po
			}
			eo = append(eo, po) // the same option value for every item of that priority
		}
		if it.adj {
			eo = append(eo, workqueue.WithAdjustPriority(func() int {
				it.consults.Add(1)
				if it.hold.Load() {
					<-it.release
				}
				return int(it.adjVal.Load())
			}))
		}
		eo = permute(eo, it.idx/2)
		go func() {
			id := s.q.Enqueue(work, eo...)
			it.id = id
			it.returned.Store(true)
		}()
	case "fin":
		if st.A >= 0 && st.A < len(s.items) && !s.items[st.A].released {
			s.items[st.A].released = true
			if st.B >= 0 {
				s.errs.Make(st.B)
			}
			s.items[st.A].gate <- st.B
		} else {
			note = "fin-ignored"
		}
	case "deq", "setp":
		id, _ := s.uuidOf(st.A)
		r, n := 0, ""
		if s.call(func() {
			var err error
			if st.Op == "deq" {
				err = s.q.Dequeue(id)
			} else {
				err = s.q.SetPriority(id, st.B)
			}
			if err != nil {
				r = 1
			}
		}, &n) {
			res, note = r, n
			if n != "" {
				res = 2
			}
		} else {
			res, note = -9, "caller blocked: the call has not returned at a quiescent moment"
		}
	case "esub":
		var ch chan error
		if s.call(func() { ch = s.q.Errors() }, &note) {
			if note != "" {
				res = 2
			} else {
				s.subs = append(s.subs, ch)
			}
		} else {
			res, note = -9, "caller blocked: Errors() has not returned at a quiescent moment"
		}
	case "erecv":
		res = -1
		if st.A >= 0 && st.A < len(s.subs) {
			// wait first: the monitor must have reached its send
			if !quiesce() {
				s.unstable = true
			}
			select {
			case e := <-s.subs[st.A]:
				if e == nil {
					res = -2
				} else if k, ok := s.errs.Token(e); ok {
					res = k // the very value the work function returned (identity / equality / tag, by dynamic type)
				} else {
					res = -3
				}
			default:
			}
		}
	case "resize", "stop", "break":
		if st.Op != "resize" {
			s.stopped = true
		}
		if !s.call(func() {
			switch st.Op {
			case "resize":
				s.q.ResizeQueueLength(st.A)
			case "stop":
				s.q.Stop()
			case "break":
				s.q.Break()
			}
		}, &note) {
			res, note = -9, "caller blocked: the call has not returned at a quiescent moment"
		} else if note != "" {
			res = 2
		}
	case "sib":
		// ResizeQueueLength on the sibling queue (built from the same option values): no effect on this queue
		if s.sib != nil {
			if !s.call(func() { s.sib.ResizeQueueLength(st.A) }, &note) {
				res, note = -9, "caller blocked: ResizeQueueLength on the sibling queue has not returned"
			} else if note != "" {
				res = 2
			}
		}
	case "adj":
		if st.A >= 0 && st.A < len(s.items) {
			s.items[st.A].adjVal.Store(int64(st.B))
		}
	}
	if !quiesce() {
		s.unstable = true
	}
	if s.inBatch {
		return Obs{Res: res}
	}
	o := s.observe()
	o.Res = res
	o.Note = note
	s.steps = append(s.steps, Step{st, o})
	if s.onStep != nil {
		s.onStep(Step{st, o})
	}
	return o
}

// sliceOf / permute let the harness build and reorder a list of the package's (unexported) Enqueue option type.
func sliceOf[T any](xs ...T) []T { return xs }

func permute[T any](xs []T, k int) []T {
	n := len(xs)
	if n < 2 {
		return xs
	}
	r := make([]T, 0, n)
	r = append(r, xs[k%n:]...)
	r = append(r, xs[:k%n]...)
	if (k/n)%2 == 1 {
		r[0], r[1] = r[1], r[0]
	}
	return r
}

// errOf: the error value of token k; it is created on the harness' goroutine before the gate is released (see "fin"),
// the work function only reads it.
func (s *sess) errOf(k int) error { return s.errs.Make(k) }

func (s *sess) observe() Obs {
	o := Obs{Started: []int{}, Returned: []int{}, Items: [][3]int{}, Consulted: []int{}}
drain:
	for {
		select {
		case i := <-s.startCh:
			o.Started = append(o.Started, i)
			s.items[i].started = true
		default:
			break drain
		}
	}
	sort.Ints(o.Started)
	for _, it := range s.items {
		if !it.seenRet && it.returned.Load() {
			it.seenRet = true
			o.Returned = append(o.Returned, it.idx)
		}
		c := it.consults.Load()
		for ; it.seenCons < c; it.seenCons++ {
			o.Consulted = append(o.Consulted, it.idx)
		}
	}
	for _, w := range s.q.WorkItems() {
		nm, err := strconv.Atoi(w.Name())
		if err != nil {
			nm = -1
		}
		st := 0
		switch w.State() {
		case "In Progress":
			st = 1
		case "Queued":
			st = 0
		default:
			st = 9
		}
		o.Items = append(o.Items, [3]int{nm, w.Priority(), st})
	}
	sort.Slice(o.Items, func(a, b int) bool { return o.Items[a][0] < o.Items[b][0] })
	return o
}

// harness-side view used by the adaptive generators
func (s *sess) runningItems() []int {
	r := []int{}
	for _, it := range s.items {
		if it.started && !it.released {
			r = append(r, it.idx)
		}
	}
	return r
}
func (s *sess) unstarted() []int {
	r := []int{}
	for _, it := range s.items {
		if !it.started {
			r = append(r, it.idx)
		}
	}
	return r
}
func (s *sess) blockedProducers() int {
	k := 0
	for _, it := range s.items {
		if !it.returned.Load() {
			k++
		}
	}
	return k
}

// finishAll releases running work (and receives pending errors) until nothing moves any more; the stimuli
// are part of the recorded script.
func (s *sess) finishAll(limit int) {
	for k := 0; k < limit && !s.hung; k++ {
		if r := s.runningItems(); len(r) > 0 {
			s.do(Stim{Op: "fin", A: r[0], B: -1})
			continue
		}
		progressed := false
		for j := range s.subs {
			if o := s.do(Stim{Op: "erecv", A: j}); o.Res != -1 {
				progressed = true
			}
		}
		if !progressed {
			return
		}
	}
}

// close releases the queue's goroutines when that is safe (everything accepted has finished), else leaks them.
func (s *sess) close() {
	if s.sib != nil {
		s.sib.Stop() // the sibling never got any work: an idle Stop
		s.sib = nil
	}
	if s.stopped || s.hung {
		return
	}
	if len(s.runningItems()) == 0 && s.blockedProducers() == 0 && len(s.q.WorkItems()) == 0 {
		s.q.Stop()
		quiesce()
	}
}

func init() {
	// the queue prints "Queue Length ..." / "Waiting for free worker" on stdout
	if f, err := os.OpenFile(os.DevNull, os.O_WRONLY, 0); err == nil {
		os.Stdout = f
	}
}
