// Family S: scripted sequential-then-concurrent cases.  Deterministic scripts (only sizes vary with the seed), cheap,
// no reliance on a lucky schedule: a sequential prefix on the main goroutine — Sets, then Resizes that PRESERVE the
// geometry (the same capacity again; a different capacity with the same partitions x length, e.g. 10 -> 11 under the
// default calculator), a geometry change and back, or a Clear — followed by a Set of a new key, a Sweep and a Get on
// the main goroutine, then a concurrent phase (writers on distinct new keys, a sweeper, a reader), then the
// quiescent monitors and cancel.  Every call goes through the stall watchdog (watchdog.go), so "Resize returned but
// the next Set of a new key never does" is reported as a deadlock with the script, the calls that never returned
// and the goroutine stacks.  Nothing here runs concurrently with Clear/Resize and no key has two writers, so
// neither known finding (K1, K3) applies: every failure and every race report of this family is a violation.
package main

import (
	"context"
	"fmt"
	"math/rand"
	"os"
	"sort"
	"sync"
	"time"

	"github.com/rbell/toolchest/storage"
)

type script struct {
	Scenario   string `json:"scenario"`
	Cap        int    `json:"capacity_requested"`
	Resizes    []int  `json:"sequential_resizes"`
	Preserving bool   `json:"resizes_preserve_geometry"`
	Clear      bool   `json:"sequential_clear"`
	PreKeys    int    `json:"keys_set_before_the_resizes"`
	Writers    int    `json:"concurrent_writers"`
	OwnKeys    int    `json:"new_keys_per_writer"`
	SweepFreqU int    `json:"sweep_frequency_us"`
	Seed       int64  `json:"round_seed"`
}

func runScript(sc script, sample bool) {
	ctx, cancel := context.WithCancel(context.Background())
	cache := storage.NewFifoMapCache[int, int](ctx, sc.Cap, storage.WithSweepFrequency(time.Duration(sc.SweepFreqU)*time.Microsecond))
	rm := map[string]any{"scenario": sc.Scenario, "capacity_requested": sc.Cap, "sequential_resizes": sc.Resizes,
		"resizes_preserve_geometry": sc.Preserving, "sequential_clear": sc.Clear, "keys_set_before_the_resizes": sc.PreKeys,
		"concurrent_writers": sc.Writers, "new_keys_per_writer": sc.OwnKeys, "sweep_frequency_us": sc.SweepFreqU,
		"round_seed": fmt.Sprint(sc.Seed),
		"script": "Set pre-keys; Resize(each of sequential_resizes) [or Clear]; Set new key; Sweep; Get; then concurrently: writers Set new keys, a sweeper, a reader; join; Sweep; views; Resize(last capacity) again; Set; Sweep; cancel"}
	beginRound(sc.Scenario, rm)
	F := func(kind, class, msg string) {
		fail(failure{Kind: kind, Class: class, Scenario: sc.Scenario, Msg: msg, Round: rm})
	}
	tr := newTracker("main goroutine (sequential part of the script)")
	guard := func(where string) {
		if r := recover(); r != nil {
			F("panic", "", fmt.Sprintf("%s: %v", where, r))
		}
	}
	if sweepersAlive() > 0 {
		res.SweeperSeen++
	}
	var capacity0 int
	tr.do("Capacity", 0, func() { capacity0 = cache.Capacity() })
	rm["capacity_actual"] = capacity0
	want := map[int]int{} // key -> value every single writer wrote last
	set := func(t *tracker, k, w int) int {
		v := mkval(k, w, 1)
		t.do("Set", k, func() { cache.Set(k, v) })
		return v
	}
	func() {
		defer guard("sequential prefix")
		for k := 1; k <= sc.PreKeys; k++ {
			want[k] = set(tr, k, 1)
			res.Sets++
		}
		for _, nc := range sc.Resizes {
			nc := nc
			tr.do("Resize", nc, func() { cache.Resize(nc) })
			res.Resizes++
		}
		if sc.Clear {
			tr.do("Clear", 0, func() { cache.Clear() })
			res.Clears++
			want = map[int]int{}
		}
		// right after the Resize/Clear, still sequential: a NEW key, a Sweep, a Get
		k := 500
		v := set(tr, k, 1)
		want[k] = v
		res.Sets++
		tr.do("Sweep", 0, func() { cache.Sweep() })
		res.Sweeps++
		var got int
		tr.do("Get", k, func() { got = cache.Get(k) })
		res.Reads++
		if got != v {
			F("stale", "", fmt.Sprintf("sequential: Set(%d,%#x); Sweep; Get(%d) returned %#x", k, v, k, got))
		}
	}()

	// concurrent phase: distinct new keys per writer, a sweeper, a reader
	var wg sync.WaitGroup
	start := make(chan struct{})
	wrote := make([]map[int]int, sc.Writers+1)
	for w := 1; w <= sc.Writers; w++ {
		wg.Add(1)
		wrote[w] = map[int]int{}
		t := newTracker(fmt.Sprintf("writer %d", w))
		go func(w int) {
			defer wg.Done()
			defer guard("writer")
			<-start
			for i := 0; i < sc.OwnKeys; i++ {
				k := (w+1)*1000 + i
				v := mkval(k, w+1, 1)
				t.do("Set", k, func() { cache.Set(k, v) })
				wrote[w][k] = v
				var got int
				t.do("Get", k, func() { got = cache.Get(k) })
				if got != 0 && got != v {
					F("stale", "", fmt.Sprintf("the only writer of key %d wrote %#x and then read %#x", k, v, got))
				}
			}
		}(w)
	}
	wg.Add(2)
	ts, trd := newTracker("sweeper"), newTracker("reader")
	go func() {
		defer wg.Done()
		defer guard("Sweep")
		<-start
		for i := 0; i < 3; i++ {
			ts.do("Sweep", 0, func() { cache.Sweep() })
			time.Sleep(20 * time.Microsecond)
		}
	}()
	go func() {
		defer wg.Done()
		defer guard("reader")
		<-start
		for i := 0; i < 20; i++ {
			trd.do("Keys", 0, func() { cache.Keys() })
			trd.do("Len", 0, func() { cache.Len() })
			trd.do("Contains", 500, func() { cache.Contains(500) })
		}
	}()
	close(start)
	wg.Wait() // a call that never returns is the stall watchdog's business (it exits the process)
	for w := 1; w <= sc.Writers; w++ {
		for k, v := range wrote[w] {
			want[k] = v
			res.Sets++
		}
	}

	func() {
		defer guard("quiescent views")
		tr.do("Sweep (after all calls returned)", 0, func() { cache.Sweep() })
		var capNow int
		tr.do("Capacity", 0, func() { capNow = cache.Capacity() })
		var keys []int
		tr.do("Keys", 0, func() { keys = cache.Keys() })
		cnt := map[int]int{}
		for _, k := range keys {
			cnt[k]++
		}
		for k, n := range cnt {
			if n > 1 {
				F("dup", "unexplained", fmt.Sprintf("after all calls returned and a Sweep, Keys() contains key %d %d times (no key has two writers, nothing ran concurrently with Resize/Clear)", k, n))
			}
			if _, ok := want[k]; !ok && !sc.Clear {
				F("view", "", fmt.Sprintf("Keys() returned %d, which nobody set", k))
			}
		}
		// distinct keys within Capacity(), none deleted: none may be missing — asserted when the geometry never
		// changed (otherwise how much survives a Resize is C13's subject); always: last value or absent
		within := sc.Preserving && !sc.Clear && len(want) <= capNow && capNow == capacity0
		ks := make([]int, 0, len(want))
		for k := range want {
			ks = append(ks, k)
		}
		sort.Ints(ks)
		var missing []int
		present := 0
		for _, k := range ks {
			var got int
			tr.do("Get", k, func() { got = cache.Get(k) })
			if got != 0 {
				present++
			}
			if got != 0 && got != want[k] {
				F("stale", "", fmt.Sprintf("key %d has one writer, whose last Set wrote %#x, but Get returns %#x", k, want[k], got))
			}
			if within && got != want[k] {
				missing = append(missing, k)
			}
		}
		res.KeysPresent += int64(present)
		res.KeysEvicted += int64(len(ks) - present)
		if len(missing) > 0 {
			F("lost", "", fmt.Sprintf("%d pairwise distinct keys were set (Capacity()=%d, no Delete, only geometry-preserving Resizes %v); %d of them are missing, e.g. %v", len(ks), capNow, sc.Resizes, len(missing), missing[:min(8, len(missing))]))
		}
		// the same Resize once more, after the concurrent phase, then a new key and a Sweep again
		last := sc.Cap
		if len(sc.Resizes) > 0 {
			last = sc.Resizes[len(sc.Resizes)-1]
		}
		tr.do("Resize", last, func() { cache.Resize(last) })
		res.Resizes++
		tr.do("Set", 501, func() { cache.Set(501, mkval(501, 1, 1)) })
		res.Sets++
		tr.do("Sweep", 0, func() { cache.Sweep() })
		res.Sweeps++
	}()

	cancel()
	deadline := time.Now().Add(30 * time.Second)
	gone := false
	for d := 20 * time.Microsecond; ; d *= 2 {
		if sweepersAlive() == 0 {
			gone = true
			break
		}
		if time.Now().After(deadline) {
			break
		}
		if d > 50*time.Millisecond {
			d = 50 * time.Millisecond
		}
		time.Sleep(d)
	}
	res.Rounds++
	res.Contended++ // every script has a concurrent phase with >= 2 writers released together
	res.PerScenario[sc.Scenario]++
	if gone {
		res.SweeperGone++
	} else {
		F("leak", "", "30s after cancelling the construction context a goroutine created by NewFifoMapCache is still alive: "+storageFrames())
		res.Scope = "stopped after the first leaked ticker goroutine"
		flush()
		os.Exit(0)
	}
	if sample {
		res.Samples = append(res.Samples, map[string]any{"round": rm, "keys_expected": len(want)})
	}
}

// the scripts of one run: fixed shapes, sizes from the seed
func familyS(rng *rand.Rand, thorough bool, only string) string {
	reps := 3
	if thorough {
		reps = 60
	}
	type shape struct {
		name       string
		cap        int
		resizes    []int
		preserving bool
		clear      bool
	}
	shapes := []shape{
		{"S-same-capacity", 10, []int{10}, true, false},
		{"S-same-capacity", 64, []int{64}, true, false},
		{"S-same-capacity", 9, []int{9, 9}, true, false},
		{"S-same-capacity", 30, []int{30}, true, false},
		{"S-same-geometry", 10, []int{11}, true, false}, // default calculator: both 3 partitions x 3
		{"S-same-geometry", 11, []int{10}, true, false},
		{"S-same-geometry", 17, []int{18}, true, false},     // both 4 x 4
		{"S-same-geometry", 26, []int{27, 26}, true, false}, // all 5 x 5
		{"S-same-geometry", 37, []int{38, 37, 38}, true, false},
		{"S-change-and-back", 16, []int{64, 16}, false, false},
		{"S-change-and-back", 25, []int{9, 25, 25}, false, false},
		{"S-no-resize", 16, nil, true, false},
		{"S-clear", 16, nil, true, true},
		{"S-clear", 36, []int{36}, true, true},
	}
	n := 0
	for r := 0; r < reps; r++ {
		for _, sh := range shapes {
			if only != "" && only != sh.name {
				continue
			}
			capEff := sh.cap
			for _, c := range sh.resizes {
				if c < capEff {
					capEff = c
				}
			}
			// stay within the smallest capacity involved: pre-keys + 2 scripted keys + writers*own <= ~2/3 of it
			pre := 1 + rng.Intn(max(1, capEff/3))
			w := 2 + rng.Intn(3)
			own := max(1, (capEff/3)/w)
			if pre+2+w*own > capEff-2 {
				pre, own = 1, 1
			}
			runScript(script{Scenario: sh.name, Cap: sh.cap, Resizes: sh.resizes, Preserving: sh.preserving, Clear: sh.clear, PreKeys: pre,
				Writers: w, OwnKeys: own, SweepFreqU: []int{50, 200, 1000}[rng.Intn(3)], Seed: rng.Int63()}, r == 0 && n < 2)
			n++
		}
	}
	return fmt.Sprintf("%d scripted sequential-then-concurrent cases (%d shapes x %d: same capacity again, same geometry under another capacity (10->11, 17->18, 26->27->26, 37->38->37->38), geometry change and back, Clear, no Resize; each followed by Set of new keys, Sweep, Get, a concurrent phase of 2-4 writers + sweeper + reader, views, the Resize again, Set, Sweep, cancel)", n, len(shapes), reps)
}
