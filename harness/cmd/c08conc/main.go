// Free-running stress for C08 (build with -race): FifoMapCache under real schedules.
//
// Two scenario FAMILIES (one process per family, so that race reports can be attributed):
//
//	A  no Clear/Resize, every key has exactly one writer.  Must be clean: no race report, panic, hang,
//	   duplicate or loss (distinct keys within Capacity() all present with the writer's last value), every
//	   Get value was Set for that key, single-writer keys hold the last value or are absent, the quiescent
//	   views agree with each other, the ticker goroutine is gone after cancel.
//	B  the same machinery plus same-key writers (B-samekey), concurrent Clear/Resize (B-clear) or both (B-all):
//	   the known findings K3 (duplicate key) and K1 (race on f.partitions / f.valuePartitionIndex / ...) are
//	   expected here and are CLASSIFIED from the recorded history; everything else is still a violation.
//
// This is testing: it validates the atomicity structure of Model/CacheConc.v and finds concrete failing
// schedules; the theorems are in Props/C08.v.  The harness itself uses no synchronisation between the
// goroutines it starts other than a start barrier, a "done" flag and the final join, so that it does not
// hide races of the code under test from the detector; timestamps are monotonic clock readings.
package main

import (
	"context"
	"encoding/json"
	"flag"
	"fmt"
	"math/rand"
	"os"
	"path/filepath"
	"regexp"
	"runtime"
	"sort"
	"strings"
	"sync"
	"sync/atomic"
	"time"

	"github.com/rbell/toolchest/storage"
)

// ---------- values: every Set uses a unique non-zero value that names its key, writer and sequence ----------

const (
	keyShift = 24
	wShift   = 16
)

func mkval(key, w, seq int) int { return key<<keyShift | w<<wShift | seq }
func decode(v int) (key, w, seq int) {
	return v >> keyShift, (v >> wShift) & 0xff, v & 0xffff
}

// ---------- result ----------

type failure struct {
	Kind     string         `json:"kind"`  // lost | stale | notset | dup | view | leak | panic | hang
	Class    string         `json:"class"` // diagnosis derived from the recorded history (used for K1/K3 classification)
	Scenario string         `json:"scenario"`
	Msg      string         `json:"msg"`
	Round    map[string]any `json:"round"`
	// deadlock only: the calls that never returned, the goroutine stacks (runtime.Stack(all), library goroutines) and the full dump's file
	Outstanding []string `json:"outstanding,omitempty"`
	Stacks      string   `json:"goroutine_stacks,omitempty"`
	StacksFile  string   `json:"goroutine_stacks_file,omitempty"`
}

type result struct {
	Family        string         `json:"family"`
	Rounds        int            `json:"rounds"`
	Contended     int            `json:"contended_rounds"` // rounds in which >= 2 writers were demonstrably active at the same time
	PerScenario   map[string]int `json:"per_scenario"`
	Sets          int64          `json:"sets"`
	Deletes       int64          `json:"deletes"`
	Reads         int64          `json:"reads"`
	Sweeps        int64          `json:"explicit_sweeps"`
	Clears        int64          `json:"clears"`
	Resizes       int64          `json:"resizes"`
	KeysEvicted   int64          `json:"keys_absent_at_end"`
	KeysPresent   int64          `json:"keys_present_at_end"`
	SweeperSeen   int            `json:"rounds_ticker_goroutine_seen"`
	SweeperGone   int            `json:"rounds_ticker_goroutine_gone_after_cancel"`
	DupKeys       int            `json:"duplicate_keys_seen"`
	Failures      []failure      `json:"failures"`
	FailureKinds  map[string]int `json:"failure_kinds"`
	Samples       []any          `json:"samples"`
	Scope         string         `json:"scope"`
	WallSeconds   float64        `json:"wall_s"`
	GoMaxProcs    int            `json:"gomaxprocs"`
	MasterSeed    int64          `json:"seed"`
	SweeperMarker string         `json:"ticker_goroutine_marker"`
}

var res = result{FailureKinds: map[string]int{}, PerScenario: map[string]int{}}
var mu sync.Mutex
var outDir string

func fail(f failure) {
	mu.Lock()
	defer mu.Unlock()
	res.FailureKinds[f.Scenario+":"+f.Kind+":"+f.Class]++
	// keep at most 3 failures of each (scenario, kind, class)
	n := 0
	for _, g := range res.Failures {
		if g.Scenario == f.Scenario && g.Kind == f.Kind && g.Class == f.Class {
			n++
		}
	}
	if n < 3 && len(res.Failures) < 60 {
		res.Failures = append(res.Failures, f)
	}
}

func flush() {
	os.MkdirAll(outDir, 0o755)
	js, _ := json.MarshalIndent(res, "", " ")
	os.WriteFile(filepath.Join(outDir, "result.json"), js, 0o644)
}

// ---------- the ticker goroutine, identified by where it was created ----------

var sweeperRe = regexp.MustCompile(`storage\.NewFifoMapCache`)

func sweepersAlive() int {
	buf := make([]byte, 1<<20)
	for {
		n := runtime.Stack(buf, true)
		if n < len(buf) {
			buf = buf[:n]
			break
		}
		buf = make([]byte, 2*len(buf))
	}
	c := 0
	for _, g := range strings.Split(string(buf), "\n\n") {
		if sweeperRe.MatchString(g) {
			c++
		}
	}
	return c
}

func storageFrames() string {
	buf := make([]byte, 4<<20)
	n := runtime.Stack(buf, true)
	var sb strings.Builder
	for _, g := range strings.Split(string(buf[:n]), "\n\n") {
		if strings.Contains(g, "toolchest/storage") {
			lines := strings.Split(g, "\n")
			keep := []string{}
			for _, l := range lines {
				if !strings.HasPrefix(l, "\t") {
					keep = append(keep, strings.TrimSpace(regexp.MustCompile(`\(0x[^)]*\)|\(\.\.\.\)`).ReplaceAllString(l, "()")))
				}
			}
			if len(keep) > 6 {
				keep = keep[:6]
			}
			sb.WriteString(strings.Join(keep, " < ") + " || ")
			if sb.Len() > 2500 {
				break
			}
		}
	}
	return sb.String()
}

// ---------- one round ----------

type cfg struct {
	Scenario   string `json:"scenario"`
	Cap        int    `json:"capacity_requested"`
	Writers    int    `json:"writers"`
	OwnKeys    int    `json:"own_keys_per_writer"`
	HotKeys    int    `json:"hot_keys_shared_by_all_writers"`
	Ops        int    `json:"ops_per_writer"`
	Within     bool   `json:"distinct_keys_within_capacity"`
	Deletes    bool   `json:"deletes"`
	Readers    int    `json:"readers"`
	Sweepers   int    `json:"sweepers"`
	Clearers   int    `json:"clearers"`
	Resizers   int    `json:"resizers"`
	SweepFreqU int    `json:"sweep_frequency_us"`
	RoundSeed  int64  `json:"round_seed"`
}

type op struct {
	key  int
	kind byte // 's' set, 'd' delete, 'g' get by the owner
}

type opRec struct {
	key    int
	w      int
	del    bool
	val    int
	t0, t1 int64
}

type span struct {
	kind   string
	t0, t1 int64
}

func overlap(a0, a1, b0, b1 int64) bool { return a0 <= b1 && b0 <= a1 }

func (c cfg) asMap() map[string]any {
	js, _ := json.Marshal(c)
	m := map[string]any{}
	json.Unmarshal(js, &m)
	return m
}

func runRound(c cfg, sample bool) {
	rng := rand.New(rand.NewSource(c.RoundSeed))
	ctx, cancel := context.WithCancel(context.Background())
	cache := storage.NewFifoMapCache[int, int](ctx, c.Cap, storage.WithSweepFrequency(time.Duration(c.SweepFreqU)*time.Microsecond))
	capacity := cache.Capacity()
	rm := c.asMap()
	rm["capacity_actual"] = capacity
	rm["round_seed"] = fmt.Sprint(c.RoundSeed) // as text: a float64 would round it
	F := func(kind, class, msg string) {
		fail(failure{Kind: kind, Class: class, Scenario: c.Scenario, Msg: msg, Round: rm})
	}
	beginRound(c.Scenario, rm)
	trMain := newTracker("main goroutine")
	if sweepersAlive() > 0 {
		res.SweeperSeen++
	}
	base := time.Now()
	now := func() int64 { return int64(time.Since(base)) }

	// keys: writer w (1..W) owns w*1000+1 .. w*1000+OwnKeys ; hot keys are 1..HotKeys
	W := c.Writers
	ownKey := func(w, i int) int { return w*1000 + 1 + i }
	universe := map[int]bool{}
	var allKeys []int
	for h := 1; h <= c.HotKeys; h++ {
		universe[h] = true
		allKeys = append(allKeys, h)
	}
	for w := 1; w <= W; w++ {
		for i := 0; i < c.OwnKeys; i++ {
			universe[ownKey(w, i)] = true
			allKeys = append(allKeys, ownKey(w, i))
		}
	}
	// plans (derived from the round seed only)
	plans := make([][]op, W+1)
	for w := 1; w <= W; w++ {
		var p []op
		if c.Within {
			// every own key is set at least once; extra ops re-set own keys or read them
			for i := 0; i < c.OwnKeys; i++ {
				p = append(p, op{ownKey(w, i), 's'})
			}
			for len(p) < c.Ops {
				k := ownKey(w, rng.Intn(c.OwnKeys))
				if rng.Intn(3) == 0 {
					p = append(p, op{k, 'g'})
				} else {
					p = append(p, op{k, 's'})
				}
			}
			// the first pass stays first (distinct new keys race for partitions), the rest is shuffled
			rest := p[c.OwnKeys:]
			rng.Shuffle(len(rest), func(i, j int) { rest[i], rest[j] = rest[j], rest[i] })
		} else {
			for len(p) < c.Ops {
				var k int
				if c.HotKeys > 0 && (c.OwnKeys == 0 || rng.Intn(2) == 0) {
					k = 1 + rng.Intn(c.HotKeys)
				} else {
					k = ownKey(w, rng.Intn(c.OwnKeys))
				}
				x := rng.Intn(100)
				switch {
				case c.Deletes && x < 15:
					p = append(p, op{k, 'd'})
				case x < 30:
					p = append(p, op{k, 'g'})
				default:
					p = append(p, op{k, 's'})
				}
			}
		}
		plans[w] = p
	}

	logs := make([][]opRec, W+1)
	type seenKey struct{ key, w int }
	nAux := c.Readers
	readerSeen := make([]map[seenKey]int, nAux+W+1)
	spans := make([][]span, c.Clearers+c.Resizers)
	var wg, wgAux sync.WaitGroup
	var done atomic.Bool
	start := make(chan struct{})
	var nReads, nSweeps, nClears, nResizes int64
	guard := func(where string) {
		if r := recover(); r != nil {
			buf := make([]byte, 4096)
			n := runtime.Stack(buf, false)
			fr := []string{}
			for _, l := range strings.Split(string(buf[:n]), "\n") {
				if strings.Contains(l, "toolchest/storage.") {
					fr = append(fr, strings.TrimSpace(regexp.MustCompile(`\(0x[^)]*\)|\[\.\.\.\]`).ReplaceAllString(l, "")))
				}
			}
			if len(fr) > 4 {
				fr = fr[:4]
			}
			F("panic", "", fmt.Sprintf("%s: %v; frames: %s", where, r, strings.Join(fr, " < ")))
		}
	}
	note := func(m map[seenKey]int, v int) {
		k, w, s := decode(v)
		if m[seenKey{k, w}] < s {
			m[seenKey{k, w}] = s
		}
	}

	// writers
	for w := 1; w <= W; w++ {
		wg.Add(1)
		readerSeen[nAux+w] = map[seenKey]int{}
		tr := newTracker(fmt.Sprintf("writer %d", w))
		go func(w int) {
			defer wg.Done()
			seq := map[int]int{}
			last := map[int]int{} // own keys only: last value set by this writer (0 after Delete)
			seenM := readerSeen[nAux+w]
			<-start
			for _, o := range plans[w] {
				func() {
					defer guard("writer")
					switch o.kind {
					case 's':
						seq[o.key]++
						v := mkval(o.key, w, seq[o.key])
						t0 := now()
						tr.do("Set", o.key, func() { cache.Set(o.key, v) })
						t1 := now()
						logs[w] = append(logs[w], opRec{o.key, w, false, v, t0, t1})
						last[o.key] = v
					case 'd':
						t0 := now()
						tr.do("Delete", o.key, func() { cache.Delete(o.key) })
						t1 := now()
						logs[w] = append(logs[w], opRec{o.key, w, true, 0, t0, t1})
						last[o.key] = 0
					case 'g':
						var v int
						tr.do("Get", o.key, func() { v = cache.Get(o.key) })
						atomic.AddInt64(&nReads, 1)
						if v != 0 {
							if k, _, _ := decode(v); k != o.key {
								F("notset", "", fmt.Sprintf("Get(%d) returned %#x, a value of key %d", o.key, v, k))
							}
							note(seenM, v)
						}
						// a key written by this goroutine only, no Clear/Resize around: last value or absent
						if o.key >= 1000 && c.Clearers+c.Resizers == 0 && v != 0 && v != last[o.key] {
							F("stale", "", fmt.Sprintf("the only writer of key %d last wrote %#x (0 = Delete) and then read %#x", o.key, last[o.key], v))
						}
					}
				}()
			}
		}(w)
	}
	// readers
	for r := 0; r < c.Readers; r++ {
		wgAux.Add(1)
		readerSeen[r] = map[seenKey]int{}
		rr := rand.New(rand.NewSource(rng.Int63()))
		tr := newTracker(fmt.Sprintf("reader %d", r))
		go func(r int, rr *rand.Rand) {
			defer wgAux.Done()
			seenM := readerSeen[r]
			<-start
			for i := 0; i < 50 || !done.Load(); i++ {
				func() {
					defer guard("reader")
					k := allKeys[rr.Intn(len(allKeys))]
					switch rr.Intn(12) {
					case 0:
						var ks []int
						tr.do("Keys", 0, func() { ks = cache.Keys() })
						for _, kk := range ks {
							if !universe[kk] {
								F("view", "", fmt.Sprintf("Keys() returned %d, which nobody ever set", kk))
							}
						}
					case 1:
						var vs []int
						tr.do("Values", 0, func() { vs = cache.Values() })
						for _, v := range vs {
							if v != 0 {
								if kk, _, _ := decode(v); !universe[kk] {
									F("notset", "", fmt.Sprintf("Values() returned %#x, never set", v))
								}
								note(seenM, v)
							}
						}
					case 2:
						var l int
						tr.do("Len", 0, func() { l = cache.Len() })
						if l < 0 {
							F("view", "", fmt.Sprintf("Len()=%d", l))
						}
					case 3, 4:
						tr.do("Contains", k, func() { cache.Contains(k) })
					case 5:
						var cp int
						tr.do("Capacity", 0, func() { cp = cache.Capacity() })
						if cp <= 0 {
							F("view", "", fmt.Sprintf("Capacity()=%d", cp))
						}
					default:
						var v int
						tr.do("Get", k, func() { v = cache.Get(k) })
						if v != 0 {
							if kk, _, _ := decode(v); kk != k {
								F("notset", "", fmt.Sprintf("Get(%d) returned %#x, a value of key %d", k, v, kk))
							}
							note(seenM, v)
						}
					}
					atomic.AddInt64(&nReads, 1)
				}()
				if i%8 == 7 {
					runtime.Gosched()
				}
			}
		}(r, rr)
	}
	// sweepers
	for s := 0; s < c.Sweepers; s++ {
		wgAux.Add(1)
		tr := newTracker(fmt.Sprintf("sweeper %d", s))
		go func() {
			defer wgAux.Done()
			<-start
			for i := 0; i < 5 || !done.Load(); i++ {
				func() {
					defer guard("Sweep")
					tr.do("Sweep", 0, func() { cache.Sweep() })
					atomic.AddInt64(&nSweeps, 1)
				}()
				time.Sleep(20 * time.Microsecond)
			}
		}()
	}
	// Clear / Resize callers (family B only)
	for x := 0; x < c.Clearers+c.Resizers; x++ {
		wgAux.Add(1)
		isClear := x < c.Clearers
		rr := rand.New(rand.NewSource(rng.Int63()))
		tr := newTracker(fmt.Sprintf("clear/resize caller %d", x))
		go func(x int, isClear bool, rr *rand.Rand) {
			defer wgAux.Done()
			<-start
			// a geometry change, the same capacity again (a Resize that has nothing to do), another change, and back
			caps := []int{c.Cap, c.Cap*4 + 1, c.Cap*4 + 1, c.Cap/3 + 4}
			for i := 0; i < 2 || !done.Load(); i++ {
				time.Sleep(time.Duration(20+rr.Intn(300)) * time.Microsecond)
				func() {
					defer guard("Clear/Resize")
					t0 := now()
					if isClear {
						tr.do("Clear", 0, func() { cache.Clear() })
						atomic.AddInt64(&nClears, 1)
						spans[x] = append(spans[x], span{"Clear", t0, now()})
					} else {
						nc := caps[(i+1)%len(caps)]
						tr.do("Resize", nc, func() { cache.Resize(nc) })
						atomic.AddInt64(&nResizes, 1)
						spans[x] = append(spans[x], span{"Resize", t0, now()})
					}
				}()
				if i > 200 {
					break
				}
			}
		}(x, isClear, rr)
	}

	close(start)
	waitCh := make(chan struct{})
	go func() { wg.Wait(); done.Store(true); wgAux.Wait(); close(waitCh) }()
	select {
	case <-waitCh:
	case <-time.After(120 * time.Second):
		// fallback: the stall watchdog (watchdog.go) normally fires long before this
		reportDeadlock("round did not finish within 120s", nil)
	}

	// ----- quiescent checks -----
	func() {
		defer guard("quiescent views")
		trMain.do("Sweep (after all calls returned)", 0, func() { cache.Sweep() })
		trMain.cur.Store(&opInfo{role: trMain.role, name: "quiescent views Keys/Get/Contains/Values/Len", since: time.Now()})
		defer trMain.cur.Store(nil)
		byKey := map[int][]opRec{}
		nsets := map[seenKey]int{}
		var nSet, nDel int64
		for w := 1; w <= W; w++ {
			for _, r := range logs[w] {
				byKey[r.key] = append(byKey[r.key], r)
				if r.del {
					nDel++
				} else {
					nSet++
					nsets[seenKey{r.key, w}]++
				}
			}
		}
		res.Sets += nSet
		res.Deletes += nDel
		var allSpans []span
		for _, s := range spans {
			allSpans = append(allSpans, s...)
		}
		changing := c.Clearers+c.Resizers > 0
		// every value read during the run was set for that key (by that writer, with a sequence number it reached)
		for _, m := range readerSeen {
			for sk, s := range m {
				if nsets[sk] < s {
					F("notset", "", fmt.Sprintf("a read returned %#x (key %d, writer %d, seq %d) but that writer made only %d Sets of the key", mkval(sk.key, sk.w, s), sk.key, sk.w, s, nsets[sk]))
				}
			}
		}
		keys := cache.Keys()
		cnt := map[int]int{}
		for _, k := range keys {
			cnt[k]++
			if !universe[k] {
				F("view", "", fmt.Sprintf("Keys() returned %d, which nobody ever set", k))
			}
		}
		dupKeys := []int{}
		for k, n := range cnt {
			if n > 1 {
				dupKeys = append(dupKeys, k)
			}
		}
		sort.Ints(dupKeys)
		for _, k := range dupKeys {
			res.DupKeys++
			rs := byKey[k]
			class := "unexplained"
			ovCR, conc, concDel := false, false, false
			var ex string
			for i := range rs {
				if !rs[i].del {
					for _, s := range allSpans {
						if overlap(rs[i].t0, rs[i].t1, s.t0, s.t1) {
							ovCR = true
							ex = fmt.Sprintf("Set by writer %d during [%d,%d]ns overlaps %s [%d,%d]ns", rs[i].w, rs[i].t0, rs[i].t1, s.kind, s.t0, s.t1)
						}
					}
				}
				for j := i + 1; j < len(rs); j++ {
					if rs[i].w == rs[j].w || (rs[i].del && rs[j].del) || !overlap(rs[i].t0, rs[i].t1, rs[j].t0, rs[j].t1) {
						continue
					}
					name := func(r opRec) string {
						if r.del {
							return "Delete"
						}
						return "Set"
					}
					if !rs[i].del && !rs[j].del {
						if !conc {
							ex = fmt.Sprintf("Set by writer %d during [%d,%d]ns overlaps Set by writer %d during [%d,%d]ns", rs[i].w, rs[i].t0, rs[i].t1, rs[j].w, rs[j].t0, rs[j].t1)
						}
						conc = true
					} else if !conc && !concDel {
						concDel = true
						ex = fmt.Sprintf("%s by writer %d during [%d,%d]ns overlaps %s by writer %d during [%d,%d]ns", name(rs[i]), rs[i].w, rs[i].t0, rs[i].t1, name(rs[j]), rs[j].w, rs[j].t0, rs[j].t1)
					}
				}
			}
			if ovCR {
				class = "set-overlaps-clear-or-resize"
			} else if conc {
				class = "two-concurrent-sets-of-the-key"
			} else if concDel {
				class = "set-concurrent-with-delete-of-the-key"
			}
			F("dup", class, fmt.Sprintf("after all calls returned and a Sweep, Keys() contains key %d %d times (Len()=%d); history: %s", k, cnt[k], cache.Len(), ex))
		}
		// per key: final value
		present := 0
		missing := []int{}
		for _, k := range allKeys {
			v := cache.Get(k)
			if v != 0 {
				present++
				kk, w, s := decode(v)
				if kk != k || nsets[seenKey{k, w}] < s {
					F("notset", "", fmt.Sprintf("final Get(%d) returned %#x, never set for that key", k, v))
				}
			}
			rs := byKey[k]
			if k >= 1000 && !changing && len(rs) > 0 {
				lastv := rs[len(rs)-1].val // single writer: log order is program order
				if v != 0 && v != lastv {
					F("stale", "", fmt.Sprintf("key %d is written by writer %d only, whose last operation wrote %#x (0 = Delete), but Get returns %#x", k, rs[0].w, lastv, v))
				}
				if c.Within && v != lastv {
					missing = append(missing, k)
				}
			}
		}
		res.KeysPresent += int64(present)
		res.KeysEvicted += int64(len(allKeys) - present)
		if len(missing) > 0 {
			sort.Ints(missing)
			show := missing
			if len(show) > 8 {
				show = show[:8]
			}
			F("lost", "", fmt.Sprintf("%d writers set %d pairwise distinct keys (Capacity()=%d, no Delete/Clear/Resize); after all calls returned and a Sweep %d of them are missing, e.g. %v; Len()=%d", W, W*c.OwnKeys, capacity, len(missing), show, cache.Len()))
		}
		// mutual consistency of the views (only where neither known finding can interfere)
		if !changing && c.HotKeys == 0 && len(dupKeys) == 0 {
			if l := cache.Len(); l != len(keys) {
				F("view", "", fmt.Sprintf("Len()=%d but Keys() has %d entries", l, len(keys)))
			}
			var got, want []int
			for _, k := range keys {
				if !cache.Contains(k) {
					F("view", "", fmt.Sprintf("key %d is in Keys() but Contains is false", k))
				}
				want = append(want, cache.Get(k))
			}
			got = append(got, cache.Values()...)
			sort.Ints(got)
			sort.Ints(want)
			if fmt.Sprint(got) != fmt.Sprint(want) {
				F("view", "", fmt.Sprintf("Values() is not the multiset of Get over Keys(): %d values, %d keys", len(got), len(want)))
			}
			for _, k := range allKeys {
				if cnt[k] == 0 && (cache.Contains(k) || cache.Get(k) != 0) {
					F("view", "", fmt.Sprintf("key %d is not in Keys() but Contains/Get find it", k))
				}
			}
		}
		// was the round really concurrent?  (two writers active at the same time)
		type iv struct{ a, b int64 }
		var act []iv
		for w := 1; w <= W; w++ {
			if n := len(logs[w]); n > 0 {
				act = append(act, iv{logs[w][0].t0, logs[w][n-1].t1})
			}
		}
		contended := false
		for i := range act {
			for j := i + 1; j < len(act); j++ {
				if overlap(act[i].a, act[i].b, act[j].a, act[j].b) {
					contended = true
				}
			}
		}
		if contended {
			res.Contended++
		}
		if sample {
			res.Samples = append(res.Samples, map[string]any{"round": rm, "sets": nSet, "deletes": nDel, "keys_present_at_end": present, "keys_total": len(allKeys),
				"duplicate_keys": len(dupKeys), "writers_overlapped": contended, "clear_resize_calls": len(allSpans)})
		}
	}()
	res.Reads += nReads
	res.Sweeps += nSweeps
	res.Clears += nClears
	res.Resizes += nResizes

	// ----- cancel: the ticker goroutine must go away -----
	cancel()
	deadline := time.Now().Add(30 * time.Second)
	gone := false
	for d := 20 * time.Microsecond; ; d *= 2 {
		if sweepersAlive() == 0 {
			gone = true
			break
		}
		if time.Now().After(deadline) {
			break
		}
		if d > 50*time.Millisecond {
			d = 50 * time.Millisecond
		}
		time.Sleep(d)
	}
	if gone {
		res.SweeperGone++
	} else {
		F("leak", "", "30s after cancelling the construction context a goroutine created by NewFifoMapCache is still alive: "+storageFrames())
		// a leaked goroutine never goes away and would fail every later round: stop here
		res.Rounds++
		res.PerScenario[c.Scenario]++
		res.Scope = "stopped after the first leaked ticker goroutine"
		flush()
		os.Exit(0)
	}
	res.Rounds++
	res.PerScenario[c.Scenario]++
}

func main() {
	seed := flag.Int64("seed", 1, "")
	tier := flag.String("tier", "quick", "")
	out := flag.String("out", "", "")
	family := flag.String("family", "A", "A (must be clean), B (known findings expected) or S (scripted sequential-then-concurrent cases, must be clean)")
	only := flag.String("only", "", "run only this scenario")
	flag.Parse()
	outDir = *out
	runtime.GOMAXPROCS(16)
	t0 := time.Now()
	rng := rand.New(rand.NewSource(*seed*7919 + int64(len(*family))*13 + int64((*family)[0])))
	res.Family = *family
	res.MasterSeed = *seed
	res.GoMaxProcs = runtime.GOMAXPROCS(0)
	res.SweeperMarker = sweeperRe.String()
	thorough := *tier == "thorough"
	scale := func(q, t int) int {
		if thorough {
			return t
		}
		return q
	}
	run := func(c cfg, i int) {
		if *only != "" && *only != c.Scenario {
			return
		}
		c.RoundSeed = rng.Int63()
		runRound(c, i < 1)
	}
	freq := func() int { return []int{50, 100, 200, 500, 1000}[rng.Intn(5)] }
	caps := []int{4, 6, 9, 12, 16, 20, 25, 30, 36, 49, 64, 81, 100, 144}
	var scope []string
	if *family == "S" {
		scope = append(scope, familyS(rng, thorough, *only))
	} else if *family == "A" {
		// the refutation witness of Findings/CacheConc.v first: capacity 2 = one partition of 2, two writers, one new key each
		n := scale(1500, 60000)
		for i := 0; i < n; i++ {
			run(cfg{Scenario: "A-witness", Cap: 2, Writers: 2, OwnKeys: 1, Ops: 1, Within: true, SweepFreqU: 50}, i)
		}
		scope = append(scope, fmt.Sprintf("%d x A-witness (capacity 2, 2 writers x 1 new key: the schedule family of lost_insert_refuted)", n))
		// DESIGN.md's shape: 16 goroutines x 4 distinct keys, capacity 64
		n = scale(150, 8000)
		for i := 0; i < n; i++ {
			run(cfg{Scenario: "A-16x4", Cap: 64, Writers: 16, OwnKeys: 4, Ops: 4, Within: true, SweepFreqU: freq(), Readers: i % 2, Sweepers: i % 2}, i)
		}
		scope = append(scope, fmt.Sprintf("%d x A-16x4 (capacity 64, 16 writers x 4 distinct keys)", n))
		n = scale(150, 8000)
		for i := 0; i < n; i++ {
			cp := caps[rng.Intn(len(caps))]
			w := 2 + rng.Intn(15)
			for w > cp {
				w = 2 + rng.Intn(15)
			}
			own := cp / w
			if own > 1 && rng.Intn(3) == 0 {
				own = 1 + rng.Intn(own)
			}
			run(cfg{Scenario: "A-within", Cap: cp, Writers: w, OwnKeys: own, Ops: own * (1 + rng.Intn(3)), Within: true, SweepFreqU: freq(),
				Readers: rng.Intn(4), Sweepers: rng.Intn(3)}, i)
		}
		scope = append(scope, fmt.Sprintf("%d x A-within (capacities %v, 2-16 writers, distinct keys <= Capacity(), re-sets and owner reads, 0-3 readers, 0-2 sweepers)", n, caps))
		n = scale(120, 8000)
		for i := 0; i < n; i++ {
			cp := caps[rng.Intn(len(caps))]
			w := 2 + rng.Intn(15)
			own := 1 + (cp*(1+rng.Intn(4)))/w
			run(cfg{Scenario: "A-churn", Cap: cp, Writers: w, OwnKeys: own, Ops: 20 + rng.Intn(200), Deletes: rng.Intn(2) == 0, SweepFreqU: freq(),
				Readers: rng.Intn(4), Sweepers: rng.Intn(3)}, i)
		}
		scope = append(scope, fmt.Sprintf("%d x A-churn (1-4x more single-writer keys than capacity, Set/Delete/Get by the owner, readers, sweepers, ticker every 50-1000us)", n))
	} else {
		n := scale(150, 8000)
		for i := 0; i < n; i++ {
			cp := caps[rng.Intn(len(caps))]
			run(cfg{Scenario: "B-samekey", Cap: cp, Writers: 2 + rng.Intn(15), OwnKeys: rng.Intn(3), HotKeys: 1 + rng.Intn(cp), Ops: 10 + rng.Intn(100),
				Deletes: rng.Intn(3) == 0, SweepFreqU: freq(), Readers: rng.Intn(3), Sweepers: rng.Intn(2)}, i)
		}
		scope = append(scope, fmt.Sprintf("%d x B-samekey (hot keys written by 2-16 writers, no Clear/Resize: K3 expected, no race report expected)", n))
		n = scale(100, 5000)
		for i := 0; i < n; i++ {
			cp := caps[2+rng.Intn(len(caps)-2)]
			w := 2 + rng.Intn(10)
			cl, rz := []int{1, 0, 1}[i%3], []int{0, 1, 1}[i%3]
			run(cfg{Scenario: "B-clear", Cap: cp, Writers: w, OwnKeys: 1 + cp/w, Ops: 30 + rng.Intn(200), Deletes: rng.Intn(3) == 0, SweepFreqU: freq(),
				Readers: 1 + rng.Intn(3), Sweepers: rng.Intn(2), Clearers: cl, Resizers: rz}, i)
		}
		scope = append(scope, fmt.Sprintf("%d x B-clear (single-writer keys + concurrent Clear/Resize: K1 expected)", n))
		n = scale(80, 4000)
		for i := 0; i < n; i++ {
			cp := caps[2+rng.Intn(len(caps)-2)]
			run(cfg{Scenario: "B-all", Cap: cp, Writers: 2 + rng.Intn(10), OwnKeys: 1 + rng.Intn(4), HotKeys: 1 + rng.Intn(cp), Ops: 30 + rng.Intn(200),
				Deletes: rng.Intn(3) == 0, SweepFreqU: freq(), Readers: 1 + rng.Intn(3), Sweepers: rng.Intn(2), Clearers: 1, Resizers: 1}, i)
		}
		scope = append(scope, fmt.Sprintf("%d x B-all (hot keys + Clear + Resize)", n))
	}
	res.Scope = strings.Join(scope, "; ") + fmt.Sprintf("; race detector on, GOMAXPROCS=%d", res.GoMaxProcs)
	res.WallSeconds = time.Since(t0).Seconds()
	flush()
}
