// Stall watchdog: "completes without ... deadlock" is a clause of C08, so a call that never returns is a concrete
// failing schedule and must be reported as one (not as a timeout of the whole harness).
//
// Every call into the cache made by the harness goes through tracker.do, which publishes {goroutine role, operation,
// key, start time} in a slot owned by the calling goroutine (one atomic pointer store before and after the call;
// the workers never read anything written by another worker or by the watchdog, so no happens-before edge between
// workers is introduced and the race detector's view of the library is unchanged).  The watchdog goroutine samples
// the slots every 50ms.  A call is declared stuck only if the SAME call has been outstanding for at least stallAfter
// of wall-clock time AND has been seen outstanding in at least stallTicks consecutive samples (so a frozen or badly
// overloaded process, whose watchdog does not get scheduled either, cannot raise an alarm) AND is still outstanding
// after a further confirmation delay.  Calls into the cache take microseconds; the margin is a factor > 10^6.
// On expiry it records the round/script (with its seed), every call that has not returned, all goroutine stacks
// (runtime.Stack(all)) and a signature made of the innermost library frames of the goroutines blocked inside the
// library, writes result.json and exits the process (exit code 0: the runner reads the failure from result.json;
// os.Exit kills every goroutine, nothing keeps spinning).
package main

import (
	"fmt"
	"os"
	"path/filepath"
	"regexp"
	"runtime"
	"sort"
	"strings"
	"sync"
	"sync/atomic"
	"time"
)

const (
	wdPeriod     = 50 * time.Millisecond
	stallAfter   = 20 * time.Second
	stallTicks   = 300 // >= 15s worth of samples actually taken
	confirmAfter = 3 * time.Second
)

type opInfo struct {
	role  string
	name  string
	key   int
	since time.Time
}

type tracker struct {
	role string
	cur  atomic.Pointer[opInfo]
}

var (
	wdMu      sync.Mutex
	wdSlots   []*tracker
	wdRound   map[string]any // shape + seed of the round / script in progress
	wdScen    string
	wdStarted bool
)

// newTracker registers a slot for the calling role; called by the main goroutine before the workers start.
func newTracker(role string) *tracker {
	t := &tracker{role: role}
	wdMu.Lock()
	wdSlots = append(wdSlots, t)
	wdMu.Unlock()
	return t
}

// beginRound forgets the slots of the previous round and remembers what is running now.
func beginRound(scenario string, round map[string]any) {
	wdMu.Lock()
	wdSlots = nil
	wdRound = round
	wdScen = scenario
	if !wdStarted {
		wdStarted = true
		go watchdog()
	}
	wdMu.Unlock()
}

func (t *tracker) do(name string, key int, f func()) {
	t.cur.Store(&opInfo{role: t.role, name: name, key: key, since: time.Now()})
	defer t.cur.Store(nil)
	f()
}

func allStacks() string {
	buf := make([]byte, 1<<20)
	for {
		n := runtime.Stack(buf, true)
		if n < len(buf) {
			return string(buf[:n])
		}
		buf = make([]byte, 2*len(buf))
	}
}

var (
	reArgs     = regexp.MustCompile(`\(0x[^)]*\)|\(\.\.\.\)|\(\)$`)
	reGenerics = regexp.MustCompile(`\[[^\]]*\]`)
)

// libraryFrames returns, for every goroutine that is blocked (on a lock, a semaphore, a channel, a select) with
// frames of the library on its stack, those frames innermost first ("a < b < c", at most 3), function names only.
func libraryFrames(dump string) []string {
	seen := map[string]bool{}
	for _, g := range strings.Split(dump, "\n\n") {
		lines := strings.Split(g, "\n")
		if len(lines) == 0 || !strings.HasPrefix(lines[0], "goroutine ") {
			continue
		}
		hdr := lines[0]
		blocked := false
		for _, w := range []string{"Lock", "semacquire", "chan ", "select", "sync.Cond", "WaitGroup"} {
			if strings.Contains(hdr, w) {
				blocked = true
			}
		}
		if !blocked {
			continue
		}
		var fr []string
		for _, l := range lines[1:] {
			if strings.HasPrefix(l, "\t") || strings.HasPrefix(l, "created by") || !strings.Contains(l, "rbell/toolchest/") {
				continue
			}
			f := reGenerics.ReplaceAllString(reArgs.ReplaceAllString(strings.TrimSpace(l), ""), "")
			f = f[strings.LastIndex(f, "/")+1:]
			fr = append(fr, f)
			if len(fr) == 3 {
				break
			}
		}
		if len(fr) > 0 {
			seen[strings.Join(fr, " < ")] = true
		}
	}
	out := make([]string, 0, len(seen))
	for k := range seen {
		out = append(out, k)
	}
	sort.Strings(out)
	return out
}

func reportDeadlock(why string, stuck []*opInfo) {
	dump := allStacks()
	frames := libraryFrames(dump)
	var outst []string
	now := time.Now()
	for _, p := range stuck {
		outst = append(outst, fmt.Sprintf("%s: %s(%d) has not returned for %.1fs", p.role, p.name, p.key, now.Sub(p.since).Seconds()))
	}
	sort.Strings(outst)
	class := strings.Join(frames, " | ")
	if len(frames) > 4 {
		class = strings.Join(frames[:4], " | ") + " | ..."
	}
	if class == "" {
		class = "no goroutine is blocked inside the library"
	}
	os.MkdirAll(outDir, 0o755)
	sf := filepath.Join(outDir, "deadlock-stacks.txt")
	os.WriteFile(sf, []byte(dump), 0o644)
	// the replay carries the goroutines that have library frames (all of them, up to 24 KB); the file has everything
	var sb strings.Builder
	for _, g := range strings.Split(dump, "\n\n") {
		if strings.Contains(g, "rbell/toolchest/") && sb.Len() < 24<<10 {
			sb.WriteString(g + "\n\n")
		}
	}
	wdMu.Lock()
	scen, round := wdScen, wdRound
	wdMu.Unlock()
	fail(failure{Kind: "deadlock", Class: class, Scenario: scen, Round: round, Outstanding: outst, Stacks: sb.String(), StacksFile: sf,
		Msg: fmt.Sprintf("%s; calls that never returned: %s; goroutines blocked inside the library (innermost frames): %s",
			why, strings.Join(outst, "; "), class)})
	res.Scope = "stopped by the stall watchdog (deadlock)"
	flush()
	os.Exit(0)
}

func watchdog() {
	last := map[*tracker]*opInfo{}
	seenFor := map[*tracker]int{}
	for {
		time.Sleep(wdPeriod)
		wdMu.Lock()
		slots := append([]*tracker(nil), wdSlots...)
		wdMu.Unlock()
		live := map[*tracker]bool{}
		var suspect *opInfo
		var suspectT *tracker
		for _, t := range slots {
			live[t] = true
			p := t.cur.Load()
			if p != nil && p == last[t] {
				seenFor[t]++
			} else {
				last[t], seenFor[t] = p, 1
			}
			if p != nil && seenFor[t] >= stallTicks && time.Since(p.since) >= stallAfter {
				suspect, suspectT = p, t
			}
		}
		for t := range last {
			if !live[t] {
				delete(last, t)
				delete(seenFor, t)
			}
		}
		if suspect == nil {
			continue
		}
		time.Sleep(confirmAfter)
		if suspectT.cur.Load() != suspect {
			continue // it did return after all: slow, not stuck
		}
		var stuck []*opInfo
		for _, t := range slots {
			if p := t.cur.Load(); p != nil && time.Since(p.since) >= time.Second {
				stuck = append(stuck, p)
			}
		}
		reportDeadlock(fmt.Sprintf("%s: %s(%d) has been outstanding for %.0fs (calls take microseconds)", suspect.role, suspect.name, suspect.key,
			time.Since(suspect.since).Seconds()), stuck)
	}
}
