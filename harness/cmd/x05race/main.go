// Free-running -race stress for the extra component X05 (finding X05-F3): RankCalculator is documented as
// thread-safe.  Pairs of goroutines run Accumulate / Reset / Calculate against one calculator; the Go race
// detector (a happens-before detector: it only reports two conflicting accesses that no synchronisation orders, so
// it cannot fire on correctly locked code) is the monitor, plus one Go-side check without timing assumptions:
// with no Reset running, concurrent Accumulates lose no update (key 1 gets 2n hits from two goroutines, key 2 gets n
// hits: Calculate must report count(2)/count(1)*100 for key 2, compared within 1e-12 relative).  Built with -race by bin/check (lib/props/X05.py).
package main

import (
	"encoding/json"
	"flag"
	"fmt"
	"math"
	"math/rand"
	"os"
	"sync"

	"github.com/rbell/toolchest/rankCalculation"
)

func pair(f, g func()) {
	var wg sync.WaitGroup
	wg.Add(2)
	go func() { defer wg.Done(); f() }()
	go func() { defer wg.Done(); g() }()
	wg.Wait()
}

func main() {
	seed := flag.Int64("seed", 1, "")
	tier := flag.String("tier", "quick", "")
	flag.String("out", "", "")
	flag.Parse()
	rng := rand.New(rand.NewSource(*seed))
	rounds := 6
	if *tier == "thorough" {
		rounds = 40
	}
	stats := map[string]int{}
	failures := []map[string]any{}
	for r := 0; r < rounds; r++ {
		n := 2000 + rng.Intn(4000)
		keys := 1 + rng.Intn(9)
		opts := []rankCalculation.RankCalculatorOption[int]{}
		if r%2 == 1 {
			opts = append(opts, rankCalculation.WithRankPositionally[int]())
		}
		acc := func(c *rankCalculation.RankCalculator[int]) func() {
			return func() {
				for i := 0; i < n; i++ {
					c.Accumulate(i % keys)
				}
			}
		}
		// Accumulate || Reset
		c := rankCalculation.NewRankCalculator[int](opts...)
		pair(acc(c), func() {
			for i := 0; i < n/10; i++ {
				c.Reset()
			}
		})
		stats["accumulate||reset"]++
		// Accumulate || Calculate
		c = rankCalculation.NewRankCalculator[int](opts...)
		pair(acc(c), func() {
			for i := 0; i < n/50; i++ {
				if _, err := c.Calculate(); err != nil {
					failures = append(failures, map[string]any{"signature": "calculate-error", "detail": err.Error()})
				}
			}
		})
		stats["accumulate||calculate"]++
		// Calculate || Reset
		pair(func() {
			for i := 0; i < n/50; i++ {
				_, _ = c.Calculate()
			}
		}, func() {
			for i := 0; i < n/50; i++ {
				c.Reset()
				c.Accumulate(i)
			}
		})
		stats["calculate||reset"]++
		// Accumulate || Accumulate: no lost update
		c = rankCalculation.NewRankCalculator[int]()
		pair(func() {
			for i := 0; i < n; i++ {
				c.Accumulate(1)
			}
		}, func() {
			for i := 0; i < n; i++ {
				c.Accumulate(1)
				if i%2 == 0 {
					c.Accumulate(2)
				}
			}
		})
		res, err := c.Calculate()
		want := float64((n+1)/2) / float64(2*n) * 100
		if err != nil || len(res) != 2 || res[1] != 100 || math.Abs(res[2]-want) > 1e-12*want { // never bit-for-bit
			failures = append(failures, map[string]any{"signature": "lost-update",
				"detail": fmt.Sprintf("two goroutines x %d Accumulate(1), %d Accumulate(2): Calculate = %v (want 1:100 2:%v)", n, (n+1)/2, res, want)})
		}
		stats["accumulate||accumulate"]++
	}
	js, _ := json.Marshal(map[string]any{"stats": stats, "rounds": rounds, "failures": failures})
	fmt.Fprintln(os.Stdout, string(js))
}
